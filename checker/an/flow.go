package an

import (
	"go/constant"
	"go/token"
	"go/types"
	"strings"

	"golang.org/x/tools/go/ssa"
)

// ---------------------------------------------------------------------------
// Call resolution (A1)

// CallObj returns the *types.Func a call refers to statically: the interface
// method for an invoke, the declared function/method for a static call, nil
// for calls through function values and builtins.
func CallObj(c ssa.CallInstruction) *types.Func {
	cc := c.Common()
	if cc.IsInvoke() {
		return cc.Method
	}
	if f := cc.StaticCallee(); f != nil {
		if o, ok := f.Object().(*types.Func); ok {
			return o
		}
		// closures / synthetic: no object
	}
	return nil
}

// ObjPkgPath returns the declaring package path of f ("" if none).
func ObjPkgPath(f *types.Func) string {
	if f == nil || f.Pkg() == nil {
		return ""
	}
	return f.Pkg().Path()
}

// RecvNamed returns the named receiver type of method f (pointer stripped), or nil.
func RecvNamed(f *types.Func) *types.Named {
	if f == nil {
		return nil
	}
	sig, ok := f.Type().(*types.Signature)
	if !ok || sig.Recv() == nil {
		return nil
	}
	t := sig.Recv().Type()
	if p, ok := t.(*types.Pointer); ok {
		t = p.Elem()
	}
	n, _ := t.(*types.Named)
	return n
}

// IsMethod reports whether f is method name on a type named typ declared in package path pkg.
func IsMethod(f *types.Func, pkg, typ, name string) bool {
	if f == nil || Ident(f.Name()) != name {
		return false
	}
	n := RecvNamed(f)
	if n == nil || n.Obj().Pkg() == nil {
		return false
	}
	return n.Obj().Pkg().Path() == pkg && Ident(n.Obj().Name()) == typ
}

// IsFunc reports whether f is the package-level function pkg.name.
func IsFunc(f *types.Func, pkg, name string) bool {
	if f == nil || Ident(f.Name()) != name || f.Pkg() == nil {
		return false
	}
	sig, ok := f.Type().(*types.Signature)
	if !ok || sig.Recv() != nil {
		return false
	}
	return f.Pkg().Path() == pkg
}

// ObjString is a short stable name of a types.Func: "(store.Store).GetNode", "request.Verify".
func ObjString(f *types.Func) string {
	if f == nil {
		return "<dynamic>"
	}
	if n := RecvNamed(f); n != nil {
		pk := ""
		if n.Obj().Pkg() != nil {
			pk = lastElem(n.Obj().Pkg().Path()) + "."
		}
		return "(" + pk + Ident(n.Obj().Name()) + ")." + Ident(f.Name())
	}
	if sig, ok := f.Type().(*types.Signature); ok && sig.Recv() != nil {
		// method of unnamed interface
		return "(interface)." + f.Name()
	}
	if f.Pkg() != nil {
		return lastElem(f.Pkg().Path()) + "." + Ident(f.Name())
	}
	return Ident(f.Name())
}

func lastElem(p string) string {
	if p == Module {
		return "main"
	}
	if i := strings.LastIndex(p, "/"); i >= 0 {
		return p[i+1:]
	}
	return p
}

// Calls returns every call instruction (call, go, defer) in fn, optionally
// including nested closures.
func Calls(fn *ssa.Function, nested bool) []ssa.CallInstruction {
	var out []ssa.CallInstruction
	fns := []*ssa.Function{fn}
	if nested {
		fns = WithAnon(fn)
	}
	for _, f := range fns {
		AllInstrs(f, func(in ssa.Instruction) {
			if c, ok := in.(ssa.CallInstruction); ok {
				out = append(out, c)
			}
		})
	}
	return out
}

// CalleesAt returns the possible repo callees of a call: the static callee,
// or the VTA-resolved targets for dynamic calls.
func (p *Prog) CalleesAt(c ssa.CallInstruction) []*ssa.Function {
	if f := c.Common().StaticCallee(); f != nil {
		return []*ssa.Function{f}
	}
	if _, ok := c.Common().Value.(*ssa.Builtin); ok {
		return nil
	}
	n := p.CG().Nodes[c.Parent()]
	if n == nil {
		return nil
	}
	var out []*ssa.Function
	seen := map[*ssa.Function]bool{}
	for _, e := range n.Out {
		if e.Site == c && !seen[e.Callee.Func] {
			seen[e.Callee.Func] = true
			out = append(out, e.Callee.Func)
		}
	}
	// thorough tier: second, independent resolution — class-hierarchy analysis restricted to receiver
	// types declared in the repository — is united with the VTA result for interface calls, so that
	// every reachability verdict also holds on the coarser graph.
	if p.WithCHA && c.Common().IsInvoke() {
		if cn := p.CHA().Nodes[c.Parent()]; cn != nil {
			for _, e := range cn.Out {
				if e.Site == c && !seen[e.Callee.Func] && p.InRepo(e.Callee.Func) {
					seen[e.Callee.Func] = true
					out = append(out, e.Callee.Func)
					p.CHAExtra++
				}
			}
		}
	}
	return out
}

// Edges returns the repo functions fn may transfer control to: resolved
// callees in the repo, plus (callback approximation) closures, bound methods
// and methods of repo values handed to non-repo callees.
func (p *Prog) Edges(fn *ssa.Function) []*ssa.Function {
	if p.edgeCache == nil {
		p.edgeCache = map[*ssa.Function][]*ssa.Function{}
	}
	if e, ok := p.edgeCache[fn]; ok {
		return e
	}
	e := p.edges(fn)
	p.edgeCache[fn] = e
	return e
}

func (p *Prog) edges(fn *ssa.Function) []*ssa.Function {
	seen := map[*ssa.Function]bool{}
	var out []*ssa.Function
	add := func(f *ssa.Function) {
		if f != nil && !seen[f] && len(f.Blocks) > 0 {
			if p.InRepo(f) || p.wrapsRepo(f) {
				seen[f] = true
				out = append(out, f)
			}
		}
	}
	for _, c := range Calls(fn, false) {
		callees := p.CalleesAt(c)
		external := len(callees) == 0
		for _, cal := range callees {
			if p.InRepo(cal) || p.wrapsRepo(cal) {
				add(cal)
			} else {
				external = true
			}
		}
		if external {
			// callback approximation
			for _, a := range c.Common().Args {
				p.callbackTargets(a, add)
			}
			if !c.Common().IsInvoke() {
				// method value receivers etc.
				p.callbackTargets(c.Common().Value, add)
			}
		}
	}
	// closures created here and never called here may still run later
	// (stored callbacks); they are attributed to their creator too.
	AllInstrs(fn, func(in ssa.Instruction) {
		if mc, ok := in.(*ssa.MakeClosure); ok {
			if f, ok := mc.Fn.(*ssa.Function); ok {
				add(f)
			}
		}
	})
	return out
}

// wrapsRepo: synthetic wrappers/thunks/bound-method closures around repo methods.
func (p *Prog) wrapsRepo(f *ssa.Function) bool {
	if f.Synthetic == "" {
		return false
	}
	if o := f.Object(); o != nil && o.Pkg() != nil {
		return strings.HasPrefix(o.Pkg().Path(), Module)
	}
	return false
}

func (p *Prog) callbackTargets(v ssa.Value, add func(*ssa.Function)) {
	switch x := v.(type) {
	case *ssa.MakeClosure:
		if f, ok := x.Fn.(*ssa.Function); ok {
			add(f)
		}
	case *ssa.Function:
		add(x)
	case *ssa.MakeInterface:
		// methods a library may call on a repo value: those of the interface
		// it is converted to, plus the fmt/error hooks.
		t := x.X.Type()
		ms := p.SSA.MethodSets.MethodSet(t)
		it, _ := x.Type().Underlying().(*types.Interface)
		for i := 0; i < ms.Len(); i++ {
			sel := ms.At(i)
			name := sel.Obj().Name()
			want := name == "String" || name == "Error" || name == "Format" || name == "GoString" ||
				name == "MarshalJSON" || name == "UnmarshalJSON" || name == "MarshalText" || name == "UnmarshalText"
			if it != nil {
				for j := 0; j < it.NumMethods(); j++ {
					if it.Method(j).Name() == name {
						want = true
					}
				}
			}
			if want {
				add(p.SSA.MethodValue(sel))
			}
		}
	case *ssa.ChangeInterface:
		p.callbackTargets(x.X, add)
	case *ssa.Slice:
		p.callbackTargets(x.X, add)
	case *ssa.Alloc:
		// variadic []interface{}{...}: look at stores into it
		for _, ref := range *x.Referrers() {
			if ia, ok := ref.(*ssa.IndexAddr); ok {
				for _, r2 := range *ia.Referrers() {
					if st, ok := r2.(*ssa.Store); ok {
						p.callbackTargets(st.Val, add)
					}
				}
			}
		}
	}
}

// Reach returns all repo functions reachable from roots through Edges.
func (p *Prog) Reach(roots ...*ssa.Function) map[*ssa.Function]bool {
	seen := map[*ssa.Function]bool{}
	var work []*ssa.Function
	for _, r := range roots {
		if r != nil && !seen[r] {
			seen[r] = true
			work = append(work, r)
		}
	}
	for len(work) > 0 {
		f := work[len(work)-1]
		work = work[:len(work)-1]
		for _, g := range p.Edges(f) {
			if !seen[g] {
				seen[g] = true
				work = append(work, g)
			}
		}
	}
	return seen
}

// ReachesCall reports whether, starting at fn (inclusive), some reachable repo
// function contains a call satisfying pred; it returns the witness.
func (p *Prog) ReachesCall(fn *ssa.Function, pred func(ssa.CallInstruction) bool) (ssa.CallInstruction, bool) {
	for f := range p.Reach(fn) {
		for _, c := range Calls(f, false) {
			if pred(c) {
				return c, true
			}
		}
	}
	return nil, false
}

// ---------------------------------------------------------------------------
// Error-result edges (A2)

// Edge is a CFG edge.
type Edge struct{ From, To *ssa.BasicBlock }

// ErrValue returns the error-typed result value(s) of a call instruction
// (the call itself, or the Extract of the error component).
func ErrValues(c ssa.CallInstruction) []ssa.Value {
	v := c.Value()
	if v == nil {
		return nil
	}
	if isErrorType(v.Type()) {
		return []ssa.Value{v}
	}
	tup, ok := v.Type().(*types.Tuple)
	if !ok {
		return nil
	}
	var out []ssa.Value
	for _, ref := range *v.Referrers() {
		if ex, ok := ref.(*ssa.Extract); ok && isErrorType(tup.At(ex.Index).Type()) {
			out = append(out, ex)
		}
	}
	return out
}

func isErrorType(t types.Type) bool {
	n, ok := t.(*types.Named)
	return ok && n.Obj().Pkg() == nil && Ident(n.Obj().Name()) == "error"
}

// IsErrorType is exported for rules.
func IsErrorType(t types.Type) bool { return isErrorType(t) }

// ErrUse classifies how the error result of a call is consumed.
type ErrUse struct {
	Succ     []Edge // edges on which the error is known to be nil
	Fail     []Edge // edges on which it is known non-nil
	Returned bool   // flows to a return (propagated)
	Dropped  bool   // call has an error result that nobody reads
	Other    bool   // some other use (stored, passed on, compared to a sentinel only, phi)
	HasErr   bool
}

// ErrEdges analyses the error result of c.
func ErrEdges(c ssa.CallInstruction) ErrUse {
	u := ErrUse{}
	v := c.Value()
	if v == nil {
		// go/defer: result discarded
		sig := c.Common().Signature()
		for i := 0; i < sig.Results().Len(); i++ {
			if isErrorType(sig.Results().At(i).Type()) {
				u.HasErr = true
				u.Dropped = true
			}
		}
		return u
	}
	sig := c.Common().Signature()
	has := false
	for i := 0; i < sig.Results().Len(); i++ {
		if isErrorType(sig.Results().At(i).Type()) {
			has = true
		}
	}
	u.HasErr = has
	if !has {
		return u
	}
	evs := ErrValues(c)
	if len(evs) == 0 {
		u.Dropped = true
		return u
	}
	used := false
	for _, ev := range evs {
		seen := map[ssa.Value]bool{}
		var walk func(x ssa.Value)
		walk = func(x ssa.Value) {
			if seen[x] {
				return
			}
			seen[x] = true
			for _, ref := range *x.Referrers() {
				switch r := ref.(type) {
				case *ssa.BinOp:
					used = true
					if (r.Op == token.NEQ || r.Op == token.EQL) && (isNilConst(r.X) || isNilConst(r.Y)) {
						for _, rr := range *r.Referrers() {
							if iff, ok := rr.(*ssa.If); ok {
								b := iff.Block()
								if len(b.Succs) == 2 && b.Succs[0] != b.Succs[1] {
									t, f := Edge{b, b.Succs[0]}, Edge{b, b.Succs[1]}
									if r.Op == token.NEQ {
										u.Fail = append(u.Fail, t)
										u.Succ = append(u.Succ, f)
									} else {
										u.Succ = append(u.Succ, t)
										u.Fail = append(u.Fail, f)
									}
								}
							} else {
								u.Other = true
							}
						}
					} else {
						u.Other = true // sentinel comparison
					}
				case *ssa.Return:
					used = true
					u.Returned = true
				case *ssa.Phi:
					used = true
					u.Other = true
					// a phi that merges this error and is then returned counts as returned
					for _, rr := range *r.Referrers() {
						if _, ok := rr.(*ssa.Return); ok {
							u.Returned = true
						}
					}
				case *ssa.Store:
					used = true
					u.Other = true
					// stored into a named result / captured variable: follow loads
					if al, ok := r.Addr.(*ssa.Alloc); ok {
						for _, ar := range *al.Referrers() {
							if ld, ok := ar.(*ssa.UnOp); ok && ld.Op == token.MUL {
								walk(ld)
							}
						}
					}
				case *ssa.Call:
					used = true
					// an error-mapping helper (error in, error out, nil exactly for nil): its result stands for the error
					if callee := r.Call.StaticCallee(); callee != nil && isErrMapper(callee) && isErrorType(r.Type()) {
						walk(r)
						continue
					}
					u.Other = true
				case *ssa.DebugRef:
				case *ssa.MakeInterface, *ssa.ChangeInterface, *ssa.TypeAssert:
					used = true
					if val, ok := r.(ssa.Value); ok {
						walk(val)
					}
					u.Other = true
				default:
					used = true
					u.Other = true
				}
			}
		}
		walk(ev)
	}
	if !used {
		u.Dropped = true
	}
	return u
}

var errMapperMemo = map[*ssa.Function]bool{}

// isErrMapper: fn takes exactly one error parameter, returns one error, returns the nil constant only where that
// parameter is known to be nil, and otherwise returns values that are not nil (a made interface, a package-level
// error variable, errors.New / fmt.Errorf) or the parameter itself where it is known non-nil.
func isErrMapper(fn *ssa.Function) bool {
	if v, ok := errMapperMemo[fn]; ok {
		return v
	}
	errMapperMemo[fn] = false
	if len(fn.Blocks) == 0 || fn.Signature.Results().Len() != 1 || !isErrorType(fn.Signature.Results().At(0).Type()) {
		return false
	}
	var prm *ssa.Parameter
	for _, q := range fn.Params {
		if isErrorType(q.Type()) {
			if prm != nil {
				return false
			}
			prm = q
		}
	}
	if prm == nil {
		return false
	}
	// edges on which prm is nil / non-nil
	nilEdge := map[Edge]bool{}
	nonNilEdge := map[Edge]bool{}
	for _, ref := range *prm.Referrers() {
		bo, ok := ref.(*ssa.BinOp)
		if !ok || !(bo.Op == token.EQL || bo.Op == token.NEQ) || !(isNilConst(bo.X) || isNilConst(bo.Y)) {
			continue
		}
		for _, rr := range *bo.Referrers() {
			if iff, ok := rr.(*ssa.If); ok {
				b := iff.Block()
				if len(b.Succs) != 2 {
					continue
				}
				t, f := Edge{b, b.Succs[0]}, Edge{b, b.Succs[1]}
				if bo.Op == token.EQL {
					nilEdge[t], nonNilEdge[f] = true, true
				} else {
					nilEdge[f], nonNilEdge[t] = true, true
				}
			}
		}
	}
	dominatedBy := func(b *ssa.BasicBlock, es map[Edge]bool) bool {
		for e := range es {
			if len(e.To.Preds) == 1 && e.To.Dominates(b) {
				return true
			}
		}
		return false
	}
	var nonNil func(v ssa.Value, b *ssa.BasicBlock, depth int) bool
	nonNil = func(v ssa.Value, b *ssa.BasicBlock, depth int) bool {
		switch x := v.(type) {
		case *ssa.MakeInterface:
			return true
		case *ssa.UnOp:
			_, g := x.X.(*ssa.Global)
			return x.Op == token.MUL && g
		case *ssa.Parameter:
			return x == prm && dominatedBy(b, nonNilEdge)
		case *ssa.Call:
			f := CallObj(x)
			return IsFunc(f, "errors", "New") || IsFunc(f, "fmt", "Errorf")
		case *ssa.Phi:
			if depth > 3 {
				return false
			}
			for i, e := range x.Edges {
				if !nonNil(e, x.Block().Preds[i], depth+1) {
					return false
				}
			}
			return true
		}
		return false
	}
	nRet := 0
	for _, b := range fn.Blocks {
		for _, in := range b.Instrs {
			ret, ok := in.(*ssa.Return)
			if !ok || len(ret.Results) != 1 {
				continue
			}
			nRet++
			if isNilConst(ret.Results[0]) {
				if !dominatedBy(b, nilEdge) {
					return false
				}
				continue
			}
			if !nonNil(ret.Results[0], b, 0) {
				return false
			}
		}
	}
	errMapperMemo[fn] = nRet > 0
	return nRet > 0
}

func isNilConst(v ssa.Value) bool {
	c, ok := v.(*ssa.Const)
	return ok && c.IsNil()
}

// ---------------------------------------------------------------------------
// Gate reachability (A3)

// ReachAvoiding returns the blocks reachable from fn's entry without crossing
// an edge in cut.
func ReachAvoiding(fn *ssa.Function, cut map[Edge]bool) map[*ssa.BasicBlock]bool {
	seen := map[*ssa.BasicBlock]bool{}
	if len(fn.Blocks) == 0 {
		return seen
	}
	work := []*ssa.BasicBlock{fn.Blocks[0]}
	seen[fn.Blocks[0]] = true
	for len(work) > 0 {
		b := work[len(work)-1]
		work = work[:len(work)-1]
		for i, s := range b.Succs {
			if cut[Edge{b, s}] || seen[s] || DeadEdge(b, i) {
				continue
			}
			seen[s] = true
			work = append(work, s)
		}
	}
	return seen
}

// ReachFrom returns blocks reachable from the given start blocks (inclusive)
// without crossing cut edges.
func ReachFrom(starts []*ssa.BasicBlock, cut map[Edge]bool) map[*ssa.BasicBlock]bool {
	seen := map[*ssa.BasicBlock]bool{}
	var work []*ssa.BasicBlock
	for _, s := range starts {
		if !seen[s] {
			seen[s] = true
			work = append(work, s)
		}
	}
	for len(work) > 0 {
		b := work[len(work)-1]
		work = work[:len(work)-1]
		for i, s := range b.Succs {
			if cut[Edge{b, s}] || seen[s] || DeadEdge(b, i) {
				continue
			}
			seen[s] = true
			work = append(work, s)
		}
	}
	return seen
}

// EdgeSet builds a cut set.
func EdgeSet(es ...[]Edge) map[Edge]bool {
	m := map[Edge]bool{}
	for _, l := range es {
		for _, e := range l {
			m[e] = true
		}
	}
	return m
}

// InstrIndex returns the index of in within its block.
func InstrIndex(in ssa.Instruction) int {
	for i, x := range in.Block().Instrs {
		if x == in {
			return i
		}
	}
	return -1
}

// PathAvoiding searches for a path that starts right after instruction from
// (or at the function entry when from is nil), reaches an instruction for
// which bad returns true, and does not execute any instruction for which
// stop returns true nor cross a cut edge. It returns the bad instruction
// reached, or nil.
func PathAvoiding(fn *ssa.Function, from ssa.Instruction, stop, bad func(ssa.Instruction) bool, cut map[Edge]bool) ssa.Instruction {
	type pos struct {
		b *ssa.BasicBlock
		i int
	}
	var start pos
	if from == nil {
		if len(fn.Blocks) == 0 {
			return nil
		}
		start = pos{fn.Blocks[0], 0}
	} else {
		start = pos{from.Block(), InstrIndex(from) + 1}
	}
	seenTop := map[*ssa.BasicBlock]bool{}
	work := []pos{start}
	for len(work) > 0 {
		cur := work[len(work)-1]
		work = work[:len(work)-1]
		blocked := false
		for i := cur.i; i < len(cur.b.Instrs); i++ {
			in := cur.b.Instrs[i]
			if stop != nil && stop(in) {
				blocked = true
				break
			}
			if bad(in) {
				return in
			}
		}
		if blocked {
			continue
		}
		for i, s := range cur.b.Succs {
			if cut[Edge{cur.b, s}] || seenTop[s] || DeadEdge(cur.b, i) {
				continue
			}
			seenTop[s] = true
			work = append(work, pos{s, 0})
		}
	}
	return nil
}

// IsReturn reports whether in is a Return.
func IsReturn(in ssa.Instruction) bool { _, ok := in.(*ssa.Return); return ok }

// Dominates reports whether instruction a dominates instruction b (same function).
func Dominates(a, b ssa.Instruction) bool {
	if a.Block() == b.Block() {
		return InstrIndex(a) < InstrIndex(b)
	}
	return a.Block().Dominates(b.Block())
}

// ---------------------------------------------------------------------------
// Constants (A9)

// ConstInt returns the integer value of v if it is a constant.
func ConstInt(v ssa.Value) (int64, bool) {
	c, ok := v.(*ssa.Const)
	if !ok || c.Value == nil {
		return 0, false
	}
	if c.Value.Kind() != constant.Int {
		return 0, false
	}
	i, ok := constant.Int64Val(c.Value)
	return i, ok
}

// ConstString returns the string value of v if it is a constant string.
func ConstString(v ssa.Value) (string, bool) {
	c, ok := v.(*ssa.Const)
	if !ok || c.Value == nil || c.Value.Kind() != constant.String {
		return "", false
	}
	return constant.StringVal(c.Value), true
}

// PkgConstInt returns the value of an integer/duration constant pkgrel.name.
func (p *Prog) PkgConstInt(rel, name string) (int64, bool) {
	pk := p.Pkg(rel)
	if pk == nil {
		return 0, false
	}
	c, ok := pk.Types.Scope().Lookup(name).(*types.Const)
	if !ok {
		return 0, false
	}
	return constant.Int64Val(constant.ToInt(c.Val()))
}

// IsPkgConst reports whether ssa value v is a constant equal to the constant pkgrel.name.
func (p *Prog) IsPkgConst(v ssa.Value, rel, name string) bool {
	want, ok := p.PkgConstInt(rel, name)
	if !ok {
		return false
	}
	got, ok := ConstInt(v)
	return ok && got == want
}

// RetResults returns the values a Return yields, seeing through go/ssa's
// defer-spilled results (in functions with defers, "return X" is compiled as
// "*res = X; rundefers; t = *res; return t").
func RetResults(ret *ssa.Return) []ssa.Value {
	out := make([]ssa.Value, len(ret.Results))
	for i, res := range ret.Results {
		out[i] = res
		u, ok := res.(*ssa.UnOp)
		if !ok || u.Op != token.MUL {
			continue
		}
		al, ok := u.X.(*ssa.Alloc)
		if !ok {
			continue
		}
		b := ret.Block()
		for j := len(b.Instrs) - 1; j >= 0; j-- {
			if st, ok := b.Instrs[j].(*ssa.Store); ok && st.Addr == ssa.Value(al) {
				out[i] = st.Val
				break
			}
		}
	}
	return out
}

// DeadEdge reports whether the i-th successor edge of b is never taken
// because b ends in an If on a constant condition (go/ssa does not fold
// `if constExpr && x`).
func DeadEdge(b *ssa.BasicBlock, i int) bool {
	if len(b.Instrs) == 0 || len(b.Succs) != 2 {
		return false
	}
	iff, ok := b.Instrs[len(b.Instrs)-1].(*ssa.If)
	if !ok {
		return false
	}
	c, ok := iff.Cond.(*ssa.Const)
	if !ok || c.Value == nil || c.Value.Kind() != constant.Bool {
		return false
	}
	v := constant.BoolVal(c.Value)
	return (v && i == 1) || (!v && i == 0)
}
