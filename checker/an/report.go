package an

import (
	"encoding/json"
	"fmt"
	"go/token"
	"os"
	"path/filepath"
	"regexp"
	"sort"
	"strings"
)

// Status of an obligation.
type Status string

const (
	Discharged Status = "discharged"
	Violated   Status = "violated"
	Undecided  Status = "undecided" // counts as failure
	Known      Status = "known-finding"
)

// Obl is one proof obligation: a rule applied to one construct.
type Obl struct {
	Key    string `json:"key"`  // rule:construct, position-free
	Rule   string `json:"rule"` // C04.verify-first
	Status Status `json:"status"`
	Pos    string `json:"pos,omitempty"` // file:line of the construct (for the reader; not part of the key)
	Detail string `json:"detail"`
}

// Run collects the obligations of one property check.
type Run struct {
	Prop  string
	P     *Prog
	Obls  []*Obl
	keys  map[string]*Obl
	Notes []string
	// counters for evidence
	FuncsAnalysed map[string]bool
	CallSites     int
	Paths         int
	Floors        map[string][2]int // rule -> found, min
	Only          string            // restrict reporting to this key (replay)
}

func NewRun(prop string, p *Prog) *Run {
	return &Run{Prop: prop, P: p, keys: map[string]*Obl{}, FuncsAnalysed: map[string]bool{}, Floors: map[string][2]int{}}
}

func (r *Run) add(rule, construct string, st Status, pos token.Pos, detail string) *Obl {
	key := r.Prop + "." + rule
	if construct != "" {
		key += ":" + construct
	}
	if o, ok := r.keys[key]; ok {
		// worst status wins; details accumulate
		if rank(st) > rank(o.Status) {
			o.Status = st
			if pos.IsValid() {
				o.Pos = r.P.Pos(pos)
			}
			o.Detail = detail
		} else if st != Discharged && detail != "" && !strings.Contains(o.Detail, detail) {
			o.Detail += "; " + detail
		}
		return o
	}
	o := &Obl{Key: key, Rule: r.Prop + "." + rule, Status: st, Detail: detail}
	if pos.IsValid() && r.P != nil {
		o.Pos = r.P.Pos(pos)
	}
	r.keys[key] = o
	r.Obls = append(r.Obls, o)
	return o
}

func rank(s Status) int {
	switch s {
	case Discharged:
		return 0
	case Undecided:
		return 1
	case Violated:
		return 2
	}
	return 0
}

// Ok records a discharged obligation.
func (r *Run) Ok(rule, construct string, pos token.Pos, detail string) {
	r.add(rule, construct, Discharged, pos, detail)
}

// Fail records a violated obligation.
func (r *Run) Fail(rule, construct string, pos token.Pos, format string, a ...interface{}) {
	r.add(rule, construct, Violated, pos, fmt.Sprintf(format, a...))
}

// Undec records an obligation the analysis could not decide (a failure).
func (r *Run) Undec(rule, construct string, pos token.Pos, format string, a ...interface{}) {
	r.add(rule, construct, Undecided, pos, fmt.Sprintf(format, a...))
}

// Check is Ok or Fail depending on cond.
func (r *Run) Check(cond bool, rule, construct string, pos token.Pos, okDetail, failFormat string, a ...interface{}) bool {
	if cond {
		r.Ok(rule, construct, pos, okDetail)
	} else {
		r.Fail(rule, construct, pos, failFormat, a...)
	}
	return cond
}

// Floor asserts the vacuity guard: rule matched at least min instances.
func (r *Run) Floor(rule string, found, min int) {
	r.Floors[r.Prop+"."+rule] = [2]int{found, min}
	if found < min {
		r.add(rule, "instance-floor", Undecided, token.NoPos,
			fmt.Sprintf("rule matched %d instances, at least %d were confirmed by reading the pinned tree (vacuity guard)", found, min))
	} else {
		r.add(rule, "instance-floor", Discharged, token.NoPos, fmt.Sprintf("%d instances found (floor %d)", found, min))
	}
}

// Analysed notes that a function body was inspected.
func (r *Run) Analysed(names ...string) {
	for _, n := range names {
		r.FuncsAnalysed[n] = true
	}
}

func (r *Run) Note(format string, a ...interface{}) {
	r.Notes = append(r.Notes, fmt.Sprintf(format, a...))
}

// ---------------------------------------------------------------------------
// Known findings

type knownEntry struct {
	kind string // "known" or "fixed"
	prop string
	key  string
	text string
}

var knownRe = regexp.MustCompile(`^(known|fixed):\s+property=(C\d+)\s+(?:([0-9a-f]{7,40})\s+)?key=(\S+)\s*(.*)$`)

func loadKnown(path string) ([]knownEntry, error) {
	b, err := os.ReadFile(path)
	if err != nil {
		if os.IsNotExist(err) {
			return nil, nil
		}
		return nil, err
	}
	var out []knownEntry
	for _, line := range strings.Split(string(b), "\n") {
		line = strings.TrimSpace(line)
		if line == "" || strings.HasPrefix(line, "#") {
			continue
		}
		m := knownRe.FindStringSubmatch(line)
		if m == nil {
			return nil, fmt.Errorf("known-findings: unparseable line: %q", line)
		}
		out = append(out, knownEntry{kind: m[1], prop: m[2], key: m[4], text: m[5]})
	}
	return out, nil
}

// ---------------------------------------------------------------------------
// Finish: print verdict lines, write reports and evidence, return exit code.

type FinishOpts struct {
	Tier        string
	Seed        int
	EvidenceOut string
	ReportsDir  string
	KnownFile   string
	WallS       float64
	Explanation string
	Trusted     []string
	Assumptions []string
	Extra       map[string]interface{}
	CheckerCmd  string
	Exhaustive  bool
}

func (r *Run) Finish(o FinishOpts) int {
	known, kerr := loadKnown(o.KnownFile)
	if kerr != nil {
		r.add("known-findings", "parse", Undecided, token.NoPos, kerr.Error())
	}
	knownKeys := map[string]knownEntry{}
	for _, k := range known {
		if k.kind == "known" && k.prop == r.Prop {
			knownKeys[NormRecv(k.key)] = k
		}
	}
	sort.SliceStable(r.Obls, func(i, j int) bool { return r.Obls[i].Key < r.Obls[j].Key })
	exit := 0
	nViol := 0
	nDis := 0
	usedKnown := map[string]bool{}
	for _, ob := range r.Obls {
		if r.Only != "" && ob.Key != r.Only {
			continue
		}
		switch ob.Status {
		case Discharged:
			nDis++
		case Violated, Undecided:
			if k, ok := knownKeys[NormRecv(ob.Key)]; ok && ob.Status == Violated {
				ob.Status = Known
				usedKnown[NormRecv(ob.Key)] = true
				fmt.Printf("KNOWN-FINDING: property=%s %s — %s [%s]\n", r.Prop, ob.Key, k.text, ob.Pos)
				continue
			}
			nViol++
			exit = 1
			path := ""
			if o.ReportsDir != "" {
				_ = os.MkdirAll(o.ReportsDir, 0o755)
				path = filepath.Join(o.ReportsDir, sanitize(ob.Key)+".json")
				rep := map[string]interface{}{
					"property": r.Prop, "obligation": ob.Key, "rule": ob.Rule, "status": ob.Status,
					"site": ob.Pos, "detail": ob.Detail, "tier": o.Tier,
					"replay": fmt.Sprintf("./check %s %s --only '%s'", r.Prop, o.Tier, ob.Key),
				}
				b, _ := json.MarshalIndent(rep, "", " ")
				_ = os.WriteFile(path, append(b, '\n'), 0o644)
			}
			fmt.Printf("%s %s at %s: %s\n", strings.ToUpper(string(ob.Status)), ob.Key, ob.Pos, ob.Detail)
			fmt.Printf("VIOLATION property=%s replay=%s\n", r.Prop, path)
		}
	}
	// a known: entry whose obligation no longer fails is stale -> say so (not a failure).
	for k := range knownKeys {
		if !usedKnown[k] && r.Only == "" {
			fmt.Printf("NOTE: known-findings entry %s no longer fires on this tree\n", k)
		}
	}
	// evidence
	total := 0
	var obls []map[string]string
	var samples []interface{}
	for _, ob := range r.Obls {
		total++
		obls = append(obls, map[string]string{"key": ob.Key, "status": string(ob.Status), "site": ob.Pos})
	}
	for i, ob := range r.Obls {
		if i%maxInt(1, len(r.Obls)/8) == 0 && len(samples) < 10 {
			samples = append(samples, map[string]string{"obligation": ob.Key, "status": string(ob.Status), "site": ob.Pos, "detail": ob.Detail})
		}
	}
	var funcs []string
	for f := range r.FuncsAnalysed {
		funcs = append(funcs, f)
	}
	sort.Strings(funcs)
	floors := map[string]map[string]int{}
	for k, v := range r.Floors {
		floors[k] = map[string]int{"found": v[0], "floor": v[1]}
	}
	nKnown := 0
	for _, ob := range r.Obls {
		if ob.Status == Known {
			nKnown++
		}
	}
	cov := map[string]interface{}{
		"explanation":        o.Explanation,
		"obligations":        total,
		"discharged":         nDis,
		"known_findings":     nKnown,
		"checker_cmd":        o.CheckerCmd,
		"trusted_base":       o.Trusted,
		"samples":            samples,
		"obligation_list":    obls,
		"functions_analysed": len(funcs),
		"functions":          funcs,
		"call_sites":         r.CallSites,
		"paths_enumerated":   r.Paths,
		"instance_floors":    floors,
		"notes":              r.Notes,
		"exhaustive":         o.Exhaustive,
	}
	if r.P != nil {
		cov["packages"] = len(r.P.ByPath)
		cov["repo_functions_in_program"] = len(r.P.Repo)
	}
	for k, v := range o.Extra {
		cov[k] = v
	}
	ev := map[string]interface{}{
		"property_id": r.Prop,
		"tier":        o.Tier,
		"seed":        o.Seed,
		"level":       "other",
		"coverage":    cov,
		"assumptions": o.Assumptions,
		"wall_s":      o.WallS,
		"violations":  nViol,
	}
	if o.EvidenceOut != "" {
		_ = os.MkdirAll(filepath.Dir(o.EvidenceOut), 0o755)
		b, _ := json.MarshalIndent(ev, "", " ")
		if err := os.WriteFile(o.EvidenceOut, append(b, '\n'), 0o644); err != nil {
			fmt.Printf("UNDECIDED cannot write evidence: %v\nVIOLATION property=%s replay=\n", err, r.Prop)
			exit = 1
		}
	}
	fmt.Printf("%s %s: %d obligations, %d discharged, %d known findings, %d violated/undecided (%.1fs)\n",
		r.Prop, o.Tier, total, nDis, nKnown, nViol, o.WallS)
	return exit
}

func maxInt(a, b int) int {
	if a > b {
		return a
	}
	return b
}

func sanitize(s string) string {
	var b strings.Builder
	for _, c := range s {
		switch {
		case c >= 'a' && c <= 'z', c >= 'A' && c <= 'Z', c >= '0' && c <= '9', c == '.', c == '-', c == '_':
			b.WriteRune(c)
		default:
			b.WriteByte('_')
		}
	}
	return b.String()
}
