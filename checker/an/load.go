// Package an is the analysis toolbox shared by all vipcheck rules: loading,
// SSA, call graph, error edges, gate reachability, value provenance,
// comparison normalisation and locksets.
package an

import (
	"fmt"
	"go/ast"
	"go/token"
	"go/types"
	"os"
	"path/filepath"
	"sort"
	"strings"

	"golang.org/x/tools/go/callgraph"
	"golang.org/x/tools/go/callgraph/cha"
	"golang.org/x/tools/go/callgraph/vta"
	"golang.org/x/tools/go/packages"
	"golang.org/x/tools/go/ssa"
	"golang.org/x/tools/go/ssa/ssautil"
)

// Module is the module path of the repository under analysis.
const Module = "github.com/vipnode/vipnode/v2"

// Prog is the loaded, type-checked, SSA-built repository.
type Prog struct {
	RepoDir  string
	Fset     *token.FileSet
	Pkgs     []*packages.Package          // repo packages only
	ByPath   map[string]*packages.Package // repo packages by import path
	SSA      *ssa.Program
	AllFuncs map[*ssa.Function]bool // every function of the program (incl. deps)
	Repo     []*ssa.Function        // functions declared in repo, non-test, sorted by position
	cg       *callgraph.Graph
	chaCG    *callgraph.Graph
	WithCHA  bool
	CHAExtra int // callees added by the CHA cross-check (thorough)

	edgeCache map[*ssa.Function][]*ssa.Function
	sites     map[*ssa.Function][]ssa.CallInstruction
	addrTaken map[*ssa.Function]bool

	// aliases registered by the rules' anchor resolution: the canonical (pinned-tree) name of an unexported
	// function, method or type -> the object that plays that role in the tree under analysis after a rename
	aliasType map[string]*types.Named
	aliasFunc map[string]*ssa.Function
}

// canonIdent maps the identifier an aliased object carries in the analysed tree back to its canonical identifier, so
// that names printed in obligation keys and compared by rules do not change under a rename.
var canonIdent = map[string]string{}

// Ident returns the canonical spelling of an identifier (itself unless an alias was registered for it).
func Ident(name string) string {
	if c, ok := canonIdent[name]; ok {
		return c
	}
	return name
}

// AliasIdent registers actual as the spelling, in the analysed tree, of the identifier the rules know as canon.
func AliasIdent(actual, canon string) {
	if actual != canon {
		canonIdent[actual] = canon
	}
}

// TName is the canonical name of a named type.
func TName(n *types.Named) string {
	if n == nil {
		return ""
	}
	return Ident(n.Obj().Name())
}

// AliasType registers n as the type known to the rules as rel.canon.
func (p *Prog) AliasType(rel, canon string, n *types.Named) {
	if p.aliasType == nil {
		p.aliasType = map[string]*types.Named{}
	}
	p.aliasType[rel+"."+canon] = n
	if n.Obj().Name() != canon {
		canonIdent[n.Obj().Name()] = canon
	}
}

// AliasFunc registers fn as the function (typ == "") or method known to the rules as rel.typ.canon.
func (p *Prog) AliasFunc(rel, typ, canon string, fn *ssa.Function) {
	if p.aliasFunc == nil {
		p.aliasFunc = map[string]*ssa.Function{}
	}
	p.aliasFunc[rel+"."+typ+"."+canon] = fn
	if fn.Name() != canon {
		canonIdent[fn.Name()] = canon
	}
}

// Load loads ./... of repoDir. It fails on any type error in a repo package
// and when fewer than minPkgs repo packages are found.
func Load(repoDir string, tests bool, minPkgs int) (*Prog, error) {
	env := []string{}
	for _, e := range os.Environ() {
		if strings.HasPrefix(e, "GOWORK=") || strings.HasPrefix(e, "GOFLAGS=") {
			continue
		}
		env = append(env, e)
	}
	env = append(env, "GOFLAGS=-mod=mod", "GOPROXY=off", "GOSUMDB=off", "GOTOOLCHAIN=local", "GOWORK=off")
	cfg := &packages.Config{
		Mode:  packages.LoadAllSyntax,
		Dir:   repoDir,
		Env:   env,
		Tests: tests,
	}
	pkgs, err := packages.Load(cfg, "./...")
	if err != nil {
		return nil, fmt.Errorf("packages.Load: %v", err)
	}
	p := &Prog{RepoDir: repoDir, ByPath: map[string]*packages.Package{}}
	var errs []string
	for _, pk := range pkgs {
		if !strings.HasPrefix(pk.PkgPath, Module) {
			continue
		}
		for _, e := range pk.Errors {
			errs = append(errs, e.Error())
		}
		if pk.IllTyped {
			errs = append(errs, pk.PkgPath+": ill-typed")
		}
		if strings.HasSuffix(pk.ID, ".test") || strings.Contains(pk.ID, " [") {
			// test variants are kept in the program but not indexed as primary
			if tests {
				p.Pkgs = append(p.Pkgs, pk)
			}
			continue
		}
		p.Pkgs = append(p.Pkgs, pk)
		p.ByPath[pk.PkgPath] = pk
	}
	if len(errs) > 0 {
		return nil, fmt.Errorf("type/load errors in repo packages:\n  %s", strings.Join(errs, "\n  "))
	}
	if len(p.ByPath) < minPkgs {
		return nil, fmt.Errorf("only %d repo packages loaded, expected at least %d", len(p.ByPath), minPkgs)
	}
	if len(pkgs) > 0 {
		p.Fset = pkgs[0].Fset
	}
	prog, _ := ssautil.AllPackages(pkgs, ssa.InstantiateGenerics)
	prog.Build()
	p.SSA = prog
	p.AllFuncs = ssautil.AllFunctions(prog)
	for fn := range p.AllFuncs {
		if p.InRepo(fn) && !p.IsTestFunc(fn) {
			p.Repo = append(p.Repo, fn)
		}
	}
	sort.Slice(p.Repo, func(i, j int) bool {
		a, b := p.Repo[i], p.Repo[j]
		if a.Pos() != b.Pos() {
			return a.Pos() < b.Pos()
		}
		return a.String() < b.String()
	})
	return p, nil
}

// InRepo reports whether fn is declared in the repository (including
// anonymous functions nested in repo functions), as opposed to dependencies
// or synthetic wrappers without a package.
func (p *Prog) InRepo(fn *ssa.Function) bool {
	for fn.Parent() != nil {
		fn = fn.Parent()
	}
	if fn.Pkg == nil || fn.Pkg.Pkg == nil {
		// wrappers/bound methods: attribute to the object's package
		if o := fn.Object(); o != nil && o.Pkg() != nil {
			return strings.HasPrefix(o.Pkg().Path(), Module) && fn.Synthetic == ""
		}
		return false
	}
	return strings.HasPrefix(fn.Pkg.Pkg.Path(), Module) && (fn.Synthetic == "" || fn.Synthetic == "package initializer")
}

// IsTestFunc reports whether fn is declared in a _test.go file.
func (p *Prog) IsTestFunc(fn *ssa.Function) bool {
	for fn.Parent() != nil {
		fn = fn.Parent()
	}
	if !fn.Pos().IsValid() {
		return false
	}
	return strings.HasSuffix(p.Fset.Position(fn.Pos()).Filename, "_test.go")
}

// Pos renders a position relative to the repository root.
func (p *Prog) Pos(pos token.Pos) string {
	if !pos.IsValid() {
		return "-"
	}
	ps := p.Fset.Position(pos)
	rel, err := filepath.Rel(p.RepoDir, ps.Filename)
	if err != nil {
		rel = ps.Filename
	}
	return fmt.Sprintf("%s:%d", rel, ps.Line)
}

// File returns the repo-relative file of pos.
func (p *Prog) File(pos token.Pos) string {
	if !pos.IsValid() {
		return ""
	}
	ps := p.Fset.Position(pos)
	rel, err := filepath.Rel(p.RepoDir, ps.Filename)
	if err != nil {
		return ps.Filename
	}
	return rel
}

// Pkg returns the repo package with the module-relative path rel ("" = root).
func (p *Prog) Pkg(rel string) *packages.Package {
	path := Module
	if rel != "" {
		path += "/" + rel
	}
	return p.ByPath[path]
}

// SSAPkg returns the ssa package for a module-relative path.
func (p *Prog) SSAPkg(rel string) *ssa.Package {
	pk := p.Pkg(rel)
	if pk == nil {
		return nil
	}
	return p.SSA.Package(pk.Types)
}

// Named returns the named type rel.name, or nil.
func (p *Prog) Named(rel, name string) *types.Named {
	if n, ok := p.aliasType[rel+"."+name]; ok {
		return n
	}
	pk := p.Pkg(rel)
	if pk == nil {
		return nil
	}
	o := pk.Types.Scope().Lookup(name)
	if o == nil {
		return nil
	}
	tn, ok := o.(*types.TypeName)
	if !ok {
		return nil
	}
	n, _ := tn.Type().(*types.Named)
	return n
}

// Func returns the package-level function rel.name, or nil.
func (p *Prog) Func(rel, name string) *ssa.Function {
	if f, ok := p.aliasFunc[rel+".."+name]; ok {
		return f
	}
	sp := p.SSAPkg(rel)
	if sp == nil {
		return nil
	}
	return sp.Func(name)
}

// Method returns method name of type rel.typ (pointer or value receiver), or nil.
func (p *Prog) Method(rel, typ, name string) *ssa.Function {
	if f, ok := p.aliasFunc[rel+"."+typ+"."+name]; ok {
		return f
	}
	n := p.Named(rel, typ)
	if n == nil {
		return nil
	}
	return p.MethodOf(n, name)
}

// MethodOf returns the declared method name on named type n (either receiver kind).
func (p *Prog) MethodOf(n *types.Named, name string) *ssa.Function {
	for i := 0; i < n.NumMethods(); i++ {
		m := n.Method(i)
		if m.Name() == name {
			return p.SSA.FuncValue(m)
		}
	}
	return nil
}

// Iface returns the interface type rel.name, or nil.
func (p *Prog) Iface(rel, name string) *types.Interface {
	n := p.Named(rel, name)
	if n == nil {
		return nil
	}
	it, _ := n.Underlying().(*types.Interface)
	return it
}

// Implementations returns the named struct types declared in non-test repo
// code whose pointer (or value) implements iface, sorted by name.
func (p *Prog) Implementations(iface *types.Interface) []*types.Named {
	var out []*types.Named
	for _, pk := range p.sortedPkgs() {
		sc := pk.Types.Scope()
		for _, name := range sc.Names() {
			tn, ok := sc.Lookup(name).(*types.TypeName)
			if !ok || tn.IsAlias() {
				continue
			}
			n, ok := tn.Type().(*types.Named)
			if !ok {
				continue
			}
			if _, isI := n.Underlying().(*types.Interface); isI {
				continue
			}
			if strings.HasSuffix(p.Fset.Position(tn.Pos()).Filename, "_test.go") {
				continue
			}
			if types.Implements(n, iface) || types.Implements(types.NewPointer(n), iface) {
				out = append(out, n)
			}
		}
	}
	return out
}

func (p *Prog) sortedPkgs() []*packages.Package {
	var out []*packages.Package
	for _, pk := range p.ByPath {
		out = append(out, pk)
	}
	sort.Slice(out, func(i, j int) bool { return out[i].PkgPath < out[j].PkgPath })
	return out
}

// CG returns the VTA call graph (built lazily).
func (p *Prog) CG() *callgraph.Graph {
	if p.cg == nil {
		p.chaCG = cha.CallGraph(p.SSA)
		p.cg = vta.CallGraph(p.AllFuncs, p.chaCG)
	}
	return p.cg
}

// CHA returns the CHA call graph.
func (p *Prog) CHA() *callgraph.Graph {
	if p.chaCG == nil {
		p.CG()
	}
	return p.chaCG
}

// FuncName is a stable, position-free name for a function:
// "(*pool.VipnodePool).Peer", "pool.normalizeNodeURI", "(*pool.VipnodePool).requestHosts$1".
func FuncName(fn *ssa.Function) string {
	if fn == nil {
		return "<nil>"
	}
	s := fn.String()
	s = strings.ReplaceAll(s, Module+"/", "")
	s = strings.ReplaceAll(s, Module+".", "main.")
	s = strings.ReplaceAll(s, Module, "main")
	// shorten package paths to their last element
	out := strings.Builder{}
	i := 0
	for i < len(s) {
		j := i
		for j < len(s) && (isIdent(s[j]) || s[j] == '/' || s[j] == '.') {
			j++
		}
		if j > i {
			tok := s[i:j]
			if k := strings.LastIndex(tok, "/"); k >= 0 {
				tok = tok[k+1:]
			}
			if len(canonIdent) > 0 {
				parts := strings.Split(tok, ".")
				for pi, part := range parts {
					base, suffix := part, ""
					if d := strings.Index(part, "$"); d >= 0 {
						base, suffix = part[:d], part[d:]
					}
					parts[pi] = Ident(base) + suffix
				}
				tok = strings.Join(parts, ".")
			}
			out.WriteString(tok)
			i = j
			continue
		}
		out.WriteByte(s[i])
		i++
	}
	return out.String()
}

func isIdent(c byte) bool {
	return c == '_' || c == '$' || c == '-' || (c >= '0' && c <= '9') || (c >= 'a' && c <= 'z') || (c >= 'A' && c <= 'Z')
}

// Syntax returns the *ast.FuncDecl or *ast.FuncLit of fn, if any.
func Syntax(fn *ssa.Function) ast.Node { return fn.Syntax() }

// AllInstrs calls f for every instruction of fn (not nested closures).
func AllInstrs(fn *ssa.Function, f func(ssa.Instruction)) {
	for _, b := range fn.Blocks {
		for _, in := range b.Instrs {
			f(in)
		}
	}
}

// WithAnon returns fn followed by all closures nested in it, transitively.
func WithAnon(fn *ssa.Function) []*ssa.Function {
	out := []*ssa.Function{fn}
	for _, a := range fn.AnonFuncs {
		out = append(out, WithAnon(a)...)
	}
	return out
}

// StaticSites returns the static call sites (call, go, defer) of fn in non-test repo code.
func (p *Prog) StaticSites(fn *ssa.Function) []ssa.CallInstruction {
	if p.sites == nil {
		p.sites = map[*ssa.Function][]ssa.CallInstruction{}
		for _, f := range p.Repo {
			AllInstrs(f, func(in ssa.Instruction) {
				if c, ok := in.(ssa.CallInstruction); ok {
					if cal := c.Common().StaticCallee(); cal != nil {
						p.sites[cal] = append(p.sites[cal], c)
					}
				}
			})
		}
	}
	return p.sites[fn]
}

// Resolve canonicalises a value: spilled parameters become the parameter, and a parameter of a
// helper that has exactly one static call site in the repository becomes the argument passed there
// (so that extracting a block into a single-use helper does not change what rules see).
func (p *Prog) Resolve(v ssa.Value) ssa.Value {
	for i := 0; i < 4; i++ {
		v = Unspill(v)
		prm, ok := v.(*ssa.Parameter)
		if !ok {
			return v
		}
		fn := prm.Parent()
		sites := p.StaticSites(fn)
		if len(sites) != 1 || p.IsAddressTaken(fn) {
			return v
		}
		idx := -1
		for j, q := range fn.Params {
			if q == prm {
				idx = j
			}
		}
		args := sites[0].Common().Args
		if idx < 0 || idx >= len(args) {
			return v
		}
		v = args[idx]
	}
	return v
}

// IsAddressTaken reports whether fn is used as a value somewhere in the repo (so that it may have callers we do not see).
func (p *Prog) IsAddressTaken(fn *ssa.Function) bool {
	if p.addrTaken == nil {
		p.addrTaken = map[*ssa.Function]bool{}
		for _, f := range p.Repo {
			AllInstrs(f, func(in ssa.Instruction) {
				var ops []*ssa.Value
				for _, op := range in.Operands(ops) {
					if op == nil || *op == nil {
						continue
					}
					if g, ok := (*op).(*ssa.Function); ok {
						if c, isCall := in.(ssa.CallInstruction); isCall && c.Common().Value == ssa.Value(g) {
							continue
						}
						p.addrTaken[g] = true
					}
				}
			})
		}
	}
	if fn.Object() != nil && fn.Object().Exported() && fn.Signature.Recv() != nil {
		// exported methods may be reached through interfaces / reflection
		return true
	}
	return p.addrTaken[fn]
}

// NormRecv spells a function name without the receiver's pointer star, so that comparisons and look-ups do not depend
// on whether a method has a pointer or a value receiver ("(*pkg.T).M" and "(pkg.T).M" compare equal).
func NormRecv(name string) string { return strings.ReplaceAll(name, "(*", "(") }
