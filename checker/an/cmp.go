package an

import (
	"go/token"
	"go/types"

	"golang.org/x/tools/go/ssa"
)

// Rel is a canonical binary relation "L Op R" (Op one of LSS LEQ EQL NEQ GEQ GTR).
type Rel struct {
	L, R ssa.Value
	Op   token.Token
	Kind string // "int", "bigcmp", "time", "string", "ptr"
	// Bind maps parameters of a predicate helper the relation was taken from to the arguments of the call
	// (isWallet(id) { return len(id) <= 42 } seen at the call isWallet(pubkey) binds id -> pubkey).
	Bind map[*ssa.Parameter]ssa.Value
}

// Arg maps a value of the predicate helper's body to the caller's value where it is a bound parameter.
func (r Rel) Arg(v ssa.Value) ssa.Value {
	if p, ok := v.(*ssa.Parameter); ok {
		if a, ok := r.Bind[p]; ok {
			return a
		}
	}
	return v
}

// Negate returns the relation that holds when r does not.
func (r Rel) Negate() Rel {
	switch r.Op {
	case token.LSS:
		r.Op = token.GEQ
	case token.LEQ:
		r.Op = token.GTR
	case token.GTR:
		r.Op = token.LEQ
	case token.GEQ:
		r.Op = token.LSS
	case token.EQL:
		r.Op = token.NEQ
	case token.NEQ:
		r.Op = token.EQL
	}
	return r
}

// Swap returns the same relation with the sides exchanged.
func (r Rel) Swap() Rel {
	r.L, r.R = r.R, r.L
	switch r.Op {
	case token.LSS:
		r.Op = token.GTR
	case token.LEQ:
		r.Op = token.GEQ
	case token.GTR:
		r.Op = token.LSS
	case token.GEQ:
		r.Op = token.LEQ
	}
	return r
}

func isCmpOp(op token.Token) bool {
	switch op {
	case token.LSS, token.LEQ, token.EQL, token.NEQ, token.GEQ, token.GTR:
		return true
	}
	return false
}

// NormCond normalises a boolean SSA value into a relation that holds when
// the value is true.
func NormCond(v ssa.Value) (Rel, bool) {
	switch x := v.(type) {
	case *ssa.UnOp:
		if x.Op == token.NOT {
			r, ok := NormCond(x.X)
			if !ok {
				return r, false
			}
			return r.Negate(), true
		}
	case *ssa.BinOp:
		if !isCmpOp(x.Op) {
			return Rel{}, false
		}
		// x.Cmp(y) op 0
		if c, ok := x.X.(*ssa.Call); ok && isCmpCall(c) {
			if k, ok := ConstInt(x.Y); ok && k == 0 {
				return Rel{L: c.Call.Args[0], R: c.Call.Args[1], Op: x.Op, Kind: "bigcmp"}, true
			}
		}
		if c, ok := x.Y.(*ssa.Call); ok && isCmpCall(c) {
			if k, ok := ConstInt(x.X); ok && k == 0 {
				return Rel{L: c.Call.Args[0], R: c.Call.Args[1], Op: x.Op, Kind: "bigcmp"}.Swap().swapSidesOnly(), true
			}
		}
		kind := "int"
		if b, ok := x.X.Type().Underlying().(*types.Basic); ok && b.Info()&types.IsString != 0 {
			kind = "string"
		}
		return Rel{L: x.X, R: x.Y, Op: x.Op, Kind: kind}, true
	case *ssa.Call:
		// a predicate helper with a single return: take the relation it returns, binding its parameters
		if callee := x.Call.StaticCallee(); callee != nil && len(callee.Blocks) > 0 && callee.Signature.Results().Len() == 1 {
			var rets []*ssa.Return
			for _, b := range callee.Blocks {
				for _, in := range b.Instrs {
					if ret, ok := in.(*ssa.Return); ok {
						rets = append(rets, ret)
					}
				}
			}
			if len(rets) == 1 && len(rets[0].Results) == 1 {
				if r, ok := NormCond(rets[0].Results[0]); ok {
					if r.Bind == nil {
						r.Bind = map[*ssa.Parameter]ssa.Value{}
					}
					for i, prm := range callee.Params {
						if i < len(x.Call.Args) {
							r.Bind[prm] = x.Call.Args[i]
						}
					}
					r.L, r.R = r.Arg(r.L), r.Arg(r.R)
					return r, true
				}
			}
		}
		f := CallObj(x)
		if f != nil && IsMethod(f, "time", "Time", f.Name()) && len(x.Call.Args) == 2 {
			switch f.Name() {
			case "After":
				return Rel{L: x.Call.Args[0], R: x.Call.Args[1], Op: token.GTR, Kind: "time"}, true
			case "Before":
				return Rel{L: x.Call.Args[0], R: x.Call.Args[1], Op: token.LSS, Kind: "time"}, true
			case "Equal":
				return Rel{L: x.Call.Args[0], R: x.Call.Args[1], Op: token.EQL, Kind: "time"}, true
			}
		}
	}
	return Rel{}, false
}

// "0 op x.Cmp(y)" == "x.Cmp(y) swap(op) 0": Swap() exchanged L/R and flipped
// op; we want only the op flipped, so exchange the sides back.
func (r Rel) swapSidesOnly() Rel {
	r.L, r.R = r.R, r.L
	return r
}

func isCmpCall(c *ssa.Call) bool {
	f := CallObj(c)
	if f == nil || f.Name() != "Cmp" || len(c.Call.Args) != 2 {
		return false
	}
	n := RecvNamed(f)
	return n != nil && n.Obj().Pkg() != nil && n.Obj().Pkg().Path() == "math/big"
}

// BranchRel describes, for an If instruction, the relation that holds on the
// edge to succ index i (0 = true branch).
func BranchRel(iff *ssa.If, succ int) (Rel, bool) {
	r, ok := NormCond(iff.Cond)
	if !ok {
		return r, false
	}
	if succ == 1 {
		r = r.Negate()
	}
	return r, true
}

// ControllingIfs returns, for block b, the list of (If, succIndex) pairs such
// that b is reachable only through that edge of the If (i.e. the edge's
// target dominates b and the If block's other successor does not reach b
// without passing the edge). It uses dominance: edge (B->S) controls b when
// S dominates b and S has B as its only predecessor.
type Ctrl struct {
	If   *ssa.If
	Succ int
}

func ControllingIfs(b *ssa.BasicBlock) []Ctrl {
	var out []Ctrl
	for cur := b; cur != nil; cur = cur.Idom() {
		if len(cur.Preds) != 1 {
			continue
		}
		pred := cur.Preds[0]
		if len(pred.Instrs) == 0 {
			continue
		}
		iff, ok := pred.Instrs[len(pred.Instrs)-1].(*ssa.If)
		if !ok || len(pred.Succs) != 2 || pred.Succs[0] == pred.Succs[1] {
			continue
		}
		if pred.Succs[0] == cur {
			out = append(out, Ctrl{iff, 0})
		} else if pred.Succs[1] == cur {
			out = append(out, Ctrl{iff, 1})
		}
	}
	return out
}

// LenOf returns x when v is len(x).
func LenOf(v ssa.Value) (ssa.Value, bool) {
	c, ok := v.(*ssa.Call)
	if !ok {
		return nil, false
	}
	b, ok := c.Call.Value.(*ssa.Builtin)
	if !ok || Ident(b.Name()) != "len" || len(c.Call.Args) != 1 {
		return nil, false
	}
	return c.Call.Args[0], true
}
