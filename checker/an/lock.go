package an

import (
	"go/types"
	"sort"
	"strings"

	"golang.org/x/tools/go/ssa"
)

// LockKey identifies a mutex by the access path of its address:
// root description + field path, e.g. "p0.mu", "fv:codec.muWrite".
type LockKey string

func rootName(v ssa.Value) string {
	switch x := v.(type) {
	case *ssa.Parameter:
		for i, p := range x.Parent().Params {
			if p == x {
				return "p" + string(rune('0'+i))
			}
		}
		return "p?"
	case *ssa.FreeVar:
		return "fv:" + x.Name()
	case *ssa.Global:
		return "g:" + x.Name()
	case *ssa.Alloc:
		return "alloc:" + x.Name()
	case *ssa.UnOp:
		r, p := RootPath(x.X)
		return "*(" + rootName(r) + p + ")"
	}
	return "v:" + v.Name()
}

// LockKeyOf returns the key for a mutex address value (e.g. &p.mu).
func LockKeyOf(addr ssa.Value) (LockKey, *types.Var) {
	r, p := RootPath(addr)
	return LockKey(rootName(r) + p), FieldOf(addr)
}

type lockOp struct {
	key     LockKey
	field   *types.Var
	acquire bool
	read    bool
}

func mutexOp(c ssa.CallInstruction) (lockOp, bool) {
	f := CallObj(c)
	if f == nil || f.Pkg() == nil || f.Pkg().Path() != "sync" {
		return lockOp{}, false
	}
	n := RecvNamed(f)
	if n == nil || (n.Obj().Name() != "Mutex" && n.Obj().Name() != "RWMutex") {
		return lockOp{}, false
	}
	if len(c.Common().Args) == 0 {
		return lockOp{}, false
	}
	k, fld := LockKeyOf(c.Common().Args[0])
	switch f.Name() {
	case "Lock":
		return lockOp{k, fld, true, false}, true
	case "RLock":
		return lockOp{k, fld, true, true}, true
	case "Unlock":
		return lockOp{k, fld, false, false}, true
	case "RUnlock":
		return lockOp{k, fld, false, true}, true
	}
	return lockOp{}, false
}

// Held is a must-hold lockset: key -> true (write) / false (read-only hold).
type Held map[LockKey]bool

func (h Held) clone() Held {
	o := Held{}
	for k, v := range h {
		o[k] = v
	}
	return o
}

func meet(a, b Held) Held {
	o := Held{}
	for k, v := range a {
		if w, ok := b[k]; ok {
			o[k] = v && w
		}
	}
	return o
}

func heldEq(a, b Held) bool {
	if len(a) != len(b) {
		return false
	}
	for k, v := range a {
		if w, ok := b[k]; !ok || w != v {
			return false
		}
	}
	return true
}

// LockInfo is the result of the lockset dataflow for one function.
type LockInfo struct {
	Fn     *ssa.Function
	Before map[ssa.Instruction]Held
	Fields map[LockKey]*types.Var
	// Ops lists lock operations found.
	Acquires int
}

// Locksets computes must-hold locksets before every instruction of fn,
// starting from entry lockset in. Deferred unlocks are ignored (the lock is
// then held to every return), direct unlocks release.
func Locksets(fn *ssa.Function, in Held) *LockInfo {
	li := &LockInfo{Fn: fn, Before: map[ssa.Instruction]Held{}, Fields: map[LockKey]*types.Var{}}
	if len(fn.Blocks) == 0 {
		return li
	}
	if in == nil {
		in = Held{}
	}
	inSet := map[*ssa.BasicBlock]Held{fn.Blocks[0]: in.clone()}
	outSet := map[*ssa.BasicBlock]Held{}
	transfer := func(b *ssa.BasicBlock, h Held, record bool) Held {
		h = h.clone()
		for _, ins := range b.Instrs {
			if record {
				li.Before[ins] = h.clone()
			}
			c, ok := ins.(ssa.CallInstruction)
			if !ok {
				continue
			}
			if _, isDefer := ins.(*ssa.Defer); isDefer {
				continue
			}
			if _, isGo := ins.(*ssa.Go); isGo {
				continue
			}
			if op, ok := mutexOp(c); ok {
				li.Fields[op.key] = op.field
				if op.acquire {
					h[op.key] = !op.read
					if record {
						li.Acquires++
					}
				} else {
					delete(h, op.key)
				}
			}
		}
		return h
	}
	work := []*ssa.BasicBlock{fn.Blocks[0]}
	inWork := map[*ssa.BasicBlock]bool{fn.Blocks[0]: true}
	for len(work) > 0 {
		b := work[0]
		work = work[1:]
		inWork[b] = false
		out := transfer(b, inSet[b], false)
		if old, ok := outSet[b]; ok && heldEq(old, out) {
			continue
		}
		outSet[b] = out
		for _, s := range b.Succs {
			var ns Held
			if cur, ok := inSet[s]; ok {
				ns = meet(cur, out)
				if heldEq(ns, cur) {
					continue
				}
			} else {
				ns = out.clone()
			}
			inSet[s] = ns
			if !inWork[s] {
				inWork[s] = true
				work = append(work, s)
			}
		}
	}
	for _, b := range fn.Blocks {
		if h, ok := inSet[b]; ok {
			transfer(b, h, true)
		} else {
			transfer(b, Held{}, true) // unreachable
		}
	}
	return li
}

// HeldField reports whether a lock whose field object is fld is held in h
// with base root matching baseRoot name prefix (e.g. "p0").
func HeldHas(h Held, key LockKey) (write bool, ok bool) {
	w, ok := h[key]
	return w, ok
}

// HeldString renders a lockset.
func HeldString(h Held) string {
	var ks []string
	for k, w := range h {
		s := string(k)
		if !w {
			s += "(r)"
		}
		ks = append(ks, s)
	}
	sort.Strings(ks)
	return "{" + strings.Join(ks, ",") + "}"
}

// EntryLocks computes, for each repo function, locks that are held at every
// one of its call sites (in repo, non-test code), translated to the callee's
// parameter names. Only locks rooted at a value passed as argument i (->"p<i>")
// or captured as a free variable are translated. Fixpoint over the call graph
// restricted to static callees and closures.
func (p *Prog) EntryLocks() map[*ssa.Function]Held {
	type site struct {
		caller *ssa.Function
		call   ssa.CallInstruction
	}
	sites := map[*ssa.Function][]site{}
	callbackSite := map[ssa.CallInstruction]bool{}
	escaping := map[*ssa.Function]bool{} // referenced as a value other than direct call
	for _, fn := range p.Repo {
		AllInstrs(fn, func(in ssa.Instruction) {
			if c, ok := in.(ssa.CallInstruction); ok {
				if callee := c.Common().StaticCallee(); callee != nil && p.InRepo(callee) {
					if _, isGo := in.(*ssa.Go); isGo {
						escaping[callee] = true // runs concurrently: inherits nothing
					} else if _, isDefer := in.(*ssa.Defer); isDefer {
						escaping[callee] = true
					} else {
						sites[callee] = append(sites[callee], site{fn, c})
					}
				}
			}
			// function used as a value
			var ops []*ssa.Value
			for _, op := range in.Operands(ops) {
				if op == nil || *op == nil {
					continue
				}
				switch x := (*op).(type) {
				case *ssa.Function:
					if c, ok := in.(ssa.CallInstruction); ok && c.Common().Value == x {
						continue
					}
					// handed to a repo function that does nothing with it but call it (r.count(countRequest)): the calls
					// inside that function are its call sites
					if c, ok := in.(ssa.CallInstruction); ok {
						if inner := callbackCalls(p, c, x); len(inner) > 0 {
							for _, ic := range inner {
								sites[x] = append(sites[x], site{ic.Parent(), ic})
								callbackSite[ic] = true
							}
							continue
						}
					}
					escaping[x] = true
				case *ssa.MakeClosure:
					if c, ok := in.(ssa.CallInstruction); ok && c.Common().Value == x {
						continue
					}
					if f, ok := x.Fn.(*ssa.Function); ok {
						escaping[f] = true
					}
				}
			}
		})
	}
	entry := map[*ssa.Function]Held{}
	infos := map[*ssa.Function]*LockInfo{}
	for iter := 0; iter < 6; iter++ {
		changed := false
		for _, fn := range p.Repo {
			infos[fn] = Locksets(fn, entry[fn])
		}
		for _, fn := range p.Repo {
			ss := sites[fn]
			if len(ss) == 0 || escaping[fn] {
				continue
			}
			// exported methods/functions may be called from anywhere
			if o := fn.Object(); o != nil && o.Exported() && fn.Parent() == nil {
				continue
			}
			var acc Held
			for i, s := range ss {
				li := infos[s.caller]
				if li == nil {
					acc = Held{}
					break
				}
				h := li.Before[s.call.(ssa.Instruction)]
				tr := Held{}
				for k, w := range h {
					// translate root: find arg index whose root name prefixes k
					for ai, a := range s.call.Common().Args {
						r, pth := RootPath(a)
						pre := rootName(r) + pth
						if strings.HasPrefix(string(k), pre+".") && ai < len(fn.Params) {
							tr[LockKey("p"+string(rune('0'+ai))+string(k)[len(pre):])] = w
						}
					}
					if strings.HasPrefix(string(k), "fv:") || strings.HasPrefix(string(k), "g:") {
						tr[k] = w
					}
				}
				if callbackSite[s.call] {
					// a callback cannot name the caller's lock; it still runs with it held
					for k, w := range h {
						tr[LockKey("outer:"+string(k))] = w
					}
				}
				if i == 0 {
					acc = tr
				} else {
					acc = meet(acc, tr)
				}
			}
			if !heldEq(acc, entry[fn]) {
				if len(acc) > 0 || len(entry[fn]) > 0 {
					entry[fn] = acc
					changed = true
				}
			}
		}
		if !changed {
			break
		}
	}
	return entry
}

// callbackCalls: c is a static call of a repo function h that passes the function g as an argument whose parameter h
// only ever calls (synchronously): returns those calls inside h.
func callbackCalls(p *Prog, c ssa.CallInstruction, g *ssa.Function) []ssa.CallInstruction {
	h := c.Common().StaticCallee()
	if h == nil || !p.InRepo(h) || len(h.Blocks) == 0 {
		return nil
	}
	if _, isGo := c.(*ssa.Go); isGo {
		return nil
	}
	if _, isDefer := c.(*ssa.Defer); isDefer {
		return nil
	}
	var out []ssa.CallInstruction
	for i, a := range c.Common().Args {
		if a != ssa.Value(g) || i >= len(h.Params) {
			continue
		}
		prm := h.Params[i]
		refs := prm.Referrers()
		if refs == nil || len(*refs) == 0 {
			return nil
		}
		for _, ref := range *refs {
			ic, ok := ref.(ssa.CallInstruction)
			if !ok || ic.Common().Value != ssa.Value(prm) {
				if _, isDbg := ref.(*ssa.DebugRef); isDbg {
					continue
				}
				return nil
			}
			if _, isGo := ref.(*ssa.Go); isGo {
				return nil
			}
			if _, isDefer := ref.(*ssa.Defer); isDefer {
				return nil
			}
			out = append(out, ic)
		}
	}
	return out
}

// Relock is a second acquisition of a mutex that the same goroutine already holds (sync mutexes are not reentrant: the
// goroutine blocks on itself, and everybody else on the mutex it keeps).
type Relock struct {
	Fn  *ssa.Function
	At  ssa.Instruction
	Key LockKey
	Via *ssa.Function // the callee that takes the lock, nil when fn locks directly
}

// translateKey re-expresses a callee's parameter-rooted lock key at a call site of the callee.
func translateKey(k LockKey, args []ssa.Value) (LockKey, bool) {
	s := string(k)
	if strings.HasPrefix(s, "g:") {
		return k, true
	}
	if len(s) < 2 || s[0] != 'p' || s[1] < '0' || s[1] > '9' {
		return "", false
	}
	i := int(s[1] - '0')
	if i >= len(args) {
		return "", false
	}
	r, pth := RootPath(args[i])
	return LockKey(rootName(r) + pth + s[2:]), true
}

// acquiresOf: the locks fn takes at some point of its execution (itself or through static repo callees, depth levels
// deep), named in fn's own parameter space; value true = write lock.
func (p *Prog) acquiresOf(fn *ssa.Function, depth int, seen map[*ssa.Function]bool) map[LockKey]bool {
	out := map[LockKey]bool{}
	if fn == nil || len(fn.Blocks) == 0 || seen[fn] {
		return out
	}
	seen[fn] = true
	defer delete(seen, fn)
	for _, c := range Calls(fn, false) {
		if _, isGo := c.(*ssa.Go); isGo {
			continue
		}
		if op, ok := mutexOp(c); ok {
			if _, isDefer := c.(*ssa.Defer); !isDefer && op.acquire {
				out[op.key] = out[op.key] || !op.read
			}
			continue
		}
		if depth == 0 {
			continue
		}
		if _, isDefer := c.(*ssa.Defer); isDefer {
			continue
		}
		g := c.Common().StaticCallee()
		if g == nil || !p.InRepo(g) {
			continue
		}
		for k, w := range p.acquiresOf(g, depth-1, seen) {
			if tk, ok := translateKey(k, c.Common().Args); ok {
				out[tk] = out[tk] || w
			}
		}
	}
	return out
}

// Relocks lists, for fn, every acquisition (direct, or inside a statically called repo function up to three levels
// down) of a mutex that fn's must-hold lockset already contains at that point, unless both holds are read locks.
func (p *Prog) Relocks(fn *ssa.Function) []Relock {
	var out []Relock
	li := Locksets(fn, nil)
	AllInstrs(fn, func(in ssa.Instruction) {
		c, ok := in.(ssa.CallInstruction)
		if !ok {
			return
		}
		if _, isGo := in.(*ssa.Go); isGo {
			return
		}
		if _, isDefer := in.(*ssa.Defer); isDefer {
			return
		}
		h := li.Before[in]
		if len(h) == 0 {
			return
		}
		if op, ok := mutexOp(c); ok {
			if w, held := h[op.key]; held && op.acquire && (w || !op.read) {
				out = append(out, Relock{fn, in, op.key, nil})
			}
			return
		}
		g := c.Common().StaticCallee()
		if g == nil || !p.InRepo(g) {
			return
		}
		for k, w := range p.acquiresOf(g, 3, map[*ssa.Function]bool{}) {
			tk, ok := translateKey(k, c.Common().Args)
			if !ok {
				continue
			}
			if hw, held := h[tk]; held && (hw || w) {
				out = append(out, Relock{fn, in, tk, g})
			}
		}
	})
	return out
}

// AcquiresOf is acquiresOf with a fresh visited set (exported for rules that bind a method to a value by hand).
func (p *Prog) AcquiresOf(fn *ssa.Function, depth int) map[LockKey]bool {
	return p.acquiresOf(fn, depth, map[*ssa.Function]bool{})
}

// TranslateKey re-expresses a callee's parameter-rooted lock key for the given argument values.
func TranslateKey(k LockKey, args []ssa.Value) (LockKey, bool) { return translateKey(k, args) }
