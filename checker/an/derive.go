package an

import (
	"go/token"
	"go/types"
	"strconv"
	"strings"

	"golang.org/x/tools/go/ssa"
)

// ---------------------------------------------------------------------------
// Access paths

// RootPath strips address arithmetic from v and returns the root object and
// the field path ("." + field name per FieldAddr/Field, "[]" per index).
func RootPath(v ssa.Value) (ssa.Value, string) {
	var parts []string
	for {
		switch x := v.(type) {
		case *ssa.FieldAddr:
			st := derefStruct(x.X.Type())
			name := "#" + strconv.Itoa(x.Field)
			if st != nil && x.Field < st.NumFields() {
				name = Ident(st.Field(x.Field).Name())
			}
			parts = append(parts, "."+name)
			v = x.X
			continue
		case *ssa.Field:
			st, _ := x.X.Type().Underlying().(*types.Struct)
			name := "#" + strconv.Itoa(x.Field)
			if st != nil && x.Field < st.NumFields() {
				name = Ident(st.Field(x.Field).Name())
			}
			parts = append(parts, "."+name)
			v = x.X
			continue
		case *ssa.IndexAddr:
			parts = append(parts, "[]")
			v = x.X
			continue
		case *ssa.Slice:
			v = x.X
			continue
		case *ssa.ChangeType:
			v = x.X
			continue
		case *ssa.Convert:
			if _, ok := x.X.Type().Underlying().(*types.Pointer); ok {
				v = x.X
				continue
			}
		}
		break
	}
	// reverse
	for i, j := 0, len(parts)-1; i < j; i, j = i+1, j-1 {
		parts[i], parts[j] = parts[j], parts[i]
	}
	return Unspill(v), strings.Join(parts, "")
}

// Unspill sees through go/ssa's spilling of a parameter that is captured by a
// closure or has its address taken: "t0 = new T (p); *t0 = p; ... *t0" is p.
func Unspill(v ssa.Value) ssa.Value {
	u, ok := v.(*ssa.UnOp)
	if !ok || u.Op != token.MUL {
		return v
	}
	al, ok := u.X.(*ssa.Alloc)
	if !ok {
		return v
	}
	var src ssa.Value
	n := 0
	for _, ref := range *al.Referrers() {
		switch x := ref.(type) {
		case *ssa.Store:
			if x.Addr == ssa.Value(al) {
				n++
				src = x.Val
			}
		case *ssa.MakeClosure:
			// captured: the closure may write it; only accept when no closure stores to it
			if cf, ok := x.Fn.(*ssa.Function); ok {
				for i, b := range x.Bindings {
					if b == ssa.Value(al) && i < len(cf.FreeVars) {
						for _, r2 := range *cf.FreeVars[i].Referrers() {
							if st, ok := r2.(*ssa.Store); ok && st.Addr == ssa.Value(cf.FreeVars[i]) {
								n += 2
							}
						}
					}
				}
			}
		}
	}
	if n == 1 {
		if prm, ok := src.(*ssa.Parameter); ok {
			return prm
		}
	}
	return v
}

func derefStruct(t types.Type) *types.Struct {
	if p, ok := t.Underlying().(*types.Pointer); ok {
		t = p.Elem()
	}
	st, _ := t.Underlying().(*types.Struct)
	return st
}

// FieldOf returns the struct field object selected by a FieldAddr/Field value, or nil.
func FieldOf(v ssa.Value) *types.Var {
	switch x := v.(type) {
	case *ssa.FieldAddr:
		if st := derefStruct(x.X.Type()); st != nil && x.Field < st.NumFields() {
			return st.Field(x.Field)
		}
	case *ssa.Field:
		if st, _ := x.X.Type().Underlying().(*types.Struct); st != nil && x.Field < st.NumFields() {
			return st.Field(x.Field)
		}
	}
	return nil
}

// ---------------------------------------------------------------------------
// Writes index: per function, what is written into which root object.

type write struct {
	root ssa.Value
	path string
	vals []ssa.Value
	at   ssa.Instruction
}

type writesIndex map[ssa.Value][]write

var bigMutators = map[string]bool{
	"Add": true, "Sub": true, "Mul": true, "Div": true, "Quo": true, "Rem": true, "Mod": true, "Neg": true,
	"Abs": true, "Set": true, "SetInt64": true, "SetUint64": true, "SetString": true, "SetBytes": true,
	"Exp": true, "Lsh": true, "Rsh": true, "And": true, "Or": true, "Xor": true, "Not": true, "Sqrt": true,
	"DivMod": true, "QuoRem": true, "SetBit": true, "SetBits": true, "GCD": true, "ModInverse": true,
	"MulRange": true, "Binomial": true, "AndNot": true, "Rand": true, "ModSqrt": true,
	"UnmarshalJSON": true, "UnmarshalText": true, "GobDecode": true, "Scan": true,
}

// IsBigIntMutator reports whether c calls a (*big.Int) method that writes its receiver.
func IsBigIntMutator(c ssa.CallInstruction) bool {
	f := CallObj(c)
	if f == nil || !bigMutators[f.Name()] {
		return false
	}
	n := RecvNamed(f)
	return n != nil && n.Obj().Pkg() != nil && n.Obj().Pkg().Path() == "math/big" && n.Obj().Name() == "Int"
}

// IsBigIntMethod reports whether c calls (*big.Int).name.
func IsBigIntMethod(c ssa.CallInstruction, names ...string) bool {
	f := CallObj(c)
	if f == nil {
		return false
	}
	n := RecvNamed(f)
	if n == nil || n.Obj().Pkg() == nil || n.Obj().Pkg().Path() != "math/big" || n.Obj().Name() != "Int" {
		return false
	}
	if len(names) == 0 {
		return true
	}
	for _, nm := range names {
		if f.Name() == nm {
			return true
		}
	}
	return false
}

func buildWrites(fn *ssa.Function) writesIndex {
	idx := writesIndex{}
	AllInstrs(fn, func(in ssa.Instruction) {
		switch x := in.(type) {
		case *ssa.Store:
			r, p := RootPath(x.Addr)
			idx[r] = append(idx[r], write{r, p, []ssa.Value{x.Val}, in})
		case *ssa.MapUpdate:
			r, p := RootPath(x.Map)
			idx[r] = append(idx[r], write{r, p + "[]", []ssa.Value{x.Value, x.Key}, in})
		case ssa.CallInstruction:
			if IsBigIntMutator(x) && len(x.Common().Args) > 0 {
				r, p := RootPath(x.Common().Args[0])
				idx[r] = append(idx[r], write{r, p, x.Common().Args[1:], in})
			}
			// bytes.Buffer / strings.Builder style accumulators: what is written into them is their content
			if f := CallObj(x); f != nil && f.Pkg() != nil && len(x.Common().Args) > 1 {
				switch f.Pkg().Path() {
				case "bytes", "strings", "bufio":
					if n := RecvNamed(f); n != nil && (n.Obj().Name() == "Buffer" || n.Obj().Name() == "Builder" || n.Obj().Name() == "Writer") {
						if strings.HasPrefix(f.Name(), "Write") || f.Name() == "ReadFrom" {
							r, p := RootPath(x.Common().Args[0])
							idx[r] = append(idx[r], write{r, p, x.Common().Args[1:], in})
						}
					}
				}
			}
			// json.Unmarshal / gob Decode / getItem(into): result written from arg — handled by rules
		}
	})
	return idx
}

// ---------------------------------------------------------------------------
// Derives-from (A4)

// Deriv is the backward value-flow closure of one or more values.
type Deriv struct {
	p       *Prog
	shallow bool
	stop    map[ssa.Value]bool
	home    *ssa.Function
	upSeen  map[*ssa.Parameter]bool
	depth   int
	seen    map[ssa.Value]bool
	Nodes   []ssa.Value
	writes  map[*ssa.Function]writesIndex
	binds   map[*ssa.Parameter][]ssa.Value
	// Opaque: calls whose arguments were not followed (unknown callees)
	Opaque []ssa.CallInstruction
}

// Derives computes the closure of v with interprocedural depth (0 = intraprocedural).
func (p *Prog) Derives(depth int, vs ...ssa.Value) *Deriv { return p.DerivesIn(nil, depth, vs...) }

// DerivesIn is Derives with the function under analysis given explicitly (used when the start values
// live in a helper of that function: their parameters are then bound at the helper's call sites).
func (p *Prog) DerivesIn(home *ssa.Function, depth int, vs ...ssa.Value) *Deriv {
	for home != nil && home.Parent() != nil {
		home = home.Parent()
	}
	d := &Deriv{home: home, p: p, depth: depth, seen: map[ssa.Value]bool{}, writes: map[*ssa.Function]writesIndex{}, binds: map[*ssa.Parameter][]ssa.Value{}, upSeen: map[*ssa.Parameter]bool{}}
	for _, v := range vs {
		if d.home == nil && v != nil {
			d.home = parentFn(v)
			for d.home != nil && d.home.Parent() != nil {
				d.home = d.home.Parent()
			}
		}
	}
	for _, v := range vs {
		d.visit(v, depth)
	}
	return d
}

func (d *Deriv) wr(fn *ssa.Function) writesIndex {
	if fn == nil {
		return nil
	}
	w, ok := d.writes[fn]
	if !ok {
		w = buildWrites(fn)
		d.writes[fn] = w
	}
	return w
}

func pathsOverlap(a, b string) bool {
	return strings.HasPrefix(a, b) || strings.HasPrefix(b, a)
}

func parentFn(v ssa.Value) *ssa.Function {
	switch x := v.(type) {
	case ssa.Instruction:
		return x.Parent()
	case *ssa.Parameter:
		return x.Parent()
	case *ssa.FreeVar:
		return x.Parent()
	}
	return nil
}

// visitContent visits everything written into (root,path) in root's function.
func (d *Deriv) visitContent(root ssa.Value, path string, depth int) {
	fn := parentFn(root)
	if fn == nil {
		return
	}
	for _, w := range d.wr(fn)[root] {
		if pathsOverlap(w.path, path) {
			for _, v := range w.vals {
				d.visit(v, depth)
			}
		}
	}
	// writes made by nested closures through captured variables
	if al, ok := root.(*ssa.Alloc); ok {
		for _, ref := range *al.Referrers() {
			if mc, ok := ref.(*ssa.MakeClosure); ok {
				cf, _ := mc.Fn.(*ssa.Function)
				if cf == nil {
					continue
				}
				for i, b := range mc.Bindings {
					if b == root && i < len(cf.FreeVars) {
						fv := cf.FreeVars[i]
						for _, w := range d.wr(cf)[fv] {
							if pathsOverlap(w.path, path) {
								for _, v := range w.vals {
									d.visit(v, depth)
								}
							}
						}
					}
				}
			}
		}
	}
}

func (d *Deriv) visit(v ssa.Value, depth int) {
	if v == nil || d.seen[v] {
		return
	}
	d.seen[v] = true
	d.Nodes = append(d.Nodes, v)
	if d.stop[v] {
		return
	}
	shallow := d.shallow
	d.shallow = false
	switch x := v.(type) {
	case *ssa.Parameter:
		for _, b := range d.binds[x] {
			d.visit(b, depth)
		}
		// parameters of helpers reached by inlining (depth > 0 brought us into the callee) are bound above; a
		// parameter of a function other than the one under analysis is additionally bound at its static call
		// sites (preferring those inside the function under analysis), so that a block extracted into a helper
		// keeps its provenance.
		if fn := x.Parent(); fn != nil && fn.Parent() == nil && d.home != nil && fn != d.home && !d.upSeen[x] && len(d.binds[x]) == 0 {
			d.upSeen[x] = true
			idx := -1
			for i, prm := range fn.Params {
				if prm == x {
					idx = i
				}
			}
			sites := d.p.StaticSites(fn)
			var local []ssa.CallInstruction
			for _, s := range sites {
				top := s.Parent()
				for top.Parent() != nil {
					top = top.Parent()
				}
				if top == d.home {
					local = append(local, s)
				}
			}
			if len(local) > 0 {
				sites = local
			}
			for _, s := range sites {
				if idx >= 0 && idx < len(s.Common().Args) {
					d.visit(s.Common().Args[idx], depth)
				}
			}
		}
		// parameters of anonymous functions: bound at their (static) call
		// sites in the enclosing functions (go func(a){...}(x)).
		if fn := x.Parent(); fn != nil && fn.Parent() != nil {
			idx := -1
			for i, prm := range fn.Params {
				if prm == x {
					idx = i
				}
			}
			for par := fn.Parent(); par != nil && idx >= 0; par = par.Parent() {
				for _, pf := range WithAnon(par) {
					AllInstrs(pf, func(in ssa.Instruction) {
						if c, ok := in.(ssa.CallInstruction); ok && c.Common().StaticCallee() == fn && idx < len(c.Common().Args) {
							d.visit(c.Common().Args[idx], depth)
						}
					})
				}
			}
		}
		// pointer parameter content written in this function
		if !shallow {
			d.visitContent(x, "", depth)
		}
	case *ssa.FreeVar:
		// bound value in the enclosing function
		fn := x.Parent()
		if par := fn.Parent(); par != nil {
			for i, fv := range fn.FreeVars {
				if fv != x {
					continue
				}
				AllInstrs(par, func(in ssa.Instruction) {
					if mc, ok := in.(*ssa.MakeClosure); ok && mc.Fn == fn && i < len(mc.Bindings) {
						d.visit(mc.Bindings[i], depth)
					}
				})
			}
		}
		if !shallow {
			d.visitContent(x, "", depth)
		}
	case *ssa.Const, *ssa.Global, *ssa.Builtin, *ssa.Function:
	case *ssa.Alloc:
		d.visitContent(x, "", depth)
	case *ssa.MakeMap, *ssa.MakeSlice:
		d.visitContent(x, "", depth)
	case *ssa.Phi:
		for _, e := range x.Edges {
			d.visit(e, depth)
		}
	case *ssa.UnOp:
		if x.Op == token.MUL {
			root, path := RootPath(x.X)
			// record the address chain nodes
			d.markChain(x.X)
			d.visitContent(root, path, depth)
			d.visitRootShallow(root, depth)
			return
		}
		d.visit(x.X, depth)
	case *ssa.BinOp:
		d.visit(x.X, depth)
		d.visit(x.Y, depth)
	case *ssa.Extract:
		if c, ok := x.Tuple.(*ssa.Call); ok {
			d.visitCall(c, x.Index, depth)
			return
		}
		d.visit(x.Tuple, depth)
	case *ssa.Call:
		d.visitCall(x, 0, depth)
	case *ssa.Convert:
		d.visit(x.X, depth)
	case *ssa.ChangeType:
		d.visit(x.X, depth)
	case *ssa.ChangeInterface:
		d.visit(x.X, depth)
	case *ssa.MakeInterface:
		d.visit(x.X, depth)
	case *ssa.SliceToArrayPointer:
		d.visit(x.X, depth)
	case *ssa.MultiConvert:
		d.visit(x.X, depth)
	case *ssa.Field:
		d.visit(x.X, depth)
	case *ssa.FieldAddr:
		root, path := RootPath(x)
		d.markChain(x)
		d.visitContent(root, path, depth)
		d.visitRootShallow(root, depth)
	case *ssa.Index:
		d.visit(x.X, depth)
	case *ssa.IndexAddr:
		root, path := RootPath(x)
		d.markChain(x)
		d.visitContent(root, path, depth)
		d.visitRootShallow(root, depth)
	case *ssa.Lookup:
		d.visit(x.X, depth)
	case *ssa.Slice:
		d.visit(x.X, depth)
	case *ssa.TypeAssert:
		d.visit(x.X, depth)
	case *ssa.Next:
		d.visit(x.Iter, depth)
	case *ssa.Range:
		d.visit(x.X, depth)
	case *ssa.MakeClosure:
		for _, b := range x.Bindings {
			d.visit(b, depth)
		}
	case *ssa.Select:
		for _, st := range x.States {
			d.visit(st.Chan, depth)
		}
	}
}

// visitRootShallow records a root object reached through a field/index path
// without expanding the writes to its other components.
func (d *Deriv) visitRootShallow(root ssa.Value, depth int) {
	switch root.(type) {
	case *ssa.Alloc, *ssa.MakeMap, *ssa.MakeSlice:
		if !d.seen[root] {
			d.seen[root] = true
			d.Nodes = append(d.Nodes, root)
		}
	case *ssa.Parameter, *ssa.FreeVar:
		// reached through a field path: bind the parameter, but do not pull in what is written
		// to its *other* fields in this function
		d.shallow = true
		d.visit(root, depth)
		d.shallow = false
	default:
		d.visit(root, depth)
	}
}

func (d *Deriv) markChain(v ssa.Value) {
	for {
		switch x := v.(type) {
		case *ssa.FieldAddr:
			d.mark(v)
			v = x.X
		case *ssa.IndexAddr:
			d.mark(v)
			v = x.X
		case *ssa.Slice:
			d.mark(v)
			v = x.X
		case *ssa.Field:
			d.mark(v)
			v = x.X
		default:
			return // the root is visited by the caller
		}
	}
}

func (d *Deriv) mark(v ssa.Value) {
	if !d.seen[v] {
		d.seen[v] = true
		d.Nodes = append(d.Nodes, v)
	}
}

// transparent reports whether the result of a call to f derives from its
// arguments in the obvious way (pure library helpers).
func transparent(f *types.Func) bool {
	if f == nil || f.Pkg() == nil {
		return false
	}
	switch f.Pkg().Path() {
	case "math/big", "strings", "bytes", "strconv", "fmt", "encoding/json", "encoding/hex", "encoding/base64",
		"net/url", "net", "time", "path", "unicode", "errors", "sort", "math", "context", "io", "bufio",
		"github.com/ethereum/go-ethereum/crypto", "github.com/ethereum/go-ethereum/common",
		"github.com/ethereum/go-ethereum/p2p/discv5":
		return true
	}
	return false
}

func (d *Deriv) visitCall(c *ssa.Call, resultIdx int, depth int) {
	if !d.seen[c] {
		d.seen[c] = true
		d.Nodes = append(d.Nodes, c)
	}
	cc := c.Common()
	if b, ok := cc.Value.(*ssa.Builtin); ok {
		switch b.Name() {
		case "append", "len", "cap", "min", "max", "copy", "real", "imag", "complex":
			for _, a := range cc.Args {
				d.visit(a, depth)
			}
		}
		return
	}
	f := CallObj(c)
	if transparent(f) {
		if cc.IsInvoke() {
			d.visit(cc.Value, depth)
		}
		for _, a := range cc.Args {
			d.visit(a, depth)
		}
		return
	}
	if callee := cc.StaticCallee(); callee != nil && len(callee.Blocks) > 0 && d.p.InRepo(callee) && depth > 0 {
		// bind parameters, then follow the callee's returned values
		for i, prm := range callee.Params {
			if i < len(cc.Args) {
				d.binds[prm] = append(d.binds[prm], cc.Args[i])
				if d.seen[prm] {
					d.visit(cc.Args[i], depth-1)
				}
			}
		}
		if mc, ok := cc.Value.(*ssa.MakeClosure); ok {
			for _, b := range mc.Bindings {
				_ = b // free variables resolve through FreeVar case
			}
		}
		AllInstrs(callee, func(in ssa.Instruction) {
			if r, ok := in.(*ssa.Return); ok && resultIdx < len(r.Results) {
				d.visit(r.Results[resultIdx], depth-1)
			}
		})
		return
	}
	d.Opaque = append(d.Opaque, c)
}

// Has reports whether some visited value satisfies pred.
func (d *Deriv) Has(pred func(ssa.Value) bool) bool {
	for _, n := range d.Nodes {
		if pred(n) {
			return true
		}
	}
	return false
}

// HasValue reports whether v was visited.
func (d *Deriv) HasValue(v ssa.Value) bool { return d.seen[v] }

// CallTo returns the first visited call whose static object satisfies pred.
func (d *Deriv) CallTo(pred func(*types.Func) bool) *ssa.Call {
	for _, n := range d.Nodes {
		if c, ok := n.(*ssa.Call); ok {
			if f := CallObj(c); f != nil && pred(f) {
				return c
			}
		}
	}
	return nil
}

// CallsTo returns all visited calls whose static object satisfies pred.
func (d *Deriv) CallsTo(pred func(*types.Func) bool) []*ssa.Call {
	var out []*ssa.Call
	for _, n := range d.Nodes {
		if c, ok := n.(*ssa.Call); ok {
			if f := CallObj(c); f != nil && pred(f) {
				out = append(out, c)
			}
		}
	}
	return out
}

// HasFieldNamed reports whether a field selection of a field called name
// (on a struct type named typ, any package, "" = any) was visited.
func (d *Deriv) HasFieldNamed(typ, name string) bool {
	for _, n := range d.Nodes {
		var base types.Type
		switch x := n.(type) {
		case *ssa.FieldAddr:
			base = x.X.Type()
		case *ssa.Field:
			base = x.X.Type()
		default:
			continue
		}
		fv := FieldOf(n)
		if fv == nil || Ident(fv.Name()) != Ident(name) {
			continue
		}
		if typ == "" {
			return true
		}
		if p, ok := base.Underlying().(*types.Pointer); ok {
			base = p.Elem()
		}
		if nn, ok := base.(*types.Named); ok && Ident(nn.Obj().Name()) == typ {
			return true
		}
	}
	return false
}

// Params returns the visited parameters.
func (d *Deriv) Params() []*ssa.Parameter {
	var out []*ssa.Parameter
	for _, n := range d.Nodes {
		if p, ok := n.(*ssa.Parameter); ok {
			out = append(out, p)
		}
	}
	return out
}

// HasParamNamed reports whether a parameter of fn with this name was visited.
func (d *Deriv) HasParam(prm *ssa.Parameter) bool { return d.seen[prm] }

// ConstStrings returns all visited constant strings.
func (d *Deriv) ConstStrings() []string {
	var out []string
	for _, n := range d.Nodes {
		if s, ok := ConstString(n); ok {
			out = append(out, s)
		}
	}
	return out
}

// DerivesDeep is Derives with interprocedural depth 3 (helpers are followed both into their bodies and, for
// their parameters, back to their call sites).
func (p *Prog) DerivesDeep(vs ...ssa.Value) *Deriv { return p.Derives(3, vs...) }

// DerivesStop is Derives that records but does not expand the given values.
func (p *Prog) DerivesStop(stop []ssa.Value, depth int, vs ...ssa.Value) *Deriv {
	d := &Deriv{p: p, depth: depth, seen: map[ssa.Value]bool{}, writes: map[*ssa.Function]writesIndex{}, binds: map[*ssa.Parameter][]ssa.Value{}, upSeen: map[*ssa.Parameter]bool{}, stop: map[ssa.Value]bool{}}
	for _, s := range stop {
		d.stop[s] = true
	}
	for _, v := range vs {
		if d.home == nil && v != nil {
			d.home = parentFn(v)
			for d.home != nil && d.home.Parent() != nil {
				d.home = d.home.Parent()
			}
		}
	}
	for _, v := range vs {
		d.visit(v, depth)
	}
	return d
}
