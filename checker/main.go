// vipcheck decides the structural obligations of the vipnode properties
// C01..C20 from /repo's current source, without executing any of it.
package main

import (
	"flag"
	"fmt"
	"os"
	"runtime/debug"
	"runtime/pprof"
	"sort"
	"strconv"
	"strings"
	"time"

	"vipcheck/an"
	"vipcheck/rules"
)

func main() {
	repo := flag.String("repo", "/repo", "repository root")
	prop := flag.String("prop", "", "property id (C01..C20) or 'all'")
	tier := flag.String("tier", "quick", "quick|thorough")
	only := flag.String("only", "", "report only this obligation key")
	evDir := flag.String("evidence", "/verif/evidence", "evidence directory")
	repDir := flag.String("reports", "/verif/reports", "violation reports directory")
	known := flag.String("known", "/verif/known-findings.txt", "known findings file")
	list := flag.Bool("list", false, "list obligations")
	flag.Parse()
	if pf := os.Getenv("VIPCHECK_PROF"); pf != "" {
		f, _ := os.Create(pf)
		pprof.StartCPUProfile(f)
		defer pprof.StopCPUProfile()
	}
	if *prop == "" {
		fmt.Fprintln(os.Stderr, "usage: vipcheck -prop Cnn [-tier quick|thorough]")
		os.Exit(2)
	}
	seed := 0
	if s := os.Getenv("VERIF_SEED"); s != "" {
		seed, _ = strconv.Atoi(s)
	}
	start := time.Now()
	var props []string
	if *prop == "all" {
		for id := range rules.Registry {
			props = append(props, id)
		}
		sort.Strings(props)
	} else {
		props = strings.Split(*prop, ",")
	}
	for _, id := range props {
		if _, ok := rules.Registry[id]; !ok {
			fmt.Printf("UNDECIDED no rules registered for %s\nVIOLATION property=%s replay=\n", id, id)
			os.Exit(1)
		}
	}
	p, err := an.Load(*repo, false, 19)
	if err == nil {
		rules.ResolveAnchors(p)
		rules.ResolveAuxIndexes(p)
	}
	exit := 0
	if err != nil {
		for _, id := range props {
			r := an.NewRun(id, nil)
			r.Undec("load", "repo", 0, "cannot load/type-check the repository: %v", err)
			if r.Finish(finishOpts(id, *tier, seed, *evDir, *repDir, *known, start, nil)) != 0 {
				exit = 1
			}
		}
		os.Exit(exit)
	}
	if *tier == "thorough" {
		p.WithCHA = true
	}
	for _, id := range props {
		t0 := time.Now()
		spec := rules.Registry[id]
		r := an.NewRun(id, p)
		r.Only = *only
		func() {
			defer func() {
				if e := recover(); e != nil {
					r.Undec("analyser", "panic", 0, "analyser panicked: %v\n%s", e, firstLines(string(debug.Stack()), 30))
				}
			}()
			spec.Run(p, r, *tier)
			rules.RunGeneric(id, p, r)
		}()
		fo := finishOpts(id, *tier, seed, *evDir, *repDir, *known, start, &spec)
		if *tier == "thorough" {
			fo.Extra = map[string]interface{}{"cha_cross_check_extra_callees": p.CHAExtra}
		}
		if len(props) > 1 {
			fo.WallS = time.Since(t0).Seconds()
		}
		if *list {
			for _, o := range r.Obls {
				fmt.Printf("%-12s %s  [%s] %s\n", o.Status, o.Key, o.Pos, o.Detail)
			}
		}
		if r.Finish(fo) != 0 {
			exit = 1
		}
	}
	pprof.StopCPUProfile()
	os.Exit(exit)
}

func firstLines(s string, n int) string {
	ls := strings.Split(s, "\n")
	if len(ls) > n {
		ls = ls[:n]
	}
	return strings.Join(ls, "\n")
}

func finishOpts(id, tier string, seed int, evDir, repDir, known string, start time.Time, spec *rules.Spec) an.FinishOpts {
	fo := an.FinishOpts{
		Tier:        tier,
		Seed:        seed,
		EvidenceOut: evDir + "/" + id + ".json",
		ReportsDir:  repDir,
		KnownFile:   known,
		WallS:       time.Since(start).Seconds(),
		CheckerCmd:  "./check " + id + " " + tier,
		Trusted: []string{
			"go/types type checker and go/ssa construction (x/tools v0.29.0)",
			"VTA call graph for dynamic calls; callback approximation for closures handed to libraries",
			"vipcheck's own analyses (an/*.go), exercised by the seeded mutants under /verif/selftest and /verif/seeded",
			"documented semantics of the standard library, badger, gorilla/websocket and go-ethereum crypto",
		},
		Assumptions: []string{
			"structural necessary conditions only: the rule set does not decide run-time values, schedules or crash points",
			"single build configuration (linux/amd64, no build tags) — the repository has no tagged files",
		},
	}
	if spec != nil {
		fo.Explanation = spec.Explanation + " The obligations listed in this file are the authoritative list of what was decided in this run: rules added in later seed rounds (shared rules of other properties, the repository-wide discipline rules err-polarity, loop-visits-all, cancel-after-use, trim-cutset, go-captures-live, shared-result, no-relock, pooled-escape, lock-copy, pure-stringer, param-backing-write, loop-decode-reuse, closure-loop-var, field-backing-append, response-outlives-context, and the closed RPC surface) appear there with their own statements; DESIGN.md sections 1.4 and 8 say which property runs which."
		fo.Exhaustive = spec.Exhaustive
		fo.Assumptions = append(fo.Assumptions, spec.NotDecided...)
	} else {
		fo.Explanation = "repository could not be loaded; nothing was analysed"
	}
	return fo
}
