package rules

import (
	"go/token"
	"go/types"
	"sort"
	"strconv"
	"strings"

	"golang.org/x/tools/go/ssa"

	"vipcheck/an"
)

// Abstract key spaces shared by both drivers (frozen six-line table; each
// entry confirmed by reading both drivers):
//
//	memory field   badger prefix    space
//	nodes          vip:node:        node
//	memNode.peers  vip:peers:       peers
//	accounts       vip:account:     account
//	balances       vip:balance:     balance
//	trials         vip:trial:       trial
//	nonces         vip:nonce:       nonce
var memFieldSpace = map[string]string{
	"nodes": "node", "peers": "peers", "accounts": "account", "balances": "balance", "trials": "trial", "nonces": "nonce",
}
var badgerPrefixSpace = map[string]string{
	"vip:node:": "node", "vip:peers:": "peers", "vip:account:": "account", "vip:balance:": "balance", "vip:trial:": "trial", "vip:nonce:": "nonce",
	"vip:version": "version",
}

type opKind int

const (
	opRead opKind = iota
	opWrite
	opDelete
	opIter
)

func (k opKind) String() string { return [...]string{"read", "write", "delete", "iter"}[k] }

// storeOp is one access to the driver's state.
type storeOp struct {
	Kind   opKind
	Spaces []string // possible key spaces (a phi of keys gives several)
	In     ssa.Instruction
	Fn     *ssa.Function
	Key    ssa.Value // key/index value (memory: map index; badger: key slice)
	Val    ssa.Value // written value / decode target (address for badger)
	Via    string    // helper used
}

func (o storeOp) space() string { return strings.Join(o.Spaces, "|") }

func (o storeOp) inSpace(s string) bool {
	for _, x := range o.Spaces {
		if x == s {
			return true
		}
	}
	return false
}

// memMapField returns the memoryStore/memNode field name a map value comes from.
func memMapField(v ssa.Value) string { return memMapFieldSeen(v, map[ssa.Value]bool{}) }

func memMapFieldSeen(v ssa.Value, seen map[ssa.Value]bool) string {
	for {
		if seen[v] {
			return ""
		}
		seen[v] = true
		switch x := v.(type) {
		case *ssa.UnOp:
			if x.Op == token.MUL {
				v = x.X
				continue
			}
		case *ssa.FieldAddr:
			if f := an.FieldOf(x); f != nil {
				if _, ok := f.Type().Underlying().(*types.Map); ok {
					return an.Ident(f.Name())
				}
			}
		case *ssa.Field:
			if f := an.FieldOf(x); f != nil {
				if _, ok := f.Type().Underlying().(*types.Map); ok {
					return an.Ident(f.Name())
				}
			}
		case *ssa.Phi:
			// all (non-cyclic) edges must agree
			name := ""
			for _, e := range x.Edges {
				if seen[e] {
					continue
				}
				n := memMapFieldSeen(e, seen)
				if name == "" {
					name = n
				} else if n != name {
					return ""
				}
			}
			return name
		}
		return ""
	}
}

// memoryOps extracts the state accesses of a memory-driver method.
func memoryOps(p *an.Prog, m *ssa.Function) []storeOp {
	var out []storeOp
	// accesses made by an unexported helper method of the store (called with the lock held) count as accesses of the
	// call site in the contract method, like the transaction helpers of the persistent driver
	type scan struct {
		fn, attrFn *ssa.Function
		attrIn     ssa.Instruction
		depth      int
	}
	var work []scan
	for _, fn := range an.WithAnon(m) {
		work = append(work, scan{fn, fn, nil, 0})
	}
	seenHelper := map[*ssa.Function]bool{m: true}
	for wi := 0; wi < len(work); wi++ {
		sc := work[wi]
		fn := sc.attrFn
		attr := func(in ssa.Instruction) ssa.Instruction {
			if sc.attrIn != nil {
				return sc.attrIn
			}
			return in
		}
		an.AllInstrs(sc.fn, func(in ssa.Instruction) {
			if c, ok := in.(ssa.CallInstruction); ok && sc.depth < 2 {
				if h := c.Common().StaticCallee(); h != nil && !seenHelper[h] && h.Pkg == m.Pkg && len(h.Blocks) > 0 && h.Signature.Recv() != nil && m.Signature.Recv() != nil &&
					types.Identical(h.Signature.Recv().Type(), m.Signature.Recv().Type()) && h.Object() != nil && !h.Object().Exported() {
					seenHelper[h] = true
					at := in
					if sc.attrIn != nil {
						at = sc.attrIn
					}
					for _, hf := range an.WithAnon(h) {
						work = append(work, scan{hf, fn, at, sc.depth + 1})
					}
				}
			}
			if auxSkip[in] {
				return // maintenance of a verified inverse index: part of the primary's write
			}
			switch x := in.(type) {
			case *ssa.Lookup:
				if f := memMapField(x.X); f != "" {
					out = append(out, storeOp{Kind: opRead, Spaces: []string{memSpace(f)}, In: attr(in), Fn: fn, Key: x.Index, Via: "lookup " + f})
				}
			case *ssa.MapUpdate:
				if f := memMapField(x.Map); f != "" {
					out = append(out, storeOp{Kind: opWrite, Spaces: []string{memSpace(f)}, In: attr(in), Fn: fn, Key: x.Key, Val: x.Value, Via: "mapupdate " + f})
				}
			case *ssa.Store:
				// a table that keeps its records by pointer (map[K]*rec): a store through the pointer found in the table
				// is a write of that record, in place
				if lk, f := tableRecordOf(x.Addr); lk != nil {
					out = append(out, storeOp{Kind: opWrite, Spaces: []string{memSpace(f)}, In: attr(in), Fn: fn, Key: lk.Index, Val: recordPointer(x.Addr), Via: "store through " + f})
				}
			case *ssa.Range:
				if f := memMapField(x.X); f != "" {
					out = append(out, storeOp{Kind: opIter, Spaces: []string{memSpace(f)}, In: attr(in), Fn: fn, Via: "range " + f})
				}
			case ssa.CallInstruction:
				if b, ok := x.Common().Value.(*ssa.Builtin); ok && len(x.Common().Args) >= 1 {
					if f := memMapField(x.Common().Args[0]); f != "" {
						switch b.Name() {
						case "delete":
							out = append(out, storeOp{Kind: opDelete, Spaces: []string{memSpace(f)}, In: attr(in), Fn: fn, Key: x.Common().Args[1], Via: "delete " + f})
						case "len":
							out = append(out, storeOp{Kind: opRead, Spaces: []string{memSpace(f)}, In: attr(in), Fn: fn, Via: "len " + f})
						}
					}
				}
			}
		})
	}
	return out
}

// recordPointer: the pointer value an address is rooted at (&ptr.f.g -> ptr).
func recordPointer(addr ssa.Value) ssa.Value {
	root, _ := an.RootPath(addr)
	return root
}

// tableRecordOf: addr is a field address inside a record reached through a pointer that was looked up in one of the
// memory driver's tables (v, ok := s.nodes[id]; v.f = ...): returns that lookup and the table's field name.
func tableRecordOf(addr ssa.Value) (*ssa.Lookup, string) {
	if _, isFA := addr.(*ssa.FieldAddr); !isFA {
		return nil, ""
	}
	root := recordPointer(addr)
	if _, isPtr := root.Type().Underlying().(*types.Pointer); !isPtr {
		return nil, ""
	}
	if ex, ok := root.(*ssa.Extract); ok {
		root = ex.Tuple
	}
	lk, ok := root.(*ssa.Lookup)
	if !ok {
		return nil, ""
	}
	f := memMapField(lk.X)
	if f == "" {
		return nil, ""
	}
	return lk, f
}

func memSpace(field string) string {
	if s, ok := memFieldSpace[field]; ok {
		return s
	}
	if ix := auxIndexes[field]; ix != nil && ix.Verified {
		return ix.Space // a verified inverse index answers for the key space it mirrors (auxindex.go)
	}
	return "?mem:" + field
}

// badgerKeySpaces returns the key spaces a badger key value may belong to.
func badgerKeySpaces(p *an.Prog, key ssa.Value) []string {
	d := p.Derives(3, key) // through key helpers (nodeKey(id) -> prefixedKey(prefix, id))
	set := map[string]bool{}
	for _, s := range d.ConstStrings() {
		if !strings.HasPrefix(s, "vip:") {
			continue
		}
		matched := false
		for pre, sp := range badgerPrefixSpace {
			if strings.HasPrefix(s, pre) {
				set[sp] = true
				matched = true
			}
		}
		if !matched {
			set["?badger:"+s] = true
		}
	}
	// keys obtained from an iterator item inherit the iterator's prefix: handled by caller
	var out []string
	for s := range set {
		out = append(out, s)
	}
	sort.Strings(out)
	return out
}

func isBadgerTxnMethod(f *types.Func, names ...string) bool {
	for _, n := range names {
		if an.IsMethod(f, badgerLib, "Txn", n) {
			return true
		}
	}
	return false
}

// badgerOps extracts the state accesses of a badger-driver method (including its closures).
func badgerOps(p *an.Prog, m *ssa.Function) []storeOp {
	var out []storeOp
	// (function scanned, function and instruction the op is attributed to): accesses made by a helper that is handed
	// the transaction (nodeBalanceKey(txn, id), ...) count as accesses of the call site in the method's own closure
	type scan struct {
		fn     *ssa.Function
		attrFn *ssa.Function
		attrIn ssa.Instruction
		depth  int
	}
	var work []scan
	for _, fn := range an.WithAnon(m) {
		work = append(work, scan{fn, fn, nil, 0})
	}
	seenHelper := map[*ssa.Function]bool{}
	for wi := 0; wi < len(work); wi++ {
		sc := work[wi]
		fn := sc.fn
		for _, c := range an.Calls(fn, false) {
			f := an.CallObj(c)
			if f == nil {
				continue
			}
			args := c.Common().Args
			in := c.(ssa.Instruction)
			opFn := sc.attrFn
			if sc.attrIn != nil {
				in = sc.attrIn
			}
			if h := c.Common().StaticCallee(); h != nil && sc.depth < 2 && isTxnHelper(p, h) && !seenHelper[h] {
				seenHelper[h] = true
				for _, hf := range an.WithAnon(h) {
					work = append(work, scan{hf, opFn, in, sc.depth + 1})
				}
				continue
			}
			mk := func(k opKind, key, val ssa.Value, via string) {
				op := storeOp{Kind: k, In: in, Fn: opFn, Key: key, Val: val, Via: via}
				if key != nil {
					op.Spaces = badgerKeySpaces(p, key)
				}
				if len(op.Spaces) == 0 {
					op.Spaces = []string{"?unknown-key"}
				}
				out = append(out, op)
			}
			switch {
			case an.IsFunc(f, pkgBadger, "getItem") && len(args) == 3:
				mk(opRead, args[1], args[2], "getItem")
			case an.IsFunc(f, pkgBadger, "hasKey") && len(args) == 2:
				mk(opRead, args[1], nil, "hasKey")
			case an.IsFunc(f, pkgBadger, "setItem") && len(args) == 3:
				mk(opWrite, args[1], args[2], "setItem")
			case an.IsFunc(f, pkgBadger, "setExpiringItem") && len(args) == 4:
				mk(opWrite, args[1], args[2], "setExpiringItem")
			case an.IsFunc(f, pkgBadger, "loopItem") && len(args) == 4:
				mk(opIter, args[1], args[2], "loopItem")
			case an.IsFunc(f, pkgBadger, "getVersion"):
				out = append(out, storeOp{Kind: opRead, Spaces: []string{"version"}, In: in, Fn: opFn, Via: "getVersion"})
			case an.IsFunc(f, pkgBadger, "setVersion"):
				out = append(out, storeOp{Kind: opWrite, Spaces: []string{"version"}, In: in, Fn: opFn, Via: "setVersion"})
			case an.IsFunc(f, pkgBadger, "checkVersion"):
				out = append(out, storeOp{Kind: opRead, Spaces: []string{"version"}, In: in, Fn: opFn, Via: "checkVersion"})
			case isBadgerTxnMethod(f, "Get") && len(args) == 2:
				mk(opRead, args[1], nil, "txn.Get")
			case isBadgerTxnMethod(f, "Set") && len(args) == 3:
				mk(opWrite, args[1], args[2], "txn.Set")
			case isBadgerTxnMethod(f, "SetEntry") && len(args) == 2:
				mk(opWrite, args[1], nil, "txn.SetEntry")
			case isBadgerTxnMethod(f, "Delete") && len(args) == 2:
				mk(opDelete, args[1], nil, "txn.Delete")
			case an.IsMethod(f, badgerLib, "Iterator", "Seek") && len(args) == 2:
				mk(opIter, args[1], nil, "it.Seek")
			}
		}
	}
	// a delete/write whose key comes from an iterator item inherits the spaces of the Seek prefixes of its function
	for i := range out {
		if out[i].Spaces[0] == "?unknown-key" && out[i].Key != nil {
			d := p.Derives(0, out[i].Key)
			fromItem := d.CallTo(func(f *types.Func) bool {
				return an.IsMethod(f, badgerLib, "Item", "Key") || an.IsMethod(f, badgerLib, "Item", "KeyCopy")
			}) != nil
			if fromItem {
				var sp []string
				for _, o := range out {
					if o.Kind == opIter && o.Fn == out[i].Fn {
						sp = append(sp, o.Spaces...)
					}
				}
				if len(sp) > 0 {
					out[i].Spaces = sp
				}
			}
		}
	}
	return out
}

// driverKind returns "memory" or "badger" for a driver type.
func driverKind(d *types.Named) string {
	if d.Obj().Pkg() == nil {
		return ""
	}
	switch d.Obj().Pkg().Path() {
	case pkgMemory:
		return "memory"
	case pkgBadger:
		return "badger"
	}
	return ""
}

// driverOps dispatches on the driver kind.
func driverOps(p *an.Prog, d *types.Named, m *ssa.Function) []storeOp {
	switch driverKind(d) {
	case "memory":
		return memoryOps(p, m)
	case "badger":
		return badgerOps(p, m)
	}
	return nil
}

// txnRegions returns the db.Update / db.View calls of a badger method together with their closure.
type txnRegion struct {
	Call    ssa.CallInstruction
	Update  bool
	Closure *ssa.Function
}

func txnRegions(p *an.Prog, m *ssa.Function) []txnRegion {
	var out []txnRegion
	for _, fn := range an.WithAnon(m) {
		for _, c := range an.Calls(fn, false) {
			f := an.CallObj(c)
			isU := an.IsMethod(f, badgerLib, "DB", "Update")
			isV := an.IsMethod(f, badgerLib, "DB", "View")
			args := c.Common().Args
			if !isU && !isV {
				// a transaction wrapper of the driver (retry on conflict, ...): the closure handed to it is the region
				if w := c.Common().StaticCallee(); w != nil {
					if pi, upd, ok := txnWrapperInfo(p, w); ok && pi < len(args) {
						reg := txnRegion{Call: c, Update: upd}
						switch x := args[pi].(type) {
						case *ssa.MakeClosure:
							reg.Closure, _ = x.Fn.(*ssa.Function)
						case *ssa.Function:
							reg.Closure = x
						}
						out = append(out, reg)
					}
				}
				continue
			}
			reg := txnRegion{Call: c, Update: isU}
			if len(args) == 2 {
				switch x := args[1].(type) {
				case *ssa.MakeClosure:
					reg.Closure, _ = x.Fn.(*ssa.Function)
				case *ssa.Function:
					reg.Closure = x
				}
				// a method value (db.Update(m.step)) is a synthetic bound-method wrapper: the region is the method
				if cl := reg.Closure; cl != nil && cl.Synthetic != "" {
					for _, cc := range an.Calls(cl, false) {
						if cal := cc.Common().StaticCallee(); cal != nil && p.InRepo(cal) && len(cal.Blocks) > 0 {
							reg.Closure = cal
						}
					}
				}
			}
			out = append(out, reg)
		}
	}
	return out
}

// regionOf returns the function whose CFG is the critical region of a driver
// method: the Update/View closure for badger (nil if not exactly one), the
// method itself for memory.
func regionOf(p *an.Prog, d *types.Named, m *ssa.Function) *ssa.Function {
	if driverKind(d) == "memory" {
		return m
	}
	regs := txnRegions(p, m)
	if len(regs) != 1 || regs[0].Closure == nil {
		return nil
	}
	return regs[0].Closure
}

// enumPaths enumerates the acyclic entry->return paths of fn (cap paths).
// visit receives the block sequence and the Return; it returns false to stop.
func enumPaths(fn *ssa.Function, cap int, visit func(path []*ssa.BasicBlock, ret *ssa.Return)) (n int, complete bool) {
	if len(fn.Blocks) == 0 {
		return 0, true
	}
	complete = true
	onPath := map[*ssa.BasicBlock]int{}
	var path []*ssa.BasicBlock
	var rec func(b *ssa.BasicBlock)
	rec = func(b *ssa.BasicBlock) {
		if n >= cap {
			complete = false
			return
		}
		// allow each block at most twice on a path (one loop iteration)
		if onPath[b] >= 2 {
			return
		}
		onPath[b]++
		path = append(path, b)
		if len(b.Succs) == 0 {
			if ret, ok := b.Instrs[len(b.Instrs)-1].(*ssa.Return); ok {
				n++
				cp := append([]*ssa.BasicBlock(nil), path...)
				visit(cp, ret)
			}
		}
		for _, s := range b.Succs {
			rec(s)
		}
		path = path[:len(path)-1]
		onPath[b]--
	}
	rec(fn.Blocks[0])
	return n, complete
}

// returnClass classifies the error result of a Return: "nil", "nonnil",
// "call" (result of a call: success iff that call succeeds) or "unknown".
func returnClass(ret *ssa.Return) (string, ssa.Value) {
	if len(ret.Results) == 0 {
		return "nil", nil
	}
	rr := an.RetResults(ret)
	res := rr[len(rr)-1]
	if !an.IsErrorType(res.Type()) {
		return "nil", nil
	}
	if c, ok := res.(*ssa.Const); ok && c.IsNil() {
		return "nil", nil
	}
	if definitelyNonNilError(res) || returnOnFailEdge(ret, res) {
		return "nonnil", res
	}
	switch x := res.(type) {
	case *ssa.Call:
		return "call", x
	case *ssa.Extract:
		if c, ok := x.Tuple.(*ssa.Call); ok {
			return "call", c
		}
	}
	return "unknown", res
}

// isTxnHelper: an unexported function of the badger package (not one of the access primitives, not a driver method)
// that receives the transaction.
func isTxnHelper(p *an.Prog, h *ssa.Function) bool {
	if h.Pkg == nil || h.Pkg.Pkg.Path() != pkgBadger || len(h.Blocks) == 0 || !p.InRepo(h) || p.IsTestFunc(h) {
		return false
	}
	switch an.Ident(h.Name()) {
	case "getItem", "setItem", "setExpiringItem", "loopItem", "hasKey", "getVersion", "setVersion", "checkVersion":
		return false
	}
	if h.Signature.Recv() != nil {
		if n := namedOf(h.Signature.Recv().Type()); n != nil && an.TName(n) == "badgerStore" {
			return false
		}
	}
	for _, prm := range h.Params {
		if n := namedOf(prm.Type()); n != nil && n.Obj().Name() == "Txn" {
			return true
		}
	}
	return false
}

// txnWrapperInfo: w is a function of the badger package with a parameter of type func(*badger.Txn) error that it
// passes, unchanged, to db.Update / db.View (possibly several times: a retry loop). Returns the parameter's index in
// the call's argument list and whether the transactions are read-write.
func txnWrapperInfo(p *an.Prog, w *ssa.Function) (int, bool, bool) {
	if w == nil || w.Pkg == nil || w.Pkg.Pkg.Path() != pkgBadger || len(w.Blocks) == 0 || p.IsTestFunc(w) {
		return 0, false, false
	}
	idx := -1
	for i, prm := range w.Params {
		if sig, ok := prm.Type().Underlying().(*types.Signature); ok && sig.Params().Len() == 1 && sig.Results().Len() == 1 {
			if n := namedOf(sig.Params().At(0).Type()); n != nil && n.Obj().Name() == "Txn" {
				idx = i
			}
		}
	}
	if idx < 0 {
		return 0, false, false
	}
	found, upd := false, false
	for _, c := range an.Calls(w, false) {
		f := an.CallObj(c)
		isU := an.IsMethod(f, badgerLib, "DB", "Update")
		isV := an.IsMethod(f, badgerLib, "DB", "View")
		if (isU || isV) && len(c.Common().Args) == 2 && an.Unspill(c.Common().Args[1]) == ssa.Value(w.Params[idx]) {
			found = true
			upd = upd || isU
		}
	}
	return idx, upd, found
}

// checkTxnWrappers: a transaction wrapper reports what the transaction reported — it returns nil only when one of its
// db.Update/View calls succeeded, and any other return carries that call's error (a wrapper that gives up after some
// retries and returns nil acknowledges a write that never happened).
func checkTxnWrappers(p *an.Prog, r *an.Run) {
	for _, w := range badgerPkgFuncs(p) {
		if _, _, ok := txnWrapperInfo(p, w); !ok {
			continue
		}
		r.Analysed(an.FuncName(w))
		var bad []string
		var txCalls []ssa.CallInstruction
		var cut []an.Edge
		for _, c := range an.Calls(w, false) {
			f := an.CallObj(c)
			if an.IsMethod(f, badgerLib, "DB", "Update") || an.IsMethod(f, badgerLib, "DB", "View") {
				txCalls = append(txCalls, c)
				cut = append(cut, an.ErrEdges(c).Succ...)
			}
		}
		noSucc := an.ReachAvoiding(w, an.EdgeSet(cut))
		an.AllInstrs(w, func(in ssa.Instruction) {
			ret, ok := in.(*ssa.Return)
			if !ok || len(ret.Results) == 0 || (w.Recover != nil && ret.Block() == w.Recover) {
				return
			}
			res := an.RetResults(ret)
			last := res[len(res)-1]
			if c, isC := last.(*ssa.Const); isC && c.IsNil() {
				if noSucc[ret.Block()] {
					bad = append(bad, "returns nil at "+p.Pos(ret.Pos())+" although no transaction has been committed successfully (e.g. after giving up on conflicts): the caller takes a write for done that never happened")
				}
				return
			}
			if definitelyNonNilError(last) {
				return
			}
			// otherwise the value must be a transaction call's own result
			d := p.Derives(0, last)
			fromTx := false
			for _, tc := range txCalls {
				if v := tc.Value(); v != nil && d.HasValue(v) {
					fromTx = true
				}
			}
			if !fromTx {
				bad = append(bad, "the value returned at "+p.Pos(ret.Pos())+" is not the transaction's own result")
			}
			// and no nil constant may be merged into it on a path without a successful transaction
			for _, nd := range d.Nodes {
				if ph, ok := nd.(*ssa.Phi); ok {
					for i, e := range ph.Edges {
						if c, isC := e.(*ssa.Const); isC && c.IsNil() && noSucc[ph.Block().Preds[i]] && len(ph.Block().Preds[i].Instrs) > 0 && ph.Block().Preds[i] != w.Blocks[0] {
							bad = append(bad, "a nil result can be returned at "+p.Pos(ret.Pos())+" without a successful transaction")
						}
					}
				}
			}
		})
		r.Check(len(bad) == 0, "one-txn", "wrapper:"+an.FuncName(w), w.Pos(), "the wrapper returns the transaction's own outcome", "%s", strings.Join(dedup(bad), "; "))
	}
	checkRetryClosures(p, r)
	checkTxnOutcome(p, r, "badger", nil)
	checkTxnClosurePure(p, r)
}

// checkTxnOutcome: a driver function that runs a transaction itself reports success only when the transaction did:
// from the transaction call, along edges other than its success edges, no return of a nil error is reachable (a retry
// loop that falls out after its last conflict, an error variable shadowed inside the loop). Functions for which only
// returns true are judged; the obligation is construct-keyed so several properties can share it.
func checkTxnOutcome(p *an.Prog, r *an.Run, construct string, only func(*ssa.Function) bool) {
	var bad []string
	sites := 0
	for _, w := range badgerPkgFuncs(p) {
		if only != nil && !only(w) {
			continue
		}
		if _, _, isW := txnWrapperInfo(p, w); isW {
			continue // judged by one-txn:wrapper
		}
		if w.Signature.Results().Len() == 0 || !an.IsErrorType(w.Signature.Results().At(w.Signature.Results().Len()-1).Type()) {
			continue
		}
		var cut []an.Edge
		var starts []*ssa.BasicBlock
		var txCalls []ssa.CallInstruction
		for _, c := range an.Calls(w, false) {
			f := an.CallObj(c)
			// write transactions only: a read transaction's error is legitimately mapped (not found -> default value)
			isTx := an.IsMethod(f, badgerLib, "DB", "Update")
			if !isTx {
				if cal := c.Common().StaticCallee(); cal != nil {
					if _, upd, isW := txnWrapperInfo(p, cal); isW && upd {
						isTx = true
					}
				}
			}
			if isTx {
				txCalls = append(txCalls, c)
				cut = append(cut, an.ErrEdges(c).Succ...)
			}
		}
		if len(txCalls) == 0 {
			continue
		}
		sites += len(txCalls)
		cs := an.EdgeSet(cut)
		for _, c := range txCalls {
			b := c.Block()
			for i, sc := range b.Succs {
				if !cs[an.Edge{From: b, To: sc}] && !an.DeadEdge(b, i) {
					starts = append(starts, sc)
				}
			}
		}
		after := an.ReachFrom(starts, cs)
		an.AllInstrs(w, func(in ssa.Instruction) {
			ret, ok := in.(*ssa.Return)
			if !ok || len(ret.Results) == 0 || (w.Recover != nil && ret.Block() == w.Recover) {
				return
			}
			res := an.RetResults(ret)
			last := res[len(res)-1]
			if c, isC := last.(*ssa.Const); isC && c.IsNil() {
				if after[ret.Block()] {
					bad = append(bad, an.FuncName(w)+" returns a nil error at "+p.Pos(ret.Pos())+" on a path where its transaction has not succeeded (fallen out of a retry loop, a shadowed error variable): the caller takes the write for done")
				}
				return
			}
			seen := map[ssa.Value]bool{}
			var walk func(v ssa.Value)
			walk = func(v ssa.Value) {
				ph, ok := v.(*ssa.Phi)
				if !ok || seen[v] {
					return
				}
				seen[v] = true
				for i, e := range ph.Edges {
					if c, isC := e.(*ssa.Const); isC && c.IsNil() && after[ph.Block().Preds[i]] {
						bad = append(bad, an.FuncName(w)+" can return a nil error at "+p.Pos(ret.Pos())+" on a path where its transaction has not succeeded")
					}
					walk(e)
				}
			}
			walk(last)
		})
	}
	r.CallSites += sites
	r.Check(len(bad) == 0 && sites > 0, "txn-outcome", construct, token.NoPos, "a nil error is returned only past the transaction's success edge", "%s (transaction call sites judged: %d)", strings.Join(dedup(bad), "; "), sites)
}

// checkTxnClosurePure: a transaction body changes nothing but the transaction (and variables of the method that runs
// it): until Commit has succeeded nobody knows whether the transaction happened (a conflict, a failed later write), so a
// field of the driver written from inside the body — a cache of decoded records, a counter — reports a state the
// database may never reach. Judged: stores, map updates and library-object mutations through the driver value, and
// sync.Map / atomic writes on its fields, inside every closure handed to db.Update / db.View or a transaction wrapper.
func checkTxnClosurePure(p *an.Prog, r *an.Run) {
	var bad []string
	nClosures := 0
	driverField := func(fs []ssa.Value) string {
		for _, f := range fs {
			if t := structOfFieldAccess(f); t != nil && t.Obj().Pkg() != nil && t.Obj().Pkg().Path() == pkgBadger {
				if fv := an.FieldOf(f); fv != nil {
					return t.Obj().Name() + "." + fv.Name()
				}
			}
		}
		return ""
	}
	seenCl := map[*ssa.Function]bool{}
	for _, m := range badgerPkgFuncs(p) {
		if m.Parent() != nil || p.IsTestFunc(m) {
			continue
		}
		for _, reg := range txnRegions(p, m) {
			if reg.Closure == nil || seenCl[reg.Closure] {
				continue
			}
			seenCl[reg.Closure] = true
			nClosures++
			for _, fn := range an.WithAnon(reg.Closure) {
				for _, w := range writesOf(fn) {
					if name := driverField(w.Fields); name != "" {
						bad = append(bad, an.FuncName(m)+" writes "+name+" at "+p.Pos(w.In.Pos())+" from inside a transaction body: the write stands even when the transaction is refused (conflict) or fails later")
					}
				}
				for _, c := range an.Calls(fn, false) {
					f := an.CallObj(c)
					if f == nil || f.Pkg() == nil || len(c.Common().Args) == 0 {
						continue
					}
					isSyncMapWrite := f.Pkg().Path() == "sync" && an.RecvNamed(f) != nil && an.RecvNamed(f).Obj().Name() == "Map" && f.Name() != "Load" && f.Name() != "Range"
					isAtomicWrite := f.Pkg().Path() == "sync/atomic" && !strings.HasPrefix(f.Name(), "Load")
					if !isSyncMapWrite && !isAtomicWrite {
						continue
					}
					_, _, fields := addrChain(c.Common().Args[0])
					if name := driverField(fields); name != "" {
						bad = append(bad, an.FuncName(m)+" updates "+name+" ("+f.Name()+") at "+p.Pos(c.Pos())+" from inside a transaction body: the update stands even when the transaction is refused (conflict) or fails later")
					}
				}
			}
		}
	}
	r.Check(len(bad) == 0 && nClosures >= 10, "one-txn", "closure-pure:badger", token.NoPos, "no transaction body writes the driver's own state", "%s (transaction bodies judged: %d)", strings.Join(dedup(bad), "; "), nClosures)
}

// checkRetryClosures: a transaction wrapper that may run its function more than once (a conflict retry) needs that
// function to start from scratch each time. Whatever the closure accumulates in variables of the enclosing method — an
// append to the named result, entries put into or deleted from a map declared outside, a record gob-decoded into an
// outer variable (gob merges into what is there), an in-place big.Int sum — survives the failed attempt and is mixed
// into the next one: peers declared invalid twice, or declared invalid by the first attempt and stored as live by the
// second. Plain overwrites of an outer variable with a value that does not depend on its previous content are fine.
func checkRetryClosures(p *an.Prog, r *an.Run) {
	helpers := decodeHelpers(p)
	for _, w := range badgerPkgFuncs(p) {
		idx, _, ok := txnWrapperInfo(p, w)
		if !ok {
			continue
		}
		nTx, looped := 0, false
		for _, c := range an.Calls(w, false) {
			f := an.CallObj(c)
			if (an.IsMethod(f, badgerLib, "DB", "Update") || an.IsMethod(f, badgerLib, "DB", "View")) && len(c.Common().Args) == 2 && an.Unspill(c.Common().Args[1]) == ssa.Value(w.Params[idx]) {
				nTx++
				if inLoop(c.(ssa.Instruction)) {
					looped = true
				}
			}
		}
		if nTx < 2 && !looped {
			continue
		}
		for _, site := range p.StaticSites(w) {
			caller := site.Parent()
			if p.IsTestFunc(caller) || idx >= len(site.Common().Args) {
				continue
			}
			mc, ok := an.Unspill(site.Common().Args[idx]).(*ssa.MakeClosure)
			if !ok {
				continue
			}
			cl, _ := mc.Fn.(*ssa.Function)
			if cl == nil {
				continue
			}
			var bad []string
			for _, fn := range an.WithAnon(cl) {
				fromOuter := func(v ssa.Value) *ssa.FreeVar {
					for {
						if u, ok := v.(*ssa.UnOp); ok && u.Op == token.MUL {
							v = u.X
							continue
						}
						root, _ := an.RootPath(v)
						if root == v {
							break
						}
						v = root
					}
					fv, _ := v.(*ssa.FreeVar)
					return fv
				}
				an.AllInstrs(fn, func(in ssa.Instruction) {
					switch x := in.(type) {
					case *ssa.Store:
						fv := fromOuter(x.Addr)
						if fv == nil {
							return
						}
						d := p.Derives(0, x.Val)
						self := false
						for _, nd := range d.Nodes {
							if u, ok := nd.(*ssa.UnOp); ok && u.Op == token.MUL && fromOuter(u.X) == fv {
								self = true
							}
						}
						if self {
							bad = append(bad, "the value stored into "+fv.Name()+" at "+p.Pos(in.Pos())+" is built from its previous content (an append, a sum): what a failed attempt added is still there when the transaction runs again")
						}
					case *ssa.MapUpdate:
						if fv := fromOuter(x.Map); fv != nil {
							bad = append(bad, "entries are put into the map "+fv.Name()+" (declared outside the transaction function) at "+p.Pos(in.Pos())+": entries of a failed attempt survive into the next")
						}
					case ssa.CallInstruction:
						if b, ok := x.Common().Value.(*ssa.Builtin); ok && an.Ident(b.Name()) == "delete" && len(x.Common().Args) == 2 {
							if fv := fromOuter(x.Common().Args[0]); fv != nil {
								bad = append(bad, "entries are deleted from the map "+fv.Name()+" (declared outside the transaction function) at "+p.Pos(in.Pos())+": the next attempt decodes into a map the failed one already edited")
							}
							return
						}
						if an.IsBigIntMutator(x) && len(x.Common().Args) > 0 {
							if fv := fromOuter(x.Common().Args[0]); fv != nil {
								bad = append(bad, "the amount "+fv.Name()+" (declared outside the transaction function) is updated in place at "+p.Pos(in.Pos())+": a failed attempt's contribution is counted again")
							}
							return
						}
						if t := decodeTarget(helpers, x); t != nil {
							tv := underlyingConcrete(t)
							if fv := fromOuter(tv); fv != nil {
								if pt, ok := tv.Type().Underlying().(*types.Pointer); ok {
									switch pt.Elem().Underlying().(type) {
									case *types.Struct, *types.Map:
										bad = append(bad, "a record is decoded at "+p.Pos(in.Pos())+" into "+fv.Name()+", declared outside the transaction function: gob merges into what the failed attempt left there")
									}
								}
							}
						}
					}
				})
			}
			r.Check(len(bad) == 0, "one-txn", "retry-closure:"+an.FuncName(caller), site.Pos(), "the function handed to the retrying wrapper "+an.FuncName(w)+" starts from scratch on every attempt", "%s re-runs the transaction function on conflict, but %s", an.FuncName(w), strings.Join(dedup(bad), "; "))
		}
	}
}

// checkKeyOperandTypes: the persistent driver spells its keys with fmt ("vip:balance:%s", account). fmt prefers an
// operand's own String/Error/Format method to its underlying string, so such a method on an id type silently becomes
// part of every key: a display form (abbreviated, checksummed, lower-cased) makes distinct identities share a record
// or one identity own two. Every operand type of a key format either has no such method or the method is the identity
// conversion `return string(x)`.
func checkKeyOperandTypes(p *an.Prog, r *an.Run) {
	var bad []string
	n := 0
	for _, fn := range badgerPkgFuncs(p) {
		if p.IsTestFunc(fn) {
			continue
		}
		for _, c := range an.Calls(fn, false) {
			f := an.CallObj(c)
			if !(an.IsFunc(f, "fmt", "Sprintf") || an.IsFunc(f, "fmt", "Sprint") || an.IsFunc(f, "fmt", "Appendf")) || len(c.Common().Args) < 2 {
				continue
			}
			format, ok := an.ConstString(c.Common().Args[0])
			if !ok || !strings.HasPrefix(format, "vip:") {
				continue
			}
			// one spelling per key space: the id goes in with %s everywhere (a %q, %v or %x at one site reads and writes
			// records nobody else ever looks at)
			if i := strings.IndexByte(format, '%'); i >= 0 {
				okVerb := false
				for pre := range badgerPrefixSpace {
					if format == pre+"%s" {
						okVerb = true
					}
				}
				if !okVerb {
					bad = append(bad, "the key format "+strconv.Quote(format)+" at "+p.Pos(c.Pos())+" is not a known key prefix followed by %s: records written under it are not the ones the other operations of that key space read")
				}
			}
			els, ok := variadicElems(c.Common().Args[len(c.Common().Args)-1])
			if !ok {
				bad = append(bad, "cannot see the operands of the key format "+format+" at "+p.Pos(c.Pos()))
				continue
			}
			for _, e := range els {
				n++
				t := underlyingConcrete(e).Type()
				ms := types.NewMethodSet(t)
				for _, name := range []string{"String", "Error", "Format", "GoString"} {
					sel := ms.Lookup(nil, name)
					if sel == nil {
						// unexported lookup needs the package; these names are exported
						continue
					}
					mf := p.SSA.FuncValue(sel.Obj().(*types.Func))
					if mf != nil && isIdentityStringMethod(mf) {
						continue
					}
					bad = append(bad, "the key "+format+" at "+p.Pos(c.Pos())+" is spelled through "+types.TypeString(t, nil)+"."+name+"(), which is not the plain string conversion of the id: two identities with the same display form share one record")
				}
			}
		}
	}
	// ... and every key handed to the database is built from its id by prefixing alone: no text-rewriting call
	// (strings/bytes/strconv/hex/unicode: ToLower, TrimSpace, Replace, ...) lies between the id and the key. A key space
	// whose accessors spell the id in two ways holds two records for one identity.
	if d := badgerDriver(p); d != nil {
		ms := types.NewMethodSet(types.NewPointer(d))
		nKeys := 0
		for i := 0; i < ms.Len(); i++ {
			m := p.MethodOf(d, ms.At(i).Obj().Name())
			if m == nil || len(m.Blocks) == 0 {
				continue
			}
			for _, o := range badgerOps(p, m) {
				if o.Key == nil {
					continue
				}
				nKeys++
				for _, nd := range p.Derives(3, o.Key).Nodes {
					c, ok := nd.(*ssa.Call)
					if !ok {
						continue
					}
					f := an.CallObj(c)
					if f == nil || f.Pkg() == nil {
						continue
					}
					if an.IsMethod(f, "sync", "Pool", "Get") {
						bad = append(bad, "the key used at "+p.Pos(o.In.Pos())+" ("+an.FuncName(m)+") lives in a buffer taken from a sync.Pool ("+p.Pos(c.Pos())+"): whatever the previous user left behind the id is part of the key, so one identity is looked up under different keys from call to call")
						continue
					}
					switch f.Pkg().Path() {
					case "strings", "bytes", "strconv", "encoding/hex", "unicode", "unicode/utf8", "path", "net/url":
						if f.Name() == "NewReader" || f.Name() == "HasPrefix" || f.Name() == "Equal" {
							continue
						}
						bad = append(bad, "the key used at "+p.Pos(o.In.Pos())+" ("+an.FuncName(m)+") is spelled through "+f.Pkg().Name()+"."+f.Name()+" ("+p.Pos(c.Pos())+"): the id is rewritten on its way into the key, while other accessors of the same records use it as given")
					}
				}
			}
		}
		r.Floor("badger-keys-judged", nKeys, 20)
	}
	r.Floor("key-operands", n, 6)
	r.Check(len(bad) == 0, "key-spelling", "badger", token.NoPos, "every id in a key format is spelled as the id itself", "%s", strings.Join(dedup(bad), "; "))
}

// badgerDriver returns the store.Store implementation of the badger package.
func badgerDriver(p *an.Prog) *types.Named {
	iface := p.Iface("pool/store", "Store")
	if iface == nil {
		return nil
	}
	for _, d := range p.Implementations(iface) {
		if driverKind(d) == "badger" {
			return d
		}
	}
	return nil
}

// isIdentityStringMethod: the method's only effect is `return string(receiver)`.
func isIdentityStringMethod(m *ssa.Function) bool {
	if len(m.Blocks) != 1 || len(m.Params) != 1 {
		return false
	}
	for _, in := range m.Blocks[0].Instrs {
		switch x := in.(type) {
		case *ssa.DebugRef:
		case *ssa.Convert, *ssa.ChangeType:
			if x.(ssa.Value).Referrers() == nil {
				return false
			}
			var src ssa.Value
			if cv, ok := x.(*ssa.Convert); ok {
				src = cv.X
			} else {
				src = x.(*ssa.ChangeType).X
			}
			if src != ssa.Value(m.Params[0]) {
				return false
			}
		case *ssa.Return:
			if len(x.Results) != 1 {
				return false
			}
			v := x.Results[0]
			for {
				if cv, ok := v.(*ssa.Convert); ok {
					v = cv.X
				} else if ct, ok := v.(*ssa.ChangeType); ok {
					v = ct.X
				} else {
					break
				}
			}
			return v == ssa.Value(m.Params[0])
		default:
			return false
		}
	}
	return false
}

// checkResultsPrivate: what a store driver hands out is the caller's own: no result of a driver method is a slice, map
// or pointer into the driver's own fields (a result buffer kept between calls, an internal map returned as is). The
// caller walks the result after the driver's lock is gone; the next call would rewrite it under the caller's feet.
func checkResultsPrivate(p *an.Prog, r *an.Run) {
	iface := p.Iface("pool/store", "Store")
	if iface == nil {
		r.Undec("result-private", "drivers", token.NoPos, "interface store.Store not found")
		return
	}
	var bad []string
	methods, results := 0, 0
	for _, d := range p.Implementations(iface) {
		if driverKind(d) == "" {
			continue
		}
		ms := types.NewMethodSet(types.NewPointer(d))
		for i := 0; i < ms.Len(); i++ {
			m := p.MethodOf(d, ms.At(i).Obj().Name())
			if m == nil || len(m.Blocks) == 0 || len(m.Params) == 0 {
				continue
			}
			methods++
			recv := m.Params[0]
			fromRecv := func(addr ssa.Value) bool {
				root, _ := an.RootPath(addr)
				if root == ssa.Value(recv) {
					return true
				}
				if u, ok := root.(*ssa.UnOp); ok && u.Op == token.MUL {
					return an.Unspill(u) == ssa.Value(recv)
				}
				return false
			}
			for _, fn := range an.WithAnon(m) {
				if fn != m {
					continue
				}
				an.AllInstrs(fn, func(in ssa.Instruction) {
					ret, ok := in.(*ssa.Return)
					if !ok || (fn.Recover != nil && ret.Block() == fn.Recover) {
						return
					}
					for _, res := range an.RetResults(ret) {
						switch res.Type().Underlying().(type) {
						case *types.Slice, *types.Map, *types.Pointer:
						default:
							continue
						}
						results++
						seen := map[ssa.Value]bool{}
						var walk func(v ssa.Value)
						walk = func(v ssa.Value) {
							if v == nil || seen[v] {
								return
							}
							seen[v] = true
							switch t := v.(type) {
							case *ssa.Phi:
								for _, e := range t.Edges {
									walk(e)
								}
							case *ssa.Slice:
								walk(t.X)
							case *ssa.ChangeType:
								walk(t.X)
							case *ssa.Convert:
								walk(t.X)
							case *ssa.Call:
								if b, ok := t.Call.Value.(*ssa.Builtin); ok && an.Ident(b.Name()) == "append" {
									walk(t.Call.Args[0])
								}
							case *ssa.FieldAddr:
								if fromRecv(t) {
									bad = append(bad, an.FuncName(m)+" returns at "+p.Pos(ret.Pos())+" the address of the driver's own storage")
									return
								}
								walk(t.X) // &rec.f where rec is a pointer kept in the driver's tables
							case *ssa.IndexAddr:
								if fromRecv(t) {
									bad = append(bad, an.FuncName(m)+" returns at "+p.Pos(ret.Pos())+" the address of the driver's own storage")
									return
								}
								walk(t.X)
							case *ssa.Extract:
								walk(t.Tuple)
							case *ssa.Lookup:
								walk(t.X)
							case *ssa.UnOp:
								if t.Op != token.MUL {
									return
								}
								if fromRecv(t.X) {
									if _, isFA := t.X.(*ssa.FieldAddr); isFA {
										fname := "?"
										if fv := an.FieldOf(t.X); fv != nil {
											fname = fv.Name()
										}
										bad = append(bad, an.FuncName(m)+" returns at "+p.Pos(ret.Pos())+" storage held in the driver's field "+fname+" (read at "+p.Pos(t.Pos())+"): the caller uses it after the lock is released while the next call rewrites it")
									}
									return
								}
								if al, ok := t.X.(*ssa.Alloc); ok {
									for _, ref := range *al.Referrers() {
										if st, ok := ref.(*ssa.Store); ok && st.Addr == ssa.Value(al) {
											walk(st.Val)
										}
									}
								}
							}
						}
						walk(res)
					}
				})
			}
		}
	}
	r.Check(len(bad) == 0 && methods >= 20 && results > 0, "result-private", "drivers", token.NoPos, "no driver method returns a slice, map or pointer into the driver's own fields", "%s (methods judged: %d, reference-typed results: %d)", strings.Join(dedup(bad), "; "), methods, results)
}

// checkTTLDiscipline: records live until the store's own operations change them; the one kind of record that expires by
// itself is the nonce. (a) Entry.WithTTL is called in the expiring-set helper only, with the helper's own duration
// parameter as it stands (a rounded or truncated lifetime ends the nonce record before the nonce stops looking fresh);
// (b) that helper is reached from CheckAndSaveNonce only (a "reasonable expiry for everything" deletes idle balances,
// links and the version stamp).
func checkTTLDiscipline(p *an.Prog, r *an.Run) {
	var bad []string
	nTTL, nExp := 0, 0
	var expHelpers []*ssa.Function
	for _, fn := range badgerPkgFuncs(p) {
		if p.IsTestFunc(fn) {
			continue
		}
		for _, c := range an.Calls(fn, false) {
			f := an.CallObj(c)
			if !an.IsMethod(f, badgerLib, "Entry", "WithTTL") || len(c.Common().Args) < 2 {
				continue
			}
			nTTL++
			top := fn
			for top.Parent() != nil {
				top = top.Parent()
			}
			expHelpers = append(expHelpers, top)
			ttl := c.Common().Args[1]
			isOwnParam := false
			for _, prm := range fn.Params {
				if ttl == ssa.Value(prm) {
					isOwnParam = true
				}
			}
			if !isOwnParam {
				bad = append(bad, an.FuncName(fn)+" gives WithTTL at "+p.Pos(c.Pos())+" something other than its own duration parameter as it stands: a lifetime shortened on the way (rounded, truncated, capped) ends the record before its time")
			}
		}
	}
	for _, h := range expHelpers {
		for _, site := range p.StaticSites(h) {
			if p.IsTestFunc(site.Parent()) {
				continue
			}
			nExp++
			top := site.Parent()
			for top.Parent() != nil {
				top = top.Parent()
			}
			if top.Name() != "CheckAndSaveNonce" {
				bad = append(bad, an.FuncName(top)+" stores a record with an expiry ("+an.FuncName(h)+" at "+p.Pos(site.Pos())+"): only nonce records may expire by themselves")
			}
		}
	}
	r.Check(len(bad) == 0 && nTTL > 0 && nExp > 0, "ttl", "badger", token.NoPos, "only nonce records expire, with the lifetime computed for them", "%s (WithTTL sites: %d, expiring-set call sites: %d)", strings.Join(dedup(bad), "; "), nTTL, nExp)
}
