package rules

import (
	"bytes"
	"fmt"
	"go/ast"
	"go/token"
	"go/types"
	"os"
	"os/exec"
	"path/filepath"
	"regexp"
	"sort"
	"strconv"
	"strings"

	"golang.org/x/tools/go/ssa"

	"vipcheck/an"
)

func init() {
	Registry["C15"] = Spec{
		Run: runC15,
		Explanation: "Static panic-site enumeration in the network scope (functions reachable through the VTA call graph from RPC handlers, HTTP handlers, connection loops, reply consumers on the agent side and the String/Error methods the handlers' logging invokes): " +
			"(bounds) the Go compiler's own list of bounds checks it could not prove (go build -gcflags=-d=ssa/check_bce) is mapped onto the index/slice expressions of the source; every such site in scope must be discharged by a dominating guard in canonical form or by a named exception with its reason; " +
			"(nil-embedded) every dereference of the embedded *Request/*Response of a Message is dominated by a nil test or the message was built in the same function; " +
			"(make) every make with a non-constant size in scope has a provably non-negative size at every call site; (nil-map) every map written through a field is initialised by the type's constructor or under a nil test; " +
			"(assert, panic, div) no unchecked type assertion, explicit panic or unguarded big.Int division in scope; (reply-id) every return of Server.Handle yields the message carrying the request's id and a non-nil response, and handleRequest always writes it; (no-block-under-lock) as C10. Round 2: (make) sizes are bounded by lengths/constants or capped on the way, per call site. Round 5: the Account bounds exception checks its premise; (map-write-exclusive); (nil-service).",
		NotDecided: []string{"not decided: panics inside third-party libraries on hostile input (encoding/json, gob, go-ethereum crypto are trusted), unbounded resource use, liveness in general"},
	}
}

type bceSite struct {
	file string // repo-relative
	line int
	col  int
	kind string // IsInBounds / IsSliceInBounds
}

var bceRe = regexp.MustCompile(`^(?:\./)?([^:\s]+\.go):(\d+):(\d+): Found (IsInBounds|IsSliceInBounds)`)

// unprovenBounds runs the compiler's prove pass over the repository and
// returns the bounds checks it kept.
func unprovenBounds(repo string) ([]bceSite, string, error) {
	run := func() (string, error) {
		cmd := exec.Command("go", "build", "-gcflags="+an.Module+"/...=-d=ssa/check_bce/debug=1", "./...")
		cmd.Dir = repo
		env := []string{}
		for _, e := range os.Environ() {
			if strings.HasPrefix(e, "GOWORK=") || strings.HasPrefix(e, "GOFLAGS=") {
				continue
			}
			env = append(env, e)
		}
		cmd.Env = append(env, "GOFLAGS=-mod=mod", "GOPROXY=off", "GOSUMDB=off", "GOTOOLCHAIN=local", "GOWORK=off")
		var out bytes.Buffer
		cmd.Stdout = &out
		cmd.Stderr = &out
		err := cmd.Run()
		return out.String(), err
	}
	out, err := run()
	if err != nil {
		return nil, out, fmt.Errorf("go build with check_bce failed: %v", err)
	}
	var sites []bceSite
	curPkg := ""
	for _, ln := range strings.Split(out, "\n") {
		if strings.HasPrefix(ln, "# ") {
			curPkg = strings.TrimPrefix(strings.Fields(ln)[1], an.Module)
			curPkg = strings.TrimPrefix(curPkg, "/")
			continue
		}
		m := bceRe.FindStringSubmatch(ln)
		if m == nil {
			continue
		}
		f := m[1]
		// positions are relative to the directory go build ran in, except for the root package ("./x.go")
		if !strings.Contains(f, "/") && curPkg != "" {
			f = filepath.Join(curPkg, f)
		}
		l, _ := strconv.Atoi(m[2])
		c, _ := strconv.Atoi(m[3])
		sites = append(sites, bceSite{f, l, c, m[4]})
	}
	return sites, out, nil
}

// networkScope: C10's concurrency scope plus the consumers of replies and node RPC output, and the formatting hooks.
func networkScope(p *an.Prog) map[*ssa.Function]bool {
	sc := ConcurrencyScope(p)
	roots := append([]*ssa.Function{}, sc.Roots...)
	for _, fn := range p.Repo {
		if fn.Parent() != nil || fn.Pkg == nil {
			continue
		}
		pk := fn.Pkg.Pkg.Path()
		exported := fn.Object() != nil && fn.Object().Exported()
		switch {
		case pk == pkgAgent && exported, pk == pkgEthnode && exported, pk == pkgRequest && exported:
			roots = append(roots, fn)
		case pk == pkgPool && fn.Signature.Recv() != nil && exported:
			if n := namedOf(fn.Signature.Recv().Type()); n != nil && (n.Obj().Name() == "RemotePool" || n.Obj().Name() == "StaticPool") {
				roots = append(roots, fn)
			}
		}
		if fn.Signature.Recv() != nil && (fn.Name() == "String" || fn.Name() == "Error" || fn.Name() == "Format" || fn.Name() == "MarshalJSON" || fn.Name() == "UnmarshalJSON") {
			if !isTestDoublePkg(fn) && !strings.HasSuffix(p.File(fn.Pos()), "testsuite.go") {
				roots = append(roots, fn)
			}
		}
	}
	return p.Reach(roots...)
}

// boundsPremiseHolds: a named exception whose reason rests on a property of other code applies only while that code
// still has the property. PaymentService.Account slices node ids taken from the account store, which is safe because
// AddAccountNode links registered nodes only: both drivers must answer an id they do not hold with ErrUnregisteredNode,
// decided by a miss in the node space, on every path.
func boundsPremiseHolds(p *an.Prog, name string) bool {
	if an.NormRecv(name) != "(payment.PaymentService).Account" {
		return true
	}
	n := 0
	for _, d := range p.Implementations(p.Iface("pool/store", "Store")) {
		m := p.MethodOf(d, "AddAccountNode")
		if m == nil || driverKind(d) == "" {
			continue
		}
		n++
		if !unregisteredByNodeMiss(p, d, m) || len(successWithoutNodeRead(p, d, m)) > 0 {
			return false
		}
	}
	return n >= 2
}

func boundsExceptionFor(name string) (struct {
	max    int
	reason string
}, bool) {
	for k, v := range boundsExceptions {
		if an.NormRecv(k) == an.NormRecv(name) {
			return v, true
		}
	}
	return struct {
		max    int
		reason string
	}{}, false
}

// bounds exceptions: function -> (max sites, reason)
var boundsExceptions = map[string]struct {
	max    int
	reason string
}{
	"(*jsonrpc2.Method).Call":                 {1, "reply[ErrPos]: ErrPos is computed at registration from the method's own result list (0 or 1 only when that result exists, else -1, which is tested)"},
	"(jsonrpc2.pendingQueue).Less":            {2, "sort.Interface contract: indices are < Len()"},
	"(jsonrpc2.pendingQueue).Swap":            {2, "sort.Interface contract: indices are < Len()"},
	"jsonrpc2.pendingOldest":                  {1, "queue[:num]: num is clamped to len(pending) and the queue holds len(pending) items; num comes from the positive PendingDiscard setting"},
	"(*badger.badgerStore).GetAccountNodes$1": {1, "key[len(prefix):]: the iterator position satisfies ValidForPrefix(prefix)"},
	"(*badger.badgerStore).ActiveHosts$2":     {4, "rand.Shuffle contract: i, j < len(r)"},
	"(*payment.PaymentService).Account":       {1, "string(nodeID)[:12]: ids in the account store are verified identities (42-character wallets or 128-character node ids) that AddAccountNode found among the registered nodes"},
	"(pretty.Abbreviated).String":             {1, "Original[:CutTo]: guarded by len(Original) > MaxLen, and CutTo <= MaxLen at every Abbrev call site (checked by the abbrev-callers obligation)"},
}

func funcAtPos(p *an.Prog, file string, line int) *ssa.Function {
	var best *ssa.Function
	bestSpan := 1 << 30
	for _, fn := range p.Repo {
		syn := fn.Syntax()
		if syn == nil {
			continue
		}
		if p.File(syn.Pos()) != file {
			continue
		}
		l0 := p.Fset.Position(syn.Pos()).Line
		l1 := p.Fset.Position(syn.End()).Line
		if line >= l0 && line <= l1 && l1-l0 < bestSpan {
			best, bestSpan = fn, l1-l0
		}
	}
	return best
}

// indexExprAt finds an index or slice expression whose '[' is at file:line:col.
func indexExprAt(p *an.Prog, file string, line, col int) ast.Expr {
	var found ast.Expr
	for _, pk := range p.Pkgs {
		for _, f := range pk.Syntax {
			if p.File(f.Pos()) != file {
				continue
			}
			ast.Inspect(f, func(n ast.Node) bool {
				var lb token.Pos
				switch x := n.(type) {
				case *ast.IndexExpr:
					lb = x.Lbrack
				case *ast.SliceExpr:
					lb = x.Lbrack
				default:
					return true
				}
				ps := p.Fset.Position(lb)
				if ps.Line == line && ps.Column == col {
					found = n.(ast.Expr)
				}
				return true
			})
		}
	}
	return found
}

// sameParamFieldLoad: a and b are two loads of the same field of the same parameter (p.f read twice), and the function never
// stores to that field: both loads see one value.
func sameParamFieldLoad(fn *ssa.Function, a, b ssa.Value) bool {
	ua, ok1 := a.(*ssa.UnOp)
	ub, ok2 := b.(*ssa.UnOp)
	if !ok1 || !ok2 || ua.Op != token.MUL || ub.Op != token.MUL {
		return false
	}
	fa, ok1 := ua.X.(*ssa.FieldAddr)
	fb, ok2 := ub.X.(*ssa.FieldAddr)
	if !ok1 || !ok2 || fa.Field != fb.Field || fa.X != fb.X {
		return false
	}
	if _, isPrm := fa.X.(*ssa.Parameter); !isPrm {
		return false
	}
	stored := false
	for _, f := range an.WithAnon(fn) {
		an.AllInstrs(f, func(in ssa.Instruction) {
			if st, ok := in.(*ssa.Store); ok {
				if sa, ok := st.Addr.(*ssa.FieldAddr); ok && sa.Field == fa.Field && sa.X.Type() == fa.X.Type() {
					stored = true
				}
			}
		})
	}
	return !stored
}

// boundsGuarded recognises the canonical guards for the SSA instruction at the site.
func boundsGuarded(p *an.Prog, fn *ssa.Function, file string, line, col int) (bool, string) {
	var hit ssa.Instruction
	an.AllInstrs(fn, func(in ssa.Instruction) {
		ps := p.Fset.Position(in.Pos())
		if ps.Line != line || ps.Column != col {
			return
		}
		switch in.(type) {
		case *ssa.IndexAddr, *ssa.Index, *ssa.Slice, *ssa.Lookup:
			hit = in
		}
	})
	if hit == nil {
		return false, "no SSA index/slice instruction at the site"
	}
	rels := ctrlRels(hit.Block())
	lenRel := func(x ssa.Value, want func(op token.Token, other ssa.Value) bool) bool {
		for _, cr := range rels {
			rel := cr.Rel
			if _, isLen := an.LenOf(rel.R); isLen {
				rel = rel.Swap()
			}
			s, isLen := an.LenOf(rel.L)
			if isLen && (sameLoad(s, x) || sameParamFieldLoad(fn, s, x)) && want(rel.Op, rel.R) {
				return true
			}
		}
		return false
	}
	hasPrefixGuard := func(x ssa.Value, n int64) bool {
		for _, c := range an.ControllingIfs(hit.Block()) {
			if call, ok := c.If.Cond.(*ssa.Call); ok && c.Succ == 0 && an.IsFunc(an.CallObj(call), "strings", "HasPrefix") {
				if s, ok := an.ConstString(call.Call.Args[1]); ok && int64(len(s)) >= n {
					// the sliced value may be the phi of the tested string
					if call.Call.Args[0] == x || p.Derives(0, x).HasValue(call.Call.Args[0]) {
						return true
					}
				}
			}
		}
		return false
	}
	nonNegInduction := func(i ssa.Value) bool {
		if k, ok := an.ConstInt(i); ok {
			return k >= 0
		}
		phi, ok := i.(*ssa.Phi)
		if !ok {
			return false
		}
		for _, e := range phi.Edges {
			if k, ok := an.ConstInt(e); ok && k >= 0 {
				continue
			}
			if bo, ok := e.(*ssa.BinOp); ok && bo.Op == token.ADD && bo.X == ssa.Value(phi) {
				if k, ok := an.ConstInt(bo.Y); ok && k > 0 {
					continue
				}
			}
			return false
		}
		return true
	}
	switch x := hit.(type) {
	case *ssa.IndexAddr:
		if nonNegInduction(x.Index) && lenRel(x.X, func(op token.Token, other ssa.Value) bool { return op == token.GTR && other == x.Index }) {
			return true, "0 <= i < len(x) (loop counter tested against len)"
		}
	case *ssa.Slice:
		if x.High != nil && x.Low == nil {
			pos, enough := false, false
			for _, cr := range rels {
				if cr.L == x.High {
					if k, ok := an.ConstInt(cr.R); ok && k == 0 && cr.Op == token.GTR {
						pos = true
					}
				}
			}
			if lenRel(x.X, func(op token.Token, other ssa.Value) bool {
				return (op == token.GEQ || op == token.GTR) && other == x.High
			}) {
				enough = true
			}
			if pos && enough {
				return true, "0 < hi <= len(x)"
			}
			if k, ok := an.ConstInt(x.High); ok && lenRel(x.X, func(op token.Token, other ssa.Value) bool {
				c, isC := an.ConstInt(other)
				return isC && ((op == token.GEQ && c >= k) || (op == token.GTR && c >= k-1))
			}) {
				return true, "len(x) >= constant high bound"
			}
			// x = y[c:] (constant c, judged at its own site): len(x) = len(y) - c, so len(y) >= hi + c suffices
			if k, ok := an.ConstInt(x.High); ok {
				if inner, ok := x.X.(*ssa.Slice); ok && inner.High == nil && inner.Max == nil && inner.Low != nil {
					if c0, ok := an.ConstInt(inner.Low); ok && c0 >= 0 && lenRel(inner.X, func(op token.Token, other ssa.Value) bool {
						c, isC := an.ConstInt(other)
						return isC && ((op == token.GEQ && c >= k+c0) || (op == token.GTR && c >= k+c0-1))
					}) {
						return true, "x = y[c:] and len(y) >= constant high bound + c"
					}
				}
			}
		}
		if x.Low != nil && x.High == nil {
			if k, ok := an.ConstInt(x.Low); ok && hasPrefixGuard(x.X, k) {
				return true, "strings.HasPrefix(x, c) with len(c) >= low bound"
			}
		}
	}
	return false, "no dominating guard in canonical form"
}

func runC15(p *an.Prog, r *an.Run, tier string) {
	scope := networkScope(p)
	var scopeFns []*ssa.Function
	for fn := range scope {
		if !isTestDoublePkg(fn) && !strings.HasSuffix(p.File(fn.Pos()), "testsuite.go") {
			scopeFns = append(scopeFns, fn)
		}
	}
	sort.Slice(scopeFns, func(i, j int) bool { return an.FuncName(scopeFns[i]) < an.FuncName(scopeFns[j]) })
	r.Floor("scope-functions", len(scopeFns), 150)
	for _, fn := range scopeFns {
		r.Analysed(an.FuncName(fn))
	}
	inScope := func(fn *ssa.Function) bool {
		return fn != nil && scope[fn] && !isTestDoublePkg(fn) && !strings.HasSuffix(p.File(fn.Pos()), "testsuite.go")
	}

	// ---- a panic the library raises on the codec's behalf (gorilla: repeated read on a failed connection)
	checkGorillaSingleWriter(p, r)
	checkShippedCodec(p, r)
	// ---- a flood of unsolicited replies wedges nothing but (at worst) the flooder's own connection: every reply is
	// handed to a one-slot channel made for that id on that connection (shared with C14.async-dispatch / C09): an
	// unbuffered or recycled channel blocks the read loop, or delivers the flooder's message to another connection's call
	if gpc := p.Method("jsonrpc2", "Remote", "getPendingChan"); gpc != nil {
		r.Check(replyChanBuffered(gpc), "reply-slot", an.FuncName(gpc), gpc.Pos(), "each pending id gets a one-slot channel made for it", "the reply channel of %s is not a buffered channel made for the id (make(chan Message, n>=1) in this function): a reply nobody waits for blocks the read loop, or lands in another call's slot", an.FuncName(gpc))
	} else {
		r.Undec("reply-slot", "jsonrpc2.Remote.getPendingChan", token.NoPos, "anchor not found")
	}

	// ---- bounds
	sites, raw, err := unprovenBounds(p.RepoDir)
	if err != nil {
		r.Undec("bounds", "compiler", token.NoPos, "%v: %s", err, firstN(raw, 400))
	} else {
		r.Floor("unproven-bounds-checks", len(sites), 20)
		used := map[string]int{}
		nIn, nLib := 0, 0
		for _, s := range sites {
			fn := funcAtPos(p, s.file, s.line)
			if !inScope(fn) {
				continue
			}
			e := indexExprAt(p, s.file, s.line, s.col)
			if e == nil {
				nLib++ // inlined library code (bytes.Buffer.Bytes, Hash.Hex, ...): counted, trusted
				continue
			}
			nIn++
			name := an.FuncName(fn)
			key := name + ":" + types.ExprString(e)
			if ok, how := boundsGuarded(p, fn, s.file, s.line, s.col); ok {
				r.Ok("bounds", key, e.Pos(), "guard: "+how)
				continue
			}
			if ex, ok := boundsExceptionFor(name); ok && boundsPremiseHolds(p, name) {
				used[name]++
				if used[name] <= ex.max {
					r.Ok("bounds", key, e.Pos(), "named exception: "+ex.reason)
					continue
				}
			}
			r.Fail("bounds", key, e.Pos(), "%s in %s at %s:%d can index out of range for some network input: the compiler cannot prove it in bounds, no canonical guard (len(x) >= c, i < len(x), HasPrefix) dominates it and it is not a named exception; a panic here kills the process from a per-request goroutine", types.ExprString(e), name, s.file, s.line)
		}
		r.Note("bounds: %d unproven checks repo-wide, %d in scope mapped to source expressions, %d in scope inside inlined library code", len(sites), nIn, nLib)
		r.Floor("bounds-in-scope", nIn, 8)
		// stale exceptions (thorough)
		if tier == "thorough" {
			for name := range boundsExceptions {
				if used[name] == 0 {
					r.Fail("bounds", "stale-exception:"+name, token.NoPos, "the named bounds exception for %s matches no unproven bounds check on this tree: the table entry is stale and must be removed", name)
				} else {
					r.Ok("bounds", "exception-audit:"+name, token.NoPos, "exception still matches a site")
				}
			}
		}
	}
	// abbrev-callers: CutTo <= MaxLen at every Abbrev call site
	{
		abb := p.Func("internal/pretty", "Abbrev")
		var bad []string
		n := 0
		if abb != nil {
			for _, fn := range p.Repo {
				for _, c := range an.Calls(fn, false) {
					if c.Common().StaticCallee() != abb {
						continue
					}
					n++
					els, ok := variadicElems(c.Common().Args[1])
					if !ok {
						bad = append(bad, "Abbrev called with a non-literal range list at "+p.Pos(c.Pos()))
						continue
					}
					if len(els) >= 2 {
						a, ok1 := an.ConstInt(els[0])
						b, ok2 := an.ConstInt(els[1])
						if !ok1 || !ok2 || b > a || b < 0 {
							bad = append(bad, "Abbrev called with CutTo > MaxLen (or non-constant) at "+p.Pos(c.Pos()))
						}
					} else if len(els) == 1 {
						if a, ok := an.ConstInt(els[0]); !ok || a < 0 {
							bad = append(bad, "Abbrev called with a negative or non-constant length at "+p.Pos(c.Pos()))
						}
					}
				}
			}
		}
		r.Floor("abbrev-callers", n, 5)
		r.Check(len(bad) == 0, "bounds", "abbrev-callers", token.NoPos, "every pretty.Abbrev call keeps CutTo <= MaxLen", "%s", strings.Join(bad, "; "))
	}

	// ---- nil-embedded
	checkNilEmbedded(p, r, scopeFns)

	// ---- raw-json: a json.RawMessage is emitted verbatim; one assembled by string formatting (Sprintf, %q, concatenation)
	// is valid JSON only for the inputs the author thought of, and an invalid one makes the reply fail to encode, so
	// the request gets no reply at all
	{
		var rb []string
		nRaw := 0
		for _, fn := range scopeFns {
			an.AllInstrs(fn, func(in ssa.Instruction) {
				var src ssa.Value
				switch x := in.(type) {
				case *ssa.Convert:
					if isRawMessage(x.Type()) && !isRawMessage(x.X.Type()) {
						src = x.X
					}
				case *ssa.ChangeType:
					if isRawMessage(x.Type()) && !isRawMessage(x.X.Type()) {
						src = x.X
					}
				}
				if src == nil {
					return
				}
				nRaw++
				for _, nd := range p.Derives(1, src).Nodes {
					switch y := nd.(type) {
					case *ssa.Call:
						if f := an.CallObj(y); f != nil && f.Pkg() != nil && (f.Pkg().Path() == "fmt" || f.Pkg().Path() == "strconv" || (f.Pkg().Path() == "strings" && (f.Name() == "Join" || f.Name() == "Replace" || f.Name() == "ReplaceAll"))) {
							rb = append(rb, an.FuncName(fn)+" builds a json.RawMessage with "+an.ObjString(f)+" at "+p.Pos(in.Pos())+": not valid JSON for every input (control characters, code points %q escapes differently), the reply then fails to encode")
						}
					case *ssa.BinOp:
						if y.Op == token.ADD {
							if b, ok := y.Type().Underlying().(*types.Basic); ok && b.Info()&types.IsString != 0 {
								rb = append(rb, an.FuncName(fn)+" builds a json.RawMessage by string concatenation at "+p.Pos(in.Pos()))
							}
						}
					}
				}
			})
		}
		r.Note("raw-json construction sites examined: %d", nRaw)
		r.Check(len(rb) == 0, "raw-json", "scope", token.NoPos, "raw JSON is produced by the encoder, never by string formatting", "%s", strings.Join(dedup(rb), "; "))
	}

	// ---- nil-result: a (*T, error) call whose pointer result is used on a path where the error was not nil
	checkNilResultUse(p, r, scopeFns)

	// ---- make
	checkMakeSizes(p, r, scopeFns, scope)

	// ---- nil-map
	checkNilMaps(p, r, scopeFns)

	// ---- assert / panic / div
	var bad []string
	nAssert := 0
	for _, fn := range scopeFns {
		an.AllInstrs(fn, func(in ssa.Instruction) {
			switch x := in.(type) {
			case *ssa.TypeAssert:
				if !x.CommaOk {
					nAssert++
					if an.NormRecv(an.FuncName(fn)) == "(jsonrpc2.Method).Call" && isErrorIface(x.AssertedType) {
						return // reply[ErrPos].Interface().(error): the result's static type was checked to be error at registration
					}
					if poolOnlyHolds(p, x.X, x.AssertedType) {
						return // pool.Get().(*T) on a package-level pool whose New and every Put supply a *T
					}
					bad = append(bad, "unchecked type assertion to "+x.AssertedType.String()+" in "+an.FuncName(fn)+" at "+p.Pos(x.Pos())+" panics when the dynamic type differs")
				}
			case *ssa.Panic:
				if !x.Pos().IsValid() {
					return // synthesised by go/ssa for the unreachable tail of a blocking select
				}
				bad = append(bad, "explicit panic in "+an.FuncName(fn)+" at "+p.Pos(x.Pos()))
			case ssa.CallInstruction:
				if an.IsBigIntMethod(x, "Div", "Quo", "Mod", "Rem", "DivMod", "QuoRem") {
					// divisor must be guarded non-zero: the only division is intervalCredit's, guarded by C02.div-guard
					if an.NormRecv(an.FuncName(fn)) != "(balance.payPerInterval).intervalCredit" {
						bad = append(bad, "big.Int division in "+an.FuncName(fn)+" at "+p.Pos(x.Pos())+" panics on a zero divisor")
					}
				}
			case *ssa.BinOp:
				if (x.Op == token.QUO || x.Op == token.REM) && isIntType(x.X.Type()) {
					if k, ok := an.ConstInt(x.Y); !ok || k == 0 {
						bad = append(bad, "integer division by a non-constant in "+an.FuncName(fn)+" at "+p.Pos(x.Pos()))
					}
				}
			}
		})
	}
	r.Check(len(bad) == 0, "assert-panic-div", "scope", token.NoPos, "no unchecked type assertion, explicit panic or unguarded division in the network scope", "%s", strings.Join(bad, "; "))
	// the division guard itself
	if ic := p.Method("pool/balance", "payPerInterval", "intervalCredit"); ic != nil {
		okG := true
		n := 0
		for _, fn := range p.Repo {
			for _, c := range an.Calls(fn, false) {
				if c.Common().StaticCallee() != ic {
					continue
				}
				n++
				g := false
				for _, cr := range ctrlRels(c.Block()) {
					rel := cr.Rel
					if cr.Kind != "int" {
						continue
					}
					if !derivesField(p, rel.L, "payPerInterval", "Interval") {
						rel = rel.Swap()
					}
					if derivesField(p, rel.L, "payPerInterval", "Interval") {
						if k, ok := an.ConstInt(rel.R); ok && ((k >= 0 && rel.Op == token.GTR) || (k >= 1 && rel.Op == token.GEQ)) {
							g = true
						}
					}
				}
				if !g {
					okG = false
				}
			}
		}
		r.Check(okG && n > 0, "assert-panic-div", "intervalCredit-divisor", ic.Pos(), "the billing division is reached only with Interval > 0", "intervalCredit divides by Interval without a dominating Interval > 0 check at a call site")
	}

	// ---- reflect-arity: a reflective method call panics on a wrong argument count (e.g. absent/null params parse to an empty list)
	if mc := p.Method("jsonrpc2", "Method", "Call"); mc != nil {
		var why []string
		var reflCall ssa.CallInstruction
		for _, c := range an.Calls(mc, false) {
			if f := an.CallObj(c); f != nil && f.Name() == "Call" && an.RecvNamed(f) != nil && an.RecvNamed(f).Obj().Name() == "Value" {
				reflCall = c
			}
		}
		if reflCall == nil {
			why = append(why, "Method.Call does not invoke the method reflectively")
		} else {
			okCnt := false
			for _, cr := range ctrlRels(reflCall.Block()) {
				_, l1 := an.LenOf(cr.L)
				_, l2 := an.LenOf(cr.R)
				if l1 && l2 && cr.Op == token.EQL {
					okCnt = true
				}
			}
			if !okCnt {
				why = append(why, "the reflective call at "+p.Pos(reflCall.Pos())+" is not guarded by len(args) == len(ArgTypes): a request without params (which parses to an empty argument list) makes reflect panic in the per-request goroutine")
			}
		}
		r.Check(len(why) == 0, "reflect-arity", an.FuncName(mc), mc.Pos(), "argument count checked before reflect.Value.Call", "%s", strings.Join(why, "; "))
	}

	// ---- reply-id
	checkReplyID(p, r)

	// ---- no-block-under-lock
	entry := p.EntryLocks()
	infos := map[*ssa.Function]*an.LockInfo{}
	checkNoBlockUnderLock(p, r, "no-block-under-lock", func(fn *ssa.Function) bool { return true }, func(fn *ssa.Function) *an.LockInfo {
		if infos[fn] == nil {
			infos[fn] = an.Locksets(fn, entry[fn])
		}
		return infos[fn]
	})
}

func firstN(s string, n int) string {
	if len(s) > n {
		return s[:n]
	}
	return s
}

func isErrorIface(t types.Type) bool { return an.IsErrorType(t) }

func isIntType(t types.Type) bool {
	b, ok := t.Underlying().(*types.Basic)
	return ok && b.Info()&types.IsInteger != 0
}

// embeddedPtrLoad: v is a load of Message.Request / Message.Response (the embedded pointers).
func embeddedPtrLoad(v ssa.Value) (base ssa.Value, field string, ok bool) {
	var fa ssa.Value
	switch x := v.(type) {
	case *ssa.UnOp:
		if x.Op != token.MUL {
			return nil, "", false
		}
		fa = x.X
	case *ssa.Field:
		fa = x
	default:
		return nil, "", false
	}
	fv := an.FieldOf(fa)
	n := structOfFieldAccess(fa)
	if fv == nil || n == nil || n.Obj().Name() != "Message" || n.Obj().Pkg().Path() != pkgRPC {
		return nil, "", false
	}
	if fv.Name() != "Request" && fv.Name() != "Response" {
		return nil, "", false
	}
	switch x := fa.(type) {
	case *ssa.FieldAddr:
		return x.X, fv.Name(), true
	case *ssa.Field:
		return x.X, fv.Name(), true
	}
	return nil, "", false
}

func checkNilEmbedded(p *an.Prog, r *an.Run, fns []*ssa.Function) {
	n := 0
	for _, fn := range fns {
		var bad []string
		an.AllInstrs(fn, func(in ssa.Instruction) {
			// a dereference: FieldAddr / method call whose base is the loaded embedded pointer
			var ptr ssa.Value
			switch x := in.(type) {
			case *ssa.FieldAddr:
				ptr = x.X
			case ssa.CallInstruction:
				if !x.Common().IsInvoke() && x.Common().StaticCallee() != nil && x.Common().StaticCallee().Signature.Recv() != nil && len(x.Common().Args) > 0 {
					// methods of *Response/*Request dereference their receiver
					if nm := namedOf(x.Common().Args[0].Type()); nm != nil && (nm.Obj().Name() == "Response" || nm.Obj().Name() == "Request") && nm.Obj().Pkg() != nil && nm.Obj().Pkg().Path() == pkgRPC {
						ptr = x.Common().Args[0]
					}
				}
			case *ssa.UnOp:
				if x.Op == token.MUL {
					if _, _, ok := embeddedPtrLoad(x.X); ok {
						ptr = x.X
					}
				}
			}
			if ptr == nil {
				return
			}
			base, field, ok := embeddedPtrLoad(ptr)
			if !ok {
				return
			}
			n++
			// (a) the message was built here with that pointer set
			root, _ := an.RootPath(base)
			if al, isAlloc := root.(*ssa.Alloc); isAlloc {
				set := false
				for _, ref := range *al.Referrers() {
					if fa, ok := ref.(*ssa.FieldAddr); ok && an.FieldOf(fa) != nil && an.FieldOf(fa).Name() == field {
						for _, r2 := range *fa.Referrers() {
							if st, ok := r2.(*ssa.Store); ok && !isNilValue(st.Val) {
								set = true
							}
						}
					}
				}
				if set {
					return
				}
			}
			// (a') the message is the return value of Server.Handle, which always carries a Response (reply-id obligation)
			if field == "Response" {
				if c, ok := root.(*ssa.Call); ok {
					if f := an.CallObj(c); f != nil && f.Name() == "Handle" {
						if nm := an.RecvNamed(f); nm != nil && nm.Obj().Pkg() != nil && nm.Obj().Pkg().Path() == pkgRPC {
							return
						}
					}
				}
			}
			// (b) dominated by a nil test of the same pointer of the same message
			guarded := false
			for _, cr := range ctrlRels(in.Block()) {
				if cr.Op != token.NEQ {
					continue
				}
				l, rr := cr.L, cr.R
				if isNilValue(l) {
					l, rr = rr, l
				}
				if !isNilValue(rr) {
					continue
				}
				b2, f2, ok := embeddedPtrLoad(l)
				if ok && f2 == field && sameBase(b2, base) {
					guarded = true
				}
			}
			if !guarded {
				bad = append(bad, "Message."+field+" is dereferenced at "+p.Pos(in.Pos())+" without a nil test: a message lacking that part (e.g. a reply {\"id\":N} without result or error) crashes the process")
			}
		})
		if len(bad) > 0 {
			r.Fail("nil-embedded", an.FuncName(fn), fn.Pos(), "%s", strings.Join(dedup(bad), "; "))
		}
	}
	r.Floor("embedded-dereferences", n, 6)
	r.Ok("nil-embedded", "scope", token.NoPos, "every dereference of an embedded *Request/*Response is nil-tested or locally constructed")
}

func sameBase(a, b ssa.Value) bool {
	if a == b {
		return true
	}
	ra, pa := an.RootPath(a)
	rb, pb := an.RootPath(b)
	return ra == rb && pa == pb
}

func checkMakeSizes(p *an.Prog, r *an.Run, fns []*ssa.Function, scope map[*ssa.Function]bool) {
	var bad []string
	n := 0
	var nonNeg func(v ssa.Value, at ssa.Instruction, depth int) bool
	nonNeg = func(v ssa.Value, at ssa.Instruction, depth int) bool {
		if k, ok := an.ConstInt(v); ok {
			return k >= 0
		}
		// guarded by v > 0 / v >= 0 on the path to the use
		if at != nil {
			for _, cr := range ctrlRels(at.Block()) {
				if cr.Kind != "int" {
					continue
				}
				if cr.L == v {
					if k, ok := an.ConstInt(cr.R); ok && ((cr.Op == token.GTR && k >= -1) || (cr.Op == token.GEQ && k >= 0)) {
						return true
					}
				}
				if cr.R == v {
					if k, ok := an.ConstInt(cr.L); ok && ((cr.Op == token.LSS && k >= -1) || (cr.Op == token.LEQ && k >= 0)) {
						return true
					}
				}
			}
		}
		if _, ok := an.LenOf(v); ok {
			return true
		}
		switch x := v.(type) {
		case *ssa.Call:
			if b, ok := x.Call.Value.(*ssa.Builtin); ok && (an.Ident(b.Name()) == "len" || an.Ident(b.Name()) == "cap") {
				return true
			}
			if f := an.CallObj(x); f != nil && (f.Name() == "NumIn" || f.Name() == "NumOut" || f.Name() == "NumMethod" || f.Name() == "Len") {
				return true
			}
		case *ssa.BinOp:
			if x.Op == token.ADD || x.Op == token.MUL {
				return nonNeg(x.X, at, depth) && nonNeg(x.Y, at, depth)
			}
			if x.Op == token.SUB {
				// a - c with a guarded >= c : only reflect arg counts (NumIn()-1 with a receiver) — accept NumIn-1
				if c, ok := x.X.(*ssa.Call); ok {
					if f := an.CallObj(c); f != nil && f.Name() == "NumIn" {
						if k, ok := an.ConstInt(x.Y); ok && k <= 1 {
							return true
						}
					}
				}
			}
		case *ssa.Convert:
			return nonNeg(x.X, at, depth)
		case *ssa.Phi:
			for _, e := range x.Edges {
				if e != ssa.Value(x) && !nonNeg(e, at, depth) {
					return false
				}
			}
			return true
		case *ssa.Parameter:
			if depth <= 0 {
				return false
			}
			// every call site in scope passes a non-negative value
			fn := x.Parent()
			idx := -1
			for i, prm := range fn.Params {
				if prm == x {
					idx = i
				}
			}
			sites := 0
			for caller := range scope {
				for _, c := range an.Calls(caller, false) {
					for _, cal := range p.CalleesAt(c) {
						if cal != fn {
							continue
						}
						sites++
						args := c.Common().Args
						if c.Common().IsInvoke() {
							// invoke: receiver is not in Args
							if idx-1 < 0 || idx-1 >= len(args) || !nonNeg(args[idx-1], c.(ssa.Instruction), depth-1) {
								return false
							}
						} else if idx >= len(args) || !nonNeg(args[idx], c.(ssa.Instruction), depth-1) {
							return false
						}
					}
				}
			}
			return sites > 0
		}
		// guarded by v > 0 / v >= 0 on the path
		if at != nil {
			for _, cr := range ctrlRels(at.Block()) {
				if cr.Kind != "int" {
					continue
				}
				if cr.L == v {
					if k, ok := an.ConstInt(cr.R); ok && ((cr.Op == token.GTR && k >= -1) || (cr.Op == token.GEQ && k >= 0)) {
						return true
					}
				}
				if cr.R == v {
					if k, ok := an.ConstInt(cr.L); ok && ((cr.Op == token.LSS && k >= -1) || (cr.Op == token.LEQ && k >= 0)) {
						return true
					}
				}
			}
		}
		return false
	}
	// bounded: the size is made of quantities the process already holds (lengths, counts, constants) or is capped by
	// one on the way to the make — a count taken from a request (directly, or request + len(...), which also overflows)
	// lets one message ask for an allocation of any size: "makeslice: cap out of range" panics, smaller absurd sizes
	// abort the process with out-of-memory.
	relsOnEdge := func(pred, succ *ssa.BasicBlock) []ctrlRel {
		out := ctrlRels(pred)
		if len(pred.Instrs) > 0 {
			if iff, ok := pred.Instrs[len(pred.Instrs)-1].(*ssa.If); ok && len(pred.Succs) == 2 && pred.Succs[0] != pred.Succs[1] {
				for i, sc := range pred.Succs {
					if sc == succ {
						if rel, ok := an.BranchRel(iff, i); ok {
							out = append(out, ctrlRel{rel, iff, i})
						}
					}
				}
			}
		}
		return out
	}
	var bounded func(v ssa.Value, rels []ctrlRel, depth int, seen map[ssa.Value]bool) bool
	bounded = func(v ssa.Value, rels []ctrlRel, depth int, seen map[ssa.Value]bool) bool {
		if seen[v] {
			return true
		}
		seen[v] = true
		if _, ok := an.ConstInt(v); ok {
			return true
		}
		if _, ok := an.LenOf(v); ok {
			return true
		}
		// capped on the way: v <= B or v < B with B bounded
		for _, cr := range rels {
			if cr.Kind != "int" {
				continue
			}
			if cr.L == v && (cr.Op == token.LEQ || cr.Op == token.LSS) && bounded(cr.R, nil, depth, map[ssa.Value]bool{}) {
				return true
			}
			if cr.R == v && (cr.Op == token.GEQ || cr.Op == token.GTR) && bounded(cr.L, nil, depth, map[ssa.Value]bool{}) {
				return true
			}
		}
		switch x := v.(type) {
		case *ssa.Call:
			if b, ok := x.Call.Value.(*ssa.Builtin); ok && (an.Ident(b.Name()) == "len" || an.Ident(b.Name()) == "cap" || an.Ident(b.Name()) == "min") {
				if an.Ident(b.Name()) == "min" {
					for _, a := range x.Call.Args {
						if bounded(a, rels, depth, seen) {
							return true
						}
					}
					return false
				}
				return true
			}
			if f := an.CallObj(x); f != nil && (f.Name() == "NumIn" || f.Name() == "NumOut" || f.Name() == "NumMethod" || f.Name() == "Len") {
				return true
			}
		case *ssa.BinOp:
			switch x.Op {
			case token.ADD, token.SUB, token.MUL:
				return bounded(x.X, rels, depth, seen) && bounded(x.Y, rels, depth, seen)
			case token.QUO, token.REM, token.SHR, token.AND:
				return bounded(x.X, rels, depth, seen)
			}
		case *ssa.Convert:
			return bounded(x.X, rels, depth, seen)
		case *ssa.ChangeType:
			return bounded(x.X, rels, depth, seen)
		case *ssa.Phi:
			for i, e := range x.Edges {
				if e == ssa.Value(x) {
					continue
				}
				if !bounded(e, relsOnEdge(x.Block().Preds[i], x.Block()), depth, seen) {
					return false
				}
			}
			return true
		case *ssa.Parameter:
			if depth <= 0 {
				return false
			}
			fn := x.Parent()
			idx := -1
			for i, prm := range fn.Params {
				if prm == x {
					idx = i
				}
			}
			sites := 0
			for caller := range scope {
				for _, c := range an.Calls(caller, false) {
					for _, cal := range p.CalleesAt(c) {
						if cal != fn {
							continue
						}
						sites++
						args := c.Common().Args
						ai := idx
						if c.Common().IsInvoke() {
							ai = idx - 1
						}
						if ai < 0 || ai >= len(args) || !bounded(args[ai], ctrlRels(c.Block()), depth-1, map[ssa.Value]bool{}) {
							return false
						}
					}
				}
			}
			return sites > 0
		}
		return false
	}
	for _, fn := range fns {
		an.AllInstrs(fn, func(in ssa.Instruction) {
			var sizes []ssa.Value
			switch x := in.(type) {
			case *ssa.MakeSlice:
				sizes = []ssa.Value{x.Len, x.Cap}
			case *ssa.MakeMap:
				if x.Reserve != nil {
					return // negative hints are ignored by the runtime
				}
			case *ssa.MakeChan:
				sizes = []ssa.Value{x.Size}
			default:
				return
			}
			for _, s := range sizes {
				if s == nil {
					continue
				}
				if _, isConst := s.(*ssa.Const); isConst {
					continue
				}
				n++
				if !nonNeg(s, in, 2) {
					bad = append(bad, "make in "+an.FuncName(fn)+" at "+p.Pos(in.Pos())+" has a size that is not provably non-negative for every network input (a negative size panics)")
				}
				if !bounded(s, ctrlRels(in.Block()), 2, map[ssa.Value]bool{}) {
					bad = append(bad, "make in "+an.FuncName(fn)+" at "+p.Pos(in.Pos())+" is sized by a number that is not bounded by anything the process holds (a count taken from a request): one message can demand an allocation of any size (makeslice panic / out of memory)")
				}
			}
		})
	}
	r.Floor("make-sites", n, 10)
	r.Check(len(bad) == 0, "make", "scope", token.NoPos, "every non-constant make size in scope is non-negative and bounded by lengths/constants (or capped by one) at each call site", "%s", strings.Join(dedup(bad), "; "))
}

func checkNilMaps(p *an.Prog, r *an.Run, fns []*ssa.Function) {
	// constructors: functions returning a fresh &T{...} that stores a MakeMap into the field
	initialised := map[*types.Var]bool{}
	for _, fn := range p.Repo {
		an.AllInstrs(fn, func(in ssa.Instruction) {
			if st, ok := in.(*ssa.Store); ok {
				if fv := an.FieldOf(st.Addr); fv != nil {
					if _, isMap := fv.Type().Underlying().(*types.Map); isMap {
						if _, isMake := st.Val.(*ssa.MakeMap); isMake {
							root, _ := an.RootPath(st.Addr)
							if _, fresh := root.(*ssa.Alloc); fresh {
								initialised[fv] = true
							}
						}
					}
				}
			}
		})
	}
	var bad []string
	n := 0
	for _, fn := range fns {
		an.AllInstrs(fn, func(in ssa.Instruction) {
			mu, ok := in.(*ssa.MapUpdate)
			if !ok {
				return
			}
			ld, ok := mu.Map.(*ssa.UnOp)
			if !ok || ld.Op != token.MUL {
				return
			}
			fv := an.FieldOf(ld.X)
			if fv == nil {
				return
			}
			n++
			// all constructions of the owning type must initialise the map, or a nil test + make dominates
			guarded := false
			for _, cr := range ctrlRels(in.Block()) {
				_ = cr
			}
			// nil test followed by make on the same field earlier in the function
			an.AllInstrs(fn, func(i2 ssa.Instruction) {
				if st, ok := i2.(*ssa.Store); ok && an.FieldOf(st.Addr) == fv {
					if _, isMake := st.Val.(*ssa.MakeMap); isMake && st.Block().Dominates(in.Block()) == false {
						// store on a branch that merges before the update: accept when the branch is the nil case
						for _, c := range an.ControllingIfs(st.Block()) {
							if rel, ok := an.BranchRel(c.If, c.Succ); ok && rel.Op == token.EQL && (isNilValue(rel.R) || isNilValue(rel.L)) && c.If.Block().Dominates(in.Block()) {
								guarded = true
							}
						}
					}
				}
			})
			if guarded {
				return
			}
			if initialised[fv] && onlyConstructedBy(p, fv) {
				return
			}
			// a field of a package-level variable whose initialiser (package init) makes the map, and which is
			// only ever assigned made maps afterwards
			if root, _ := an.RootPath(ld.X); root != nil {
				if g, isG := root.(*ssa.Global); isG {
					initInPkg, okAll := false, true
					for _, f2 := range p.Repo {
						an.AllInstrs(f2, func(i3 ssa.Instruction) {
							st, ok := i3.(*ssa.Store)
							if !ok || an.FieldOf(st.Addr) != fv {
								return
							}
							if r2, _ := an.RootPath(st.Addr); r2 != ssa.Value(g) {
								return
							}
							if _, isMake := st.Val.(*ssa.MakeMap); !isMake {
								okAll = false
								return
							}
							if f2.Synthetic == "package initializer" || an.Ident(f2.Name()) == "init" {
								initInPkg = true
							}
						})
					}
					if initInPkg && okAll {
						return
					}
				}
			}
			bad = append(bad, "map field "+fv.Name()+" is written in "+an.FuncName(fn)+" at "+p.Pos(in.Pos())+" but may be nil (not initialised by every construction, no nil test + make on the path): assignment to a nil map panics")
		})
	}
	r.Floor("field-map-updates", n, 8)
	r.Check(len(bad) == 0, "nil-map", "scope", token.NoPos, "every map written through a field is initialised by its constructor or under a nil test", "%s", strings.Join(dedup(bad), "; "))

	// ---- nil-service: the registry of host connections is called from goroutines the pool starts itself (whitelist and
	// disconnect fan-out), outside any recover: a nil Service stored there kills the process at the next peer request.
	// The connection obtained from the request context is stored only past the success edge of that lookup.
	if conn := p.Method("pool", "VipnodePool", "connect"); conn != nil {
		var nb []string
		nReg := 0
		for _, fn := range regionFuncs(p, conn) {
			var lookups []ssa.CallInstruction
			for _, c := range an.Calls(fn, false) {
				if f := an.CallObj(c); f != nil && an.Ident(f.Name()) == "CtxService" {
					lookups = append(lookups, c)
				}
			}
			an.AllInstrs(fn, func(in ssa.Instruction) {
				mu, ok := in.(*ssa.MapUpdate)
				if !ok {
					return
				}
				fv := an.FieldOf(stripLoad(mu.Map))
				if fv == nil || an.Ident(fv.Name()) != "remoteHosts" {
					return
				}
				nReg++
				d := p.Derives(0, mu.Value)
				for _, lk := range lookups {
					lv, _ := lk.(ssa.Value)
					if lv == nil || !d.HasValue(lv) {
						continue
					}
					cut := an.EdgeSet(an.ErrEdges(lk).Succ)
					if an.PathAvoiding(fn, lk.(ssa.Instruction), nil, func(x ssa.Instruction) bool { return x == in }, cut) != nil {
						nb = append(nb, "the connection registered at "+p.Pos(in.Pos())+" can be stored although "+callName(lk)+" at "+p.Pos(lk.Pos())+" failed (its Service result is nil then): the next whitelist or disconnect fan-out calls a nil Service in an unrecovered goroutine")
					}
				}
			})
		}
		r.Floor("host-registrations", nReg, 1)
		r.Check(len(nb) == 0, "nil-service", an.FuncName(conn), conn.Pos(), "a connection is registered only when the context lookup succeeded", "%s", strings.Join(dedup(nb), "; "))
	}

	// ---- map-write-exclusive: the Go runtime aborts the whole process ("fatal error: concurrent map writes", not a
	// recoverable panic) when a map is written while another goroutine reads or writes it. A map held in a
	// mutex-bearing struct is therefore written only with that struct's lock held for writing — an RLock admits other
	// readers that may be deleting expired entries at the same moment.
	{
		var mb []string
		nMW := 0
		entry := p.EntryLocks()
		sharedSet := map[*types.Named]bool{}
		for _, t := range SharedTypes(p) {
			sharedSet[t] = true
		}
		for _, fn := range p.Repo {
			if p.IsTestFunc(fn) || isTestDoublePkg(fn) || strings.HasSuffix(p.File(fn.Pos()), "testsuite.go") {
				continue
			}
			var li *an.LockInfo
			for _, w := range writesOf(fn) {
				if w.Kind != "mapupdate" && w.Kind != "delete" && w.Kind != "clear" {
					continue
				}
				owned := false
				for _, f := range w.Fields {
					if t := structOfFieldAccess(f); t != nil && sharedSet[t] {
						owned = true
					}
				}
				if !owned {
					continue
				}
				nMW++
				if li == nil {
					li = an.Locksets(fn, entry[fn])
				}
				h := li.Before[w.In]
				wr, rd := false, false
				for _, isW := range h {
					if isW {
						wr = true
					} else {
						rd = true
					}
				}
				if !wr && rd {
					mb = append(mb, w.Kind+" on "+w.Path+" in "+an.FuncName(fn)+" at "+p.Pos(w.In.Pos())+" with only a read lock held: two requests inside this section at once abort the process with \"concurrent map writes\"")
				}
			}
		}
		r.Floor("locked-map-writes", nMW, 10)
		r.Check(len(mb) == 0, "map-write-exclusive", "repo", token.NoPos, "no map of a mutex-bearing struct is written under a read lock", "%s", strings.Join(dedup(mb), "; "))
	}
}

// onlyConstructedBy: every composite construction of the struct owning fv (in non-test code) stores a made map into fv.
func onlyConstructedBy(p *an.Prog, fv *types.Var) bool {
	ok := true
	for _, fn := range p.Repo {
		if isTestDoublePkg(fn) {
			continue
		}
		an.AllInstrs(fn, func(in ssa.Instruction) {
			al, isAlloc := in.(*ssa.Alloc)
			if !isAlloc {
				return
			}
			st, isStruct := al.Type().(*types.Pointer).Elem().Underlying().(*types.Struct)
			if !isStruct {
				return
			}
			owns := false
			for i := 0; i < st.NumFields(); i++ {
				if st.Field(i) == fv {
					owns = true
				}
			}
			if !owns {
				return
			}
			// is this alloc a construction (composite literal / new) rather than a copy target?
			copied := false
			set := false
			for _, ref := range *al.Referrers() {
				switch x := ref.(type) {
				case *ssa.Store:
					if x.Addr == ssa.Value(al) {
						copied = true // whole-struct store: a copy of an existing value
					}
				case *ssa.FieldAddr:
					if an.FieldOf(x) == fv {
						for _, r2 := range *x.Referrers() {
							if s2, ok := r2.(*ssa.Store); ok {
								if _, isMake := s2.Val.(*ssa.MakeMap); isMake {
									set = true
								}
							}
						}
					}
				}
			}
			if !copied && !set {
				ok = false
			}
		})
	}
	return ok
}

// poolOnlyHolds: v is the result of Get on a package-level sync.Pool, and everything that can be in that pool has the
// type t: its New function (a function literal in the pool's initialiser) returns a t, and every Put on the same pool in
// the repository is given a t.
func poolOnlyHolds(p *an.Prog, v ssa.Value, t types.Type) bool {
	c, ok := v.(*ssa.Call)
	if !ok || !an.IsMethod(an.CallObj(c), "sync", "Pool", "Get") || len(c.Call.Args) == 0 {
		return false
	}
	g, ok := c.Call.Args[0].(*ssa.Global)
	if !ok {
		return false
	}
	okAll, nSrc := true, 0
	judge := func(x ssa.Value) {
		nSrc++
		if mi, isMI := x.(*ssa.MakeInterface); isMI {
			if !types.Identical(mi.X.Type(), t) {
				okAll = false
			}
			return
		}
		okAll = false
	}
	for _, fn := range p.Repo {
		an.AllInstrs(fn, func(in ssa.Instruction) {
			switch x := in.(type) {
			case ssa.CallInstruction:
				if an.IsMethod(an.CallObj(x), "sync", "Pool", "Put") && len(x.Common().Args) == 2 && x.Common().Args[0] == ssa.Value(g) {
					judge(x.Common().Args[1])
				}
			case *ssa.Store:
				// pool.New = func() interface{} { return ... } in the package initialiser
				if fa, isFA := x.Addr.(*ssa.FieldAddr); isFA && fa.X == ssa.Value(g) {
					if fv := an.FieldOf(fa); fv != nil && fv.Name() == "New" {
						var nf *ssa.Function
						switch nv := x.Val.(type) {
						case *ssa.Function:
							nf = nv
						case *ssa.MakeClosure:
							nf, _ = nv.Fn.(*ssa.Function)
						}
						if nf == nil {
							okAll = false
							return
						}
						an.AllInstrs(nf, func(in2 ssa.Instruction) {
							if ret, isRet := in2.(*ssa.Return); isRet && len(ret.Results) == 1 {
								judge(ret.Results[0])
							}
						})
					}
				}
			}
		})
	}
	return okAll && nSrc > 0
}

func checkReplyID(p *an.Prog, r *an.Run) {
	h := p.Method("jsonrpc2", "Server", "Handle")
	hr := requestHandlerOf(p)
	if h == nil || hr == nil {
		r.Undec("reply-id", "jsonrpc2", token.NoPos, "Server.Handle / Remote.handleRequest not found")
		return
	}
	r.Analysed(an.FuncName(h), an.FuncName(hr))
	var bad []string
	reqPrm := h.Params[2]
	var msgAlloc *ssa.Alloc
	an.AllInstrs(h, func(in ssa.Instruction) {
		ret, ok := in.(*ssa.Return)
		if !ok || (h.Recover != nil && ret.Block() == h.Recover) {
			return // the synthetic return after a recovered panic (a function with a defer has one)
		}
		v := an.RetResults(ret)[0]
		al, ok := v.(*ssa.Alloc)
		if !ok {
			bad = append(bad, "the return at "+p.Pos(ret.Pos())+" does not yield the response message built for this request")
			return
		}
		if msgAlloc != nil && msgAlloc != al {
			bad = append(bad, "different returns yield different messages")
		}
		msgAlloc = al
	})
	if msgAlloc == nil {
		bad = append(bad, "Handle never returns a locally built message")
	} else {
		okID, okResp := false, false
		for _, ref := range *msgAlloc.Referrers() {
			fa, ok := ref.(*ssa.FieldAddr)
			if !ok {
				continue
			}
			for _, r2 := range *fa.Referrers() {
				st, ok := r2.(*ssa.Store)
				if !ok {
					continue
				}
				switch an.FieldOf(fa).Name() {
				case "ID":
					d := p.Derives(0, st.Val)
					if d.HasParam(reqPrm) && d.HasFieldNamed("Message", "ID") {
						okID = true
					} else {
						bad = append(bad, "the reply's id is set from something other than the request's id")
					}
				case "Response":
					if isNilValue(st.Val) {
						bad = append(bad, "the reply's Response is set to nil at "+p.Pos(st.Pos()))
					} else {
						okResp = true
					}
				case "Request":
					if !isNilValue(st.Val) {
						bad = append(bad, "the reply carries a Request part (it would be dispatched as a request by the peer)")
					}
				}
			}
		}
		if !okID {
			bad = append(bad, "the reply does not carry the request's id")
		}
		if !okResp {
			bad = append(bad, "the reply is built without a Response part")
		}
		// the initial stores must dominate every return (built before any early return)
		first := msgAlloc.Block()
		if first != h.Blocks[0] {
			bad = append(bad, "the reply message is not built on entry")
		}
	}
	r.Check(len(bad) == 0, "reply-id", an.FuncName(h), h.Pos(), "every return yields the message built on entry with ID = request id and a non-nil Response", "%s", strings.Join(dedup(bad), "; "))

	// handleRequest: every path writes the handler's response
	bad = nil
	var handle, write ssa.CallInstruction
	for _, c := range an.Calls(hr, false) {
		f := an.CallObj(c)
		if f != nil && f.Name() == "Handle" {
			handle = c
		}
		if f != nil && f.Name() == "WriteMessage" {
			write = c
		}
	}
	if handle == nil || write == nil {
		bad = append(bad, "handleRequest does not both dispatch the request and write a reply")
	} else {
		for _, c := range an.Calls(hr, false) {
			if f := an.CallObj(c); f != nil && f.Name() == "WriteMessage" && methodArgs(c)[0] != handle.Value() {
				bad = append(bad, "the message written at "+p.Pos(c.Pos())+" is not the handler's response to this request (a remembered reply answers whatever is sent under the same id, registered or not, well-formed or not)")
			}
		}
		if in := an.PathAvoiding(hr, nil, func(in ssa.Instruction) bool { return in == write.(ssa.Instruction) }, an.IsReturn, nil); in != nil {
			bad = append(bad, "a path returns at "+p.Pos(in.Pos())+" without writing a reply")
		}
		isMsgPrm := false
		for _, prm := range hr.Params {
			if methodArgs(handle)[1] == ssa.Value(prm) && strings.HasSuffix(prm.Type().String(), "jsonrpc2.Message") {
				isMsgPrm = true
			}
		}
		if !isMsgPrm {
			bad = append(bad, "the message dispatched is not the one received")
		}
	}
	// ... and the read loop hands every request it reads to the handler: from the branch taken for a message that
	// carries a request, the next read is not reached without the dispatch (a "same id still in flight" filter leaves
	// a different request that reuses the id without any reply)
	if serve := p.Method("jsonrpc2", "Remote", "Serve"); serve != nil {
		var disp, read ssa.Instruction
		for _, c := range an.Calls(serve, false) {
			if f := an.CallObj(c); f != nil && f.Name() == "ReadMessage" {
				read = c.(ssa.Instruction)
			}
			if g, isGo := c.(*ssa.Go); isGo {
				if calleeIs(c, hr) {
					disp = g
				} else if mc, ok := g.Call.Value.(*ssa.MakeClosure); ok {
					if cf, _ := mc.Fn.(*ssa.Function); cf != nil {
						for _, cc := range an.Calls(cf, false) {
							if calleeIs(cc, hr) {
								disp = g
							}
						}
					}
				}
			}
		}
		if disp != nil && read != nil {
			an.AllInstrs(serve, func(in ssa.Instruction) {
				iff, ok := in.(*ssa.If)
				if !ok {
					return
				}
				rel, ok := an.NormCond(iff.Cond)
				if !ok || (rel.Op != token.NEQ && rel.Op != token.EQL) {
					return
				}
				v := rel.L
				if isNilValue(v) {
					v = rel.R
				} else if !isNilValue(rel.R) {
					return
				}
				if _, f, ok := embeddedPtrLoad(v); !ok || f != "Request" {
					return
				}
				succ := 0
				if rel.Op == token.EQL {
					succ = 1
				}
				if hit := pathFromBlock(serve, iff.Block().Succs[succ], func(x ssa.Instruction) bool { return x == disp }, func(x ssa.Instruction) bool { return x == read || an.IsReturn(x) }); hit != nil {
					bad = append(bad, "Serve can go on to "+p.Pos(hit.Pos())+" after reading a request without handing it to the handler: that request never gets a reply")
				}
			})
		}
	}
	r.Check(len(bad) == 0, "reply-id", an.FuncName(hr), hr.Pos(), "every request is dispatched and its response written", "%s", strings.Join(bad, "; "))
}

// checkNilResultUse: for calls returning (pointer, ..., error), a use of the pointer (field access, method call on
// it, dereference) must not be reachable from the edge on which the error is known to be non-nil — "log the error and
// carry on" then dereferences nil. The walk stops when it passes the call again (loops that retry redefine the value)
// and uses guarded by an explicit nil test of the pointer are accepted.
func checkNilResultUse(p *an.Prog, r *an.Run, fns []*ssa.Function) {
	var bad []string
	n := 0
	for _, fn := range fns {
		for _, c := range an.Calls(fn, false) {
			cv := c.Value()
			if cv == nil {
				continue
			}
			sig := c.Common().Signature()
			if sig == nil || sig.Results().Len() < 2 {
				continue
			}
			if _, isPtr := sig.Results().At(0).Type().Underlying().(*types.Pointer); !isPtr {
				continue
			}
			if !an.IsErrorType(sig.Results().At(sig.Results().Len() - 1).Type()) {
				continue
			}
			var ptr *ssa.Extract
			for _, ref := range *cv.Referrers() {
				if ex, ok := ref.(*ssa.Extract); ok && ex.Index == 0 {
					ptr = ex
				}
			}
			if ptr == nil || ptr.Referrers() == nil {
				continue
			}
			u := an.ErrEdges(c)
			if len(u.Fail) == 0 {
				continue
			}
			n++
			// blocks reachable from a failure edge without passing the call again
			nilSide := an.EdgeSet(u.Succ)
			seen := map[*ssa.BasicBlock]bool{}
			var work []*ssa.BasicBlock
			for _, e := range u.Fail {
				work = append(work, e.To)
			}
			for len(work) > 0 {
				b := work[len(work)-1]
				work = work[:len(work)-1]
				if seen[b] || b == c.Block() {
					continue
				}
				seen[b] = true
				for i, sc := range b.Succs {
					// a later test of the same error: only its "still non-nil" side lies on this path
					if !an.DeadEdge(b, i) && !nilSide[an.Edge{From: b, To: sc}] {
						work = append(work, sc)
					}
				}
			}
			for _, ref := range *ptr.Referrers() {
				if !seen[ref.Block()] {
					continue
				}
				deref := false
				switch x := ref.(type) {
				case *ssa.FieldAddr:
					deref = x.X == ssa.Value(ptr)
				case *ssa.UnOp:
					deref = x.Op == token.MUL && x.X == ssa.Value(ptr)
				case ssa.CallInstruction:
					cc := x.Common()
					if !cc.IsInvoke() && len(cc.Args) > 0 && cc.Args[0] == ssa.Value(ptr) && cc.StaticCallee() != nil && cc.StaticCallee().Signature.Recv() != nil {
						deref = true
					}
				}
				if !deref {
					continue
				}
				guarded := false
				for _, cr := range ctrlRels(ref.Block()) {
					if cr.Op == token.NEQ && ((cr.L == ssa.Value(ptr) && isNilValue(cr.R)) || (cr.R == ssa.Value(ptr) && isNilValue(cr.L))) {
						guarded = true
					}
				}
				if !guarded {
					bad = append(bad, an.FuncName(fn)+" uses the result of "+callName(c)+" at "+p.Pos(ref.Pos())+" on a path where that call has failed (the pointer is nil there): a malformed input from the network crashes the process")
				}
			}
		}
	}
	r.Floor("pointer-error-calls", n, 10)
	r.Check(len(bad) == 0, "nil-result", "scope", token.NoPos, "no use of a (pointer, error) result on the failure path", "%s", strings.Join(dedup(bad), "; "))
}

func isRawMessage(t types.Type) bool {
	n, ok := t.(*types.Named)
	return ok && n.Obj().Name() == "RawMessage" && n.Obj().Pkg() != nil && n.Obj().Pkg().Path() == "encoding/json"
}
