package rules

import (
	"go/constant"
	"go/token"
	"go/types"
	"strconv"
	"strings"

	"golang.org/x/tools/go/ssa"

	"vipcheck/an"
)

func init() {
	Registry["C18"] = Spec{
		Run: runC18,
		Explanation: "Static gate / pairing / provenance rules over Agent.UpdatePeers and AddPeers: (after-update) every node mutator (RemoveTrustedPeer, DisconnectPeer, ConnectPeer, AddTrustedPeer), direct or through helpers, is reachable only through the success edge of the pool's Update call; " +
			"(pairwise) each iteration over the invalid list calls RemoveTrustedPeer then DisconnectPeer with the same id, derived from that list's element; (invalid-list) without strict mode the list is the pool's InvalidPeers untouched, " +
			"with strict mode it is rebuilt from the local peer list and a peer is kept out only on lookup-hit and equal remote host, the lookup being built from the pool's ActivePeers (id -> host, ports not compared); " +
			"(shortfall) AddPeers is called exactly when NumHosts - len(ActivePeers) > 0, with that difference, which becomes PeerRequest.Num; Kind is the node's own kind iff it is not a full node; every returned peer's URI is dialled. Round 2: nothing mutates the node on the failure edge of an UpdatePeers call; only UpdatePeers/AddPeers regions and agent.Service methods may call node mutators; (fresh-reply) each RemotePool stub decodes into a fresh local; EnodeURI carries Network.RemoteAddress on every return. Round 4 (id-form): the peer argument of every parity_*ReservedPeer RPC is never the bare \"enode://\"+id form (Parity rejects a URL without an address part: the peer would stay trusted and connected). Round 5: (adapter-errors) node adapters fail exactly when the RPC fails.",
		NotDecided: []string{"not decided: multi-round convergence; behaviour of the node's own RPC; URI parsing of hostile peer descriptions (C15)"},
	}
}

func isEthMutator(f *types.Func) bool {
	if f == nil {
		return false
	}
	switch f.Name() {
	case "RemoveTrustedPeer", "DisconnectPeer", "ConnectPeer", "AddTrustedPeer":
	default:
		return false
	}
	n := an.RecvNamed(f)
	return n != nil && n.Obj().Pkg() != nil && (n.Obj().Pkg().Path() == pkgEthnode || strings.HasPrefix(n.Obj().Pkg().Path(), an.Module+"/internal/fake"))
}

func runC18(p *an.Prog, r *an.Run, tier string) {
	checkSurfaceClosed(p, r)
	up := p.Method("agent", "Agent", "UpdatePeers")
	ap := p.Method("agent", "Agent", "AddPeers")
	if up == nil || ap == nil {
		r.Undec("anchors", "agent.Agent", token.NoPos, "UpdatePeers/AddPeers not found")
		return
	}
	r.Analysed(an.FuncName(up), an.FuncName(ap))
	name := an.FuncName(up)
	var updCall ssa.CallInstruction
	for _, c := range an.Calls(up, false) {
		if f := an.CallObj(c); f != nil && f.Name() == "Update" && an.RecvNamed(f) != nil && an.RecvNamed(f).Obj().Name() == "Pool" {
			updCall = c
		}
	}
	if updCall == nil {
		r.Fail("after-update", name, up.Pos(), "UpdatePeers does not call the pool's Update")
		return
	}
	var updResp ssa.Value
	for _, ref := range *updCall.Value().Referrers() {
		if ex, ok := ref.(*ssa.Extract); ok && ex.Index == 0 {
			updResp = ex
		}
	}

	// ---- after-update
	var bad []string
	reach := an.ReachAvoiding(up, an.EdgeSet(an.ErrEdges(updCall).Succ))
	nMut := 0
	for _, c := range an.Calls(up, false) {
		direct := isEthMutator(an.CallObj(c))
		via := ""
		if !direct {
			for _, cal := range p.CalleesAt(c) {
				if !p.InRepo(cal) {
					continue
				}
				if w, ok := p.ReachesCall(cal, func(cc ssa.CallInstruction) bool { return isEthMutator(an.CallObj(cc)) }); ok {
					via = an.FuncName(cal) + " -> " + an.ObjString(an.CallObj(w))
				}
			}
		}
		if !direct && via == "" {
			continue
		}
		nMut++
		if reach[c.Block()] {
			what := an.ObjString(an.CallObj(c))
			if via != "" {
				what = via
			}
			bad = append(bad, what+" at "+p.Pos(c.Pos())+" is reachable although the keep-alive call to the pool failed: a failed update must change nothing on the node")
		}
	}
	r.Floor("node-mutation-sites", nMut, 3)
	// the request sent carries the local peers and block number
	ua := methodArgs(updCall)
	if len(ua) == 2 {
		d := p.Derives(0, ua[1])
		if d.CallTo(func(f *types.Func) bool {
			return f.Name() == "Peers" && an.RecvNamed(f) != nil && an.RecvNamed(f).Obj().Name() == "EthNode"
		}) == nil {
			bad = append(bad, "the update does not report the node's current peers")
		}
		if d.CallTo(func(f *types.Func) bool { return f.Name() == "BlockNumber" }) == nil {
			bad = append(bad, "the update does not report the node's block number")
		}
	}
	// callers of UpdatePeers: when it fails, nothing that follows may touch the node either
	mutates := func(c ssa.CallInstruction) string {
		if isEthMutator(an.CallObj(c)) {
			return an.ObjString(an.CallObj(c))
		}
		for _, cal := range p.CalleesAt(c) {
			if !p.InRepo(cal) {
				continue
			}
			if w, ok := p.ReachesCall(cal, func(cc ssa.CallInstruction) bool { return isEthMutator(an.CallObj(cc)) }); ok {
				return an.FuncName(cal) + " -> " + an.ObjString(an.CallObj(w))
			}
		}
		return ""
	}
	for _, site := range p.StaticSites(up) {
		caller := site.Parent()
		if p.IsTestFunc(caller) || !p.InRepo(caller) {
			continue
		}
		u := an.ErrEdges(site)
		var starts []*ssa.BasicBlock
		for _, e := range u.Fail {
			starts = append(starts, e.To)
		}
		if len(starts) == 0 {
			continue
		}
		fr := an.ReachFrom(starts, nil)
		for _, s0 := range starts {
			fr[s0] = true
		}
		for _, c := range an.Calls(caller, false) {
			if c == site || !fr[c.Block()] {
				continue
			}
			// only what can follow the failure without passing the call again in a later iteration
			if an.ReachAvoiding(caller, an.EdgeSet(u.Fail))[c.Block()] && !an.Dominates(site.(ssa.Instruction), c.(ssa.Instruction)) {
				continue
			}
			if an.ReachAvoiding(caller, an.EdgeSet(u.Fail))[c.Block()] {
				// reachable on the success side as well: decide by the failure-only region
				onlyFail := true
				for _, e := range u.Succ {
					if an.ReachFrom([]*ssa.BasicBlock{e.To}, an.EdgeSet(u.Fail))[c.Block()] || e.To == c.Block() {
						onlyFail = false
					}
				}
				if !onlyFail {
					continue
				}
			}
			if w := mutates(c); w != "" {
				bad = append(bad, an.FuncName(caller)+" calls "+w+" at "+p.Pos(c.Pos())+" after a failed UpdatePeers: a failed keep-alive must change nothing on the node")
			}
		}
	}
	// who may touch the node: only UpdatePeers, AddPeers and their helpers (anything else must be unreachable)
	allowed := map[*ssa.Function]bool{}
	for _, f := range regionFuncs(p, up) {
		allowed[f] = true
	}
	for _, f := range regionFuncs(p, ap) {
		allowed[f] = true
	}
	// the reverse RPC service (agent.Service: what the pool may instruct a host to do) is the other legitimate entry
	if svc := p.Iface("agent", "Service"); svc != nil {
		if ag := p.Named("agent", "Agent"); ag != nil {
			it := svc.Underlying().(*types.Interface)
			for i := 0; i < it.NumMethods(); i++ {
				if m := p.MethodOf(ag, it.Method(i).Name()); m != nil {
					allowed[m] = true
				}
			}
		}
	}
	for _, fn := range p.Repo {
		if p.IsTestFunc(fn) || allowed[fn] || fn.Pkg == nil || !strings.HasSuffix(fn.Pkg.Pkg.Path(), "/agent") {
			continue
		}
		direct := false
		for _, c := range an.Calls(fn, false) {
			if isEthMutator(an.CallObj(c)) {
				direct = true
			}
		}
		if !direct {
			continue
		}
		for _, site := range p.StaticSites(fn) {
			if !p.IsTestFunc(site.Parent()) {
				bad = append(bad, an.FuncName(fn)+" changes the node's peers and is called from "+an.FuncName(site.Parent())+" ("+p.Pos(site.Pos())+"), outside the keep-alive round")
			}
		}
		if p.IsAddressTaken(fn) {
			bad = append(bad, an.FuncName(fn)+" changes the node's peers and is used as a value outside the keep-alive round")
		}
	}
	r.Check(len(bad) == 0, "after-update", name, updCall.Pos(), "node mutators only past a successful pool update", "%s", strings.Join(dedup(bad), "; "))

	// ---- pairwise
	bad = nil
	var rem, dis []ssa.CallInstruction
	for _, c := range an.Calls(up, false) {
		if f := an.CallObj(c); isEthMutator(f) {
			switch f.Name() {
			case "RemoveTrustedPeer":
				rem = append(rem, c)
			case "DisconnectPeer":
				dis = append(dis, c)
			}
		}
	}
	if len(rem) != 1 || len(dis) != 1 {
		bad = append(bad, "expected one RemoveTrustedPeer and one DisconnectPeer site in the invalid-peer loop, found "+itoa(len(rem))+"/"+itoa(len(dis)))
	} else {
		R, D := rem[0].(ssa.Instruction), dis[0].(ssa.Instruction)
		isR := func(in ssa.Instruction) bool { return in == R }
		isD := func(in ssa.Instruction) bool { return in == D }
		if !inLoop(R) || !inLoop(D) {
			bad = append(bad, "the invalid peers are not processed in a loop")
		}
		if in := an.PathAvoiding(up, R, isD, func(in ssa.Instruction) bool { return isR(in) || an.IsReturn(in) }, nil); in != nil {
			bad = append(bad, "a peer can be un-trusted without being disconnected (path from RemoveTrustedPeer to "+p.Pos(in.Pos())+" skipping DisconnectPeer)")
		}
		if in := an.PathAvoiding(up, D, isR, isD, nil); in != nil {
			bad = append(bad, "a peer can be disconnected without being un-trusted")
		}
		if !an.Dominates(R, D) {
			bad = append(bad, "DisconnectPeer does not follow RemoveTrustedPeer")
		}
		// every element of the invalid list is processed: no path through the loop body skips the pair
		if hdr := loopHeader(R.Block()); hdr != nil {
			for _, s := range hdr.Succs {
				inBody := false
				for _, b := range reachBlocks(s) {
					if b == hdr {
						inBody = true
					}
				}
				if !inBody {
					continue
				}
				if in := pathFromBlock(up, s, isR, func(x ssa.Instruction) bool { return x.Block() == hdr }); in != nil {
					bad = append(bad, "an invalid peer can be skipped: a path through the loop body returns to the loop head without un-trusting and disconnecting the peer")
				}
			}
		}
		ra, da := methodArgs(rem[0]), methodArgs(dis[0])
		if ra[1] != da[1] {
			bad = append(bad, "RemoveTrustedPeer and DisconnectPeer are given different ids")
		}
		// id derives from the element of InvalidPeers of the update response
		d := p.Derives(0, ra[1])
		if !d.HasValue(updResp) || !d.HasFieldNamed("UpdateResponse", "InvalidPeers") {
			bad = append(bad, "the peer dropped is not an element of the invalid list")
		}
		if d.HasFieldNamed("UpdateResponse", "ActivePeers") {
			bad = append(bad, "active peers flow into the drop loop")
		}
	}
	r.Check(len(bad) == 0, "pairwise", name, up.Pos(), "each invalid peer: RemoveTrustedPeer(id) then DisconnectPeer(id)", "%s", strings.Join(bad, "; "))

	// ---- invalid-list
	bad = nil
	isStrict := func(v ssa.Value) bool { return fieldLoadOf(v, "Agent", "StrictPeers") }
	nStores := 0
	// the pool's ACTIVE list is never edited by the agent: the shortfall is NumHosts minus what the pool lists, and the
	// strict lookup is built from it ("approving" pinned peers by appending them makes the agent request fewer hosts)
	for _, f := range regionFuncs(p, up) {
		an.AllInstrs(f, func(in ssa.Instruction) {
			st, ok := in.(*ssa.Store)
			if !ok {
				return
			}
			if fv := an.FieldOf(st.Addr); fv != nil && fv.Name() == "ActivePeers" {
				if n := structOfFieldAccess(st.Addr); n != nil && n.Obj().Name() == "UpdateResponse" {
					bad = append(bad, "the pool's ActivePeers list is modified at "+p.Pos(st.Pos())+": the shortfall and the strict comparison no longer work on what the pool said")
				}
			}
		})
	}
	an.AllInstrs(up, func(in ssa.Instruction) {
		st, ok := in.(*ssa.Store)
		if !ok {
			return
		}
		fv := an.FieldOf(st.Addr)
		if fv == nil || fv.Name() != "InvalidPeers" {
			return
		}
		nStores++
		if !boolCtrl(st.Block(), isStrict, true) {
			bad = append(bad, "the pool's InvalidPeers list is modified at "+p.Pos(st.Pos())+" outside strict mode: peers the pool did not declare invalid would be dropped (or declared ones kept)")
		}
	})
	// strict mode always rebuilds: from the true edge of the StrictPeers test no path reaches the un-trust/disconnect
	// calls without passing a (non-loop) replacement of InvalidPeers — an extra condition on the rebuild ("only when
	// the pool lists active peers") leaves every local peer in place exactly when none of them is listed
	an.AllInstrs(up, func(in ssa.Instruction) {
		iff, ok := in.(*ssa.If)
		if !ok {
			return
		}
		v, trueIdx := iff.Cond, 0
		for {
			u, isNot := v.(*ssa.UnOp)
			if !isNot || u.Op != token.NOT {
				break
			}
			v, trueIdx = u.X, 1-trueIdx
		}
		if !isStrict(v) {
			return
		}
		isRebuildStore := func(x ssa.Instruction) bool {
			st, ok := x.(*ssa.Store)
			if !ok || onCycle(st.Block()) {
				return false
			}
			fv := an.FieldOf(st.Addr)
			return fv != nil && fv.Name() == "InvalidPeers"
		}
		isRebuild := func(x ssa.Instruction) bool {
			if isRebuildStore(x) {
				return true
			}
			// the block extracted into a helper: a call whose callee replaces the list on every path to its return
			c, ok := x.(*ssa.Call)
			if !ok {
				return false
			}
			cal := c.Common().StaticCallee()
			if cal == nil || !p.InRepo(cal) || len(cal.Blocks) == 0 {
				return false
			}
			has := false
			an.AllInstrs(cal, func(y ssa.Instruction) {
				if isRebuildStore(y) {
					has = true
				}
			})
			return has && an.PathAvoiding(cal, nil, isRebuildStore, an.IsReturn, nil) == nil
		}
		isDrop := func(x ssa.Instruction) bool {
			c, ok := x.(ssa.CallInstruction)
			if !ok {
				return false
			}
			f := an.CallObj(c)
			return f != nil && (f.Name() == "RemoveTrustedPeer" || f.Name() == "DisconnectPeer")
		}
		if hit := pathFromBlock(up, iff.Block().Succs[trueIdx], isRebuild, isDrop); hit != nil {
			bad = append(bad, "with StrictPeers set (test at "+p.Pos(iff.Pos())+") the un-trust/disconnect at "+p.Pos(hit.Pos())+" can be reached without the invalid list having been rebuilt from the local peers: strict mode is skipped under some further condition, and peers the pool does not list stay connected")
		}
	})
	// strict rebuild: in UpdatePeers under StrictPeers, or in helpers called from there
	strictFns := map[*ssa.Function]bool{}
	for _, c := range an.Calls(up, false) {
		if cal := c.Common().StaticCallee(); cal != nil && p.InRepo(cal) && len(cal.Blocks) > 0 && boolCtrl(c.Block(), isStrict, true) {
			for _, f := range regionFuncs(p, cal) {
				strictFns[f] = true
			}
		}
	}
	underStrict := func(in ssa.Instruction) bool {
		if strictFns[in.Parent()] {
			return true
		}
		return in.Parent() == up && boolCtrl(in.Block(), isStrict, true)
	}
	searchFns := []*ssa.Function{up}
	for f := range strictFns {
		searchFns = append(searchFns, f)
	}
	sortFuncs(searchFns)
	var strictAppend *ssa.Call
	for _, f := range searchFns {
		for _, c := range an.Calls(f, false) {
			if b, ok := c.Common().Value.(*ssa.Builtin); ok && an.Ident(b.Name()) == "append" && underStrict(c.(ssa.Instruction)) {
				if sl, ok := c.Common().Args[0].Type().Underlying().(*types.Slice); !ok || !isBasic(sl.Elem(), types.String) {
					continue
				}
				if p.DerivesIn(up, 3, c.Common().Args[0]).HasFieldNamed("UpdateResponse", "InvalidPeers") {
					strictAppend, _ = c.(*ssa.Call)
				}
			}
		}
	}
	if strictAppend == nil {
		bad = append(bad, "strict mode does not rebuild the invalid list")
	} else {
		sfn := strictAppend.Parent()
		els, ok := variadicElems(strictAppend.Call.Args[1])
		if !ok || len(els) != 1 {
			bad = append(bad, "unrecognised strict append")
		} else {
			d := p.DerivesIn(up, 3, els[0])
			if d.CallTo(func(f *types.Func) bool {
				return f.Name() == "Peers" && an.RecvNamed(f) != nil && an.RecvNamed(f).Obj().Name() == "EthNode"
			}) == nil {
				bad = append(bad, "strict mode does not build the invalid list from the node's local peers")
			}
		}
		// keep-out edge: lookup hit && RemoteHost equal
		var lookupMap ssa.Value
		okKeep := false
		an.AllInstrs(sfn, func(in ssa.Instruction) {
			iff, ok := in.(*ssa.If)
			if !ok || !underStrict(in) {
				return
			}
			rel, ok := an.NormCond(iff.Cond)
			if !ok || rel.Kind != "string" || (rel.Op != token.EQL && rel.Op != token.NEQ) {
				return
			}
			isHostCall := func(v ssa.Value) bool {
				c, ok := v.(*ssa.Call)
				return ok && an.CallObj(c) != nil && an.CallObj(c).Name() == "RemoteHost"
			}
			var lk *ssa.Lookup
			other := rel.L
			if ex, ok := rel.R.(*ssa.Extract); ok {
				lk, _ = ex.Tuple.(*ssa.Lookup)
			} else if ex, ok := rel.L.(*ssa.Extract); ok {
				lk, _ = ex.Tuple.(*ssa.Lookup)
				other = rel.R
			}
			if lk == nil || !lk.CommaOk || !isHostCall(other) {
				return
			}
			lookupMap = p.Resolve(lk.X)
			// controlled by the hit
			hit := false
			for _, c := range an.ControllingIfs(iff.Block()) {
				if ex, ok := c.If.Cond.(*ssa.Extract); ok && ex.Tuple == ssa.Value(lk) && ex.Index == 1 && c.Succ == 0 {
					hit = true
				}
			}
			eqSucc := 0
			if rel.Op == token.NEQ {
				eqSucc = 1
			}
			isApp := func(x ssa.Instruction) bool { return x == ssa.Instruction(strictAppend) }
			hdr := loopHeader(iff.Block())
			atHdr := func(x ssa.Instruction) bool { return hdr != nil && x.Block() == hdr }
			keeps := hdr != nil && pathFromBlock(sfn, iff.Block().Succs[eqSucc], atHdr, isApp) == nil
			drops := hdr != nil && pathFromBlock(sfn, iff.Block().Succs[1-eqSucc], atHdr, isApp) != nil
			if hit && keeps && drops {
				okKeep = true
			}
		})
		if !okKeep {
			bad = append(bad, "strict mode does not keep exactly the local peers that the pool lists as active under the same host (lookup hit && RemoteHost equal => keep, everything else => drop)")
		}
		if lookupMap != nil {
			okBuild := false
			if mm, ok := lookupMap.(*ssa.MakeMap); ok {
				for _, ref := range *mm.Referrers() {
					if mu, ok := ref.(*ssa.MapUpdate); ok {
						dk, dv := p.DerivesIn(up, 3, mu.Key), p.DerivesIn(up, 3, mu.Value)
						kOK := dk.HasFieldNamed("UpdateResponse", "ActivePeers") && dk.CallTo(func(f *types.Func) bool { return f.Name() == "ID" }) != nil
						vOK := dv.HasFieldNamed("UpdateResponse", "ActivePeers") && dv.CallTo(func(f *types.Func) bool { return f.Name() == "RemoteHost" }) != nil
						if kOK && vOK {
							okBuild = true
						}
					}
				}
			}
			if !okBuild {
				bad = append(bad, "the strict-mode lookup is not id -> remote host of the pool's ActivePeers")
			}
		}
	}
	// the host comparison relies on NodeURI.RemoteHost being the URL's Hostname() (brackets/port stripped; IPv6 intact)
	if rh := p.Method("ethnode", "NodeURI", "RemoteHost"); rh != nil {
		r.Analysed(an.FuncName(rh))
		an.AllInstrs(rh, func(in ssa.Instruction) {
			ret, ok := in.(*ssa.Return)
			if !ok {
				return
			}
			v := an.RetResults(ret)[0]
			if s, ok := an.ConstString(v); ok && s == "" {
				return
			}
			if c, ok := v.(*ssa.Call); ok && an.IsMethod(an.CallObj(c), "net/url", "URL", "Hostname") {
				return
			}
			bad = append(bad, "NodeURI.RemoteHost returns something other than the URL's Hostname() at "+p.Pos(ret.Pos())+" (hand-made host/port splitting breaks IPv6 literals, so different hosts compare equal in strict mode)")
		})
	} else {
		bad = append(bad, "ethnode.NodeURI.RemoteHost not found")
	}
	// the id of a parsed node URI is read from where the URL parser puts it: a bare "<id>" has it in Path, "enode://<id>"
	// (no address part) in Host, "enode://<id>@host" in the user name — the agent reduces every invalid peer to its id
	// through this, an empty id un-trusts and disconnects nobody
	if idm := p.Method("ethnode", "NodeURI", "ID"); idm != nil {
		r.Analysed(an.FuncName(idm))
		nRet := 0
		an.AllInstrs(idm, func(in ssa.Instruction) {
			ret, ok := in.(*ssa.Return)
			if !ok || len(ret.Results) == 0 {
				return
			}
			nRet++
			d := p.Derives(0, an.RetResults(ret)[0])
			underScheme, underNoUser := false, false
			for _, cr := range ctrlRels(ret.Block()) {
				for _, side := range []ssa.Value{cr.L, cr.R} {
					if fv := an.FieldOf(stripLoad(side)); fv != nil {
						other := cr.R
						if side == cr.R {
							other = cr.L
						}
						if fv.Name() == "Scheme" && cr.Op == token.EQL {
							if cs, isC := an.ConstString(other); isC && cs == "" {
								underScheme = true
							}
						}
						if fv.Name() == "User" && cr.Op == token.EQL && isNilValue(other) {
							underNoUser = true
						}
					}
				}
			}
			switch {
			case underScheme:
				if !d.HasFieldNamed("", "Path") {
					bad = append(bad, "NodeURI.ID returns at "+p.Pos(ret.Pos())+" something other than Path for a bare id (no scheme)")
				}
			case underNoUser:
				if !d.HasFieldNamed("", "Host") {
					bad = append(bad, "NodeURI.ID returns at "+p.Pos(ret.Pos())+" something other than Host for \"enode://<id>\" (no user part: the parser puts the id in Host): bare ids parse to the empty string and the agent asks the node to drop \"\"")
				}
			default:
				if d.CallTo(func(f *types.Func) bool { return f.Name() == "Username" }) == nil {
					bad = append(bad, "NodeURI.ID returns at "+p.Pos(ret.Pos())+" something other than the user name for a full enode URL")
				}
			}
		})
		if nRet < 3 {
			bad = append(bad, "NodeURI.ID does not distinguish the three spellings of a node id")
		}
	} else {
		bad = append(bad, "ethnode.NodeURI.ID not found")
	}
	// ... and on the local side's URI carrying the address the node is actually connected to (Network.RemoteAddress),
	// not an address the peer advertises about itself
	if eu := p.Method("ethnode", "PeerInfo", "EnodeURI"); eu != nil {
		r.Analysed(an.FuncName(eu))
		an.AllInstrs(eu, func(in ssa.Instruction) {
			ret, ok := in.(*ssa.Return)
			if !ok || len(ret.Results) == 0 {
				return
			}
			d := p.Derives(1, an.RetResults(ret)[0])
			// the id part is the peer's public key as EnodeID() picks it (newer nodes report a hash in the id field)
			if p.Derives(0, an.RetResults(ret)[0]).CallTo(func(f *types.Func) bool { return an.IsMethod(f, pkgEthnode, "PeerInfo", "EnodeID") }) == nil {
				bad = append(bad, "PeerInfo.EnodeURI ("+p.Pos(ret.Pos())+") does not take the peer's id from EnodeID(): for peers that report their key in the enode field the id field is a hash, strict mode then matches none of them against the pool's active list and drops them all")
			}
			if !d.HasFieldNamed("", "RemoteAddress") {
				bad = append(bad, "PeerInfo.EnodeURI can return a URI that does not carry the connection's remote address ("+p.Pos(ret.Pos())+"): strict mode would compare an address the peer advertises, not the one it is connected from")
			}
		})
	} else {
		bad = append(bad, "ethnode.PeerInfo.EnodeURI not found")
	}
	// ... and on which hosts count as "no remote address" (RemoteHost answers "" for them, and two empty hosts compare
	// equal): none, localhost, the unspecified and the loopback addresses — nothing else. Private, link-local or
	// otherwise "unroutable" addresses are real, different hosts on a LAN deployment; treating them as none keeps a
	// peer connected from 10.0.0.5 although the pool lists it at 10.0.0.9
	if hr := p.Method("ethnode", "NodeURI", "hasRemote"); hr != nil {
		for _, f := range regionFuncs(p, hr) {
			for _, c := range an.Calls(f, false) {
				g := an.CallObj(c)
				if g == nil || an.RecvNamed(g) == nil || an.RecvNamed(g).Obj().Pkg() == nil || an.RecvNamed(g).Obj().Pkg().Path() != "net" || an.RecvNamed(g).Obj().Name() != "IP" {
					continue
				}
				switch g.Name() {
				case "IsUnspecified", "IsLoopback", "To4", "To16", "Equal", "String":
				default:
					bad = append(bad, "NodeURI.hasRemote treats addresses with "+g.Name()+"() ("+p.Pos(c.Pos())+") as having no remote host: distinct hosts of that class all compare equal (as \"\") in strict mode")
				}
			}
		}
	}
	r.Check(len(bad) == 0, "invalid-list", name, up.Pos(), "pool's list untouched unless strict; strict: local peers minus (active id with equal host)", "%s", strings.Join(dedup(bad), "; "))

	// ---- fresh-reply: what the agent acts on is this round's reply only. The client stub decodes each reply into a
	// fresh value; a reused target keeps lists the pool omitted this time (encoding/json leaves absent keys alone)
	if rp := p.Named("pool", "RemotePool"); rp != nil {
		nStub := 0
		for _, mname := range []string{"Update", "Connect", "Peer", "Host", "Client"} {
			m := p.MethodOf(rp, mname)
			if m == nil {
				continue
			}
			r.Analysed(an.FuncName(m))
			var fb []string
			for _, c := range an.Calls(m, false) {
				f := an.CallObj(c)
				if f == nil || f.Name() != "Call" || an.RecvNamed(f) == nil || an.RecvNamed(f).Obj().Pkg() == nil || !strings.HasSuffix(an.RecvNamed(f).Obj().Pkg().Path(), "jsonrpc2") {
					continue
				}
				a := methodArgs(c)
				if len(a) < 2 {
					continue
				}
				v := a[1]
				if cst, ok := v.(*ssa.Const); ok && cst.IsNil() {
					continue
				}
				nStub++
				if mi, ok := v.(*ssa.MakeInterface); ok {
					v = mi.X
				}
				root, _ := an.RootPath(v)
				al, ok := root.(*ssa.Alloc)
				if !ok || al.Parent() != m {
					fb = append(fb, "the reply of "+mname+" is decoded into a value that outlives the call ("+p.Pos(c.Pos())+"): lists omitted by a later reply keep their earlier contents and the agent acts on them again")
					continue
				}
				// the fresh target is not pre-filled from longer-lived state
				for _, ref := range *al.Referrers() {
					if st, ok := ref.(*ssa.Store); ok && st.Addr == ssa.Value(al) {
						if _, isConst := st.Val.(*ssa.Const); !isConst {
							if p.Derives(0, st.Val).HasParam(m.Params[0]) {
								fb = append(fb, "the decode target of "+mname+" is initialised from the stub's own state ("+p.Pos(st.Pos())+")")
							}
						}
					}
				}
			}
			r.Check(len(fb) == 0, "fresh-reply", an.FuncName(m), m.Pos(), "each reply is decoded into a fresh value", "%s", strings.Join(dedup(fb), "; "))
		}
		r.Floor("client-stub-decodes", nStub, 3)
	} else {
		r.Undec("fresh-reply", "pool.RemotePool", token.NoPos, "pool.RemotePool not found")
	}

	// ... and the same on the node's side: every RPC reply of the node adapters (admin_peers, parity_netPeers, ...) is
	// decoded into a fresh local. encoding/json reuses the elements of a non-empty target slice and leaves the members
	// a JSON object omits alone: a peer entry without "enode" decoded over last round's entry keeps that peer's key, and
	// the agent un-trusts and disconnects a peer that is long gone instead of the one that is there
	{
		var fb []string
		nDec := 0
		for _, fn := range p.Repo {
			top := fn
			for top.Parent() != nil {
				top = top.Parent()
			}
			if top.Pkg == nil || !strings.HasSuffix(top.Pkg.Pkg.Path(), "/ethnode") || p.IsTestFunc(fn) {
				continue
			}
			for _, c := range an.Calls(fn, false) {
				f := an.CallObj(c)
				if f == nil || (f.Name() != "CallContext" && f.Name() != "Call") || an.RecvNamed(f) == nil || an.RecvNamed(f).Obj().Pkg() == nil || !strings.HasSuffix(an.RecvNamed(f).Obj().Pkg().Path(), "go-ethereum/rpc") {
					continue
				}
				a := methodArgs(c)
				idx := 1
				if f.Name() == "Call" {
					idx = 0
				}
				if len(a) <= idx {
					continue
				}
				v := a[idx]
				if mi, ok := v.(*ssa.MakeInterface); ok {
					v = mi.X
				}
				if cst, ok := v.(*ssa.Const); ok && cst.IsNil() {
					continue
				}
				nDec++
				root, _ := an.RootPath(v)
				al, ok := root.(*ssa.Alloc)
				if !ok || al.Parent() != fn {
					// a result parameter of a small generic helper is judged at the helper's call sites; anything else outlives the call
					if _, isPrm := root.(*ssa.Parameter); isPrm && root == v {
						continue
					}
					fb = append(fb, an.FuncName(fn)+" decodes the node's reply into a value that outlives the call ("+p.Pos(c.Pos())+")")
					continue
				}
				for _, ref := range *al.Referrers() {
					if st, ok := ref.(*ssa.Store); ok && st.Addr == ssa.Value(al) {
						if _, isConst := st.Val.(*ssa.Const); isConst {
							continue
						}
						// a freshly made value (make, composite literal) is as good as the zero value; anything that
						// comes from a field, a parameter or a global carries an earlier reply
						longLived := p.Derives(0, st.Val).Has(func(x ssa.Value) bool {
							switch x.(type) {
							case *ssa.FieldAddr, *ssa.Field, *ssa.Parameter, *ssa.Global, *ssa.FreeVar:
								return true
							}
							return false
						})
						if longLived {
							fb = append(fb, an.FuncName(fn)+" decodes the node's reply into a target pre-filled at "+p.Pos(st.Pos())+" ("+p.Pos(c.Pos())+"): members the reply omits keep what the previous reply left there")
						}
					}
				}
			}
		}
		r.Floor("node-reply-decodes", nDec, 4)
		r.Check(len(fb) == 0, "fresh-reply", "ethnode adapters", token.NoPos, "each reply of the node is decoded into a fresh value", "%s", strings.Join(dedup(fb), "; "))
	}

	// ---- shortfall
	bad = nil
	var apCall ssa.CallInstruction
	for _, c := range an.Calls(up, false) {
		if c.Common().StaticCallee() == ap {
			apCall = c
		}
	}
	if apCall == nil {
		bad = append(bad, "UpdatePeers never tops up its peers")
	} else {
		num := apCall.Common().Args[3]
		bo, ok := num.(*ssa.BinOp)
		okDiff := false
		if ok && bo.Op == token.SUB && fieldLoadOf(bo.X, "Agent", "NumHosts") {
			if s, isLen := an.LenOf(bo.Y); isLen && p.Derives(0, s).HasFieldNamed("UpdateResponse", "ActivePeers") && p.Derives(0, s).HasValue(updResp) {
				okDiff = true
			}
		}
		if !okDiff {
			bad = append(bad, "the number of peers requested is not NumHosts - len(ActivePeers)")
		}
		okPos := false
		for _, cr := range ctrlRels(apCall.Block()) {
			if cr.L == num {
				if k, ok := an.ConstInt(cr.R); ok && ((cr.Op == token.GTR && k == 0) || (cr.Op == token.GEQ && k == 1)) {
					okPos = true
				}
			}
		}
		if !okPos {
			bad = append(bad, "more peers are requested under a condition other than 'shortfall > 0'")
		}
		// ... and whenever there is a shortfall: from the true edge of that comparison no return is reachable without
		// the request having been made (a back-off that sits rounds out leaves the agent below its target although the
		// pool has hosts again)
		for _, ctl := range an.ControllingIfs(apCall.Block()) {
			rel, okR := an.BranchRel(ctl.If, ctl.Succ)
			if !okR || rel.L != num {
				continue
			}
			isAP := func(x ssa.Instruction) bool { return x == apCall.(ssa.Instruction) }
			if hit := pathFromBlock(up, ctl.If.Block().Succs[ctl.Succ], isAP, an.IsReturn); hit != nil {
				bad = append(bad, "with a shortfall the round can end at "+p.Pos(hit.Pos())+" without peers having been requested: 'requests exactly the shortfall' holds only in some rounds")
			}
		}
		if apCall.Common().Args[2] != ssa.Value(up.Params[2]) {
			bad = append(bad, "peers are requested from a different pool than the one updated")
		}
	}
	r.Check(len(bad) == 0, "shortfall", name, up.Pos(), "AddPeers(NumHosts - len(ActivePeers)) iff that is > 0", "%s", strings.Join(bad, "; "))

	// AddPeers
	bad = nil
	var peerCall ssa.CallInstruction
	for _, c := range an.Calls(ap, false) {
		if f := an.CallObj(c); f != nil && f.Name() == "Peer" && an.RecvNamed(f) != nil && an.RecvNamed(f).Obj().Name() == "Pool" {
			peerCall = c
		}
	}
	if peerCall == nil {
		bad = append(bad, "AddPeers does not ask the pool for peers")
	} else {
		numPrm := ap.Params[3]
		req := methodArgs(peerCall)[1]
		al := allocOfValue(req)
		okNum, okKind := false, false
		if al != nil {
			for _, ref := range *al.Referrers() {
				fa, ok := ref.(*ssa.FieldAddr)
				if !ok {
					continue
				}
				for _, r2 := range *fa.Referrers() {
					st, ok := r2.(*ssa.Store)
					if !ok {
						continue
					}
					switch an.FieldOf(fa).Name() {
					case "Num":
						okNum = st.Val == ssa.Value(numPrm)
					case "Kind":
						// phi("", nodeInfo.Kind.String()) selected by !IsFullNode
						if phi, ok := st.Val.(*ssa.Phi); ok {
							for i, e := range phi.Edges {
								if s, isC := an.ConstString(e); isC && s == "" {
									continue
								}
								de := p.Derives(0, e)
								if kc, ok := e.(*ssa.Call); ok && an.CallObj(kc) != nil && an.CallObj(kc).Name() == "String" && len(kc.Call.Args) == 1 {
									de = p.Derives(0, kc.Call.Args[0])
								}
								if de.HasFieldNamed("", "nodeInfo") && de.HasFieldNamed("UserAgent", "Kind") {
									pred := phi.Block().Preds[i]
									if boolCtrl(pred, func(v ssa.Value) bool { return fieldLoadOf(v, "UserAgent", "IsFullNode") }, false) || blockIsCtrl(pred, func(v ssa.Value) bool { return fieldLoadOf(v, "UserAgent", "IsFullNode") }, false) {
										okKind = true
									}
								}
							}
						}
					}
				}
			}
		}
		if !okNum {
			bad = append(bad, "PeerRequest.Num is not the requested shortfall")
		}
		if !okKind {
			bad = append(bad, "PeerRequest.Kind is not 'own kind iff the node is not a full node'")
		}
		// every returned peer is dialled
		var cp ssa.CallInstruction
		for _, c := range an.Calls(ap, false) {
			if f := an.CallObj(c); isEthMutator(f) && f.Name() == "ConnectPeer" {
				cp = c
			}
		}
		if cp == nil {
			bad = append(bad, "returned hosts are never dialled")
		} else {
			d := p.Derives(0, methodArgs(cp)[1])
			if !derivesFromCall(d, peerCall.(*ssa.Call)) || !d.HasFieldNamed("PeerResponse", "Peers") || !d.HasFieldNamed("Node", "URI") {
				bad = append(bad, "the address dialled is not the URI of a peer returned by the pool")
			}
			if !inLoop(cp.(ssa.Instruction)) {
				bad = append(bad, "only one returned host is dialled")
			} else if hdr := loopHeader(cp.Block()); hdr != nil {
				// every iteration dials: from the loop header, the next iteration (the header again) is not reachable
				// without passing ConnectPeer — a "seen before / already dialled" skip leaves a returned host unconnected
				isCP := func(x ssa.Instruction) bool { return x == cp.(ssa.Instruction) }
				for _, sc := range hdr.Succs {
					if !hdr.Dominates(sc) || !an.ReachFrom([]*ssa.BasicBlock{sc}, nil)[hdr] {
						continue // the exit edge
					}
					atHdr := func(x ssa.Instruction) bool { return x.Block() == hdr }
					if in := pathFromBlock(ap, sc, isCP, atHdr); in != nil {
						bad = append(bad, "an iteration over the returned hosts can go on to the next host without dialling this one (skip path reaching "+p.Pos(in.Pos())+")")
					}
				}
			}
			if reach := an.ReachAvoiding(ap, an.EdgeSet(an.ErrEdges(peerCall).Succ)); reach[cp.Block()] {
				// the tolerated-error branches return ErrNoPeers; ConnectPeer must not be reachable on them
				bad = append(bad, "hosts are dialled although the peer request failed")
			}
		}
	}
	checkNodeIDForms(p, r)
	checkAdapterErrors(p, r)
	r.Check(len(bad) == 0, "shortfall", an.FuncName(ap), ap.Pos(), "Peer{Num: shortfall, Kind: own kind iff light}; ConnectPeer(URI) for each returned peer", "%s", strings.Join(bad, "; "))
}

// blockIsCtrl: like boolCtrl but also accepts the block that is the direct successor of the If (empty then-block merged into the phi's pred).
// checkNodeIDForms: Parity's reserved-peer RPCs (what its adapter overloads for connect/disconnect/trust) take a full
// enode URL; the agent hands invalid peers over as bare node ids. The adapter must therefore never send the bare
// "enode://<id>" form (geth's), which Parity rejects: the peer would stay trusted and connected. Decided on the
// shape of the value sent: a string assembled from the constant "enode://" and non-constant parts with no
// constant address part ("@...").
func checkNodeIDForms(p *an.Prog, r *an.Run) {
	n := 0
	for _, fn := range p.Repo {
		if fn.Pkg == nil || !strings.HasSuffix(fn.Pkg.Pkg.Path(), "/ethnode") {
			continue
		}
		for _, c := range an.Calls(fn, false) {
			args := c.Common().Args
			method := ""
			for _, a := range args {
				if k, ok := a.(*ssa.Const); ok && k.Value != nil && k.Value.Kind() == constant.String {
					if sv := constant.StringVal(k.Value); strings.HasPrefix(sv, "parity_") && strings.Contains(sv, "ReservedPeer") {
						method = sv
					}
				}
			}
			if sig := c.Common().Signature(); method == "" || len(args) == 0 || sig == nil || !sig.Variadic() || (c.Common().StaticCallee() != nil && p.InRepo(c.Common().StaticCallee())) {
				continue
			}
			els, ok := variadicElems(args[len(args)-1])
			if !ok || len(els) == 0 {
				r.Undec("id-form", method+"@"+an.FuncName(fn), c.Pos(), "cannot see the arguments of %s", method)
				continue
			}
			n++
			var bad []string
			for _, e := range els {
				if why := bareEnodeForm(p, underlyingConcrete(e), 0); why != "" {
					bad = append(bad, why)
				}
			}
			r.Check(len(bad) == 0, "id-form", method+"@"+an.FuncName(fn), c.Pos(), "never the bare enode://<id> form", "%s sent to %s: Parity's reserved-peer calls need a full enode URL, a bare id is rejected and the peer stays trusted/connected", strings.Join(bad, "; "), method)
		}
	}
	r.Floor("parity-peer-rpcs", n, 2)
}

// checkAdapterErrors: the agent stops a round at the first node call that fails (AddPeers returns on the first
// ConnectPeer error), so what counts as a failure is part of the contract between agent and adapters. All node
// adapters agree: a peer-management call fails when the RPC fails, and the decoded reply is not inspected — Geth and
// Pantheon answer admin_addPeer with false for a peer they already have, which is not a refusal. An adapter that turns
// the reply's content into an error makes the agent skip every host listed after an already-known one.
func checkAdapterErrors(p *an.Prog, r *an.Run) {
	iface := p.Iface("ethnode", "EthNode")
	if iface == nil {
		r.Undec("adapter-errors", "ethnode.EthNode", token.NoPos, "interface not found")
		return
	}
	n := 0
	for _, d := range p.Implementations(iface) {
		if d.Obj().Pkg() == nil || !strings.HasSuffix(d.Obj().Pkg().Path(), "/ethnode") {
			continue
		}
		for _, name := range []string{"ConnectPeer", "DisconnectPeer", "AddTrustedPeer", "RemoveTrustedPeer"} {
			m := p.MethodOf(d, name)
			if m == nil || len(m.Blocks) == 0 || p.IsTestFunc(m) || strings.HasSuffix(p.File(m.Pos()), "_test.go") {
				continue
			}
			var bad []string
			// reply targets of the RPC calls made here
			var targets []ssa.Value
			nRPC := 0
			for _, c := range an.Calls(m, false) {
				if f := an.CallObj(c); f != nil && f.Name() == "CallContext" && len(c.Common().Args) >= 3 {
					nRPC++
					if root, _ := an.RootPath(underlyingConcrete(c.Common().Args[2])); root != nil {
						targets = append(targets, root)
					}
				}
			}
			if nRPC == 0 {
				continue // delegates to a sibling method
			}
			n++
			an.AllInstrs(m, func(in ssa.Instruction) {
				ret, ok := in.(*ssa.Return)
				if !ok || len(ret.Results) == 0 {
					return
				}
				last := ret.Results[len(ret.Results)-1]
				if c, isC := last.(*ssa.Const); isC && c.IsNil() {
					return
				}
				for _, ci := range an.ControllingIfs(ret.Block()) {
					dc := p.Derives(0, ci.If.Cond)
					for _, nd := range dc.Nodes {
						u, ok := nd.(*ssa.UnOp)
						if !ok || u.Op != token.MUL {
							continue
						}
						root, _ := an.RootPath(u.X)
						for _, t := range targets {
							if sameObject(root, t) {
								bad = append(bad, "the error returned at "+p.Pos(ret.Pos())+" is decided by the content of the node's reply ("+p.Pos(ci.If.Pos())+"), not by the failure of the call: the agent treats it as a failed round")
							}
						}
					}
				}
			})
			r.Check(len(bad) == 0, "adapter-errors", an.FuncName(m), m.Pos(), "fails exactly when the RPC fails", "%s", strings.Join(dedup(bad), "; "))
		}
	}
	r.Floor("adapter-rpc-methods", n, 6)
	// ... and each adapter method asks the node for what its name says: connecting / trusting reaches only "add" RPCs,
	// disconnecting / un-trusting only "remove" RPCs (directly or through the sibling method it delegates to) — an
	// adapter whose disconnect re-adds the peer keeps an invalid peer trusted and dialled for ever
	for _, d := range p.Implementations(iface) {
		if d.Obj().Pkg() == nil || !strings.HasSuffix(d.Obj().Pkg().Path(), "/ethnode") {
			continue
		}
		for _, spec := range []struct {
			name string
			want string
			not  string
		}{{"ConnectPeer", "add", "remove"}, {"AddTrustedPeer", "add", "remove"}, {"DisconnectPeer", "remove", "add"}, {"RemoveTrustedPeer", "remove", "add"}} {
			m := p.MethodOf(d, spec.name)
			if m == nil || len(m.Blocks) == 0 || strings.HasSuffix(p.File(m.Pos()), "_test.go") {
				continue
			}
			var names []string
			seenF := map[*ssa.Function]bool{}
			var walk func(fn *ssa.Function, depth int)
			walk = func(fn *ssa.Function, depth int) {
				if seenF[fn] || depth > 3 {
					return
				}
				seenF[fn] = true
				for _, c := range an.Calls(fn, false) {
					if f := an.CallObj(c); f != nil && f.Name() == "CallContext" {
						for _, a := range c.Common().Args {
							if cs, ok := an.ConstString(a); ok && strings.Contains(cs, "_") {
								names = append(names, cs)
							}
						}
					}
					if callee := c.Common().StaticCallee(); callee != nil && p.InRepo(callee) && callee.Signature.Recv() != nil && namedOf(callee.Signature.Recv().Type()) == d {
						walk(callee, depth+1)
					}
				}
			}
			walk(m, 0)
			var vb []string
			for _, nm := range names {
				low := strings.ToLower(nm)
				if strings.Contains(low, spec.not) && !strings.Contains(low, spec.want) {
					vb = append(vb, an.FuncName(m)+" reaches the RPC "+nm+", the opposite of what it is asked to do")
				}
			}
			if len(names) > 0 {
				r.Check(len(vb) == 0, "adapter-verbs", an.FuncName(m), m.Pos(), "reaches only "+spec.want+"-RPCs: "+strings.Join(dedup(names), ","), "%s", strings.Join(dedup(vb), "; "))
			}
		}
	}
}

// bareEnodeForm: v can be "enode://" + <non-constant> with no constant address part; returns a description or "".
func bareEnodeForm(p *an.Prog, v ssa.Value, depth int) string {
	switch x := v.(type) {
	case *ssa.BinOp:
		if x.Op != token.ADD {
			return ""
		}
		var consts []string
		nonConst := 0
		var leaves func(v ssa.Value)
		leaves = func(v ssa.Value) {
			if b, ok := v.(*ssa.BinOp); ok && b.Op == token.ADD {
				leaves(b.X)
				leaves(b.Y)
				return
			}
			if k, ok := v.(*ssa.Const); ok && k.Value != nil && k.Value.Kind() == constant.String {
				consts = append(consts, constant.StringVal(k.Value))
				return
			}
			nonConst++
		}
		leaves(x)
		all := strings.Join(consts, "")
		if strings.Contains(all, "enode://") && !strings.Contains(all, "@") && nonConst > 0 {
			return "the bare form \"enode://\"+id built at " + p.Pos(x.Pos())
		}
	case *ssa.Phi:
		for _, e := range x.Edges {
			if why := bareEnodeForm(p, e, depth); why != "" {
				return why
			}
		}
	case *ssa.Call:
		if f := an.CallObj(x); an.IsFunc(f, "fmt", "Sprintf") && len(x.Call.Args) > 0 {
			if k, ok := x.Call.Args[0].(*ssa.Const); ok && k.Value != nil && k.Value.Kind() == constant.String {
				sv := constant.StringVal(k.Value)
				if strings.Contains(sv, "enode://") && !strings.Contains(sv, "@") {
					return "the bare form " + strconv.Quote(sv) + " built at " + p.Pos(x.Pos())
				}
			}
			return ""
		}
		callee := x.Call.StaticCallee()
		if callee == nil || len(callee.Blocks) == 0 || !p.InRepo(callee) || depth >= 3 {
			return ""
		}
		why := ""
		an.AllInstrs(callee, func(in ssa.Instruction) {
			if ret, ok := in.(*ssa.Return); ok && len(ret.Results) > 0 && why == "" {
				why = bareEnodeForm(p, ret.Results[0], depth+1)
			}
		})
		return why
	}
	return ""
}

func blockIsCtrl(b *ssa.BasicBlock, pred func(ssa.Value) bool, want bool) bool {
	if len(b.Instrs) == 0 {
		return false
	}
	iff, ok := b.Instrs[len(b.Instrs)-1].(*ssa.If)
	if !ok {
		return false
	}
	_ = iff
	return false
}

// loopHeader returns the innermost loop header dominating b (a dominator of b that has a back edge), or nil.
// onCycle: b lies on a cycle of the flow graph (it is inside a loop body, not merely after one).
func onCycle(b *ssa.BasicBlock) bool {
	seen := map[*ssa.BasicBlock]bool{}
	work := append([]*ssa.BasicBlock{}, b.Succs...)
	for len(work) > 0 {
		x := work[len(work)-1]
		work = work[:len(work)-1]
		if x == b {
			return true
		}
		if seen[x] {
			continue
		}
		seen[x] = true
		work = append(work, x.Succs...)
	}
	return false
}

func loopHeader(b *ssa.BasicBlock) *ssa.BasicBlock {
	for x := b; x != nil; x = x.Idom() {
		for _, pr := range x.Preds {
			if x.Dominates(pr) {
				return x
			}
		}
	}
	return nil
}
