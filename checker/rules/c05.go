package rules

import (
	"go/token"
	"go/types"
	"strings"
	"time"

	"golang.org/x/tools/go/ssa"

	"vipcheck/an"
)

func init() {
	Registry["C05"] = Spec{
		Run: runC05,
		Explanation: "Static rules over every NonceStore implementation (discovered with types.Implements) and every verify wrapper: " +
			"(strict) the replay rejection is canonically stored >= nonce; (cas-atomic) load, compare and store of the high-water mark sit in one lock region / one badger Update transaction, " +
			"success paths store exactly once and failing paths never; (fresh) the store is only reachable past the rejection nonce <= now - ExpireNonce, ExpireNonce evaluates to 15 minutes, " +
			"and the persistent driver's TTL is that window plus the nonce's lead over the clock (the record outlives the nonce's freshness); (key) the entry is keyed by the identity parameter only and holds the nonce parameter; " +
			"(same-identity) each wrapper hands the nonce store the identity and nonce it verified. Round 2: (nonce-error) every error of CheckAndSaveNonce refuses the request; (nonce-writers) no other driver method writes or deletes the nonce space. Round 5: shares C04.hash-covers (the nonce is keyed by the identity as received).",
		NotDecided: []string{"not decided: behaviour across close/reopen (C13's transaction rules), clock skew, the boundary instant of the freshness window"},
		Exhaustive: true,
	}
}

func isSentinelLoad(v ssa.Value, name string) bool {
	u, ok := v.(*ssa.UnOp)
	if !ok || u.Op != token.MUL {
		return false
	}
	g, ok := u.X.(*ssa.Global)
	return ok && g.Name() == name
}

func runC05(p *an.Prog, r *an.Run, tier string) {
	checkSurfaceClosed(p, r)
	// the nonce is remembered under the identity string as received: the signature must bind exactly that spelling and
	// exactly that nonce, or one signed request is honoured once per spelling / per neighbouring nonce (shared with C04)
	checkHashCovers(p, r)
	checkNonceStores(p, r)
}

// checkNonceStores: the replay protection itself — both NonceStore drivers (strict, cas-atomic, fresh, key), the
// writers of the nonce space, and the wrappers' use of the store (same-identity, nonce-error). Shared with C06: a
// replayed or raced copy of a request that is honoured again is a refused request that changed something.
func checkNonceStores(p *an.Prog, r *an.Run) {
	iface := p.Iface("pool/store", "NonceStore")
	if iface == nil {
		r.Undec("anchors", "store.NonceStore", token.NoPos, "interface store.NonceStore not found")
		return
	}
	impls := p.Implementations(iface)
	var drivers []*types.Named
	for _, d := range impls {
		if driverKind(d) != "" {
			drivers = append(drivers, d)
		} else if m := p.MethodOf(d, "CheckAndSaveNonce"); m != nil {
			r.Undec("implementations", d.Obj().Name(), d.Obj().Pos(), "NonceStore implementation %s is neither the memory nor the badger driver; no model for it", d.Obj().Name())
		}
	}
	r.Floor("implementations", len(drivers), 2)
	checkTxnOutcome(p, r, "badger.CheckAndSaveNonce", func(f *ssa.Function) bool { return f.Name() == "CheckAndSaveNonce" })
	// the nonce record is found again under the identity alone: keys are spelled as prefix + id, in bytes of their own
	checkKeyOperandTypes(p, r)
	checkTTLDiscipline(p, r)
	window, okW := p.PkgConstInt("pool/store", "ExpireNonce")
	r.Check(okW && window == int64(15*60*1e9), "fresh", "store.ExpireNonce", token.NoPos, "ExpireNonce = 15m", "store.ExpireNonce evaluates to %d ns, the property fixes the freshness window at 15 minutes", window)

	for _, d := range drivers {
		kind := driverKind(d)
		m := p.MethodOf(d, "CheckAndSaveNonce")
		if m == nil {
			continue
		}
		r.Analysed(an.FuncName(m))
		idPrm, noncePrm := m.Params[1], m.Params[2]
		ops := driverOps(p, d, m)
		reads := filterOps(ops, func(o storeOp) bool { return o.Kind == opRead && o.inSpace("nonce") })
		writes := filterOps(ops, func(o storeOp) bool { return (o.Kind == opWrite || o.Kind == opDelete) })
		region := regionOf(p, d, m)

		// ---- cas-atomic
		var bad []string
		if region == nil {
			bad = append(bad, "the check-and-save does not run in exactly one transaction region")
		} else {
			if kind == "badger" {
				regs := txnRegions(p, m)
				if !regs[0].Update {
					bad = append(bad, "the transaction is read-only (db.View)")
				}
				for _, o := range append(append([]storeOp{}, reads...), writes...) {
					if o.Fn != region {
						bad = append(bad, o.Kind.String()+" at "+p.Pos(o.In.Pos())+" is outside the transaction closure")
					}
				}
			} else {
				li := an.Locksets(m, nil)
				for _, o := range append(append([]storeOp{}, reads...), writes...) {
					h := li.Before[o.In]
					w, ok := h["p0.mu"]
					if !ok || !w {
						bad = append(bad, o.Kind.String()+" of the nonce table at "+p.Pos(o.In.Pos())+" is not under the store mutex (two racing duplicates could both be accepted)")
					}
				}
				// single acquisition, released only by defer: no window between compare and store
				nUnlock := 0
				for _, c := range an.Calls(m, false) {
					if _, isDefer := c.(*ssa.Defer); isDefer {
						continue
					}
					if f := an.CallObj(c); f != nil && f.Pkg() != nil && f.Pkg().Path() == "sync" && (f.Name() == "Unlock" || f.Name() == "RUnlock") {
						nUnlock++
					}
				}
				if nUnlock > 0 && len(reads) > 0 && len(writes) > 0 {
					// an explicit unlock is fine only if it is after the write on all paths
					for _, c := range an.Calls(m, false) {
						if f := an.CallObj(c); f != nil && f.Name() == "Unlock" {
							if _, isDefer := c.(*ssa.Defer); !isDefer {
								for _, w := range writes {
									if an.PathAvoiding(m, c.(ssa.Instruction), nil, func(in ssa.Instruction) bool { return in == w.In }, nil) != nil {
										bad = append(bad, "the mutex is released at "+p.Pos(c.Pos())+" before the nonce is stored")
									}
								}
							}
						}
					}
				}
			}
			if len(reads) == 0 {
				bad = append(bad, "the stored nonce is never read")
			}
			nw := filterOps(writes, func(o storeOp) bool { return o.inSpace("nonce") && o.Kind == opWrite })
			for _, o := range writes {
				if !o.inSpace("nonce") || o.Kind != opWrite {
					bad = append(bad, "unexpected "+o.Kind.String()+" to space "+o.space()+" at "+p.Pos(o.In.Pos()))
				}
			}
			if len(nw) == 0 {
				bad = append(bad, "the nonce is never stored")
			}
			n, complete := enumPaths(region, 4096, func(path []*ssa.BasicBlock, ret *ssa.Return) {
				cls, _ := returnClass(ret)
				cnt := opsOnPath(nw, path)
				switch cls {
				case "nil", "call":
					if cnt != 1 {
						bad = append(bad, "an accepting path returning at "+p.Pos(ret.Pos())+" stores the nonce "+itoa(cnt)+" times (want exactly 1)")
					}
				case "nonnil":
					if cnt != 0 && kind == "memory" {
						bad = append(bad, "a rejecting path returning at "+p.Pos(ret.Pos())+" has stored the nonce")
					}
				default:
					bad = append(bad, "cannot classify the return at "+p.Pos(ret.Pos()))
				}
			})
			r.Paths += n
			if !complete {
				bad = append(bad, "path cap reached")
			}
		}
		r.Check(len(bad) == 0, "cas-atomic", kind, m.Pos(), "load-compare-store of the nonce in one critical region; accepted => stored once, rejected => not stored", "%s", strings.Join(dedup(bad), "; "))

		// ---- strict + fresh: examine every rejection (return of a definitely non-nil error) controlled by a relation on the nonce parameter
		var strictRel, freshRel *ctrlRel
		var strictRet, freshRet *ssa.Return
		for _, fn := range an.WithAnon(m) {
			an.AllInstrs(fn, func(in ssa.Instruction) {
				ret, ok := in.(*ssa.Return)
				if !ok {
					return
				}
				rr := an.RetResults(ret)
				if len(rr) == 0 || !isSentinelLoad(rr[len(rr)-1], "ErrInvalidNonce") {
					return
				}
				for _, cr := range ctrlRels(ret.Block()) {
					cr := cr
					if cr.Kind != "int" {
						continue
					}
					ln := isPlainParam(p, cr.L, noncePrm)
					rn := isPlainParam(p, cr.R, noncePrm)
					if ln == rn {
						continue
					}
					if rn { // orient: nonce parameter on the right
						cr.Rel = cr.Rel
					} else {
						cr.Rel = cr.Rel.Swap()
					}
					// now R = nonce
					other := p.Derives(0, cr.L)
					if other.CallTo(func(f *types.Func) bool { return an.IsFunc(f, "time", "Now") }) != nil {
						freshRel, freshRet = &cr, ret
					} else {
						strictRel, strictRet = &cr, ret
					}
				}
			})
		}
		// strict
		bad = nil
		if strictRel == nil {
			bad = append(bad, "no rejection controlled by a comparison of the stored nonce with the request's nonce")
		} else {
			if strictRel.Op != token.GEQ {
				bad = append(bad, "replays are rejected when 'stored "+strictRel.Op.String()+" nonce'; the property requires exactly 'stored >= nonce' (equal nonces are replays, larger ones must pass)")
			}
			// L must be the stored value
			okStored := false
			d := p.Derives(0, strictRel.L)
			for _, rd := range reads {
				if kind == "memory" {
					if v, ok := rd.In.(ssa.Value); ok && d.HasValue(v) {
						okStored = true
					}
				} else if rd.Val != nil {
					if al := allocOfValue(rd.Val); al != nil && d.HasValue(al) {
						okStored = true
					}
				}
			}
			if !okStored {
				bad = append(bad, "the compared value is not the nonce read from the store")
			}
			for _, n := range d.Nodes {
				if bo, ok := n.(*ssa.BinOp); ok && (bo.Op == token.ADD || bo.Op == token.SUB) {
					bad = append(bad, "the stored nonce is offset before the comparison")
				}
			}
			_ = strictRet
		}
		r.Check(len(bad) == 0, "strict", kind, m.Pos(), "reject iff stored >= nonce", "%s", strings.Join(bad, "; "))

		// fresh
		bad = nil
		if freshRel == nil {
			bad = append(bad, "no rejection of stale nonces (nonce compared with time.Now() - ExpireNonce)")
		} else {
			// R = nonce, L = deadline: reject when deadline >= nonce  (nonce <= deadline) ; accept > too
			if freshRel.Op != token.GEQ && freshRel.Op != token.GTR {
				bad = append(bad, "stale nonces are rejected when 'deadline "+freshRel.Op.String()+" nonce'; the property requires 'nonce <= now - window'")
			}
			d := p.Derives(0, freshRel.L)
			okWin := false
			for _, n := range d.Nodes {
				if k, ok := an.ConstInt(n); ok && okW && k == -window {
					okWin = true
				}
				if u, ok := n.(*ssa.UnOp); ok && u.Op == token.SUB {
					if derivesField(p, u.X, "badgerStore", "nonceExpire") {
						okWin = true
					}
				}
			}
			if !okWin {
				bad = append(bad, "the staleness deadline is not time.Now() minus the ExpireNonce window")
			}
			if d.CallTo(func(f *types.Func) bool { return an.IsMethod(f, "time", "Time", "UnixNano") }) == nil {
				bad = append(bad, "the deadline is not expressed in nanoseconds (nonces are UnixNano timestamps)")
			}
			// the store must not be reachable from the rejecting edge, and the check must lie on every path to the store
			for _, w := range writes {
				if freshRet.Block().Parent() == w.In.Parent() {
					if in := pathFromBlock(w.In.Parent(), freshRet.Block(), nil, func(in ssa.Instruction) bool { return in == w.In }); in != nil {
						bad = append(bad, "the nonce store is reachable from the stale branch")
					}
				}
			}
			// on every path: the If must dominate the transaction / the write, unless bypassed only by the window>0 guard
			ifBlock := freshRel.If.Block()
			for _, w := range writes {
				target := w.In
				if w.In.Parent() != ifBlock.Parent() {
					// write is in the closure: use the Update call in the method
					for _, reg := range txnRegions(p, m) {
						target = reg.Call.(ssa.Instruction)
					}
				}
				if target.Parent() == ifBlock.Parent() && !ifBlock.Dominates(target.Block()) {
					// allowed bypass: a dominating If on "window > 0" whose false edge skips the check
					okBypass := false
					for _, c := range an.ControllingIfs(ifBlock) {
						if rel, ok := an.BranchRel(c.If, c.Succ); ok && rel.Kind == "int" && rel.Op == token.GTR && c.If.Block().Dominates(target.Block()) {
							okBypass = true
						}
						// `store.ExpireNonce > 0` is a constant: the bypassing edge is dead
						if an.DeadEdge(c.If.Block(), 1-c.Succ) && c.If.Block().Dominates(target.Block()) {
							okBypass = true
						}
					}
					if !okBypass {
						bad = append(bad, "the staleness check does not lie on every path to the nonce store")
					}
				}
			}
		}
		// the window the driver uses
		if kind == "badger" {
			// every non-test write of nonceExpire is the ExpireNonce constant
			nst := 0
			for _, fn := range p.Repo {
				an.AllInstrs(fn, func(in ssa.Instruction) {
					if st, ok := in.(*ssa.Store); ok {
						if fv := an.FieldOf(st.Addr); fv != nil && an.Ident(fv.Name()) == "nonceExpire" {
							nst++
							if k, ok := an.ConstInt(st.Val); !ok || k != window {
								bad = append(bad, "badgerStore.nonceExpire is set at "+p.Pos(st.Pos())+" to something other than store.ExpireNonce")
							}
						}
					}
				})
			}
			if nst == 0 {
				bad = append(bad, "badgerStore.nonceExpire is never set (a zero window disables both the freshness check and the TTL)")
			}
			// TTL == window
			for _, o := range writes {
				if o.Via == "setExpiringItem" {
					c := o.In.(ssa.CallInstruction)
					if !derivesField(p, c.Common().Args[3], "badgerStore", "nonceExpire") {
						bad = append(bad, "the nonce entry's TTL is not the freshness window: an entry expiring earlier re-opens the replay window")
					}
					dt := p.Derives(0, c.Common().Args[3])
					for _, n := range dt.Nodes {
						if bo, ok := n.(*ssa.BinOp); ok {
							if bo.Op == token.QUO || bo.Op == token.SHR {
								bad = append(bad, "the nonce entry's TTL is shortened relative to the freshness window")
							}
							if bo.Op == token.SUB && (derivesField(p, bo.X, "badgerStore", "nonceExpire") || derivesField(p, bo.Y, "badgerStore", "nonceExpire")) {
								bad = append(bad, "the nonce entry's TTL is shortened relative to the freshness window")
							}
						}
					}
					// the record outlives the nonce's own freshness: a nonce ahead of the pool's clock passes the age check
					// for (nonce - now) + window, so the TTL has to grow with that lead
					// badger's API contract: Entry.WithTTL keeps ExpiresAt in whole unix seconds, rounded down, and an entry
					// is gone once ExpiresAt <= now: a TTL meant to cover a nanosecond-precise window needs a margin of at
					// least one second added to it
					margin := false
					for _, n := range dt.Nodes {
						if bo, ok := n.(*ssa.BinOp); ok && bo.Op == token.ADD {
							for _, side := range []ssa.Value{bo.X, bo.Y} {
								if k, ok := an.ConstInt(side); ok && k >= int64(time.Second) {
									margin = true
								}
							}
						}
					}
					if !margin {
						bad = append(bad, "the nonce entry's TTL has no margin for badger's whole-second expiry (ExpiresAt is rounded down): the record can vanish up to a second before a replay of the nonce starts failing the age check")
					}
					// every value the TTL can take is at least the window: no assignment replaces the window by something else
					var leaves []ssa.Value
					var expand func(v ssa.Value, seen map[ssa.Value]bool)
					expand = func(v ssa.Value, seen map[ssa.Value]bool) {
						if seen[v] {
							return
						}
						seen[v] = true
						if ph, ok := v.(*ssa.Phi); ok {
							for _, e := range ph.Edges {
								expand(e, seen)
							}
							return
						}
						leaves = append(leaves, v)
					}
					expand(c.Common().Args[3], map[ssa.Value]bool{})
					for _, lf := range leaves {
						if k, ok := an.ConstInt(lf); ok && k >= int64(1<<62) {
							continue // overflow clamp
						}
						if !derivesField(p, lf, "badgerStore", "nonceExpire") {
							bad = append(bad, "the nonce entry's TTL can be set to a value that does not include the freshness window ("+p.Pos(lf.Pos())+"): the record expires while a replay still passes the age check")
						}
						// the nonce's lead is added, and only when it is positive
						if bo, ok := lf.(*ssa.BinOp); ok && p.Derives(0, lf).HasParam(noncePrm) {
							if bo.Op != token.ADD {
								bad = append(bad, "the nonce's lead over the clock enters the TTL through '"+bo.Op.String()+"', not by addition")
							}
							lead := bo.Y
							if p.Derives(0, bo.X).HasParam(noncePrm) && !p.Derives(0, bo.Y).HasParam(noncePrm) {
								lead = bo.X
							}
							okSign := false
							for _, cr := range ctrlRels(bo.Block()) {
								l, r0 := cr.L, cr.R
								op := cr.Op
								if k, isK := an.ConstInt(l); isK && k == 0 {
									l, r0 = r0, l
									op = cr.Rel.Swap().Op
								}
								if k, isK := an.ConstInt(r0); isK && k == 0 && l == lead && (op == token.GTR || op == token.GEQ) {
									okSign = true
								}
							}
							if !okSign {
								bad = append(bad, "the nonce's lead over the clock is added to the TTL without being known positive (a negative 'lead' shortens the record's life below the window)")
							}
						}
					}
					if !dt.HasParam(noncePrm) || dt.CallTo(func(f *types.Func) bool { return an.IsFunc(f, "time", "Now") }) == nil {
						bad = append(bad, "the nonce entry's TTL does not depend on how far the nonce lies ahead of the clock: the record of a future nonce expires while a replay of the same request still passes the age check, and is honoured again")
					}
				}
				if o.Via == "setItem" || o.Via == "txn.Set" {
					// only allowed when the window is off
					okOff := false
					for _, cr := range ctrlRels(o.In.Block()) {
						if cr.Kind == "int" && (cr.Op == token.LEQ || cr.Op == token.EQL) {
							okOff = true
						}
					}
					if !okOff {
						_ = okOff
					}
				}
			}
		}
		r.Check(len(bad) == 0, "fresh", kind, m.Pos(), "store only past 'nonce <= now - ExpireNonce => reject'; the record lives at least as long as the nonce stays fresh", "%s", strings.Join(dedup(bad), "; "))

		// ---- key
		bad = nil
		for _, o := range append(append([]storeOp{}, reads...), writes...) {
			if !o.inSpace("nonce") {
				continue
			}
			if kind == "memory" {
				if o.Key != ssa.Value(idPrm) {
					bad = append(bad, o.Kind.String()+" at "+p.Pos(o.In.Pos())+" is not keyed by the identity parameter")
				}
			} else {
				d := p.Derives(2, o.Key)
				if !d.HasParam(idPrm) {
					bad = append(bad, o.Kind.String()+" at "+p.Pos(o.In.Pos())+": key does not derive from the identity parameter")
				}
				if d.HasParam(noncePrm) {
					bad = append(bad, o.Kind.String()+" at "+p.Pos(o.In.Pos())+": key depends on the nonce (every nonce would get its own entry)")
				}
				for _, n := range d.Nodes {
					if sl, ok := n.(*ssa.Slice); ok && (sl.Low != nil || sl.High != nil) {
						bad = append(bad, "the key is truncated: distinct identities can share a nonce entry")
					}
				}
			}
			if o.Kind == opWrite {
				v := o.Val
				if v == nil || !p.Derives(0, v).HasParam(noncePrm) {
					bad = append(bad, "the stored value is not the request's nonce")
				} else {
					for _, n := range p.Derives(0, v).Nodes {
						if _, ok := n.(*ssa.BinOp); ok {
							bad = append(bad, "the stored nonce is modified before being saved")
						}
					}
				}
			}
		}
		r.Check(len(bad) == 0, "key", kind, m.Pos(), "entry keyed by the identity only, holding the request's nonce", "%s", strings.Join(dedup(bad), "; "))
	}

	// ---- nonce-writers: the high-water marks are written by CheckAndSaveNonce only; nothing else (re-registration,
	// clean-up, ...) may write or delete them, or nonces would move backwards
	for _, d := range p.Implementations(p.Iface("pool/store", "NonceStore")) {
		kind := driverKind(d)
		if kind == "" {
			continue
		}
		var bad []string
		nm := 0
		ms := types.NewMethodSet(types.NewPointer(d))
		for i := 0; i < ms.Len(); i++ {
			m := p.MethodOf(d, ms.At(i).Obj().Name())
			if m == nil || m.Name() == "CheckAndSaveNonce" {
				continue
			}
			nm++
			for _, o := range driverOps(p, d, m) {
				if (o.Kind == opWrite || o.Kind == opDelete) && o.inSpace("nonce") {
					bad = append(bad, an.FuncName(m)+" writes or deletes a saved nonce at "+p.Pos(o.In.Pos())+": requests older than the forgotten nonce are accepted again")
				}
			}
		}
		r.Floor("nonce-writers-"+kind+"-methods", nm, 10)
		r.Check(len(bad) == 0, "nonce-writers", kind, token.NoPos, "saved nonces are written by CheckAndSaveNonce only", "%s", strings.Join(dedup(bad), "; "))
	}

	checkSameIdentity(p, r)
}

// checkSameIdentity: every verify wrapper hands the nonce store the identity and nonce it verified (shared with C04: a
// store keyed by anything else refuses correctly signed fresh requests of other identities) and refuses on its errors.
func checkSameIdentity(p *an.Prog, r *an.Run) {
	// ---- same-identity
	ws := VerifyWrappers(p)
	r.Floor("verify-wrappers", len(ws), 2)
	for _, w := range ws {
		name := an.FuncName(w)
		r.Analysed(name)
		var ver, non ssa.CallInstruction
		for _, c := range an.Calls(w, false) {
			f := an.CallObj(c)
			if an.IsFunc(f, pkgRequest, "Verify") {
				ver = c
			}
			if f != nil && f.Name() == "CheckAndSaveNonce" {
				non = c
			}
		}
		if ver == nil || non == nil {
			r.Fail("same-identity", name, w.Pos(), "wrapper does not call both request.Verify and CheckAndSaveNonce")
			continue
		}
		va := ver.Common().Args
		na := methodArgs(non)
		ok := len(va) >= 4 && len(na) == 2 && na[0] == va[2] && na[1] == va[3]
		r.Check(ok, "same-identity", name, non.Pos(), "CheckAndSaveNonce(id, nonce) uses the identity and nonce that were verified", "the nonce store is given a different identity/nonce than the signature check: nonces of one identity could affect another, or an unverified nonce be stored")
		// any failure of the nonce store refuses the request: a request let through although its nonce was not recorded
		// (store fault, badger ErrConflict of the losing duplicate) can be honoured again
		fp := failPropagates(p, w, non)
		r.Check(len(fp) == 0, "nonce-error", name, non.Pos(), "every error of CheckAndSaveNonce refuses the request", "%s", strings.Join(fp, "; "))
	}
}
