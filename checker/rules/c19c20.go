package rules

import (
	"go/token"
	"go/types"
	"strings"

	"golang.org/x/tools/go/ssa"

	"vipcheck/an"
)

func init() {
	Registry["C19"] = Spec{
		Run: runC19,
		Explanation: "Static provenance / gate rules over normalizeNodeURI and connect: (id-binding) the user part of the advertised URL is url.User(nodeID) of the function's own nodeID parameter, an override naming another id is refused, and every caller chain hands in the verified identity; " +
			"(hostport) url.URL.Host is net.JoinHostPort(host, port) — never a string concatenation, which breaks IPv6 literals — with host/port chosen from the override's Hostname()/Port() or the defaults; " +
			"(refuse-unknown) the URL is built only past host != \"\", and in connect neither the host registry nor SetNode is reachable from the failure edge of the normalisation; " +
			"(default) the default host derives from the calling connection's RemoteAddr() via Hostname() and the default port is the constant 30303; the URL that is stored is the one returned. Round 2: (refuse-unknown, transport side) inside the RPC library a reported remote address never comes from an ad-hoc interface or a type assertion on the wrapped value. Round 5: address sources report net.Addr.String() whole; a rejected override is refused.",
		NotDecided: []string{"not decided: round-trip equality over all URI inputs (url.Parse/String semantics are trusted)"},
	}
	Registry["C20"] = Spec{
		Run: runC20,
		Explanation: "Static lockset / must-pass-through / constant rules over the agent life cycle: (test-and-set) Start reads the started flag and sets it to true inside one uninterrupted a.mu region, refusing with ErrAlreadyStarted before any pool call when it was set; " +
			"every return of Start between the set and the go statement, and every return of serveUpdates, is preceded by a reset of the flag under a.mu (inline or through a helper, possibly deferred); " +
			"(single-spawn) Start contains exactly one go statement, reached only past successful Connect and UpdatePeers, whose goroutine sends serveUpdates' result on waitCh; Stop sends on stopCh, serveUpdates selects on it and returns, Wait receives waitCh; " +
			"(interval) the loop's period is UpdateInterval (default KeepaliveInterval); the command line's value reaches the agent only past 'interval >= maxUpdateInterval => refuse', and maxUpdateInterval is initialised to at most ExpireInterval and written nowhere else. Round 2: only Start, the loop and their reset-helper call sites write the started flag; the loop waits on a timer created in serveUpdates on every run. Round 5: (start-bounded) every RemotePool stub waits on its own ctx.",
		NotDecided: []string{"not decided: cadence in real time; Stop on an agent whose loop already ended (it blocks)"},
	}
}

func runC19(p *an.Prog, r *an.Run, tier string) {
	checkSurfaceClosed(p, r)
	nz := p.Func("pool", "normalizeNodeURI")
	conn := p.Method("pool", "VipnodePool", "connect")
	if nz == nil || conn == nil {
		r.Undec("anchors", "pool", token.NoPos, "normalizeNodeURI / connect not found")
		return
	}
	r.Analysed(an.FuncName(nz), an.FuncName(conn))
	uriPrm, idPrm, hostPrm, portPrm := nz.Params[0], nz.Params[1], nz.Params[2], nz.Params[3]
	_ = uriPrm
	// the url literal
	var urlAlloc *ssa.Alloc
	stores := map[string]*ssa.Store{}
	var userStores []*ssa.Store
	an.AllInstrs(nz, func(in ssa.Instruction) {
		st, ok := in.(*ssa.Store)
		if !ok {
			return
		}
		fv := an.FieldOf(st.Addr)
		n := structOfFieldAccess(st.Addr)
		if fv == nil || n == nil || n.Obj().Name() != "URL" || n.Obj().Pkg().Path() != "net/url" {
			return
		}
		root, _ := an.RootPath(st.Addr)
		if al, ok := root.(*ssa.Alloc); ok {
			urlAlloc = al
			stores[fv.Name()] = st
			if fv.Name() == "User" {
				userStores = append(userStores, st)
			}
		}
	})
	if urlAlloc == nil {
		r.Fail("id-binding", an.FuncName(nz), nz.Pos(), "normalizeNodeURI does not build a url.URL")
		return
	}
	// ---- id-binding
	var bad []string
	if st := stores["User"]; st == nil {
		bad = append(bad, "the advertised URL has no user (node id) part")
	} else {
		var vals []ssa.Value
		for _, us := range userStores {
			if phi, ok := us.Val.(*ssa.Phi); ok {
				vals = append(vals, phi.Edges...)
			} else {
				vals = append(vals, us.Val)
			}
		}
		for _, v := range vals {
			c, ok := v.(*ssa.Call)
			if !ok || !(an.IsFunc(an.CallObj(c), "net/url", "User")) || c.Call.Args[0] != ssa.Value(idPrm) {
				bad = append(bad, "the user part of the advertised URL is not always url.User(nodeID) of the authenticated node id (an override's own userinfo — empty, foreign, or carrying a password — could be advertised)")
			}
		}
	}
	if st := stores["Scheme"]; st == nil {
		bad = append(bad, "no scheme")
	} else if s, ok := an.ConstString(st.Val); !ok || s != "enode" {
		bad = append(bad, "the advertised URL's scheme is not enode")
	}
	// returned string is that URL's String()
	okRet := false
	an.AllInstrs(nz, func(in ssa.Instruction) {
		if ret, ok := in.(*ssa.Return); ok {
			cls, _ := returnClass(ret)
			if cls != "nil" {
				return
			}
			if c, ok := an.RetResults(ret)[0].(*ssa.Call); ok && an.IsMethod(an.CallObj(c), "net/url", "URL", "String") && c.Call.Args[0] == ssa.Value(urlAlloc) {
				okRet = true
			} else {
				bad = append(bad, "a successful return at "+p.Pos(ret.Pos())+" does not yield the normalised URL")
			}
		}
	})
	if !okRet {
		bad = append(bad, "the normalised URL is never returned")
	}
	// an override the URL parser rejects is refused: taking the raw text some other way (as a bare host, say) skips the
	// id check — the text has no user part then — and stores something that does not parse back
	nParse := 0
	for _, rf := range regionFuncs(p, nz) {
		for _, c := range an.Calls(rf, false) {
			if f := an.CallObj(c); an.IsFunc(f, "net/url", "Parse") || an.IsFunc(f, "net/url", "ParseRequestURI") {
				nParse++
				for _, w := range failPropagates(p, rf, c) {
					bad = append(bad, "an override that "+callName(c)+" rejects is not refused: "+w)
				}
			}
		}
	}
	if nParse == 0 {
		bad = append(bad, "the override is not parsed as a URL")
	}
	// foreign id refused (in normalizeNodeURI or in a helper it delegates to)
	okForeign := false
	for _, rf := range regionFuncs(p, nz) {
		rf := rf
		an.AllInstrs(rf, func(in ssa.Instruction) {
			iff, ok := in.(*ssa.If)
			if !ok {
				return
			}
			rel, ok := an.NormCond(iff.Cond)
			if !ok || rel.Kind != "string" || (rel.Op != token.NEQ && rel.Op != token.EQL) {
				return
			}
			isUser := func(v ssa.Value) bool {
				c, ok := v.(*ssa.Call)
				return ok && an.CallObj(c) != nil && an.CallObj(c).Name() == "Username"
			}
			isID := func(v ssa.Value) bool { return isPlainParam(p, v, idPrm) }
			if !((isUser(rel.L) && isID(rel.R)) || (isUser(rel.R) && isID(rel.L))) {
				return
			}
			ne := 0
			if rel.Op == token.EQL {
				ne = 1
			}
			// from the mismatch edge no successful return of that function is reachable ...
			okRet := func(x ssa.Instruction) bool {
				ret, ok := x.(*ssa.Return)
				if !ok {
					return false
				}
				cls, _ := returnClass(ret)
				return cls == "nil"
			}
			if pathFromBlock(rf, iff.Block().Succs[ne], nil, okRet) != nil {
				return
			}
			if rf == nz {
				okForeign = true
				return
			}
			// ... and the helper's failure keeps normalizeNodeURI from building the URL
			for _, c := range an.Calls(nz, false) {
				if c.Common().StaticCallee() == rf && stores["Host"] != nil {
					u := an.ErrEdges(c)
					blocked := len(u.Fail) > 0
					for _, e := range u.Fail {
						if pathFromBlock(nz, e.To, nil, func(x ssa.Instruction) bool { return x == ssa.Instruction(stores["Host"]) }) != nil {
							blocked = false
						}
					}
					if blocked {
						okForeign = true
					}
				}
			}
		})
	}
	if !okForeign {
		bad = append(bad, "an override naming a different node id is not refused")
	}
	r.Check(len(bad) == 0, "id-binding", an.FuncName(nz), nz.Pos(), "enode://<authenticated id>@…; foreign ids in the override are refused", "%s", strings.Join(bad, "; "))

	// callers: connect passes its nodeID parameter; connect's callers pass the verified id
	bad = nil
	var nzCall ssa.CallInstruction
	for _, c := range an.Calls(conn, false) {
		if c.Common().StaticCallee() == nz {
			nzCall = c
		}
	}
	if nzCall == nil {
		bad = append(bad, "connect does not normalise the node URI")
	} else if nzCall.Common().Args[1] != ssa.Value(conn.Params[2]) {
		bad = append(bad, "connect normalises the URI against something other than its node id parameter")
	}
	a := buildAuth(p)
	nCallers := 0
	for _, fn := range p.Repo {
		for _, c := range an.Calls(fn, false) {
			if c.Common().StaticCallee() != conn {
				continue
			}
			nCallers++
			var ep *Endpoint
			for _, e := range a.endpoints {
				if e.Fn == fn {
					ep = e
				}
			}
			if ep == nil || c.Common().Args[2] != ssa.Value(ep.ID) {
				bad = append(bad, "connect is called from "+an.FuncName(fn)+" with an id that is not the endpoint's verified identity")
			}
		}
	}
	r.Floor("connect-callers", nCallers, 3)
	r.Check(len(bad) == 0, "id-binding", an.FuncName(conn), conn.Pos(), "the id bound into the URL is the verified identity on every call chain", "%s", strings.Join(bad, "; "))

	// ---- hostport
	bad = nil
	var hostVal, portVal ssa.Value
	if st := stores["Host"]; st == nil {
		bad = append(bad, "the advertised URL has no host")
	} else {
		c, ok := st.Val.(*ssa.Call)
		if !ok || !an.IsFunc(an.CallObj(c), "net", "JoinHostPort") {
			bad = append(bad, "url.URL.Host is not built with net.JoinHostPort(host, port): concatenating host+\":\"+port yields an undialable address for IPv6 literals")
		} else {
			hostVal, portVal = c.Call.Args[0], c.Call.Args[1]
			for _, v := range []struct {
				v    ssa.Value
				def  *ssa.Parameter
				meth string
			}{{hostVal, hostPrm, "Hostname"}, {portVal, portPrm, "Port"}} {
				d := p.DerivesIn(nz, 3, v.v)
				hasDef := d.HasParam(v.def)
				hasOv := d.CallTo(func(f *types.Func) bool { return an.IsMethod(f, "net/url", "URL", v.meth) }) != nil
				if !hasDef || !hasOv {
					bad = append(bad, "the "+strings.ToLower(v.meth)+" is not chosen between the override's "+v.meth+"() and the default (the address the host supplied would be ignored, or there would be no default)")
				}
				// the default survives an override that leaves this part out: the override's value replaces it only on a
				// branch on which that value is known to be non-empty
				var phis []*ssa.Phi
				seenPhi := map[*ssa.Phi]bool{}
				var collect func(x ssa.Value)
				collect = func(x ssa.Value) {
					if ph, ok := x.(*ssa.Phi); ok && !seenPhi[ph] {
						seenPhi[ph] = true
						phis = append(phis, ph)
						for _, e := range ph.Edges {
							collect(e)
						}
					}
				}
				collect(v.v)
				for _, ph := range phis {
					for i, e := range ph.Edges {
						call, isCall := e.(*ssa.Call)
						if !isCall || !an.IsMethod(an.CallObj(call), "net/url", "URL", v.meth) {
							continue
						}
						pred := ph.Block().Preds[i]
						okNonEmpty := false
						rels := ctrlRels(pred)
						if len(pred.Instrs) > 0 {
							if iff, isIf := pred.Instrs[len(pred.Instrs)-1].(*ssa.If); isIf {
								for si, sb := range pred.Succs {
									if sb == ph.Block() {
										if rel, ok := an.BranchRel(iff, si); ok {
											rels = append(rels, ctrlRel{rel, iff, si})
										}
									}
								}
							}
						}
						for _, cr := range rels {
							l, r0 := cr.L, cr.R
							if _, isC := an.ConstString(l); isC {
								l, r0 = r0, l
							}
							if cs, isC := an.ConstString(r0); isC && cs == "" && l == ssa.Value(call) && cr.Op == token.NEQ {
								okNonEmpty = true
							}
						}
						if !okNonEmpty {
							bad = append(bad, "the override's "+v.meth+"() replaces the default "+strings.ToLower(v.meth)+" without being known non-empty: an override that leaves it out wipes the default (the address the host connected from / port 30303) and the registration is refused or stored without it")
						}
					}
				}
				// no hand-made splitting or concatenation on the way
				for _, n := range d.Nodes {
					if bo, ok := n.(*ssa.BinOp); ok && bo.Op == token.ADD {
						if b, ok := bo.Type().Underlying().(*types.Basic); ok && b.Info()&types.IsString != 0 {
							bad = append(bad, "the "+strings.ToLower(v.meth)+" is assembled by string concatenation")
						}
					}
					if sl, ok := n.(*ssa.Slice); ok {
						if b, ok := sl.X.Type().Underlying().(*types.Basic); ok && b.Info()&types.IsString != 0 {
							bad = append(bad, "the "+strings.ToLower(v.meth)+" is cut out of a string by hand")
						}
					}
				}
			}
		}
	}
	r.Check(len(bad) == 0, "hostport", an.FuncName(nz), nz.Pos(), "Host = net.JoinHostPort(override or default host, override or default port)", "%s", strings.Join(bad, "; "))

	// ---- refuse-unknown
	bad = nil
	if st := stores["Host"]; st != nil && hostVal != nil {
		okNonEmpty := false
		for _, cr := range ctrlRels(st.Block()) {
			if cr.Kind == "string" && cr.Op == token.NEQ {
				l, rr := cr.L, cr.R
				if s, ok := an.ConstString(l); ok && s == "" {
					l, rr = rr, l
				}
				if s, ok := an.ConstString(rr); ok && s == "" && l == hostVal {
					okNonEmpty = true
				}
			}
		}
		if !okNonEmpty {
			bad = append(bad, "the URL is built without the host having been tested non-empty: a registration whose address cannot be determined would be stored")
		}
	}
	if nzCall != nil {
		u := an.ErrEdges(nzCall)
		if len(u.Fail) == 0 {
			bad = append(bad, "connect does not branch on the normalisation's error")
		}
		regVia := map[ssa.Instruction]string{}
		for _, a := range helperRegistrations(conn, poolMapAccesses(p, "remoteHosts", "remoteNodeLookup")) {
			regVia[a.In] = a.Field
		}
		for _, e := range u.Fail {
			if in := pathFromBlock(conn, e.To, nil, func(x ssa.Instruction) bool {
				if mu, ok := x.(*ssa.MapUpdate); ok && memMapField(mu.Map) == "remoteHosts" {
					return true
				}
				if regVia[x] != "" {
					return true
				}
				c, ok := x.(ssa.CallInstruction)
				return ok && isStoreMethodNamed(an.CallObj(c), "SetNode")
			}); in != nil {
				bad = append(bad, "the host is registered/stored at "+p.Pos(in.Pos())+" although its address could not be determined")
			}
		}
		// ... nor ahead of the decision: a connection entered into the pool's host maps before the normalisation has
		// accepted it replaces the host's live connection even when the registration is then refused
		an.AllInstrs(conn, func(in ssa.Instruction) {
			field := regVia[in]
			if mu, ok := in.(*ssa.MapUpdate); ok {
				field = memMapField(mu.Map)
			}
			if field != "remoteHosts" && field != "remoteNodeLookup" {
				return
			}
			if hit := an.PathAvoiding(conn, in, nil, func(x ssa.Instruction) bool { return x == ssa.Instruction(nzCall) }, nil); hit != nil {
				bad = append(bad, "the connection is entered into "+field+" at "+p.Pos(in.Pos())+" before normalizeNodeURI has accepted the registration ("+p.Pos(nzCall.Pos())+"): a refused registration still replaces the host's live connection")
			}
		})
		// ... nor is the node stored ahead of the decision: a record written before the address has been accepted stays
		// behind when the registration is refused (a host without an address, or a registered host's address wiped)
		for _, c := range an.Calls(conn, false) {
			if !isStoreMethodNamed(an.CallObj(c), "SetNode") {
				continue
			}
			if hit := an.PathAvoiding(conn, c.(ssa.Instruction), nil, func(x ssa.Instruction) bool { return x == ssa.Instruction(nzCall) }, nil); hit != nil {
				bad = append(bad, "the node is stored at "+p.Pos(c.Pos())+" before normalizeNodeURI has accepted its address ("+p.Pos(nzCall.Pos())+"): a refused registration leaves a host record without (or with a wiped) address")
			}
		}
		// ... and no host registration is answered with success without having gone through the normalisation and the
		// store: "a repeat of a registration we hold already" acknowledges a new override (or an unusable one) while the
		// pool goes on handing out the first address
		{
			isNz := func(x ssa.Instruction) bool { return x == ssa.Instruction(nzCall) }
			var svc ssa.CallInstruction
			for _, c := range an.Calls(conn, false) {
				if an.IsFunc(an.CallObj(c), pkgRPC, "CtxService") {
					svc = c
				}
			}
			if svc != nil {
				okRet := func(x ssa.Instruction) bool {
					ret, ok := x.(*ssa.Return)
					if !ok {
						return false
					}
					cls, _ := returnClass(ret)
					return cls == "nil"
				}
				for _, e := range an.ErrEdges(svc).Succ {
					if hit := pathFromBlock(conn, e.To, isNz, okRet); hit != nil {
						bad = append(bad, "a host's connect can succeed (return at "+p.Pos(hit.Pos())+") without its address having been normalised and stored by this call")
					}
				}
			}
		}
		// the stored URI is the normalised one
		okStore := false
		an.AllInstrs(conn, func(in ssa.Instruction) {
			if st, ok := in.(*ssa.Store); ok {
				if fv := an.FieldOf(st.Addr); fv != nil && fv.Name() == "URI" {
					if ex, ok := st.Val.(*ssa.Extract); ok && ex.Tuple == nzCall.Value() && ex.Index == 0 {
						okStore = true
					}
				}
			}
		})
		if !okStore {
			bad = append(bad, "the node's stored URI is not the normalised one")
		}
		// every URI stored for the node comes from the normalisation (no fast path around its refusals)
		an.AllInstrs(conn, func(in ssa.Instruction) {
			st, ok := in.(*ssa.Store)
			if !ok {
				return
			}
			fv := an.FieldOf(st.Addr)
			n := structOfFieldAccess(st.Addr)
			if fv == nil || fv.Name() != "URI" || n == nil || n.Obj().Name() != "Node" {
				return
			}
			vals := []ssa.Value{st.Val}
			if phi, ok := st.Val.(*ssa.Phi); ok {
				vals = phi.Edges
			}
			for _, v := range vals {
				if ex, ok := v.(*ssa.Extract); ok && ex.Tuple == nzCall.Value() && ex.Index == 0 {
					continue
				}
				bad = append(bad, "a node URI that did not come out of normalizeNodeURI is stored at "+p.Pos(st.Pos())+": the empty-host refusal (and id check) can be bypassed")
			}
		})
	}
	r.Check(len(bad) == 0, "refuse-unknown", an.FuncName(conn), conn.Pos(), "no registration without a determinable, normalised address", "%s", strings.Join(bad, "; "))

	// ---- refuse-unknown, transport side: connect refuses a host whose connection reports no address. That only works
	// if address-less transports (the stream codec over pipes / unix sockets) really report none: in the RPC library a
	// reported address comes from an HTTP request or from the network connection type a websocket codec was built on,
	// never from duck-typing whatever io value a codec wraps.
	bad = nil
	nSrc := 0
	// the fields that RemoteAddr() string methods return, anywhere in non-test code
	addrFields := map[*types.Var]bool{}
	isAddrMethod := func(fn *ssa.Function) bool {
		return fn.Name() == "RemoteAddr" && fn.Signature.Recv() != nil && fn.Signature.Results().Len() == 1 && fn.Signature.Params().Len() == 0 &&
			isBasic(fn.Signature.Results().At(0).Type(), types.String) && !p.IsTestFunc(fn) && !isTestDoublePkg(fn)
	}
	for _, fn := range p.Repo {
		if !isAddrMethod(fn) {
			continue
		}
		an.AllInstrs(fn, func(in ssa.Instruction) {
			if ret, ok := in.(*ssa.Return); ok && len(ret.Results) == 1 {
				for _, nd := range p.Derives(0, an.RetResults(ret)[0]).Nodes {
					if fv := an.FieldOf(nd); fv != nil && isBasic(fv.Type(), types.String) {
						addrFields[fv] = true
					}
				}
			}
		})
	}
	type src struct {
		fn *ssa.Function
		v  ssa.Value
		at token.Pos
	}
	var srcs []src
	for _, fn := range p.Repo {
		if p.IsTestFunc(fn) || isTestDoublePkg(fn) {
			continue
		}
		an.AllInstrs(fn, func(in ssa.Instruction) {
			switch x := in.(type) {
			case *ssa.Store:
				if fv := an.FieldOf(x.Addr); fv != nil && addrFields[fv] {
					srcs = append(srcs, src{fn, x.Val, x.Pos()})
				}
			case *ssa.Return:
				if isAddrMethod(fn) && len(x.Results) == 1 {
					srcs = append(srcs, src{fn, an.RetResults(x)[0], x.Pos()})
				}
			}
		})
	}
	var judge func(fn *ssa.Function, v ssa.Value, at token.Pos, depth int)
	judge = func(fn *ssa.Function, v ssa.Value, at token.Pos, depth int) {
		for _, n := range p.Derives(2, v).Nodes {
			switch x := n.(type) {
			case *ssa.TypeAssert:
				if nt := namedOf(x.X.Type()); nt != nil && nt.Obj().Pkg() != nil && nt.Obj().Pkg().Path() == "net" && nt.Obj().Name() == "Addr" {
					bad = append(bad, an.FuncName(fn)+" takes the connection's net.Addr apart ("+p.Pos(x.Pos())+") instead of reporting its String(): the pool expects host:port with IPv6 in brackets and cuts anything else at its last colon")
				}
			case *ssa.Parameter:
				// a constructor parameter: judged at the constructor's call sites
				if depth > 0 && x.Parent() == fn && isBasic(x.Type(), types.String) {
					idx := -1
					for i, prm := range fn.Params {
						if prm == x {
							idx = i
						}
					}
					for _, site := range p.StaticSites(fn) {
						if idx >= 0 && idx < len(site.Common().Args) && !p.IsTestFunc(site.Parent()) {
							judge(site.Parent(), site.Common().Args[idx], site.Pos(), depth-1)
						}
					}
				}
			case *ssa.Call:
				f := an.CallObj(x)
				if f == nil {
					continue
				}
				switch {
				case x.Common().IsInvoke() && x.Common().Method.Name() == "RemoteAddr":
					if _, named := x.Common().Value.Type().(*types.Named); !named {
						bad = append(bad, an.FuncName(fn)+" reports the address of whatever value it wraps ("+p.Pos(x.Pos())+", RemoteAddr() through an ad-hoc interface): a pipe or unix socket then yields \"pipe\" or a socket path, which connect would store as the host's address instead of refusing")
						continue
					}
					for _, m := range p.Derives(0, x.Common().Value).Nodes {
						if ta, ok := m.(*ssa.TypeAssert); ok {
							bad = append(bad, an.FuncName(fn)+" reports the address of a connection type discovered by type assertion ("+p.Pos(ta.Pos())+")")
						}
					}
				case f.Name() == "LocalAddr":
					bad = append(bad, an.FuncName(fn)+" reports this end's own address ("+p.Pos(x.Pos())+", LocalAddr) as the peer's: a host registering without an override is advertised at the pool's address")
				case f.Name() == "RemoteAddr" || f.Name() == "Error" || (f.Name() == "String" && x.Common().IsInvoke()):
					// delegation to the wrapped connection / net.Addr.String() as a whole (host:port, IPv6 in brackets)
				case f.Pkg() != nil && (f.Pkg().Path() == "net/http" || f.Pkg().Path() == "net" || f.Pkg().Path() == "net/textproto" || f.Pkg().Path() == "strings" || f.Pkg().Path() == "fmt"):
					// a reported address must be the peer's host:port as the network stack gives it; one assembled from
					// request headers (X-Forwarded-For, ...) or re-formatted is not in that form (a bare IPv6 address is
					// cut at its last colon by the pool's Hostname() step) and is under the remote party's control
					bad = append(bad, an.FuncName(fn)+" reports an address obtained through "+an.ObjString(f)+" ("+p.Pos(x.Pos())+") rather than the connection's own host:port")
				}
			}
		}
	}
	for _, sv := range srcs {
		nSrc++
		judge(sv.fn, sv.v, sv.at, 2)
	}
	// the request's RemoteAddr is the network stack's statement of where the connection comes from; nothing in the
	// repository rewrites it (a "real IP" middleware assigning it from X-Forwarded-For makes every address source above
	// report a header the peer chose)
	for _, fn := range p.Repo {
		if p.IsTestFunc(fn) || isTestDoublePkg(fn) {
			continue
		}
		an.AllInstrs(fn, func(in ssa.Instruction) {
			st, ok := in.(*ssa.Store)
			if !ok {
				return
			}
			fv := an.FieldOf(st.Addr)
			if fv == nil || fv.Name() != "RemoteAddr" || fv.Pkg() == nil || fv.Pkg().Path() != "net/http" {
				return
			}
			bad = append(bad, an.FuncName(fn)+" assigns http.Request.RemoteAddr at "+p.Pos(st.Pos())+": every transport reports that field as the peer's address, so a host registering without an override is advertised at whatever was written there (a request header under the peer's control)")
		})
	}
	r.Floor("remote-addr-sources", nSrc, 4)
	r.Check(len(bad) == 0, "refuse-unknown", "jsonrpc2.remote-addr-sources", token.NoPos, "address-less transports report no address", "%s", strings.Join(dedup(bad), "; "))

	// ---- default
	bad = nil
	if nzCall != nil {
		dh := p.Derives(0, nzCall.Common().Args[2])
		if dh.CallTo(func(f *types.Func) bool { return f.Name() == "RemoteAddr" }) == nil {
			bad = append(bad, "the default host does not come from the calling connection's RemoteAddr()")
		}
		if dh.CallTo(func(f *types.Func) bool { return an.IsMethod(f, "net/url", "URL", "Hostname") }) == nil {
			bad = append(bad, "the default host is not reduced to a host name (port/brackets stripped) with Hostname()")
		}
		// RemoteAddr is asked of the service obtained from the request's context
		okSvc := false
		if ra := dh.CallTo(func(f *types.Func) bool { return f.Name() == "RemoteAddr" }); ra != nil {
			recv := ra.Common().Value
			if !ra.Common().IsInvoke() && len(ra.Common().Args) > 0 {
				recv = ra.Common().Args[0]
			}
			for _, n := range p.Derives(0, recv).Nodes {
				if c, ok := n.(*ssa.Call); ok && an.IsFunc(an.CallObj(c), pkgRPC, "CtxService") {
					okSvc = true
				}
			}
		}
		if !okSvc {
			bad = append(bad, "RemoteAddr() is not asked of the connection the request arrived on")
		}
		// the default port: the constant 30303 — or, on some branch, a configured override that was first parsed
		// successfully as a number (the value used is control-dependent on the success edge of a strconv parse);
		// a configured value used unchecked can be empty or garbage (seed C19-6)
		okPort := true
		sawConst := false
		var walkP func(v ssa.Value, depth int)
		walkP = func(v ssa.Value, depth int) {
			if depth > 4 {
				okPort = false
				return
			}
			if sv, ok := constStringThrough(v); ok {
				if sv == "30303" {
					sawConst = true
				} else {
					okPort = false
				}
				return
			}
			if ph, ok := v.(*ssa.Phi); ok {
				for _, e := range ph.Edges {
					walkP(e, depth+1)
				}
				return
			}
			// a parsed-and-reformatted override
			parsed := false
			for _, nd := range p.Derives(0, v).Nodes {
				if c, ok := nd.(*ssa.Call); ok {
					if f := an.CallObj(c); f != nil && f.Pkg() != nil && f.Pkg().Path() == "strconv" && (strings.HasPrefix(f.Name(), "Parse") || f.Name() == "Atoi") {
						u := an.ErrEdges(c)
						if ins, isIn := v.(ssa.Instruction); isIn && len(u.Succ) > 0 && !an.ReachAvoiding(conn, an.EdgeSet(u.Succ))[ins.Block()] {
							parsed = true
						}
					}
				}
			}
			if !parsed {
				okPort = false
			}
		}
		walkP(nzCall.Common().Args[3], 0)
		if !okPort || !sawConst {
			bad = append(bad, "the default port is not the constant 30303 (nor a configured override used only past a successful numeric parse, with 30303 as the fallback)")
		}
		dn := p.Derives(0, nzCall.Common().Args[0])
		if !dn.HasFieldNamed("ConnectRequest", "NodeURI") {
			bad = append(bad, "the override is not the request's NodeURI")
		}
	}
	r.Check(len(bad) == 0, "default", an.FuncName(conn), conn.Pos(), "defaults: host = Hostname(RemoteAddr of the caller's connection), port = 30303", "%s", strings.Join(bad, "; "))
}

func constStringThrough(v ssa.Value) (string, bool) {
	if s, ok := an.ConstString(v); ok {
		return s, true
	}
	if phi, ok := v.(*ssa.Phi); ok && len(phi.Edges) > 0 {
		s0, ok := an.ConstString(phi.Edges[0])
		if !ok {
			return "", false
		}
		for _, e := range phi.Edges[1:] {
			if s, ok := an.ConstString(e); !ok || s != s0 {
				return "", false
			}
		}
		return s0, true
	}
	return "", false
}

// ---------------------------------------------------------------------------

func runC20(p *an.Prog, r *an.Run, tier string) {
	checkSurfaceClosed(p, r)
	start := p.Method("agent", "Agent", "Start")
	serve := p.Method("agent", "Agent", "serveUpdates")
	stop := p.Method("agent", "Agent", "Stop")
	wait := p.Method("agent", "Agent", "Wait")
	if start == nil || serve == nil || stop == nil || wait == nil {
		r.Undec("anchors", "agent.Agent", token.NoPos, "Start/serveUpdates/Stop/Wait not found")
		return
	}
	r.Analysed(an.FuncName(start), an.FuncName(serve), an.FuncName(stop), an.FuncName(wait))

	isStartedAddr := func(v ssa.Value) bool {
		fv := an.FieldOf(v)
		n := structOfFieldAccess(v)
		return fv != nil && n != nil && an.Ident(fv.Name()) == "started" && n.Obj().Name() == "Agent"
	}
	// reset helpers: functions that store their bool parameter (or false) into started under the mutex
	helpers := map[*ssa.Function]int{} // fn -> index of bool param (-1: constant false)
	for _, fn := range p.Repo {
		if fn == start || fn == serve {
			continue
		}
		li := an.Locksets(fn, nil)
		an.AllInstrs(fn, func(in ssa.Instruction) {
			st, ok := in.(*ssa.Store)
			if !ok || !isStartedAddr(st.Addr) {
				return
			}
			if w, held := li.Before[in]["p0.mu"]; !held || !w {
				return
			}
			if c, ok := st.Val.(*ssa.Const); ok && c.Value != nil && (c.Value.String() == "false" || c.Value.String() == "0") {
				helpers[fn] = -1
			}
			for i, prm := range fn.Params {
				if st.Val == ssa.Value(prm) {
					helpers[fn] = i
				}
			}
		})
	}
	// the flag is a bool or a two-state named type: "stopped" is the zero value, "started" any other constant
	isBoolConst := func(v ssa.Value, want bool) bool {
		c, ok := v.(*ssa.Const)
		if !ok || c.Value == nil {
			return false
		}
		zero := c.Value.String() == "false" || c.Value.String() == "0"
		return zero != want
	}
	mkIsSet := func(fn *ssa.Function, want bool) func(ssa.Instruction) bool {
		li := an.Locksets(fn, nil)
		return func(in ssa.Instruction) bool {
			switch x := in.(type) {
			case *ssa.Store:
				if isStartedAddr(x.Addr) && isBoolConst(x.Val, want) {
					if w, held := li.Before[in]["p0.mu"]; held && w {
						return true
					}
				}
			case ssa.CallInstruction:
				if _, isGo := in.(*ssa.Go); isGo {
					return false
				}
				if cal := x.Common().StaticCallee(); cal != nil {
					if idx, ok := helpers[cal]; ok {
						if idx == -1 {
							return !want
						}
						if idx < len(x.Common().Args) && isBoolConst(x.Common().Args[idx], want) {
							return true
						}
					}
				}
			}
			return false
		}
	}
	isSetTrue := mkIsSet(start, true)
	isResetStart := mkIsSet(start, false)
	isResetServe := mkIsSet(serve, false)

	// ---- test-and-set
	var bad []string
	li := an.Locksets(start, nil)
	var load *ssa.UnOp
	var setTrue ssa.Instruction
	an.AllInstrs(start, func(in ssa.Instruction) {
		if u, ok := in.(*ssa.UnOp); ok && u.Op == token.MUL && isStartedAddr(u.X) {
			load = u
		}
		if isSetTrue(in) {
			setTrue = in
		}
	})
	var goStmt *ssa.Go
	nGo := 0
	an.AllInstrs(start, func(in ssa.Instruction) {
		if g, ok := in.(*ssa.Go); ok {
			goStmt = g
			nGo++
		}
	})
	if load == nil {
		bad = append(bad, "Start never reads the started flag")
	} else {
		if w, held := li.Before[load]["p0.mu"]; !held || !w {
			bad = append(bad, "the started flag is read without the agent's mutex")
		}
		// refusal
		okRefuse := false
		// the branch taken when the flag says "started": `if a.started`, or a comparison of the flag with a constant
		type startedBranch struct {
			iff  *ssa.If
			succ int
		}
		var branches []startedBranch
		for _, ref := range *load.Referrers() {
			switch x := ref.(type) {
			case *ssa.If:
				branches = append(branches, startedBranch{x, 0})
			case *ssa.BinOp:
				if x.Op != token.EQL && x.Op != token.NEQ {
					continue
				}
				other := x.Y
				if other == ssa.Value(load) {
					other = x.X
				}
				isStartedVal := isBoolConst(other, true)
				if !isStartedVal && !isBoolConst(other, false) {
					continue
				}
				for _, r2 := range *x.Referrers() {
					if iff, ok := r2.(*ssa.If); ok {
						succ := 1
						if (x.Op == token.EQL) == isStartedVal {
							succ = 0
						}
						branches = append(branches, startedBranch{iff, succ})
					}
				}
			}
		}
		for _, br := range branches {
			{
				iff := br.iff
				b := iff.Block().Succs[br.succ]
				refuses := false
				for _, blk := range reachBlocksNoLoop(b) {
					for _, in := range blk.Instrs {
						if ret, ok := in.(*ssa.Return); ok {
							if isSentinelLoad(an.RetResults(ret)[0], "ErrAlreadyStarted") {
								refuses = true
							}
						}
					}
				}
				if refuses && pathFromBlock(start, b, nil, func(x ssa.Instruction) bool {
					c, ok := x.(ssa.CallInstruction)
					if !ok {
						return false
					}
					if _, isGo := x.(*ssa.Go); isGo {
						return true
					}
					f := an.CallObj(c)
					return f != nil && (f.Name() == "Connect" || f.Name() == "Update")
				}) == nil {
					okRefuse = true
				}
			}
		}
		if !okRefuse {
			bad = append(bad, "a second Start while running is not refused with ErrAlreadyStarted before touching the pool")
		}
	}
	if setTrue == nil {
		bad = append(bad, "Start never marks the agent as started (under a.mu): a second Start would spawn a second keep-alive loop")
	} else if load != nil {
		// same uninterrupted lock region: no unlock on a path from the read to the set
		isUnlock := func(in ssa.Instruction) bool {
			c, ok := in.(ssa.CallInstruction)
			if !ok {
				return false
			}
			if _, isDefer := in.(*ssa.Defer); isDefer {
				return false
			}
			f := an.CallObj(c)
			return f != nil && f.Pkg() != nil && f.Pkg().Path() == "sync" && f.Name() == "Unlock"
		}
		var unlocks []ssa.Instruction
		an.AllInstrs(start, func(in ssa.Instruction) {
			if isUnlock(in) {
				unlocks = append(unlocks, in)
			}
		})
		for _, u := range unlocks {
			reachedFromLoad := an.PathAvoiding(start, load, func(x ssa.Instruction) bool { return x == setTrue }, func(x ssa.Instruction) bool { return x == u }, nil) != nil
			reachesSet := an.PathAvoiding(start, u, nil, func(x ssa.Instruction) bool { return x == setTrue }, nil) != nil
			if reachedFromLoad && reachesSet {
				bad = append(bad, "the mutex is released at "+p.Pos(u.Pos())+" between testing and setting the started flag: two racing Starts both pass the test")
			}
		}
		if !an.Dominates(load, setTrue) {
			bad = append(bad, "the flag is set before it is tested")
		}
		if goStmt != nil && !an.Dominates(setTrue, goStmt) {
			bad = append(bad, "the loop can be spawned without the flag having been set")
		}
		// every return after the set that does not pass the go statement resets the flag
		if in := an.PathAvoiding(start, setTrue, func(x ssa.Instruction) bool {
			if isResetStart(x) {
				return true
			}
			_, isGo := x.(*ssa.Go)
			return isGo
		}, an.IsReturn, nil); in != nil {
			bad = append(bad, "Start can fail at "+p.Pos(in.Pos())+" leaving the agent marked as started although no loop is running (it can never be started again)")
		}
		// and a reset must not happen once the loop runs
		if goStmt != nil {
			if in := an.PathAvoiding(start, goStmt, nil, isResetStart, nil); in != nil {
				bad = append(bad, "the flag is cleared after the loop was spawned")
			}
		}
	}
	r.Check(len(bad) == 0, "test-and-set", an.FuncName(start), start.Pos(), "started is tested and set in one critical section; failures before the loop reset it", "%s", strings.Join(dedup(bad), "; "))

	bad = nil
	if in := an.PathAvoiding(serve, nil, isResetServe, an.IsReturn, nil); in != nil {
		bad = append(bad, "the keep-alive loop can end at "+p.Pos(in.Pos())+" without clearing the started flag: after a failed keep-alive (or a stop) the agent could not be started again")
	}
	// ... and it is cleared when the loop ends, not while it is still running: no keep-alive can be sent after a reset
	// that has already taken effect (a reset executed at the top instead of deferred lets a second Start through)
	an.AllInstrs(serve, func(in ssa.Instruction) {
		if _, isDefer := in.(*ssa.Defer); isDefer || !isResetServe(in) {
			return
		}
		if _, isRD := in.(*ssa.RunDefers); isRD {
			return
		}
		if hit := an.PathAvoiding(serve, in, nil, func(x ssa.Instruction) bool {
			c, ok := x.(ssa.CallInstruction)
			if !ok {
				return false
			}
			f := an.CallObj(c)
			return f != nil && (an.Ident(f.Name()) == "UpdatePeers" || f.Name() == "Update")
		}, nil); hit != nil {
			bad = append(bad, "the started flag is cleared at "+p.Pos(in.Pos())+" while the loop goes on to send keep-alives ("+p.Pos(hit.Pos())+"): a second Start is accepted and runs a second loop")
		}
	})
	// a deferred reset must be registered at entry (dominates everything) — covered by the path check starting at the entry
	// who may write the flag: Start and the loop (directly or through the reset helpers). Any other function writing it
	// (e.g. the public forced-update entry clearing it on a pool error) clears it behind a loop that is still running,
	// and the next Start spawns a second loop
	for _, fn := range p.Repo {
		if fn == start || fn == serve || p.IsTestFunc(fn) {
			continue
		}
		if fn.Parent() != nil && (fn.Parent() == start || fn.Parent() == serve) {
			continue
		}
		if _, isHelper := helpers[fn]; isHelper {
			for _, site := range p.StaticSites(fn) {
				c := site.Parent()
				for c.Parent() != nil {
					c = c.Parent()
				}
				if c != start && c != serve && !p.IsTestFunc(c) {
					bad = append(bad, an.FuncName(c)+" changes the started flag through "+an.FuncName(fn)+" ("+p.Pos(site.Pos())+"), outside Start and the keep-alive loop: the flag no longer says whether a loop is running")
				}
			}
			continue
		}
		an.AllInstrs(fn, func(in ssa.Instruction) {
			if st, ok := in.(*ssa.Store); ok && isStartedAddr(st.Addr) {
				bad = append(bad, an.FuncName(fn)+" writes the started flag at "+p.Pos(st.Pos())+", outside Start and the keep-alive loop")
			}
		})
	}
	r.Check(len(bad) == 0, "test-and-set", an.FuncName(serve), serve.Pos(), "every exit of the loop clears the started flag under a.mu; nothing else writes it", "%s", strings.Join(dedup(bad), "; "))

	// ---- single-spawn
	bad = nil
	if nGo != 1 {
		bad = append(bad, "Start contains "+itoa(nGo)+" go statements, expected exactly one")
	} else {
		var connect, update ssa.CallInstruction
		for _, c := range an.Calls(start, false) {
			f := an.CallObj(c)
			if f != nil && f.Name() == "Connect" && an.RecvNamed(f) != nil && an.RecvNamed(f).Obj().Name() == "Pool" {
				connect = c
			}
			if f != nil && f.Name() == "UpdatePeers" {
				update = c
			}
		}
		if connect == nil || update == nil {
			bad = append(bad, "Start does not register with the pool and send a first update")
		} else {
			cut := an.EdgeSet(an.ErrEdges(connect).Succ)
			if an.ReachAvoiding(start, cut)[goStmt.Block()] {
				bad = append(bad, "the loop is spawned although registering with the pool failed")
			}
			cut = an.EdgeSet(an.ErrEdges(update).Succ)
			if an.ReachAvoiding(start, cut)[goStmt.Block()] {
				bad = append(bad, "the loop is spawned although the first update failed")
			}
			if inLoop(goStmt) {
				bad = append(bad, "the go statement is in a loop")
			}
			if an.Unspill(methodArgs(update)[1]) != ssa.Value(start.Params[1]) || methodArgs(connect)[0] == nil {
				bad = append(bad, "the first update goes to a different pool")
			}
		}
		// goroutine body: waitCh <- serveUpdates(p)
		var gfn *ssa.Function
		if mc, ok := goStmt.Call.Value.(*ssa.MakeClosure); ok {
			gfn, _ = mc.Fn.(*ssa.Function)
		} else {
			gfn = goStmt.Call.StaticCallee()
		}
		okSend := false
		if gfn != nil {
			an.AllInstrs(gfn, func(in ssa.Instruction) {
				if s, ok := in.(*ssa.Send); ok {
					if fieldLoadOf(s.Chan, "Agent", "waitCh") {
						if c, ok := s.X.(*ssa.Call); ok && c.Common().StaticCallee() == serve {
							okSend = true
						}
					}
				}
			})
			n := 0
			for _, c := range an.Calls(gfn, true) {
				if c.Common().StaticCallee() == serve {
					n++
				}
			}
			if n != 1 {
				bad = append(bad, "the goroutine runs the keep-alive loop "+itoa(n)+" times")
			}
		}
		if !okSend {
			bad = append(bad, "the loop's result is not delivered on waitCh (Wait would never return)")
		}
	}
	// nobody else spawns serveUpdates
	for _, fn := range p.Repo {
		for _, c := range an.Calls(fn, false) {
			if c.Common().StaticCallee() == serve {
				top := fn
				for top.Parent() != nil {
					top = top.Parent()
				}
				if top != start {
					bad = append(bad, "serveUpdates is also started from "+an.FuncName(fn))
				}
			}
		}
	}
	// Stop / serveUpdates / Wait wiring
	okStopSend, okStopRecv, okWait := false, false, false
	an.AllInstrs(stop, func(in ssa.Instruction) {
		if s, ok := in.(*ssa.Send); ok && fieldLoadOf(s.Chan, "Agent", "stopCh") {
			okStopSend = true
		}
	})
	an.AllInstrs(serve, func(in ssa.Instruction) {
		if sel, ok := in.(*ssa.Select); ok {
			for i, st := range sel.States {
				if st.Dir == types.RecvOnly && fieldLoadOf(st.Chan, "Agent", "stopCh") {
					// that case returns
					_ = i
					okStopRecv = true
				}
			}
		}
	})
	an.AllInstrs(wait, func(in ssa.Instruction) {
		if u, ok := in.(*ssa.UnOp); ok && u.Op == token.ARROW && fieldLoadOf(u.X, "Agent", "waitCh") {
			okWait = true
		}
	})
	// only the loop itself listens on stopCh: a receive anywhere else (a retry back-off in a helper, say) swallows the
	// one stop signal, Stop returns and the loop keeps running, Wait never returns
	for _, fn := range p.Repo {
		if p.IsTestFunc(fn) || fn == serve || fn.Pkg == nil || !strings.HasSuffix(fn.Pkg.Pkg.Path(), "/agent") {
			continue
		}
		top := fn
		for top.Parent() != nil {
			top = top.Parent()
		}
		an.AllInstrs(fn, func(in ssa.Instruction) {
			isStopCh := func(v ssa.Value) bool {
				fv := an.FieldOf(stripLoad(v))
				return fv != nil && an.Ident(fv.Name()) == "stopCh"
			}
			switch x := in.(type) {
			case *ssa.UnOp:
				if x.Op == token.ARROW && isStopCh(x.X) {
					bad = append(bad, an.FuncName(fn)+" receives from stopCh at "+p.Pos(x.Pos())+": the stop signal meant for the keep-alive loop is consumed elsewhere")
				}
			case *ssa.Select:
				for _, stt := range x.States {
					if stt.Dir == types.RecvOnly && isStopCh(stt.Chan) && top != serve {
						bad = append(bad, an.FuncName(fn)+" receives from stopCh in a select at "+p.Pos(x.Pos())+": the stop signal meant for the keep-alive loop is consumed elsewhere")
					}
				}
			}
		})
	}
	if !okStopSend || !okStopRecv {
		bad = append(bad, "Stop does not signal the loop through stopCh (or the loop does not listen)")
	}
	if !okWait {
		bad = append(bad, "Wait does not receive the loop's result from waitCh")
	}
	// the stop case must leave the loop: from the select, a Return is reachable without another tick
	r.Check(len(bad) == 0, "single-spawn", an.FuncName(start), start.Pos(), "one goroutine, spawned past Connect and UpdatePeers, reporting on waitCh; Stop->stopCh->return; Wait<-waitCh", "%s", strings.Join(dedup(bad), "; "))

	// ---- lazy-init: the agent's channels are made lazily by one initialiser; every method that sends on or receives
	// from them calls it first — a Wait (or Stop) entered before the first Start otherwise blocks on a nil channel for
	// ever, also after the agent has been started and stopped
	{
		var initFn *ssa.Function
		for _, fn := range p.Repo {
			top := fn
			for top.Parent() != nil {
				top = top.Parent()
			}
			if top.Pkg == nil || !strings.HasSuffix(top.Pkg.Pkg.Path(), "/agent") || p.IsTestFunc(top) {
				continue
			}
			an.AllInstrs(fn, func(in ssa.Instruction) {
				if st, ok := in.(*ssa.Store); ok {
					if fv := an.FieldOf(st.Addr); fv != nil && (an.Ident(fv.Name()) == "waitCh" || an.Ident(fv.Name()) == "stopCh") {
						if _, isMk := st.Val.(*ssa.MakeChan); isMk {
							initFn = top
						}
					}
				}
			})
		}
		var lb []string
		nUse := 0
		if initFn == nil {
			lb = append(lb, "no function makes the agent's stop/wait channels")
		} else {
			for _, m := range []*ssa.Function{start, stop, wait} {
				if m == initFn {
					continue
				}
				an.AllInstrs(m, func(in ssa.Instruction) {
					var ch ssa.Value
					switch x := in.(type) {
					case *ssa.UnOp:
						if x.Op == token.ARROW {
							ch = x.X
						}
					case *ssa.Send:
						ch = x.Chan
					case *ssa.Go:
						// the loop is handed the agent; it uses the channels
						if x.Common().StaticCallee() == serve {
							ch = nil
							nUse++
							okInit := false
							for _, c := range an.Calls(m, false) {
								if c.Common().StaticCallee() == initFn && an.Dominates(c.(ssa.Instruction), in) {
									okInit = true
								}
							}
							if !okInit {
								lb = append(lb, an.FuncName(m)+" starts the loop at "+p.Pos(in.Pos())+" without having called "+an.FuncName(initFn)+" first")
							}
						}
					}
					if ch == nil {
						return
					}
					fv := an.FieldOf(stripLoad(ch))
					if fv == nil || (an.Ident(fv.Name()) != "waitCh" && an.Ident(fv.Name()) != "stopCh") {
						return
					}
					nUse++
					okInit := false
					for _, c := range an.Calls(m, false) {
						if c.Common().StaticCallee() == initFn && an.Dominates(c.(ssa.Instruction), in) {
							okInit = true
						}
					}
					if !okInit {
						lb = append(lb, an.FuncName(m)+" uses "+fv.Name()+" at "+p.Pos(in.Pos())+" without having called "+an.FuncName(initFn)+" first: entered before the first Start it waits on a nil channel for ever")
					}
				})
			}
		}
		r.Floor("agent-channel-uses", nUse, 2)
		r.Check(len(lb) == 0, "lazy-init", "agent.Agent", token.NoPos, "every use of the stop/wait channels follows the initialiser", "%s", strings.Join(dedup(lb), "; "))
	}

	// ---- start-bounded: Start gives the pool a bounded time (startCtx) and undoes itself when that runs out; this
	// only works if the pool client waits on the context it is handed. Every RemotePool stub passes its own ctx
	// parameter to the call it makes — a stub that waits on context.Background() makes a silent pool block Start for
	// ever with the agent marked as started (no second Start, Stop and Wait block too).
	if rp := p.Named("pool", "RemotePool"); rp != nil {
		var cb []string
		nStub := 0
		for i := 0; i < rp.NumMethods(); i++ {
			m := p.SSA.FuncValue(rp.Method(i))
			if m == nil || len(m.Blocks) == 0 || len(m.Params) < 2 || !isContext(m.Params[1].Type()) {
				continue
			}
			ctxPrm := m.Params[1]
			for _, c := range an.Calls(m, false) {
				for _, a := range c.Common().Args {
					if !isContext(a.Type()) {
						continue
					}
					nStub++
					d := p.Derives(0, a)
					if !d.HasParam(ctxPrm) {
						cb = append(cb, an.FuncName(m)+" calls "+callName(c)+" at "+p.Pos(c.Pos())+" with a context that is not its own ctx parameter: the caller's deadline and cancellation do not reach the wait for the pool's reply")
					}
					if d.CallTo(func(f *types.Func) bool {
						return an.IsFunc(f, "context", "Background") || an.IsFunc(f, "context", "TODO")
					}) != nil {
						cb = append(cb, an.FuncName(m)+" waits on context.Background() at "+p.Pos(c.Pos()))
					}
				}
			}
		}
		r.Floor("pool-stub-calls", nStub, 5)
		r.Check(len(cb) == 0, "start-bounded", "pool.RemotePool", rp.Obj().Pos(), "every pool stub waits on the caller's context", "%s", strings.Join(dedup(cb), "; "))
	} else {
		r.Undec("start-bounded", "pool.RemotePool", token.NoPos, "type not found")
	}

	// ---- interval
	bad = nil
	okPeriod := false
	for _, c := range an.Calls(serve, false) {
		f := an.CallObj(c)
		if f != nil && f.Pkg() != nil && f.Pkg().Path() == "time" && (f.Name() == "Tick" || f.Name() == "NewTicker" || f.Name() == "After" || f.Name() == "NewTimer") {
			d := p.Derives(2, c.Common().Args[0])
			if d.HasFieldNamed("Agent", "UpdateInterval") {
				okPeriod = true
			}
			ka, _ := p.PkgConstInt("pool/store", "KeepaliveInterval")
			okDef := false
			for _, n := range d.Nodes {
				if k, ok := an.ConstInt(n); ok && k == ka {
					okDef = true
				}
			}
			if !okDef {
				bad = append(bad, "the default keep-alive period is not store.KeepaliveInterval")
			}
			// the default replaces the configured interval only where that is zero (the test inverted: a configured
			// interval is ignored and an unset one stays 0, which time.Tick rejects)
			type cand struct {
				v ssa.Value
				b *ssa.BasicBlock
				e int // phi edge index, -1 for a return
			}
			var cands []cand
			var expandP func(v ssa.Value, depth int)
			seenP := map[ssa.Value]bool{}
			expandP = func(v ssa.Value, depth int) {
				if seenP[v] || depth > 3 {
					return
				}
				seenP[v] = true
				switch x := v.(type) {
				case *ssa.Phi:
					for i, e := range x.Edges {
						cands = append(cands, cand{e, x.Block().Preds[i], i})
						expandP(e, depth+1)
					}
				case *ssa.Call:
					if callee := x.Call.StaticCallee(); callee != nil && p.InRepo(callee) {
						an.AllInstrs(callee, func(in2 ssa.Instruction) {
							if ret, ok := in2.(*ssa.Return); ok && len(ret.Results) == 1 {
								cands = append(cands, cand{ret.Results[0], ret.Block(), -1})
								expandP(ret.Results[0], depth+1)
							}
						})
					}
				}
			}
			expandP(c.Common().Args[0], 0)
			for _, cd := range cands {
				k, isK := an.ConstInt(cd.v)
				if !isK || k != ka {
					continue
				}
				rels := ctrlRels(cd.b)
				if cd.e >= 0 && len(cd.b.Instrs) > 0 {
					if iff, isIf := cd.b.Instrs[len(cd.b.Instrs)-1].(*ssa.If); isIf {
						// the edge from the If block into the phi's block
						for si := range cd.b.Succs {
							if rel, ok := an.BranchRel(iff, si); ok && cd.b.Succs[si] != nil {
								_ = rel
							}
						}
					}
				}
				okZero := false
				for _, cr := range rels {
					for _, pair := range [][2]ssa.Value{{cr.L, cr.R}, {cr.R, cr.L}} {
						if z, isZ := an.ConstInt(pair[1]); isZ && z == 0 && p.Derives(0, pair[0]).HasFieldNamed("Agent", "UpdateInterval") && (cr.Op == token.EQL || cr.Op == token.LEQ) {
							okZero = true
						}
					}
				}
				if !okZero {
					bad = append(bad, "the default keep-alive period is chosen at "+p.Pos(c.Pos())+" without UpdateInterval having been found zero: a configured interval is overridden by the default, or an unset one is used as it is")
				}
			}
			// a one-shot timer (After, NewTimer) fires once: it keeps the cadence only when armed again on every turn of
			// the loop; made once before the loop it yields a single keep-alive and then silence
			if (f.Name() == "After" || f.Name() == "NewTimer") && !inLoop(c.(ssa.Instruction)) {
				bad = append(bad, "the loop waits on a one-shot timer ("+an.ObjString(f)+" at "+p.Pos(c.Pos())+") created outside the loop: after the first keep-alive no further one is ever sent")
			}
		}
	}
	if !okPeriod {
		bad = append(bad, "the keep-alive period does not come from UpdateInterval")
	}
	// every run of the loop ticks on a timer made for that run: the channel it waits on comes from a time.Tick /
	// NewTicker / After call in serveUpdates itself that is executed on every run — not from a ticker kept in a field
	// (a restarted agent would wait on the previous run's stopped ticker and never send a keep-alive)
	an.AllInstrs(serve, func(in ssa.Instruction) {
		sel, ok := in.(*ssa.Select)
		if !ok {
			return
		}
		for _, st := range sel.States {
			if st.Dir != types.RecvOnly {
				continue
			}
			tt, ok := st.Chan.Type().Underlying().(*types.Chan)
			if !ok || !isNamedType(tt.Elem(), "Time") {
				continue
			}
			// every source of the channel (through phis) is nil (never ticks) or a timer made in this run
			var leaves []ssa.Value
			seenL := map[ssa.Value]bool{}
			var walkL func(v ssa.Value)
			walkL = func(v ssa.Value) {
				if seenL[v] {
					return
				}
				seenL[v] = true
				if ph, ok := v.(*ssa.Phi); ok {
					for _, e := range ph.Edges {
						walkL(e)
					}
					return
				}
				leaves = append(leaves, v)
			}
			walkL(st.Chan)
			for _, lf := range leaves {
				if c, ok := lf.(*ssa.Const); ok && c.IsNil() {
					continue
				}
				d := p.Derives(0, lf)
				fresh := false
				for _, n := range d.Nodes {
					if c, ok := n.(*ssa.Call); ok && c.Parent() == serve {
						if f := an.CallObj(c); f != nil && f.Pkg() != nil && f.Pkg().Path() == "time" && (f.Name() == "Tick" || f.Name() == "NewTicker" || f.Name() == "After" || f.Name() == "NewTimer") {
							fresh = true
						}
					}
					if fv := an.FieldOf(n); fv != nil {
						if nn := structOfFieldAccess(n); nn != nil && nn.Obj().Name() == "Agent" {
							ts := fv.Type().String()
							if strings.Contains(ts, "time.Ticker") || strings.Contains(ts, "time.Timer") || strings.Contains(ts, "chan") {
								fresh = false
								bad = append(bad, "the loop waits on a timer kept in the agent (field "+fv.Name()+"), not on one made for this run: after Stop and a new Start it is the old, stopped one and no keep-alive is ever sent")
							}
						}
					}
				}
				if !fresh {
					bad = append(bad, "the loop's tick channel is not produced by a timer created on every run of serveUpdates")
				}
			}
		}
	})
	// every turn of the loop sends the keep-alive: from the select, the next turn is not reachable without passing the
	// UpdatePeers call (a "recently updated, skip this tick" shortcut stretches the gap beyond the configured interval,
	// up to past the pool's expiry window)
	for _, c := range an.Calls(serve, false) {
		if f := an.CallObj(c); f == nil || f.Name() != "UpdatePeers" {
			continue
		}
		if hdr := loopHeader(c.Block()); hdr != nil {
			isU := func(x ssa.Instruction) bool { return x == c.(ssa.Instruction) }
			atHdr := func(x ssa.Instruction) bool { return x.Block() == hdr }
			for _, sc := range hdr.Succs {
				if !an.ReachFrom([]*ssa.BasicBlock{sc}, nil)[hdr] {
					continue
				}
				if in := pathFromBlock(serve, sc, isU, atHdr); in != nil {
					bad = append(bad, "a turn of the keep-alive loop can come round again without sending the keep-alive (skip path back to "+p.Pos(in.Pos())+")")
				}
			}
		}
	}
	// each keep-alive gets a context that is alive for that keep-alive: a deadline context created once outside the
	// loop expires and every later keep-alive fails
	for _, c := range an.Calls(serve, false) {
		if f := an.CallObj(c); f == nil || f.Name() != "UpdatePeers" {
			continue
		}
		if !inLoop(c.(ssa.Instruction)) {
			bad = append(bad, "the periodic UpdatePeers call is not in the loop")
		}
		d := p.Derives(0, c.Common().Args[1])
		// ... nor one that lives as long as the agent or as long as Start: a context kept in a field (cancelled by one Stop
		// and dead for every later run) or handed in as a parameter ends the keep-alives of a loop that is still running
		isCtx := func(t types.Type) bool {
			n := namedOf(t)
			return n != nil && n.Obj().Pkg() != nil && n.Obj().Pkg().Path() == "context" && n.Obj().Name() == "Context"
		}
		for _, n := range d.Nodes {
			switch x := n.(type) {
			case *ssa.UnOp:
				if x.Op == token.MUL && isCtx(x.Type()) {
					if fv := an.FieldOf(x.X); fv != nil && !assignedPerRun(p, fv) {
						bad = append(bad, "the keep-alives are sent with the context kept in the field "+fv.Name()+" ("+p.Pos(x.Pos())+"): once it has been cancelled (by a Stop) every keep-alive of every later run fails at once")
					}
				}
			case *ssa.Parameter:
				if isCtx(x.Type()) && x.Parent() == serve {
					bad = append(bad, "the keep-alives are sent with a context handed to the loop from outside ("+x.Name()+"): when it ends, the keep-alives of a loop that is still running fail")
				}
			}
		}
		for _, n := range d.Nodes {
			if cc, ok := n.(*ssa.Call); ok {
				if g := an.CallObj(cc); g != nil && g.Pkg() != nil && g.Pkg().Path() == "context" && (g.Name() == "WithTimeout" || g.Name() == "WithDeadline" || g.Name() == "WithCancel") {
					if !inLoop(cc) {
						bad = append(bad, "the keep-alives share one "+g.Name()+" context created outside the loop at "+p.Pos(cc.Pos())+": once it ends every later keep-alive fails and the loop dies by itself")
					}
				}
			}
		}
	}
	r.Check(len(bad) == 0, "interval", an.FuncName(serve), serve.Pos(), "period = UpdateInterval, default KeepaliveInterval", "%s", strings.Join(bad, "; "))

	bad = nil
	la := p.Method("", "agentRunner", "LoadAgent")
	if la == nil {
		r.Undec("interval", "main.agentRunner.LoadAgent", token.NoPos, "anchor not found")
		return
	}
	r.Analysed(an.FuncName(la))
	exp, _ := p.PkgConstInt("pool/store", "ExpireInterval")
	nSt := 0
	an.AllInstrs(la, func(in ssa.Instruction) {
		st, ok := in.(*ssa.Store)
		if !ok {
			return
		}
		fv := an.FieldOf(st.Addr)
		if fv == nil || fv.Name() != "UpdateInterval" {
			return
		}
		nSt++
		okMax := false
		for _, cr := range gateRels(p, st.Block()) {
			rel := cr.Rel
			if isGlobalLoad(rel.L, "maxUpdateInterval") {
				rel = rel.Swap()
			}
			if isGlobalLoad(rel.R, "maxUpdateInterval") && rel.L == st.Val && rel.Op == token.LSS {
				okMax = true
			}
		}
		if !okMax {
			bad = append(bad, "the configured update interval reaches the agent without having passed 'interval < maxUpdateInterval' (an agent updating slower than the pool's expiry window is declared inactive between its updates)")
		}
		if p.Derives(0, st.Val).CallTo(func(f *types.Func) bool { return an.IsFunc(f, "time", "ParseDuration") }) == nil {
			bad = append(bad, "the interval stored is not the parsed --update-interval value")
		}
	})
	if nSt == 0 {
		bad = append(bad, "LoadAgent does not configure the agent's update interval")
	}
	// maxUpdateInterval: initialised <= ExpireInterval, no other writer
	mainPkg := p.SSAPkg("")
	if mainPkg != nil {
		nW := 0
		for _, fn := range p.Repo {
			an.AllInstrs(fn, func(in ssa.Instruction) {
				if st, ok := in.(*ssa.Store); ok && isGlobalNamed(st.Addr, "maxUpdateInterval") {
					nW++
					k, ok := an.ConstInt(st.Val)
					if an.Ident(fn.Name()) != "init" {
						bad = append(bad, "maxUpdateInterval is reassigned in "+an.FuncName(fn))
					} else if !ok || k > exp || k <= 0 {
						bad = append(bad, "maxUpdateInterval is initialised to a value above the pool's expiry window (store.ExpireInterval)")
					}
				}
			})
		}
		if nW == 0 {
			bad = append(bad, "maxUpdateInterval has no initialiser")
		}
	}
	r.Check(len(bad) == 0, "interval", an.FuncName(la), la.Pos(), "--update-interval accepted only below maxUpdateInterval <= ExpireInterval", "%s", strings.Join(dedup(bad), "; "))
}

func isGlobalLoad(v ssa.Value, name string) bool {
	u, ok := v.(*ssa.UnOp)
	return ok && u.Op == token.MUL && isGlobalNamed(u.X, name)
}

// assignedPerRun: the field is assigned in a method named Start itself (outside any closure handed to sync.Once), i.e.
// every run gets a new value.
func assignedPerRun(p *an.Prog, fv *types.Var) bool {
	ok := false
	for _, fn := range p.Repo {
		if fn.Parent() != nil || fn.Name() != "Start" || p.IsTestFunc(fn) {
			continue
		}
		an.AllInstrs(fn, func(in ssa.Instruction) {
			if st, isSt := in.(*ssa.Store); isSt && an.FieldOf(st.Addr) == fv {
				ok = true
			}
		})
	}
	return ok
}
