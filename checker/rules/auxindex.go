package rules

import (
	"go/token"
	"go/types"
	"sort"
	"strings"

	"golang.org/x/tools/go/ssa"

	"vipcheck/an"
)

// Inverse indexes in the memory driver.
//
// The key-space model knows the six maps of the contract. A further map beside them is auxiliary state the model
// cannot judge in general (a cache, a counter), with one exception that is decidable from the shape of the code: an
// *inverse index* A: map[V]set-of-K of a contract map P: map[K]V (e.g. account -> its nodes, the inverse of node ->
// account). A holds k under v exactly when P[k] == v iff every transition of P maintains it:
//
//	(add)     every write P[k] = v is followed, on every path to the function's return, by the insertion of k into A[v];
//	(remove)  every write P[k] = v that may overwrite an entry reads the old one (old, ok := P[k]) and, on every path on
//	          which ok holds and old differs from v, removes k from A[old] before the write; likewise every delete(P, k);
//	(owner)   nothing else writes A or the sets it holds;
//	(made)    A is assigned a made map where the store is constructed.
//
// An index that passes is folded into P's key space (reads of A are reads of that space; its maintenance is part of the
// write of P). One that fails (add) or (remove) is a definite divergence between A and P — reported as violated; any
// other shape stays auxiliary state (undecided).
type auxIndex struct {
	Field    string // canonical field name of A
	Primary  string // field name of P
	Space    string
	Verified bool
	Problems []string // definite: the index diverges from the primary
	Unknown  []string // shapes the rule does not recognise
	Pos      token.Pos
	Sites    int
	Subset   bool   // a subset index (keys whose record carries a flag) rather than an inverse index
	Flag     string // subset index: the flag field
}

var (
	auxIndexes map[string]*auxIndex         // by field name
	auxSkip    = map[ssa.Instruction]bool{} // maintenance accesses folded into the primary's write
)

// ResolveAuxIndexes finds and judges inverse indexes among the memory driver's fields. Called once after loading.
func ResolveAuxIndexes(p *an.Prog) {
	auxIndexes = map[string]*auxIndex{}
	auxSkip = map[ssa.Instruction]bool{}
	ms := p.Named("pool/store/memory", "memoryStore")
	if ms == nil {
		return
	}
	st, ok := ms.Underlying().(*types.Struct)
	if !ok {
		return
	}
	fieldType := map[string]*types.Map{}
	for i := 0; i < st.NumFields(); i++ {
		if m, ok := st.Field(i).Type().Underlying().(*types.Map); ok {
			fieldType[an.Ident(st.Field(i).Name())] = m
		}
	}
	var fns []*ssa.Function
	for _, fn := range p.Repo {
		top := fn
		for top.Parent() != nil {
			top = top.Parent()
		}
		if top.Pkg != nil && strings.HasSuffix(top.Pkg.Pkg.Path(), "/pool/store/memory") && !p.IsTestFunc(top) {
			fns = append(fns, fn)
		}
	}
	for i := 0; i < st.NumFields(); i++ {
		name := an.Ident(st.Field(i).Name())
		am := fieldType[name]
		if am == nil || memFieldSpace[name] != "" {
			continue
		}
		// H: map[K]struct{} / map[K]bool beside P: map[K]record — a subset index (the keys of P whose record has some flag)
		if isSetElem(am.Elem()) {
			var prims []string
			for pn, pm := range fieldType {
				if memFieldSpace[pn] == "" || !types.Identical(pm.Key(), am.Key()) {
					continue
				}
				if hasBoolField(pm.Elem()) {
					prims = append(prims, pn)
				}
			}
			if len(prims) == 1 {
				ix := &auxIndex{Field: name, Primary: prims[0], Space: memFieldSpace[prims[0]], Pos: st.Field(i).Pos(), Subset: true}
				auxIndexes[name] = ix
				judgeSubsetIndex(p, ix, fns)
			}
			continue
		}
		// A: map[V]C with C = map[K]_ or []K; P: map[K]V
		var elemKey types.Type
		switch c := am.Elem().Underlying().(type) {
		case *types.Map:
			elemKey = c.Key()
		case *types.Slice:
			elemKey = c.Elem()
		}
		if elemKey == nil {
			continue
		}
		var prim []string
		for pn, pm := range fieldType {
			if memFieldSpace[pn] != "" && types.Identical(pm.Key(), elemKey) && types.Identical(pm.Elem(), am.Key()) {
				prim = append(prim, pn)
			}
		}
		if len(prim) != 1 {
			continue
		}
		ix := &auxIndex{Field: name, Primary: prim[0], Space: memFieldSpace[prim[0]], Pos: st.Field(i).Pos()}
		auxIndexes[name] = ix
		judgeAuxIndex(p, ix, fns)
	}
}

// innerOf: the keys v under which the set value m was taken from (or stored into) the index field: m = A[v], the
// first component of m, ok := A[v], a fresh map stored as A[v], or a phi of those.
func innerOf(field string, m ssa.Value, seen map[ssa.Value]bool) ([]ssa.Value, bool) {
	if seen[m] {
		return nil, true
	}
	seen[m] = true
	switch x := m.(type) {
	case *ssa.Lookup:
		if memMapField(x.X) == field && !x.CommaOk {
			return []ssa.Value{x.Index}, true
		}
	case *ssa.Extract:
		if lk, ok := x.Tuple.(*ssa.Lookup); ok && x.Index == 0 && lk.CommaOk && memMapField(lk.X) == field {
			return []ssa.Value{lk.Index}, true
		}
	case *ssa.MakeMap:
		var keys []ssa.Value
		for _, ref := range *x.Referrers() {
			if mu, ok := ref.(*ssa.MapUpdate); ok && mu.Value == ssa.Value(x) && memMapField(mu.Map) == field {
				keys = append(keys, mu.Key)
			}
		}
		return keys, len(keys) > 0
	case *ssa.Phi:
		var keys []ssa.Value
		for _, e := range x.Edges {
			k, ok := innerOf(field, e, seen)
			if !ok {
				return nil, false
			}
			keys = append(keys, k...)
		}
		return keys, len(keys) > 0
	}
	return nil, false
}

func allSame(vs []ssa.Value, want ssa.Value) bool {
	if len(vs) == 0 {
		return false
	}
	for _, v := range vs {
		if stripConv(v) != stripConv(want) {
			return false
		}
	}
	return true
}

func judgeAuxIndex(p *an.Prog, ix *auxIndex, fns []*ssa.Function) {
	type site struct {
		fn  *ssa.Function
		in  ssa.Instruction
		key ssa.Value
		val ssa.Value // nil for delete(P, k)
	}
	var pWrites []site
	maintenance := map[*ssa.Function]bool{}
	made := false
	for _, fn := range fns {
		an.AllInstrs(fn, func(in ssa.Instruction) {
			switch x := in.(type) {
			case *ssa.MapUpdate:
				if memMapField(x.Map) == ix.Primary {
					pWrites = append(pWrites, site{fn, in, x.Key, x.Value})
					maintenance[fn] = true
				}
			case *ssa.Store:
				if fa, ok := x.Addr.(*ssa.FieldAddr); ok {
					if f := an.FieldOf(fa); f != nil && an.Ident(f.Name()) == ix.Field {
						if _, ok := x.Val.(*ssa.MakeMap); ok {
							made = true
						} else {
							ix.Unknown = append(ix.Unknown, "the index field is assigned something other than a made map at "+p.Pos(in.Pos()))
						}
					}
				}
			case ssa.CallInstruction:
				if b, ok := x.Common().Value.(*ssa.Builtin); ok && an.Ident(b.Name()) == "delete" && len(x.Common().Args) == 2 && memMapField(x.Common().Args[0]) == ix.Primary {
					pWrites = append(pWrites, site{fn, in, x.Common().Args[1], nil})
					maintenance[fn] = true
				}
			}
		})
	}
	if !made {
		ix.Problems = append(ix.Problems, "the index "+ix.Field+" is never assigned a made map where the store is constructed: the first insertion writes to a nil map")
	}
	// accesses of A and of the sets it holds
	type innerOp struct {
		in   ssa.Instruction
		keyV []ssa.Value // index key(s) v of the set
		k    ssa.Value   // element
	}
	adds := map[*ssa.Function][]innerOp{}
	removes := map[*ssa.Function][]innerOp{}
	for _, fn := range fns {
		an.AllInstrs(fn, func(in ssa.Instruction) {
			switch x := in.(type) {
			case *ssa.MapUpdate:
				if memMapField(x.Map) == ix.Field {
					// A[v] = set: fine when the set is a fresh map (bucket creation), inside maintenance
					if _, ok := x.Value.(*ssa.MakeMap); !ok {
						ix.Unknown = append(ix.Unknown, "a whole set is stored into "+ix.Field+" at "+p.Pos(in.Pos()))
					}
					if !maintenance[fn] {
						ix.Unknown = append(ix.Unknown, ix.Field+" is written at "+p.Pos(in.Pos())+" in a function that does not write "+ix.Primary)
					}
					auxSkip[in] = true
					return
				}
				if _, isMap := x.Map.Type().Underlying().(*types.Map); isMap && memMapField(x.Map) == "" {
					if keys, ok := innerOf(ix.Field, x.Map, map[ssa.Value]bool{}); ok {
						adds[fn] = append(adds[fn], innerOp{in, keys, x.Key})
						if !maintenance[fn] {
							ix.Unknown = append(ix.Unknown, "a set of "+ix.Field+" is written at "+p.Pos(in.Pos())+" in a function that does not write "+ix.Primary)
						}
					}
				}
			case *ssa.Lookup:
				if memMapField(x.X) == ix.Field && maintenance[fn] {
					auxSkip[in] = true
				}
			case *ssa.Range:
				if memMapField(x.X) == ix.Field && maintenance[fn] {
					auxSkip[in] = true
				}
			case ssa.CallInstruction:
				b, ok := x.Common().Value.(*ssa.Builtin)
				if !ok || len(x.Common().Args) < 1 {
					return
				}
				a0 := x.Common().Args[0]
				switch an.Ident(b.Name()) {
				case "delete":
					if memMapField(a0) == ix.Field {
						// dropping an emptied bucket
						if !maintenance[fn] {
							ix.Unknown = append(ix.Unknown, ix.Field+" is written at "+p.Pos(in.Pos())+" in a function that does not write "+ix.Primary)
						}
						auxSkip[in] = true
						return
					}
					if keys, ok := innerOf(ix.Field, a0, map[ssa.Value]bool{}); ok && memMapField(a0) == "" {
						removes[fn] = append(removes[fn], innerOp{in, keys, x.Common().Args[1]})
						if !maintenance[fn] {
							ix.Unknown = append(ix.Unknown, "a set of "+ix.Field+" is written at "+p.Pos(in.Pos())+" in a function that does not write "+ix.Primary)
						}
					}
				case "len":
					if memMapField(a0) == ix.Field && maintenance[fn] {
						auxSkip[in] = true
					}
				}
			}
		})
	}
	isRet := func(in ssa.Instruction) bool { _, ok := in.(*ssa.Return); return ok }
	for _, w := range pWrites {
		ix.Sites++
		fn := w.fn
		// (add)
		if w.val != nil {
			okAdd := false
			for _, a := range adds[fn] {
				if stripConv(a.k) == stripConv(w.key) && allSame(a.keyV, w.val) {
					if an.PathAvoiding(fn, w.in, func(in ssa.Instruction) bool { return in == a.in }, isRet, nil) == nil {
						okAdd = true
					}
				}
			}
			if !okAdd {
				ix.Problems = append(ix.Problems, "the write of "+ix.Primary+" at "+p.Pos(w.in.Pos())+" is not followed on every path by the insertion of the same key into "+ix.Field+" under the written value: the index would miss the entry")
			}
		}
		// (remove)
		var lk *ssa.Lookup
		for _, b := range fn.Blocks {
			for _, in := range b.Instrs {
				if l, ok := in.(*ssa.Lookup); ok && l.CommaOk && memMapField(l.X) == ix.Primary && stripConv(l.Index) == stripConv(w.key) && an.Dominates(in, w.in) {
					lk = l
				}
			}
		}
		if lk == nil {
			ix.Problems = append(ix.Problems, "the write of "+ix.Primary+" at "+p.Pos(w.in.Pos())+" may replace an existing entry without the old value being read: the key would stay in "+ix.Field+" under its previous value (a re-linked node keeps being listed under the old one)")
			continue
		}
		var old, okv ssa.Value
		for _, ref := range *lk.Referrers() {
			if ex, ok := ref.(*ssa.Extract); ok {
				if ex.Index == 0 {
					old = ex
				} else {
					okv = ex
				}
			}
		}
		var rem *innerOp
		for i, rmv := range removes[fn] {
			if old != nil && stripConv(rmv.k) == stripConv(w.key) && allSame(rmv.keyV, old) {
				rem = &removes[fn][i]
			}
		}
		if rem == nil || old == nil || okv == nil {
			ix.Problems = append(ix.Problems, "the write of "+ix.Primary+" at "+p.Pos(w.in.Pos())+" does not remove the key from "+ix.Field+" under the value it had before: a re-linked node keeps being listed under the old one")
			continue
		}
		// with the edges "not found" and "old == new" cut, no path from the lookup to the write avoids the removal
		cut := map[an.Edge]bool{}
		for _, b := range fn.Blocks {
			if len(b.Instrs) == 0 {
				continue
			}
			iff, ok := b.Instrs[len(b.Instrs)-1].(*ssa.If)
			if !ok {
				continue
			}
			if iff.Cond == okv {
				cut[an.Edge{From: b, To: b.Succs[1]}] = true
			}
			if bo, ok := iff.Cond.(*ssa.BinOp); ok && w.val != nil {
				same := (stripConv(bo.X) == old && stripConv(bo.Y) == stripConv(w.val)) || (stripConv(bo.Y) == old && stripConv(bo.X) == stripConv(w.val))
				if same && bo.Op == token.NEQ {
					cut[an.Edge{From: b, To: b.Succs[1]}] = true
				}
				if same && bo.Op == token.EQL {
					cut[an.Edge{From: b, To: b.Succs[0]}] = true
				}
			}
		}
		if an.PathAvoiding(fn, lk, func(in ssa.Instruction) bool { return in == rem.in }, func(in ssa.Instruction) bool { return in == w.in }, cut) != nil {
			ix.Problems = append(ix.Problems, "the write of "+ix.Primary+" at "+p.Pos(w.in.Pos())+" can be reached with an old, different value present without the key having been removed from "+ix.Field+" under it")
			continue
		}
		auxSkip[lk] = true
	}
	if len(pWrites) == 0 {
		ix.Unknown = append(ix.Unknown, ix.Primary+" is never written")
	}
	for fn := range adds {
		for _, a := range adds[fn] {
			auxSkip[a.in] = true
		}
	}
	ix.Problems = dedup(ix.Problems)
	ix.Unknown = dedup(ix.Unknown)
	sort.Strings(ix.Problems)
	ix.Verified = len(ix.Problems) == 0 && len(ix.Unknown) == 0
	if !ix.Verified {
		// nothing is folded: the field stays auxiliary state for every other rule
		for in := range auxSkip {
			delete(auxSkip, in)
		}
	}
}

// checkAuxIndexes reports the judgement of every inverse index (C12).
func checkAuxIndexes(p *an.Prog, r *an.Run) {
	var names []string
	for n := range auxIndexes {
		names = append(names, n)
	}
	sort.Strings(names)
	for _, n := range names {
		ix := auxIndexes[n]
		switch {
		case len(ix.Problems) > 0:
			r.Check(false, "aux-index", "memory."+ix.Field, ix.Pos, "", "the index %s of %s is not kept in step with it — %s (the persistent driver answers from the records themselves)", ix.Field, ix.Primary, strings.Join(ix.Problems, "; "))
		case len(ix.Unknown) > 0:
			r.Undec("aux-index", "memory."+ix.Field, ix.Pos, "%s looks like an index of %s but is maintained in a way the rule does not recognise — %s", ix.Field, ix.Primary, strings.Join(ix.Unknown, "; "))
		default:
			if ix.Subset {
				r.Check(true, "aux-index", "memory."+ix.Field, ix.Pos, "subset index of "+ix.Primary+" by "+ix.Flag+": every write and removal of the primary brings it in step ("+itoa(ix.Sites)+" sites)", "")
			} else {
				r.Check(true, "aux-index", "memory."+ix.Field, ix.Pos, "inverse index of "+ix.Primary+": every write of the primary inserts under the new value and removes under the old one ("+itoa(ix.Sites)+" write sites)", "")
			}
		}
	}
}

func isSetElem(t types.Type) bool {
	switch x := t.Underlying().(type) {
	case *types.Struct:
		return x.NumFields() == 0
	case *types.Basic:
		return x.Kind() == types.Bool
	}
	return false
}

// hasBoolField: t is a struct (possibly embedding one) with a bool field somewhere one level down.
func hasBoolField(t types.Type) bool {
	st, ok := t.Underlying().(*types.Struct)
	if !ok {
		return false
	}
	for i := 0; i < st.NumFields(); i++ {
		f := st.Field(i)
		if b, ok := f.Type().Underlying().(*types.Basic); ok && b.Kind() == types.Bool {
			return true
		}
		if f.Embedded() {
			if in, ok := f.Type().Underlying().(*types.Struct); ok {
				for j := 0; j < in.NumFields(); j++ {
					if b, ok := in.Field(j).Type().Underlying().(*types.Basic); ok && b.Kind() == types.Bool {
						return true
					}
				}
			}
		}
	}
	return false
}

// sameKeyExpr: two key expressions denote the same value: the same SSA value, or the same field path from the same root
// (n.ID evaluated twice).
func sameKeyExpr(a, b ssa.Value) bool {
	a, b = stripConv(a), stripConv(b)
	if a == b {
		return true
	}
	ra, pa := an.RootPath(stripLoad(a))
	rb, pb := an.RootPath(stripLoad(b))
	if u, ok := a.(*ssa.UnOp); ok && u.Op == token.MUL {
		ra, pa = an.RootPath(u.X)
	}
	if u, ok := b.(*ssa.UnOp); ok && u.Op == token.MUL {
		rb, pb = an.RootPath(u.X)
	}
	return pa != "" && pa == pb && sameObject(ra, rb)
}

// judgeSubsetIndex: H holds exactly the keys of P whose record has the flag set iff every write P[k] = rec is paired,
// in the same function and on every path, with H[k] = {} on the branch where the flag of the record written is true and
// delete(H, k) on the other; every delete(P, k) with delete(H, k); nothing else writes H; H is made with the store.
func judgeSubsetIndex(p *an.Prog, ix *auxIndex, fns []*ssa.Function) {
	type site struct {
		fn  *ssa.Function
		in  ssa.Instruction
		key ssa.Value
		del bool
	}
	var pSites, hSites []site
	made := false
	for _, fn := range fns {
		an.AllInstrs(fn, func(in ssa.Instruction) {
			switch x := in.(type) {
			case *ssa.MapUpdate:
				switch memMapField(x.Map) {
				case ix.Primary:
					pSites = append(pSites, site{fn, in, x.Key, false})
				case ix.Field:
					hSites = append(hSites, site{fn, in, x.Key, false})
				}
			case *ssa.Store:
				if fa, ok := x.Addr.(*ssa.FieldAddr); ok {
					if f := an.FieldOf(fa); f != nil && an.Ident(f.Name()) == ix.Field {
						if _, ok := x.Val.(*ssa.MakeMap); ok {
							made = true
						} else {
							ix.Unknown = append(ix.Unknown, "the index field is assigned something other than a made map at "+p.Pos(in.Pos()))
						}
					}
				}
			case ssa.CallInstruction:
				if b, ok := x.Common().Value.(*ssa.Builtin); ok && an.Ident(b.Name()) == "delete" && len(x.Common().Args) == 2 {
					switch memMapField(x.Common().Args[0]) {
					case ix.Primary:
						pSites = append(pSites, site{fn, in, x.Common().Args[1], true})
					case ix.Field:
						hSites = append(hSites, site{fn, in, x.Common().Args[1], true})
					}
				}
			}
		})
	}
	if !made {
		ix.Problems = append(ix.Problems, "the index "+ix.Field+" is never assigned a made map where the store is constructed")
	}
	maintenance := map[*ssa.Function]bool{}
	for _, w := range pSites {
		maintenance[w.fn] = true
	}
	for _, h := range hSites {
		if !maintenance[h.fn] {
			ix.Unknown = append(ix.Unknown, ix.Field+" is written at "+p.Pos(h.in.Pos())+" in a function that does not write "+ix.Primary)
		}
	}
	isRet := func(in ssa.Instruction) bool { _, ok := in.(*ssa.Return); return ok }
	// paired: every path through w (entry -> w -> return) passes one of the given H updates
	mustPass := func(fn *ssa.Function, w ssa.Instruction, hs []ssa.Instruction) bool {
		stop := func(in ssa.Instruction) bool {
			for _, h := range hs {
				if in == h {
					return true
				}
			}
			return false
		}
		after := an.PathAvoiding(fn, w, stop, isRet, nil) == nil
		before := an.PathAvoiding(fn, nil, stop, func(in ssa.Instruction) bool { return in == w }, nil) == nil
		return after || before
	}
	for _, w := range pSites {
		ix.Sites++
		var adds, dels []ssa.Instruction
		for _, h := range hSites {
			if h.fn == w.fn && sameKeyExpr(h.key, w.key) {
				if h.del {
					dels = append(dels, h.in)
				} else {
					adds = append(adds, h.in)
				}
			}
		}
		if w.del {
			if len(dels) == 0 || !mustPass(w.fn, w.in, dels) {
				ix.Problems = append(ix.Problems, "the removal from "+ix.Primary+" at "+p.Pos(w.in.Pos())+" is not paired on every path with the removal of the same key from "+ix.Field+": a removed record stays listed")
			}
			continue
		}
		if len(adds) == 0 && len(dels) == 0 && rewritesSameRecord(ix.Primary, w.in.(*ssa.MapUpdate)) {
			continue // read-modify-write of the record under its own key with no bool field assigned: membership unchanged
		}
		if len(adds) == 0 || len(dels) == 0 {
			ix.Problems = append(ix.Problems, "the write of "+ix.Primary+" at "+p.Pos(w.in.Pos())+" does not both insert the key into "+ix.Field+" (flag set) and remove it (flag clear): a record whose flag changed keeps its old membership")
			continue
		}
		if !mustPass(w.fn, w.in, append(append([]ssa.Instruction{}, adds...), dels...)) {
			ix.Problems = append(ix.Problems, "the write of "+ix.Primary+" at "+p.Pos(w.in.Pos())+" can happen without "+ix.Field+" being brought in step on the same path")
			continue
		}
		// the insertion sits on the flag's true branch, the removal on its false branch, the flag being a bool field of
		// the record written (or of the value it is built from)
		rec := p.Derives(0, w.in.(*ssa.MapUpdate).Value)
		flagOf := func(in ssa.Instruction, want bool) string {
			for _, ci := range an.ControllingIfs(in.Block()) {
				v := ci.If.Cond
				pol := ci.Succ == 0
				for {
					if u, ok := v.(*ssa.UnOp); ok && u.Op == token.NOT {
						v, pol = u.X, !pol
						continue
					}
					break
				}
				fv := an.FieldOf(stripLoad(v))
				if fv == nil {
					continue
				}
				if b, ok := fv.Type().Underlying().(*types.Basic); !ok || b.Kind() != types.Bool {
					continue
				}
				root, _ := an.RootPath(stripLoad(v))
				if u, ok := v.(*ssa.UnOp); ok && u.Op == token.MUL {
					root, _ = an.RootPath(u.X)
				}
				fromRec := false
				for _, nd := range rec.Nodes {
					if sameObject(nd, root) {
						fromRec = true
					}
				}
				if fromRec && pol == want {
					return fv.Name()
				}
			}
			return ""
		}
		okShape := true
		flag := ""
		for _, a := range adds {
			f := flagOf(a, true)
			if f == "" {
				okShape = false
			}
			flag = f
		}
		for _, d := range dels {
			if f := flagOf(d, false); f == "" || (flag != "" && f != flag) {
				okShape = false
			}
		}
		if !okShape {
			ix.Unknown = append(ix.Unknown, "the updates of "+ix.Field+" beside the write of "+ix.Primary+" at "+p.Pos(w.in.Pos())+" are not chosen by a bool field of the record written")
			continue
		}
		ix.Flag = flag
	}
	if len(pSites) == 0 {
		ix.Unknown = append(ix.Unknown, ix.Primary+" is never written")
	}
	ix.Problems = dedup(ix.Problems)
	ix.Unknown = dedup(ix.Unknown)
	ix.Verified = len(ix.Problems) == 0 && len(ix.Unknown) == 0
	if ix.Verified {
		for _, h := range hSites {
			auxSkip[h.in] = true
		}
	}
}

// rewritesSameRecord: mu stores back, under the same key, a local copy of P[key] none of whose bool fields was assigned.
func rewritesSameRecord(primary string, mu *ssa.MapUpdate) bool {
	ld, ok := mu.Value.(*ssa.UnOp)
	if !ok || ld.Op != token.MUL {
		return false
	}
	al, ok := ld.X.(*ssa.Alloc)
	if !ok {
		return false
	}
	fromP := false
	for _, ref := range *al.Referrers() {
		st, ok := ref.(*ssa.Store)
		if !ok || st.Addr != ssa.Value(al) {
			continue
		}
		var lk *ssa.Lookup
		switch x := st.Val.(type) {
		case *ssa.Lookup:
			lk = x
		case *ssa.Extract:
			lk, _ = x.Tuple.(*ssa.Lookup)
		}
		if lk == nil || memMapField(lk.X) != primary || !sameKeyExpr(lk.Index, mu.Key) {
			return false
		}
		fromP = true
	}
	if !fromP {
		return false
	}
	// no bool field of the copy is assigned
	var boolStore func(v ssa.Value) bool
	boolStore = func(v ssa.Value) bool {
		for _, ref := range *v.Referrers() {
			switch x := ref.(type) {
			case *ssa.FieldAddr:
				if f := an.FieldOf(x); f != nil {
					if b, ok := f.Type().Underlying().(*types.Basic); ok && b.Kind() == types.Bool {
						for _, r2 := range *x.Referrers() {
							if _, ok := r2.(*ssa.Store); ok {
								return true
							}
						}
					}
					if _, isStruct := f.Type().Underlying().(*types.Struct); isStruct && hasBoolField(f.Type()) {
						for _, r2 := range *x.Referrers() {
							if st, ok := r2.(*ssa.Store); ok && st.Addr == ssa.Value(x) {
								return true // whole embedded record replaced
							}
						}
						if boolStore(x) {
							return true
						}
					}
				}
			}
		}
		return false
	}
	return !boolStore(al)
}
