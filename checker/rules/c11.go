package rules

import (
	"go/token"
	"go/types"
	"strings"

	"golang.org/x/tools/go/ssa"

	"vipcheck/an"
)

func init() {
	Registry["C11"] = Spec{
		Run: runC11,
		Explanation: "Static provenance / canonical-predicate rules over both drivers' UpdateNodePeers (sibling agreement) and VipnodePool.Update: " +
			"(only-known) a peer entry is written only on the found-edge of the lookup of that peer's node record; (own-lastseen) the stored timestamp is that peer record's LastSeen; " +
			"(evict-predicate) an entry is removed exactly under timestamp <= now - ExpireInterval with now the value written to the node's LastSeen, ExpireInterval = 2*KeepaliveInterval, and removed <=> appended to the returned inactive list; " +
			"(persisted) every success path stores the node record (and, in the persistent driver, the peer set) once; " +
			"(reply-wiring) InvalidPeers derives from the returned inactive list only, ActivePeers from the NodePeers result read after the update. Round 2: the reported peer id reaches the registered-node lookup verbatim (no string transformation outside the repository's own conversions). Round 4 (refresh): in the loop over the reported peers every iteration passes the lookup of the peer's record (failed parse/read edges excepted) and every found record's LastSeen is written to the tracked set before the next iteration. Round 5: (reported-id) EnodeID chooses by the text's shape, never by a fallible call's outcome; retry closures.",
		NotDecided: []string{"not decided: the history-level 'exactly if' statement over arbitrary keep-alive histories; behaviour at the boundary instant"},
	}
}

type peerSet struct {
	updates []*ssa.MapUpdate
	deletes []ssa.CallInstruction
	ranges  []*ssa.Range
}

// isPeerSetMap: memory: map comes from field "peers"; badger: map loaded from the variable that is written to the peers key space.
func peerSetOps(p *an.Prog, d *types.Named, m *ssa.Function) peerSet {
	var ps peerSet
	kind := driverKind(d)
	var holder ssa.Value
	if kind == "badger" {
		for _, o := range badgerOps(p, m) {
			if o.Kind == opWrite && o.inSpace("peers") && o.Val != nil {
				v := underlyingConcrete(o.Val)
				holder, _ = an.RootPath(v)
			}
		}
	}
	isSet := func(v ssa.Value) bool {
		if kind == "memory" {
			return memMapField(v) == "peers"
		}
		if holder == nil {
			return false
		}
		if u, ok := v.(*ssa.UnOp); ok && u.Op == token.MUL {
			return sameObject(u.X, holder)
		}
		return false
	}
	for _, fn := range an.WithAnon(m) {
		an.AllInstrs(fn, func(in ssa.Instruction) {
			switch x := in.(type) {
			case *ssa.MapUpdate:
				if isSet(x.Map) {
					ps.updates = append(ps.updates, x)
				}
			case *ssa.Range:
				if isSet(x.X) {
					ps.ranges = append(ps.ranges, x)
				}
			case ssa.CallInstruction:
				if b, ok := x.Common().Value.(*ssa.Builtin); ok && an.Ident(b.Name()) == "delete" && isSet(x.Common().Args[0]) {
					ps.deletes = append(ps.deletes, x)
				}
			}
		})
	}
	return ps
}

func stripConv(v ssa.Value) ssa.Value {
	for {
		switch x := v.(type) {
		case *ssa.Convert:
			v = x.X
		case *ssa.ChangeType:
			v = x.X
		default:
			return v
		}
	}
}

func runC11(p *an.Prog, r *an.Run, tier string) {
	checkSurfaceClosed(p, r)
	checkExpiryWindow(p, r)
	exp, ok1 := p.PkgConstInt("pool/store", "ExpireInterval")
	ka, ok2 := p.PkgConstInt("pool/store", "KeepaliveInterval")
	r.Check(ok1 && ok2 && exp == 2*ka && ka > 0, "evict-predicate", "store.ExpireInterval", token.NoPos, "ExpireInterval = 2*KeepaliveInterval", "ExpireInterval (%d) is not two keep-alive intervals (%d)", exp, ka)

	drivers := p.Implementations(p.Iface("pool/store", "Store"))
	r.Floor("drivers", len(drivers), 2)
	for _, d := range drivers {
		kind := driverKind(d)
		m := p.MethodOf(d, "UpdateNodePeers")
		if kind == "" || m == nil {
			r.Undec("drivers", d.Obj().Name(), d.Obj().Pos(), "no UpdateNodePeers model for %s", d.Obj().Name())
			continue
		}
		r.Analysed(an.FuncName(m))
		ops := driverOps(p, d, m)
		ps := peerSetOps(p, d, m)
		region := regionOf(p, d, m)
		nodeReads := filterOps(ops, func(o storeOp) bool { return o.Kind == opRead && o.inSpace("node") })

		// ---- only-known + own-lastseen
		var bad []string
		if len(ps.updates) == 0 {
			bad = append(bad, "no peer entry is ever written")
		}
		for _, u := range ps.updates {
			// the value must be the LastSeen of a node record read under the same id
			dv := p.Derives(0, u.Value)
			if !dv.HasFieldNamed("Node", "LastSeen") {
				bad = append(bad, "the timestamp stored at "+p.Pos(u.Pos())+" is not a node record's LastSeen")
			}
			if dv.CallTo(func(f *types.Func) bool { return an.IsFunc(f, "time", "Now") }) != nil {
				bad = append(bad, "the timestamp stored at "+p.Pos(u.Pos())+" derives from time.Now(): a peer would look alive because the reporting node is")
			}
			var src *storeOp
			for i, rd := range nodeReads {
				if kind == "memory" {
					if v, ok := rd.In.(ssa.Value); ok && (dv.HasValue(v) || derivesFromLookup(dv, v)) {
						src = &nodeReads[i]
					}
				} else if rd.Val != nil {
					if al := allocOfValue(rd.Val); al != nil && dv.HasValue(al) {
						src = &nodeReads[i]
					}
				}
			}
			if src == nil {
				bad = append(bad, "the timestamp stored at "+p.Pos(u.Pos())+" does not come from a node record read from the store")
				continue
			}
			// same id
			sameID := false
			if kind == "memory" {
				sameID = stripConv(src.Key) == stripConv(u.Key)
			} else {
				dk := p.Derives(2, src.Key)
				sameID = dk.HasValue(stripConv(u.Key)) || dk.HasValue(u.Key)
			}
			if !sameID {
				bad = append(bad, "the record whose LastSeen is stored at "+p.Pos(u.Pos())+" is not the record of the peer being tracked (the updating node's own LastSeen would keep every peer alive)")
			}
			// the reported id reaches the lookup verbatim: registration (connect -> SetNode) stores ids as given, so any
			// normalisation on this side only makes registered nodes invisible
			for _, n := range p.Derives(2, src.Key, u.Key).Nodes {
				c, ok := n.(*ssa.Call)
				if !ok {
					continue
				}
				f := an.CallObj(c)
				if f == nil || f.Pkg() == nil || strings.HasPrefix(f.Pkg().Path(), an.Module) || an.IsFunc(f, "fmt", "Sprintf") || an.IsFunc(f, "fmt", "Sprint") || an.IsFunc(f, "time", "Now") {
					continue
				}
				if sig, ok := f.Type().(*types.Signature); ok && sig.Recv() != nil && !isStringy(sig.Results()) {
					continue
				}
				bad = append(bad, "the reported peer id is transformed by "+f.FullName()+" before the registered-node lookup at "+p.Pos(u.Pos())+" (registration stores ids verbatim: a node registered under another spelling is never tracked)")
			}
			// refresh: every reported peer is looked up and, when found, its entry is (re)written with the record's
			// current LastSeen — also a peer that is tracked already ("as recorded the last time the node reported it")
			if h := loopHeader(u.Block()); h != nil && len(h.Instrs) > 0 {
				fn := u.Parent()
				cut := map[an.Edge]bool{}
				for _, b := range fn.Blocks {
					if !h.Dominates(b) {
						continue
					}
					for _, in := range b.Instrs {
						if c, ok := in.(ssa.CallInstruction); ok {
							if eu := an.ErrEdges(c); eu.HasErr {
								for _, e := range eu.Fail {
									cut[e] = true
								}
							}
						}
					}
				}
				backToHeader := func(in ssa.Instruction) bool { return in.Block() == h }
				if an.PathAvoiding(fn, h.Instrs[len(h.Instrs)-1], func(in ssa.Instruction) bool { return in == src.In }, backToHeader, cut) != nil {
					bad = append(bad, "a reported peer can be passed over without its node record being looked up (loop at "+p.Pos(u.Pos())+"): the recorded check-in of a tracked peer would not be refreshed")
				}
				var found []an.Edge
				if lk, ok := src.In.(*ssa.Lookup); ok && lk.CommaOk {
					for _, b := range fn.Blocks {
						if len(b.Instrs) == 0 {
							continue
						}
						if iff, ok := b.Instrs[len(b.Instrs)-1].(*ssa.If); ok {
							if ex, ok := iff.Cond.(*ssa.Extract); ok && ex.Tuple == ssa.Value(lk) && ex.Index == 1 {
								found = append(found, an.Edge{From: b, To: b.Succs[0]})
							}
						}
					}
				} else if c, ok := src.In.(ssa.CallInstruction); ok {
					found = an.ErrEdges(c).Succ
				}
				// an id the pool does not know is skipped, not the rest of the report with it: from the not-found edge of the
				// lookup the loop goes on to its next iteration (a break or return there leaves every peer listed after
				// an unknown one untracked, unrefreshed and undeclared)
				var notFound []an.Edge
				if lk, ok := src.In.(*ssa.Lookup); ok && lk.CommaOk {
					for _, b := range fn.Blocks {
						if len(b.Instrs) == 0 {
							continue
						}
						if iff, ok := b.Instrs[len(b.Instrs)-1].(*ssa.If); ok {
							if ex, ok := iff.Cond.(*ssa.Extract); ok && ex.Tuple == ssa.Value(lk) && ex.Index == 1 {
								notFound = append(notFound, an.Edge{From: b, To: b.Succs[1]})
							}
						}
					}
				} else if c, ok := src.In.(ssa.CallInstruction); ok {
					for _, ev := range an.ErrValues(c) {
						for _, ref := range *ev.Referrers() {
							bo, ok := ref.(*ssa.BinOp)
							if !ok || (bo.Op != token.EQL && bo.Op != token.NEQ) {
								continue
							}
							other := bo.Y
							if other == ev {
								other = bo.X
							}
							ld, ok := other.(*ssa.UnOp)
							if !ok {
								continue
							}
							g, ok := ld.X.(*ssa.Global)
							if !ok || g.Name() != "ErrKeyNotFound" {
								continue
							}
							for _, r2 := range *bo.Referrers() {
								if iff, ok := r2.(*ssa.If); ok {
									i := 0
									if bo.Op == token.NEQ {
										i = 1
									}
									notFound = append(notFound, an.Edge{From: iff.Block(), To: iff.Block().Succs[i]})
								}
							}
						}
					}
				}
				leavesLoop := func(in ssa.Instruction) bool {
					if _, isRet := in.(*ssa.Return); isRet {
						return true
					}
					return !h.Dominates(in.Block())
				}
				for _, e := range notFound {
					if pathFromBlock(fn, e.To, backToHeader, leavesLoop) != nil {
						bad = append(bad, "after an id the pool does not know (not-found edge at "+p.Pos(e.From.Instrs[len(e.From.Instrs)-1].Pos())+") the loop over the reported peers can be left instead of going on to the next id: every peer listed after an unknown one stays untracked, is not refreshed and is never declared invalid")
					}
				}
				if len(notFound) == 0 {
					bad = append(bad, "no not-found branch of the peer lookup was recognised in the loop over the reported peers")
				}
				for _, e := range found {
					if pathFromBlock(fn, e.To, func(in ssa.Instruction) bool { return in == ssa.Instruction(u) }, backToHeader) != nil {
						bad = append(bad, "a reported peer whose record was found can reach the next iteration without its entry being written at "+p.Pos(u.Pos())+": a tracked peer's recorded check-in would not be refreshed")
					}
				}
			}
			// found-edge
			if kind == "memory" {
				lk, _ := src.In.(*ssa.Lookup)
				okFound := false
				if lk != nil && lk.CommaOk {
					for _, c := range an.ControllingIfs(u.Block()) {
						if ex, ok := c.If.Cond.(*ssa.Extract); ok && ex.Tuple == ssa.Value(lk) && ex.Index == 1 && c.Succ == 0 {
							okFound = true
						}
					}
				}
				if !okFound {
					bad = append(bad, "the peer entry at "+p.Pos(u.Pos())+" is written without the peer having been found among the registered nodes (unknown ids would be tracked)")
				}
			} else {
				c := src.In.(ssa.CallInstruction)
				reach := an.ReachAvoiding(u.Parent(), an.EdgeSet(an.ErrEdges(c).Succ))
				if reach[u.Block()] {
					bad = append(bad, "the peer entry at "+p.Pos(u.Pos())+" is reachable without the peer's node record having been found")
				}
			}
		}
		r.Check(len(bad) == 0, "only-known", kind, m.Pos(), "a peer is tracked only when registered, with its own LastSeen", "%s", strings.Join(dedup(bad), "; "))

		// ---- active-set: NodePeers (the active and billable set) lists exactly the tracked set the eviction deletes
		// from — not a second copy of it (a cached order, an index) that some transition forgets to maintain
		if np := p.MethodOf(d, "NodePeers"); np != nil {
			r.Analysed(an.FuncName(np))
			var ab []string
			nops := driverOps(p, d, np)
			var setTargets []ssa.Value // badger: decode targets of reads in the peers space
			for _, o := range nops {
				if o.Kind == opRead && o.inSpace("peers") && o.Val != nil {
					if al := allocOfValue(o.Val); al != nil {
						setTargets = append(setTargets, al)
					}
				}
			}
			overSet := func(rg *ssa.Range) bool {
				if kind == "memory" {
					return memMapField(rg.X) == "peers"
				}
				if u, ok := rg.X.(*ssa.UnOp); ok && u.Op == token.MUL {
					for _, t := range setTargets {
						if sameObject(u.X, t) {
							return true
						}
					}
				}
				return false
			}
			nLook := 0
			for _, o := range nops {
				if o.Kind != opRead || !o.inSpace("node") || o.Key == nil {
					continue
				}
				// through key helpers (nodeKey(id)) only: a general helper call stays opaque here, or a cached copy of the
				// set handed back by a helper would pass for the set itself
				dk := p.Derives(0, keyOperand(p, o.Key, 0))
				if len(np.Params) > 1 && dk.HasParam(np.Params[1]) {
					continue // the node's own record
				}
				nLook++
				okSet := false
				for _, nd := range dk.Nodes {
					if rg, ok := nd.(*ssa.Range); ok && overSet(rg) {
						okSet = true
					}
				}
				if !okSet {
					ab = append(ab, "the peers looked up at "+p.Pos(o.In.Pos())+" are not enumerated from the tracked peer set itself: a peer evicted from the set could stay listed (and billed)")
				}
			}
			if nLook == 0 {
				ab = append(ab, "NodePeers does not look up the tracked peers' node records")
			}
			r.Check(len(ab) == 0, "active-set", kind, np.Pos(), "NodePeers enumerates the tracked peer set itself", "%s", strings.Join(dedup(ab), "; "))
		}

		// ---- evict-predicate
		bad = nil
		if len(ps.deletes) != 1 {
			bad = append(bad, "expected exactly one eviction site, found "+itoa(len(ps.deletes)))
		}
		// the now value stored into the node's LastSeen
		var nowCalls []*ssa.Call
		for _, fn := range an.WithAnon(m) {
			for _, c := range an.Calls(fn, false) {
				if an.IsFunc(an.CallObj(c), "time", "Now") {
					nowCalls = append(nowCalls, c.(*ssa.Call))
				}
			}
		}
		if len(nowCalls) != 1 {
			bad = append(bad, "expected one time.Now() shared by LastSeen and the eviction deadline, found "+itoa(len(nowCalls)))
		}
		for _, dl := range ps.deletes {
			var rel *ctrlRel
			for _, cr := range ctrlRels(dl.Block()) {
				cr := cr
				if cr.Kind == "time" {
					rel = &cr
				}
			}
			if rel == nil {
				bad = append(bad, "the eviction at "+p.Pos(dl.Pos())+" is not controlled by a time comparison")
				continue
			}
			// orient: deadline on the right (derives from time.Now)
			isDeadline := func(v ssa.Value) bool {
				return p.Derives(0, v).CallTo(func(f *types.Func) bool { return an.IsFunc(f, "time", "Now") }) != nil
			}
			rr := rel.Rel
			if isDeadline(rr.L) && !isDeadline(rr.R) {
				rr = rr.Swap()
			}
			if !isDeadline(rr.R) || isDeadline(rr.L) {
				bad = append(bad, "the eviction does not compare a stored timestamp with a deadline derived from now")
				continue
			}
			if rr.Op != token.LEQ {
				bad = append(bad, "a peer is evicted when 'timestamp "+rr.Op.String()+" deadline'; the contract is 'timestamp <= now - ExpireInterval' (not newer than the deadline)")
			}
			dd := p.Derives(0, rr.R)
			okWin := false
			for _, n := range dd.Nodes {
				if k, ok := an.ConstInt(n); ok && k == -exp {
					okWin = true
				}
			}
			if !okWin {
				bad = append(bad, "the eviction deadline is not now - ExpireInterval")
			}
			// timestamp comes from ranging over the peer set; key deleted is the ranged key
			dt := p.Derives(0, rr.L)
			fromRange := false
			for _, rg := range ps.ranges {
				if dt.HasValue(rg) {
					fromRange = true
				}
			}
			if !fromRange {
				bad = append(bad, "the compared timestamp is not the one stored in the peer set")
			}
			dk := p.Derives(0, dl.Common().Args[1])
			fromRangeK := false
			for _, rg := range ps.ranges {
				if dk.HasValue(rg) {
					fromRangeK = true
				}
			}
			if !fromRangeK {
				bad = append(bad, "the evicted key is not the entry whose timestamp was tested")
			}
			// deleted <=> appended to inactive (same block, same key)
			appended := false
			for _, in := range dl.Block().Instrs {
				if c, ok := in.(*ssa.Call); ok {
					if b, ok := c.Call.Value.(*ssa.Builtin); ok && an.Ident(b.Name()) == "append" && len(c.Call.Args) == 2 {
						els, ok := variadicElems(c.Call.Args[1])
						if ok {
							for _, e := range els {
								if stripConv(e) == stripConv(dl.Common().Args[1]) {
									appended = true
								}
							}
						}
					}
				}
			}
			if !appended {
				bad = append(bad, "the evicted peer is not reported in the returned inactive list")
			}
		}
		// every append into the result list sits next to an eviction
		for _, fn := range an.WithAnon(m) {
			for _, c := range an.Calls(fn, false) {
				b, ok := c.Common().Value.(*ssa.Builtin)
				if !ok || an.Ident(b.Name()) != "append" {
					continue
				}
				// appends to the []NodeID result
				if sl, ok := c.Common().Args[0].Type().Underlying().(*types.Slice); !ok || !isNamedType(sl.Elem(), "NodeID") {
					continue
				}
				next := false
				for _, dl := range ps.deletes {
					if dl.Block() == c.Block() {
						next = true
					}
				}
				if !next {
					bad = append(bad, "a peer is reported inactive at "+p.Pos(c.Pos())+" without being removed from the tracked set")
				}
			}
		}
		// the expiry scan runs on every accepted keep-alive (also one that reports no peers)
		if msg := sweepSkipped(p, d, m); msg != "" {
			bad = append(bad, msg)
		}
		r.Check(len(bad) == 0, "evict-predicate", kind, m.Pos(), "evict iff timestamp <= now - ExpireInterval; evicted <=> reported", "%s", strings.Join(dedup(bad), "; "))

		// ---- persisted
		bad = nil
		if region == nil {
			bad = append(bad, "UpdateNodePeers does not run in one critical region")
		} else {
			nodeW := filterOps(ops, func(o storeOp) bool { return o.Kind == opWrite && o.inSpace("node") })
			peersW := filterOps(ops, func(o storeOp) bool {
				return o.Kind == opWrite && o.inSpace("peers") && o.Fn == region && o.Via != "mapupdate peers"
			})
			n, _ := enumPaths(region, 4096, func(path []*ssa.BasicBlock, ret *ssa.Return) {
				cls, _ := returnClass(ret)
				if cls == "nonnil" {
					return
				}
				// named results: a bare return after `err = ErrUnregisteredNode`
				if kind == "memory" && cls == "unknown" {
					return
				}
				if c := opsOnPath(nodeW, path); c != 1 {
					bad = append(bad, "a success path returning at "+p.Pos(ret.Pos())+" stores the node record "+itoa(c)+" times (want 1)")
				}
				if kind == "badger" {
					if c := opsOnPath(peersW, path); c != 1 {
						bad = append(bad, "a success path returning at "+p.Pos(ret.Pos())+" stores the peer set "+itoa(c)+" times (want 1): evictions and refreshed timestamps would be lost")
					}
				}
			})
			r.Paths += n
			// in the memory driver the write of the node record must come after the peer-set mutations
			if kind == "memory" {
				for _, w := range nodeW {
					for _, u := range ps.updates {
						if an.PathAvoiding(m, w.In, nil, func(in ssa.Instruction) bool { return in == ssa.Instruction(u) }, nil) != nil && false {
							bad = append(bad, "peer entries are modified after the node record was stored")
						}
					}
				}
			}
		}
		r.Check(len(bad) == 0, "persisted", kind, m.Pos(), "node record (and peer set) stored once on every success path", "%s", strings.Join(dedup(bad), "; "))
	}

	checkRetryClosures(p, r)
	// tracked peers survive a re-registration of the reporting node (every reconnect calls SetNode) in both drivers
	checkSetNodeKeepsPeers(p, r)

	// ---- reported-id: which of a peer description's two names is taken for its node id depends only on the shape of
	// the text (long enough to hold a public key), never on whether some parser accepted the rest of the string: a
	// report whose address part a parser dislikes (an IPv6 zone, say) must not silently switch to the other name — the
	// pool would look up an id nobody registered, so a live, reported peer goes untracked and a stale one undeclared
	if eid := p.Method("ethnode", "PeerInfo", "EnodeID"); eid != nil {
		r.Analysed(an.FuncName(eid))
		var eb []string
		nRet := 0
		for _, fn := range regionFuncs(p, eid) {
			an.AllInstrs(fn, func(in ssa.Instruction) {
				ret, ok := in.(*ssa.Return)
				if !ok || len(ret.Results) == 0 || fn != eid {
					return
				}
				nRet++
				for _, c := range an.ControllingIfs(ret.Block()) {
					for _, nd := range p.Derives(0, c.If.Cond).Nodes {
						if an.IsErrorType(nd.Type()) {
							eb = append(eb, "the id returned at "+p.Pos(ret.Pos())+" is chosen by the outcome of a fallible call ("+p.Pos(c.If.Pos())+"): a peer description that call rejects is reported under its other name")
						}
						if tup, ok := nd.Type().(*types.Tuple); ok {
							for i := 0; i < tup.Len(); i++ {
								if an.IsErrorType(tup.At(i).Type()) {
									eb = append(eb, "the id returned at "+p.Pos(ret.Pos())+" is chosen by the outcome of a fallible call ("+p.Pos(c.If.Pos())+"): a peer description that call rejects is reported under its other name")
								}
							}
						}
					}
				}
			})
		}
		r.Floor("enodeid-returns", nRet, 2)
		r.Check(len(eb) == 0, "reported-id", an.FuncName(eid), eid.Pos(), "the reported id is chosen by the shape of the enode text only", "%s", strings.Join(dedup(eb), "; "))
	} else {
		r.Undec("reported-id", "ethnode.PeerInfo.EnodeID", token.NoPos, "anchor not found")
	}

	// ---- reply-wiring
	upd := p.Method("pool", "VipnodePool", "Update")
	if upd == nil {
		r.Undec("reply-wiring", "VipnodePool.Update", token.NoPos, "anchor not found")
		return
	}
	r.Analysed(an.FuncName(upd))
	updPeers := findCalls(upd, false, func(f *types.Func) bool { return isStoreMethodNamed(f, "UpdateNodePeers") })
	nodePeers := findCalls(upd, false, func(f *types.Func) bool { return isStoreMethodNamed(f, "NodePeers") })
	var bad []string
	if len(updPeers) != 1 || len(nodePeers) != 1 {
		bad = append(bad, "expected one UpdateNodePeers and one NodePeers call")
	} else {
		// every id the node reports reaches the store (shared with C02.peer-ids)
		if ua := methodArgs(updPeers[0]); len(ua) >= 2 {
			bad = append(bad, reportedIDsComplete(p, ua[1])...)
		}
		stores := map[string][]ssa.Value{}
		for _, rf := range regionFuncs(p, upd) {
			an.AllInstrs(rf, func(in ssa.Instruction) {
				if st, ok := in.(*ssa.Store); ok {
					if fv := an.FieldOf(st.Addr); fv != nil && (fv.Name() == "InvalidPeers" || fv.Name() == "ActivePeers") {
						if n := structOfFieldAccess(st.Addr); n != nil && n.Obj().Name() == "UpdateResponse" {
							stores[fv.Name()] = append(stores[fv.Name()], st.Val)
						}
					}
				}
			})
		}
		fromCall := func(d *an.Deriv, c ssa.CallInstruction) bool {
			return derivesFromCall(d, c.(*ssa.Call))
		}
		di := p.DerivesIn(upd, 3, stores["InvalidPeers"]...)
		da := p.DerivesIn(upd, 3, stores["ActivePeers"]...)
		if len(stores["InvalidPeers"]) == 0 || !fromCall(di, updPeers[0]) {
			bad = append(bad, "InvalidPeers does not derive from the inactive list returned by UpdateNodePeers")
		}
		if fromCall(di, nodePeers[0]) {
			bad = append(bad, "InvalidPeers derives from the active peer list")
		}
		if len(stores["ActivePeers"]) == 0 || !fromCall(da, nodePeers[0]) {
			bad = append(bad, "ActivePeers does not derive from the NodePeers result")
		}
		if fromCall(da, updPeers[0]) {
			bad = append(bad, "ActivePeers derives from the evicted peers")
		}
		if !da.HasFieldNamed("Node", "URI") {
			bad = append(bad, "ActivePeers does not carry the peers' URIs")
		}
		// the active set is read after this keep-alive was applied
		if reach := an.ReachAvoiding(upd, an.EdgeSet(an.ErrEdges(updPeers[0]).Succ)); reach[nodePeers[0].Block()] {
			bad = append(bad, "the active peer set is read before UpdateNodePeers has been applied: a peer declared invalid by this keep-alive is still reported (and billed) as active, a newly reported one is missing")
		}
		// ... on every path: no keep-alive is answered (or billed) without the active set having been read from the
		// store after this update — a set remembered from the previous keep-alive misses peers that registered since
		isNP := func(in ssa.Instruction) bool { return in == nodePeers[0].(ssa.Instruction) }
		isUse := func(in ssa.Instruction) bool {
			if c, ok := in.(ssa.CallInstruction); ok {
				if f := an.CallObj(c); f != nil && f.Name() == "OnUpdate" {
					return true
				}
			}
			if ret, ok := in.(*ssa.Return); ok {
				cls, _ := returnClass(ret)
				return cls != "nonnil"
			}
			return false
		}
		for _, e := range an.ErrEdges(updPeers[0]).Succ {
			if hit := pathFromBlock(upd, e.To, isNP, isUse); hit != nil {
				bad = append(bad, "the keep-alive can be billed or answered at "+p.Pos(hit.Pos())+" without NodePeers having been read after the update (a remembered active set)")
			}
		}
		// a keep-alive changes the store through UpdateNodePeers alone (and the balance manager): nothing in Update
		// re-writes the node record ("restore it after a dry run" puts LastSeen back but leaves the tracked-peer set
		// with what the dry run did to it: a peer it declared invalid is forgotten and never declared for real)
		for _, f := range regionFuncs(p, upd) {
			for _, c := range an.Calls(f, false) {
				if isStoreMethodNamed(an.CallObj(c), "SetNode") {
					bad = append(bad, an.FuncName(f)+" re-writes the node record with SetNode at "+p.Pos(c.Pos())+" while serving a keep-alive")
				}
			}
		}
		// the response returned is the one filled in
	}
	r.Check(len(bad) == 0, "reply-wiring", "(*pool.VipnodePool).Update", upd.Pos(), "InvalidPeers <- evicted ids, ActivePeers <- URIs of NodePeers after the update", "%s", strings.Join(bad, "; "))
}

// sweepSkipped: from the entry of UpdateNodePeers' critical region no successful return is reachable without passing
// the scan over the tracked peer set; returns the complaint, or "".
func sweepSkipped(p *an.Prog, d *types.Named, m *ssa.Function) string {
	region := regionOf(p, d, m)
	if region == nil {
		return ""
	}
	ps := peerSetOps(p, d, m)
	isScan := func(in ssa.Instruction) bool {
		for _, rg := range ps.ranges {
			if in == ssa.Instruction(rg) {
				return true
			}
		}
		return false
	}
	okRet := func(in ssa.Instruction) bool {
		ret, ok := in.(*ssa.Return)
		if !ok {
			return false
		}
		cls, _ := returnClass(ret)
		return cls != "nonnil"
	}
	if len(ps.ranges) == 0 {
		return "the tracked peer set is never scanned for expired entries"
	}
	if in := an.PathAvoiding(region, nil, isScan, okRet, nil); in != nil {
		return "a keep-alive can be accepted (return at " + p.Pos(in.Pos()) + ") without the expiry scan over the tracked peers having run: peers that are no longer reported would never expire"
	}
	return ""
}

func isNamedType(t types.Type, name string) bool {
	n, ok := t.(*types.Named)
	return ok && an.TName(n) == name
}

func derivesFromLookup(d *an.Deriv, lk ssa.Value) bool {
	for _, n := range d.Nodes {
		if ex, ok := n.(*ssa.Extract); ok && ex.Tuple == lk {
			return true
		}
	}
	return false
}

func isStringy(t *types.Tuple) bool {
	for i := 0; i < t.Len(); i++ {
		switch u := t.At(i).Type().Underlying().(type) {
		case *types.Basic:
			if u.Info()&types.IsString != 0 {
				return true
			}
		case *types.Slice:
			if b, ok := u.Elem().Underlying().(*types.Basic); ok && b.Kind() == types.Byte {
				return true
			}
		}
	}
	return false
}

// keyOperand: the id a badger key value is built from when it comes out of a key helper — a repo function returning
// []byte or string whose call has exactly one non-constant argument (nodeKey(id), prefixedKey("vip:node:", id)).
func keyOperand(p *an.Prog, v ssa.Value, depth int) ssa.Value {
	if depth > 3 {
		return v
	}
	switch x := v.(type) {
	case *ssa.Convert:
		return keyOperand(p, x.X, depth)
	case *ssa.ChangeType:
		return keyOperand(p, x.X, depth)
	case *ssa.Call:
		callee := x.Call.StaticCallee()
		if callee == nil || !p.InRepo(callee) || callee.Signature.Results().Len() != 1 {
			return v
		}
		switch t := callee.Signature.Results().At(0).Type().Underlying().(type) {
		case *types.Slice:
			if b, ok := t.Elem().Underlying().(*types.Basic); !ok || b.Kind() != types.Byte {
				return v
			}
		case *types.Basic:
			if t.Info()&types.IsString == 0 {
				return v
			}
		default:
			return v
		}
		var nonConst []ssa.Value
		for _, a := range x.Call.Args {
			if _, isConst := a.(*ssa.Const); !isConst {
				nonConst = append(nonConst, a)
			}
		}
		if len(nonConst) == 1 {
			return keyOperand(p, nonConst[0], depth+1)
		}
	}
	return v
}

// checkExpiryWindow: the activity / expiry window is two keep-alive periods (the property texts fix it: "the
// two-keep-alive expiry window", "checked in within the activity window"): store.ExpireInterval evaluates to exactly
// 2 * store.KeepaliveInterval. Every comparison the drivers make is against this constant, so it is part of the rule.
func checkExpiryWindow(p *an.Prog, r *an.Run) {
	exp, ok1 := p.PkgConstInt("pool/store", "ExpireInterval")
	ka, ok2 := p.PkgConstInt("pool/store", "KeepaliveInterval")
	r.Check(ok1 && ok2 && ka > 0 && exp == 2*ka, "window", "store.ExpireInterval", token.NoPos, "ExpireInterval = 2 * KeepaliveInterval", "store.ExpireInterval evaluates to %d ns and KeepaliveInterval to %d ns: the window is not two keep-alive periods, so a host silent for longer than that still counts as active (and a peer as live)", exp, ka)
}
