package rules

import (
	"go/token"
	"go/types"
	"sort"
	"strings"

	"golang.org/x/tools/go/ssa"

	"vipcheck/an"
)

// Scope is the concurrency / network scope (A10): functions that may run in
// several goroutines at once because they are reachable from RPC handlers,
// HTTP handlers, connection loops or goroutines spawned in loops.
type Scope struct {
	Roots     []*ssa.Function
	RootWhy   map[*ssa.Function]string
	F         map[*ssa.Function]bool
	Handlers  []*ssa.Function                         // registered RPC methods
	Sites     map[*ssa.Function][]ssa.CallInstruction // static call sites inside F
	GoTargets map[*ssa.Function]bool                  // functions started by a go statement
}

func isTestDoublePkg(fn *ssa.Function) bool {
	for fn.Parent() != nil {
		fn = fn.Parent()
	}
	if fn.Pkg == nil {
		return false
	}
	pth := fn.Pkg.Pkg.Path()
	return strings.HasPrefix(pth, an.Module+"/internal/fake")
}

// HandlerMethods returns the methods exposed by every registration (allow-list applied when constant).
func HandlerMethods(p *an.Prog, regs []Registration) []*ssa.Function {
	seen := map[*ssa.Function]bool{}
	var out []*ssa.Function
	for _, reg := range regs {
		if reg.RecvType == nil {
			continue
		}
		for _, m := range ExposedMethods(reg.RecvType) {
			if reg.HasAllow && reg.AllowOK {
				ok := false
				for _, a := range reg.Allow {
					if reg.Single && a == m.Name() {
						ok = true
					}
					if !reg.Single && a == lowerFirst(m.Name()) {
						ok = true
					}
				}
				if !ok {
					continue
				}
			}
			fn := p.SSA.FuncValue(m)
			if fn == nil {
				// interface-typed receiver: all repo implementations of that method
				for _, impl := range p.Repo {
					if impl.Object() != nil && impl.Name() == m.Name() && impl.Signature.Recv() != nil && types.Identical(stripRecv(impl.Signature), stripRecv(m.Type().(*types.Signature))) {
						if !seen[impl] {
							seen[impl] = true
							out = append(out, impl)
						}
					}
				}
				continue
			}
			if len(fn.Blocks) > 0 && !seen[fn] {
				seen[fn] = true
				out = append(out, fn)
			}
		}
	}
	sort.Slice(out, func(i, j int) bool { return an.FuncName(out[i]) < an.FuncName(out[j]) })
	return out
}

func stripRecv(s *types.Signature) *types.Signature {
	return types.NewSignatureType(nil, nil, nil, s.Params(), s.Results(), s.Variadic())
}

func inLoop(in ssa.Instruction) bool {
	b := in.Block()
	// b is in a loop if it can reach itself
	seen := map[*ssa.BasicBlock]bool{}
	work := append([]*ssa.BasicBlock{}, b.Succs...)
	for len(work) > 0 {
		x := work[len(work)-1]
		work = work[:len(work)-1]
		if x == b {
			return true
		}
		if seen[x] {
			continue
		}
		seen[x] = true
		work = append(work, x.Succs...)
	}
	return false
}

// ConcurrencyScope computes the scope.
func ConcurrencyScope(p *an.Prog) *Scope {
	s := &Scope{RootWhy: map[*ssa.Function]string{}, F: map[*ssa.Function]bool{}, Sites: map[*ssa.Function][]ssa.CallInstruction{}, GoTargets: map[*ssa.Function]bool{}}
	add := func(fn *ssa.Function, why string) {
		if fn == nil || len(fn.Blocks) == 0 {
			return
		}
		if _, ok := s.RootWhy[fn]; !ok {
			s.RootWhy[fn] = why
			s.Roots = append(s.Roots, fn)
		}
	}
	regs := Registrations(p)
	s.Handlers = HandlerMethods(p, regs)
	for _, h := range s.Handlers {
		add(h, "registered RPC method")
	}
	for _, fn := range p.Repo {
		if fn.Name() == "ServeHTTP" && fn.Signature.Recv() != nil {
			add(fn, "http.Handler")
		}
	}
	for _, nm := range [][3]string{{"jsonrpc2", "Remote", "Serve"}, {"jsonrpc2", "Remote", "Call"}, {"jsonrpc2", "Remote", "handleRequest"},
		{"jsonrpc2", "Local", "Call"}, {"jsonrpc2", "HTTPService", "Call"}, {"jsonrpc2", "Server", "Handle"}} {
		add(p.Method(nm[0], nm[1], nm[2]), "connection loop / concurrent caller")
	}
	// goroutines spawned in loops anywhere in non-test code
	for _, fn := range p.Repo {
		an.AllInstrs(fn, func(in ssa.Instruction) {
			g, ok := in.(*ssa.Go)
			if !ok {
				return
			}
			for _, cal := range p.CalleesAt(g) {
				s.GoTargets[cal] = true
				if inLoop(in) && p.InRepo(cal) {
					add(cal, "goroutine spawned in a loop in "+an.FuncName(fn))
				}
			}
			if mc, ok := g.Call.Value.(*ssa.MakeClosure); ok {
				if f, ok := mc.Fn.(*ssa.Function); ok {
					s.GoTargets[f] = true
				}
			}
		})
	}
	s.F = p.Reach(s.Roots...)
	for fn := range s.F {
		for _, c := range an.Calls(fn, false) {
			if _, isGo := c.(*ssa.Go); isGo {
				// arguments of a go statement are shared with the spawner only if they are
			}
			for _, cal := range p.CalleesAt(c) {
				s.Sites[cal] = append(s.Sites[cal], c)
			}
		}
	}
	return s
}

// Funcs returns F sorted by name, without test doubles when skipDoubles.
func (s *Scope) Funcs(skipDoubles bool) []*ssa.Function {
	var out []*ssa.Function
	for fn := range s.F {
		if skipDoubles && isTestDoublePkg(fn) {
			continue
		}
		out = append(out, fn)
	}
	sort.Slice(out, func(i, j int) bool { return an.FuncName(out[i]) < an.FuncName(out[j]) })
	return out
}

// mutexFields returns the sync.Mutex / sync.RWMutex fields of a struct type.
func mutexFields(st *types.Struct) []*types.Var {
	var out []*types.Var
	for i := 0; i < st.NumFields(); i++ {
		f := st.Field(i)
		if n, ok := f.Type().(*types.Named); ok && n.Obj().Pkg() != nil && n.Obj().Pkg().Path() == "sync" && (n.Obj().Name() == "Mutex" || n.Obj().Name() == "RWMutex") {
			out = append(out, f)
		}
	}
	return out
}

// SharedTypes returns the repo struct types (non-test) that carry a mutex.
func SharedTypes(p *an.Prog) []*types.Named {
	var out []*types.Named
	for _, pk := range p.Pkgs {
		sc := pk.Types.Scope()
		for _, name := range sc.Names() {
			tn, ok := sc.Lookup(name).(*types.TypeName)
			if !ok {
				continue
			}
			if strings.HasSuffix(p.Fset.Position(tn.Pos()).Filename, "_test.go") {
				continue
			}
			n, ok := tn.Type().(*types.Named)
			if !ok {
				continue
			}
			st, ok := n.Underlying().(*types.Struct)
			if !ok {
				continue
			}
			if len(mutexFields(st)) > 0 {
				out = append(out, n)
			}
		}
	}
	sort.Slice(out, func(i, j int) bool { return out[i].String() < out[j].String() })
	return out
}

// writeTarget describes what a writing instruction writes to.
type writeTarget struct {
	In     ssa.Instruction
	Addr   ssa.Value // address / map / receiver written through
	Root   ssa.Value
	Path   string
	Fields []ssa.Value // FieldAddr/Field nodes on the way from root to the written location
	Kind   string
}

// addrChain walks an address expression back to its root, crossing loads of
// pointers/maps/slices held in fields (p.remoteHosts[k] = v writes "through" p.remoteHosts).
func addrChain(v ssa.Value) (root ssa.Value, path string, fields []ssa.Value) {
	seen := map[ssa.Value]bool{}
	for v != nil && !seen[v] {
		seen[v] = true
		switch x := v.(type) {
		case *ssa.FieldAddr:
			fields = append(fields, x)
			if f := an.FieldOf(x); f != nil {
				path = "." + f.Name() + path
			}
			v = x.X
		case *ssa.Field:
			fields = append(fields, x)
			if f := an.FieldOf(x); f != nil {
				path = "." + f.Name() + path
			}
			v = x.X
		case *ssa.IndexAddr:
			path = "[]" + path
			v = x.X
		case *ssa.Index:
			path = "[]" + path
			v = x.X
		case *ssa.Slice:
			v = x.X
		case *ssa.Lookup:
			path = "[]" + path
			v = x.X
		case *ssa.UnOp:
			if x.Op == token.MUL {
				// load of a pointer/map/slice stored somewhere: continue through the holder only if the holder is a field
				switch x.X.(type) {
				case *ssa.FieldAddr, *ssa.IndexAddr:
					path = "*" + path
					v = x.X
					continue
				}
			}
			return v, path, fields
		case *ssa.ChangeType:
			v = x.X
		case *ssa.Convert:
			if _, ok := x.X.Type().Underlying().(*types.Pointer); ok {
				v = x.X
			} else {
				return v, path, fields
			}
		default:
			return v, path, fields
		}
	}
	return v, path, fields
}

// statefulLibType: library value types whose pointer-receiver methods mutate unsynchronised state (a frozen list: which
// library methods write cannot be told from their signatures; http.Client, websocket.Upgrader and the like are
// documented as safe for concurrent use).
var statefulLibType = map[string]bool{
	"bytes.Buffer": true, "strings.Builder": true, "bufio.Writer": true, "bufio.Reader": true, "bufio.Scanner": true,
	"container/list.List": true, "container/ring.Ring": true, "math/rand.Rand": true, "text/tabwriter.Writer": true,
	"encoding/json.Decoder": true, "encoding/json.Encoder": true, "encoding/gob.Decoder": true, "encoding/gob.Encoder": true,
}

// readOnlyLibMethod: pointer-receiver library methods that only read their receiver.
var readOnlyLibMethod = map[string]bool{
	"Buffer.Len": true, "Buffer.Bytes": true, "Buffer.String": true, "Buffer.Cap": true,
	"Int.Cmp": true, "Int.Sign": true, "Int.String": true, "Int.Text": true, "Int.BitLen": true, "Int.IsInt64": true, "Int.Int64": true, "Int.Uint64": true, "Int.CmpAbs": true, "Int.Bytes": true, "Int.MarshalJSON": true, "Int.MarshalText": true, "Int.Format": true, "Int.GobEncode": true, "Int.Append": true, "Int.IsUint64": true, "Int.Bit": true, "Int.ProbablyPrime": true,
	"Reader.Len": true, "Reader.Size": true,
}

// writesOf lists the memory writes of fn.
func writesOf(fn *ssa.Function) []writeTarget {
	var out []writeTarget
	mk := func(in ssa.Instruction, addr ssa.Value, kind string) {
		root, path, fields := addrChain(addr)
		out = append(out, writeTarget{in, addr, root, path, fields, kind})
	}
	an.AllInstrs(fn, func(in ssa.Instruction) {
		switch x := in.(type) {
		case *ssa.Store:
			mk(in, x.Addr, "store")
		case *ssa.MapUpdate:
			mk(in, x.Map, "mapupdate")
		case ssa.CallInstruction:
			cc := x.Common()
			if b, ok := cc.Value.(*ssa.Builtin); ok {
				switch b.Name() {
				case "delete":
					mk(in, cc.Args[0], "delete")
				case "copy":
					mk(in, cc.Args[0], "copy")
				case "clear":
					mk(in, cc.Args[0], "clear")
				case "append":
					// append writes into the backing array of its first argument whenever there is spare capacity:
					// when that slice was loaded from memory (a field, a global, a map or slice element) this is a write
					// to whatever the holder of that memory shares
					for _, src := range sliceSources(cc.Args[0]) {
						mk(in, src, "append")
					}
				}
				return
			}
			if an.IsBigIntMutator(x) && len(cc.Args) > 0 {
				mk(in, cc.Args[0], "big.Int."+an.CallObj(x).Name())
				return
			}
			// a pointer-receiver method of a library type called on the address of a by-value field (codec.wbuf.Reset(),
			// s.buf.Write(..)): the method works on memory that belongs to the struct holding the field, so this is a
			// write to that field (for the library types known to keep unsynchronised state, statefulLibType).
			if f := an.CallObj(x); f != nil && !cc.IsInvoke() && len(cc.Args) > 0 {
				if fa, ok := cc.Args[0].(*ssa.FieldAddr); ok {
					if rn := an.RecvNamed(f); rn != nil && rn.Obj().Pkg() != nil {
						pk := rn.Obj().Pkg().Path()
						sig, _ := f.Type().(*types.Signature)
						_, ptrRecv := sig.Recv().Type().(*types.Pointer)
						if ptrRecv && statefulLibType[pk+"."+rn.Obj().Name()] && !readOnlyLibMethod[rn.Obj().Name()+"."+f.Name()] {
							mk(in, fa, "method "+rn.Obj().Name()+"."+f.Name())
						}
					}
				}
			}
		}
	})
	return out
}

// isAtomicUse reports whether every use of address v is as an argument of a sync/atomic function.
func isAtomicOnly(v ssa.Value) bool {
	refs := v.Referrers()
	if refs == nil || len(*refs) == 0 {
		return false
	}
	for _, ref := range *refs {
		c, ok := ref.(ssa.CallInstruction)
		if !ok {
			if _, isDbg := ref.(*ssa.DebugRef); isDbg {
				continue
			}
			return false
		}
		f := an.CallObj(c)
		if f == nil || f.Pkg() == nil || f.Pkg().Path() != "sync/atomic" {
			return false
		}
	}
	return true
}

// sliceSources follows a slice value back through phis, re-slicing and earlier appends to the memory locations it was
// loaded from (none for slices made in the function).
func sliceSources(v ssa.Value) []ssa.Value {
	var out []ssa.Value
	seen := map[ssa.Value]bool{}
	var walk func(v ssa.Value)
	walk = func(v ssa.Value) {
		if seen[v] {
			return
		}
		seen[v] = true
		switch x := v.(type) {
		case *ssa.Phi:
			for _, e := range x.Edges {
				walk(e)
			}
		case *ssa.Slice:
			if _, isArr := x.X.Type().Underlying().(*types.Pointer); !isArr {
				walk(x.X)
			}
		case *ssa.ChangeType:
			walk(x.X)
		case *ssa.Call:
			if b, ok := x.Call.Value.(*ssa.Builtin); ok && an.Ident(b.Name()) == "append" {
				walk(x.Call.Args[0])
			}
		case *ssa.UnOp:
			if x.Op == token.MUL {
				out = append(out, x.X)
			}
		}
	}
	walk(v)
	return out
}
