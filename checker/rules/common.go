// Package rules holds the repository-specific obligations for C01..C20.
package rules

import (
	"go/token"
	"go/types"
	"sort"
	"strings"
	"unicode"

	"golang.org/x/tools/go/ssa"

	"vipcheck/an"
)

// Spec describes one property's rule set.
type Spec struct {
	Run         func(p *an.Prog, r *an.Run, tier string)
	Explanation string
	NotDecided  []string
	Exhaustive  bool
}

// Registry maps property id to its rules.
var Registry = map[string]Spec{}

const (
	pkgPool    = an.Module + "/pool"
	pkgStore   = an.Module + "/pool/store"
	pkgMemory  = an.Module + "/pool/store/memory"
	pkgBadger  = an.Module + "/pool/store/badger"
	pkgBalance = an.Module + "/pool/balance"
	pkgPayment = an.Module + "/pool/payment"
	pkgRequest = an.Module + "/request"
	pkgRPC     = an.Module + "/jsonrpc2"
	pkgAgent   = an.Module + "/agent"
	pkgEthnode = an.Module + "/ethnode"
	pkgStatus  = an.Module + "/pool/status"
	badgerLib  = "github.com/dgraph-io/badger/v2"
)

// ---------------------------------------------------------------------------
// RPC registrations

// Registration is one Register/RegisterMethod call site.
type Registration struct {
	Call      ssa.CallInstruction
	Fn        *ssa.Function // enclosing function
	Single    bool          // RegisterMethod
	Prefix    string        // prefix (Register) or full rpc name (RegisterMethod)
	PrefixOK  bool          // prefix is a constant
	RecvType  types.Type    // static type of the receiver value handed in (pointer to named, or interface)
	Allow     []string      // allow-list (Register), method name (RegisterMethod)
	AllowOK   bool          // allow-list entries are all constants
	HasAllow  bool
	ServerVal ssa.Value // the *jsonrpc2.Server the registration is made on
}

// underlyingConcrete follows interface conversions back to the concrete value.
func underlyingConcrete(v ssa.Value) ssa.Value {
	for {
		switch x := v.(type) {
		case *ssa.MakeInterface:
			return x.X
		case *ssa.ChangeInterface:
			v = x.X
		default:
			return v
		}
	}
}

// variadicElems returns the elements stored into the backing array of a
// variadic slice argument built at the call site; ok=false if the shape is
// not the compiler's "new array; store...; slice" idiom. A nil constant is
// the empty list.
func variadicElems(v ssa.Value) ([]ssa.Value, bool) {
	if c, ok := v.(*ssa.Const); ok && c.IsNil() {
		return nil, true
	}
	sl, ok := v.(*ssa.Slice)
	if !ok {
		return nil, false
	}
	al, ok := sl.X.(*ssa.Alloc)
	if !ok {
		return nil, false
	}
	type el struct {
		idx int64
		v   ssa.Value
	}
	var els []el
	for _, ref := range *al.Referrers() {
		ia, ok := ref.(*ssa.IndexAddr)
		if !ok {
			continue
		}
		idx, ok := an.ConstInt(ia.Index)
		if !ok {
			return nil, false
		}
		for _, r2 := range *ia.Referrers() {
			if st, ok := r2.(*ssa.Store); ok {
				els = append(els, el{idx, st.Val})
			}
		}
	}
	sort.Slice(els, func(i, j int) bool { return els[i].idx < els[j].idx })
	var out []ssa.Value
	for _, e := range els {
		out = append(out, e.v)
	}
	return out, true
}

// Registrations finds every Register/RegisterMethod call on a jsonrpc2 server
// in non-test repo code.
func Registrations(p *an.Prog) []Registration {
	var out []Registration
	for _, fn := range p.Repo {
		for _, c := range an.Calls(fn, false) {
			f := an.CallObj(c)
			if f == nil {
				continue
			}
			isReg := f.Name() == "Register" || f.Name() == "RegisterMethod"
			if !isReg {
				continue
			}
			n := an.RecvNamed(f)
			if n == nil || n.Obj().Pkg() == nil || n.Obj().Pkg().Path() != pkgRPC {
				continue
			}
			if n.Obj().Name() != "Server" && n.Obj().Name() != "Handler" {
				continue
			}
			if fn.Pkg != nil && fn.Pkg.Pkg.Path() == pkgRPC && (fn.Name() == "Register" || fn.Name() == "RegisterMethod") {
				continue
			}
			args := c.Common().Args
			var srv ssa.Value
			if c.Common().IsInvoke() {
				srv = c.Common().Value
			} else if len(args) > 0 {
				srv = args[0]
				args = args[1:]
			}
			reg := Registration{Call: c, Fn: fn, Single: f.Name() == "RegisterMethod", ServerVal: srv}
			if len(args) < 2 {
				continue
			}
			reg.Prefix, reg.PrefixOK = an.ConstString(args[0])
			reg.RecvType = underlyingConcrete(args[1]).Type()
			if reg.Single {
				if len(args) >= 3 {
					s, ok := an.ConstString(args[2])
					reg.Allow = []string{s}
					reg.AllowOK = ok
					reg.HasAllow = true
				}
			} else if len(args) >= 3 {
				els, ok := variadicElems(args[2])
				reg.AllowOK = ok
				for _, e := range els {
					s, ok := an.ConstString(e)
					if !ok {
						reg.AllowOK = false
					}
					reg.Allow = append(reg.Allow, s)
				}
				reg.HasAllow = len(els) > 0 || !ok
			}
			out = append(out, reg)
		}
	}
	sort.Slice(out, func(i, j int) bool { return out[i].Call.Pos() < out[j].Call.Pos() })
	return out
}

func lowerFirst(s string) string {
	if s == "" {
		return s
	}
	r := []rune(s)
	r[0] = unicode.ToLower(r[0])
	return string(r)
}

// namedOf strips pointers and returns the named type, or nil.
func namedOf(t types.Type) *types.Named {
	if p, ok := t.(*types.Pointer); ok {
		t = p.Elem()
	}
	n, _ := t.(*types.Named)
	return n
}

// ExposedMethods returns the exported methods in the method set of t that the
// jsonrpc2 registry would accept (exported, arg types exported or builtin).
func ExposedMethods(t types.Type) []*types.Func {
	ms := types.NewMethodSet(t)
	var out []*types.Func
	for i := 0; i < ms.Len(); i++ {
		f, ok := ms.At(i).Obj().(*types.Func)
		if !ok || !f.Exported() {
			continue
		}
		sig := f.Type().(*types.Signature)
		ok = true
		for j := 0; j < sig.Params().Len(); j++ {
			if !exportedOrBuiltin(sig.Params().At(j).Type()) {
				ok = false
			}
		}
		if ok {
			out = append(out, f)
		}
	}
	return out
}

func exportedOrBuiltin(t types.Type) bool {
	for {
		p, ok := t.(*types.Pointer)
		if !ok {
			break
		}
		t = p.Elem()
	}
	n, ok := t.(*types.Named)
	if !ok {
		return true // unnamed types have empty PkgPath and Name
	}
	if n.Obj().Pkg() == nil {
		return true
	}
	return n.Obj().Exported()
}

// ---------------------------------------------------------------------------
// Signed endpoints and verify wrappers

// Endpoint is a signed RPC method: (ctx?, sig string, id string, nonce int64, extra...).
type Endpoint struct {
	Fn      *ssa.Function
	Obj     *types.Func
	Sig, ID *ssa.Parameter
	Nonce   *ssa.Parameter
	Extra   []*ssa.Parameter
	Names   []string // rpc names it is registered under (prefix+lowerFirst)
}

func isContext(t types.Type) bool {
	n, ok := t.(*types.Named)
	return ok && n.Obj().Pkg() != nil && n.Obj().Pkg().Path() == "context" && n.Obj().Name() == "Context"
}

func isBasic(t types.Type, k types.BasicKind) bool {
	b, ok := t.Underlying().(*types.Basic)
	return ok && b.Kind() == k
}

// SignedEndpoints discovers all exported methods of registered receiver types
// whose non-context parameters start (string, string, int64).
func SignedEndpoints(p *an.Prog, regs []Registration) []*Endpoint {
	seen := map[*types.Func]*Endpoint{}
	var out []*Endpoint
	for _, reg := range regs {
		if reg.RecvType == nil {
			continue
		}
		for _, m := range ExposedMethods(reg.RecvType) {
			fn := p.SSA.FuncValue(m)
			if fn == nil || len(fn.Blocks) == 0 || !p.InRepo(fn) {
				continue
			}
			params := fn.Params[1:]
			if len(params) > 0 && isContext(params[0].Type()) {
				params = params[1:]
			}
			if len(params) < 3 || !isBasic(params[0].Type(), types.String) || !isBasic(params[1].Type(), types.String) || !isBasic(params[2].Type(), types.Int64) {
				continue
			}
			ep := seen[m]
			if ep == nil {
				ep = &Endpoint{Fn: fn, Obj: m, Sig: params[0], ID: params[1], Nonce: params[2], Extra: params[3:]}
				seen[m] = ep
				out = append(out, ep)
			}
			if reg.Single {
				if reg.HasAllow && len(reg.Allow) == 1 && reg.Allow[0] == m.Name() {
					ep.Names = appendUniq(ep.Names, reg.Prefix)
				}
			} else {
				ep.Names = appendUniq(ep.Names, reg.Prefix+lowerFirst(m.Name()))
			}
		}
	}
	sort.Slice(out, func(i, j int) bool { return an.FuncName(out[i].Fn) < an.FuncName(out[j].Fn) })
	return out
}

func appendUniq(l []string, s string) []string {
	for _, x := range l {
		if x == s {
			return l
		}
	}
	return append(l, s)
}

// VerifyWrappers returns the repo functions outside package request that call
// request.Verify directly.
func VerifyWrappers(p *an.Prog) []*ssa.Function {
	var out []*ssa.Function
	for _, fn := range p.Repo {
		if fn.Pkg != nil && fn.Pkg.Pkg.Path() == pkgRequest {
			continue
		}
		for _, c := range an.Calls(fn, false) {
			if an.IsFunc(an.CallObj(c), pkgRequest, "Verify") {
				out = append(out, fn)
				break
			}
		}
	}
	return out
}

func inFuncs(f *ssa.Function, l []*ssa.Function) bool {
	for _, x := range l {
		if x == f {
			return true
		}
	}
	return false
}

// ---------------------------------------------------------------------------
// Effects

var storeIfaces = []string{"Store", "NonceStore", "PoolStore", "AccountStore", "BalanceStore"}

// isStoreMethod reports whether f is a method of one of the store interfaces,
// of a driver, or of the contractPayment proxy.
func isStoreMethod(f *types.Func) bool {
	n := an.RecvNamed(f)
	if n == nil || n.Obj().Pkg() == nil {
		return false
	}
	switch n.Obj().Pkg().Path() {
	case pkgStore:
		for _, s := range storeIfaces {
			if n.Obj().Name() == s {
				return true
			}
		}
	case pkgMemory:
		return an.TName(n) == "memoryStore"
	case pkgBadger:
		return an.TName(n) == "badgerStore"
	case pkgPayment:
		return an.TName(n) == "contractPayment"
	}
	return false
}

func isStoreMethodNamed(f *types.Func, names ...string) bool {
	if !isStoreMethod(f) {
		return false
	}
	for _, n := range names {
		if f.Name() == n {
			return true
		}
	}
	return false
}

func isManagerMethod(f *types.Func) bool {
	n := an.RecvNamed(f)
	if n == nil || n.Obj().Pkg() == nil || n.Obj().Pkg().Path() != pkgBalance {
		return false
	}
	return f.Name() == "OnClient" || f.Name() == "OnUpdate"
}

func isServiceCall(f *types.Func) bool {
	if f == nil || f.Name() != "Call" {
		return false
	}
	n := an.RecvNamed(f)
	if n == nil || n.Obj().Pkg() == nil || n.Obj().Pkg().Path() != pkgRPC {
		return false
	}
	switch n.Obj().Name() {
	case "Service", "Remote", "Local", "HTTPService":
		return true
	}
	return false
}

// sharedFieldWrite reports whether in writes state reachable from the
// function's receiver/parameters/globals (store, map update, delete) rather
// than a local object.
func sharedWrite(in ssa.Instruction) (ssa.Value, bool) {
	var addr ssa.Value
	switch x := in.(type) {
	case *ssa.Store:
		addr = x.Addr
	case *ssa.MapUpdate:
		addr = x.Map
	case ssa.CallInstruction:
		if b, ok := x.Common().Value.(*ssa.Builtin); ok && an.Ident(b.Name()) == "delete" && len(x.Common().Args) > 0 {
			addr = x.Common().Args[0]
		} else {
			return nil, false
		}
	default:
		return nil, false
	}
	root, path := an.RootPath(addr)
	// map loaded from a field: UnOp(*FieldAddr(recv, f))
	for {
		if u, ok := root.(*ssa.UnOp); ok && u.Op == token.MUL {
			r2, p2 := an.RootPath(u.X)
			root, path = r2, p2+path
			continue
		}
		break
	}
	switch r := root.(type) {
	case *ssa.Parameter:
		if _, ok := r.Type().Underlying().(*types.Pointer); ok && path != "" {
			return addr, true
		}
		if _, ok := r.Type().Underlying().(*types.Map); ok {
			return addr, true
		}
	case *ssa.FreeVar:
		_ = r
		return nil, false // captured locals; shared state goes through receivers
	case *ssa.Global:
		return addr, true
	}
	return nil, false
}

// isEffectCall reports whether c directly touches pool state or the outside
// world: store/manager/service calls, calls through function-valued fields.
func isEffectCall(c ssa.CallInstruction) (string, bool) {
	f := an.CallObj(c)
	if f != nil {
		if isStoreMethod(f) || isManagerMethod(f) || isServiceCall(f) {
			return an.ObjString(f), true
		}
		return "", false
	}
	cc := c.Common()
	if _, ok := cc.Value.(*ssa.Builtin); ok {
		return "", false
	}
	if cc.StaticCallee() != nil {
		return "", false
	}
	// dynamic call through a function value: effect if loaded from a struct field
	if u, ok := cc.Value.(*ssa.UnOp); ok && u.Op == token.MUL {
		if fv := an.FieldOf(u.X); fv != nil {
			return "func field " + fv.Name(), true
		}
	}
	if fld, ok := cc.Value.(*ssa.Field); ok {
		if fv := an.FieldOf(fld); fv != nil {
			return "func field " + fv.Name(), true
		}
	}
	return "", false
}

// effects computes, for repo functions, whether they (transitively through
// Prog.Edges) perform an effect; the witness string names one.
type effects struct {
	p      *an.Prog
	direct map[*ssa.Function]string
	done   map[*ssa.Function]bool
	memo   map[*ssa.Function]string
}

func newEffects(p *an.Prog) *effects {
	return &effects{p: p, direct: map[*ssa.Function]string{}, done: map[*ssa.Function]bool{}, memo: map[*ssa.Function]string{}}
}

func (e *effects) directOf(fn *ssa.Function) string {
	if e.done[fn] {
		return e.direct[fn]
	}
	e.done[fn] = true
	w := ""
	an.AllInstrs(fn, func(in ssa.Instruction) {
		if w != "" {
			return
		}
		if c, ok := in.(ssa.CallInstruction); ok {
			if s, ok := isEffectCall(c); ok {
				w = s + " at " + e.p.Pos(c.Pos())
				return
			}
		}
		if a, ok := sharedWrite(in); ok {
			w = "write to " + a.String() + " at " + e.p.Pos(in.Pos())
		}
	})
	e.direct[fn] = w
	return w
}

// Of returns a non-empty witness if fn transitively has an effect.
func (e *effects) Of(fn *ssa.Function) string {
	if w, ok := e.memo[fn]; ok {
		return w
	}
	w := ""
	if d := e.directOf(fn); d != "" {
		w = d
	} else {
		var names []*ssa.Function
		for g := range e.p.Reach(fn) {
			names = append(names, g)
		}
		sort.Slice(names, func(i, j int) bool { return an.FuncName(names[i]) < an.FuncName(names[j]) })
		for _, g := range names {
			if d := e.directOf(g); d != "" {
				w = "via " + an.FuncName(g) + ": " + d
				break
			}
		}
	}
	e.memo[fn] = w
	return w
}

// hasPrefixAny reports whether s has one of the prefixes.
func hasPrefixAny(s string, ps ...string) bool {
	for _, p := range ps {
		if strings.HasPrefix(s, p) {
			return true
		}
	}
	return false
}

// regionFuncs returns fn together with the functions of the same package it statically calls (transitively):
// the code a maintainer may have moved out of fn into helpers.
func regionFuncs(p *an.Prog, fn *ssa.Function) []*ssa.Function {
	pkgOf := func(f *ssa.Function) string {
		for f.Parent() != nil {
			f = f.Parent()
		}
		if f.Pkg == nil {
			return ""
		}
		return f.Pkg.Pkg.Path()
	}
	home := pkgOf(fn)
	seen := map[*ssa.Function]bool{fn: true}
	out := []*ssa.Function{fn}
	for i := 0; i < len(out); i++ {
		for _, f := range an.WithAnon(out[i]) {
			if !seen[f] {
				seen[f] = true
				out = append(out, f)
			}
			for _, c := range an.Calls(f, false) {
				cal := c.Common().StaticCallee()
				if cal == nil || seen[cal] || len(cal.Blocks) == 0 || !p.InRepo(cal) || pkgOf(cal) != home {
					continue
				}
				seen[cal] = true
				out = append(out, cal)
			}
		}
	}
	return out
}

// swappedNamedArgs: call sites at which an argument that is a plain named variable (parameter or local) carries the
// name of a *different* parameter of the callee of the same type, while its own position's parameter is named otherwise
// (withdraw(addr, newBalance, paymentAmount) for withdraw(_member, _withdrawAmount, _newBalance)). Names are compared
// lower-cased without leading underscores.
func swappedNamedArgs(p *an.Prog, want func(*ssa.Function) bool) (out []string, n int) {
	norm := func(s string) string { return strings.ToLower(strings.TrimLeft(s, "_")) }
	argName := func(v ssa.Value) string {
		switch x := v.(type) {
		case *ssa.Parameter:
			return x.Name()
		case *ssa.UnOp:
			if x.Op == token.MUL {
				if al, ok := x.X.(*ssa.Alloc); ok {
					return al.Comment
				}
				if fv, ok := x.X.(*ssa.FreeVar); ok {
					return fv.Name()
				}
			}
		}
		return ""
	}
	for _, fn := range p.Repo {
		if p.IsTestFunc(fn) || !want(fn) {
			continue
		}
		for _, c := range an.Calls(fn, false) {
			sig := c.Common().Signature()
			if sig == nil || sig.Params().Len() < 2 {
				continue
			}
			args := c.Common().Args
			off := len(args) - sig.Params().Len()
			if off < 0 {
				continue
			}
			n++
			for i := 0; i < sig.Params().Len(); i++ {
				an0 := norm(argName(args[off+i]))
				pi := norm(sig.Params().At(i).Name())
				if an0 == "" || pi == "" || an0 == pi {
					continue
				}
				for j := 0; j < sig.Params().Len(); j++ {
					if j == i || !types.Identical(sig.Params().At(i).Type(), sig.Params().At(j).Type()) {
						continue
					}
					if an0 == norm(sig.Params().At(j).Name()) && norm(argName(args[off+j])) != an0 {
						out = append(out, an.FuncName(fn)+" passes "+argName(args[off+i])+" at "+p.Pos(c.Pos())+" as "+callName(c)+"'s parameter "+sig.Params().At(i).Name()+", although the callee has a parameter named "+sig.Params().At(j).Name()+" of the same type at another position: the two arguments look swapped")
					}
				}
			}
		}
	}
	return dedup(out), n
}
