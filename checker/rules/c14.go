package rules

import (
	"go/token"
	"go/types"
	"strings"

	"golang.org/x/tools/go/ssa"

	"vipcheck/an"
)

func init() {
	Registry["C14"] = Spec{
		Run: runC14,
		Explanation: "Static provenance / shape rules over the bidirectional connection (jsonrpc2.Remote, Local, Client): " +
			"(route-by-id) Call waits on the id of the very message it wrote, Serve delivers a reply to the channel keyed by the received message's id, receive looks up and deletes under the same key; " +
			"(classify) Serve dispatches messages with a Request part to handlers and only request-less messages with an id to waiters; " +
			"(async-dispatch) requests are handed to handleRequest by a go statement and the reply channel is buffered, so a handler may call back and a reply may arrive before its caller waits; " +
			"(ctx-service) handleRequest and Local.Call put their own receiver under the context key that CtxService reads, and pass that context to the handler; " +
			"(cancel) receive selects on ctx.Done() and returns ctx.Err(); (unique-id) request ids come from an atomic per-client counter; (no-block-under-lock) nothing blocks while Remote.mu is held; (reply-shape) a reply lacking its Response part is refused, not dereferenced; (reply-id) every return of Server.Handle carries the request id and handleRequest writes it (same rule as C15.reply-id). Round 2: a Client created on the fly must be kept in a field (ids would restart per call); (reply-id) every return of Server.Handle carries the request id. Round 5: (writer-stateless) no Codec.WriteMessage keeps unguarded state between calls.",
		NotDecided: []string{"not decided: exactly-once handling and delivery orders under concrete schedules; behaviour of PendingLimit eviction under load; fairness"},
	}
}

func runC14(p *an.Prog, r *an.Run, tier string) {
	checkShippedCodec(p, r)
	checkPendingOrder(p, r)
	call := p.Method("jsonrpc2", "Remote", "Call")
	serve := p.Method("jsonrpc2", "Remote", "Serve")
	recv := p.Method("jsonrpc2", "Remote", "receive")
	gpc := p.Method("jsonrpc2", "Remote", "getPendingChan")
	hr := requestHandlerOf(p)
	lcall := p.Method("jsonrpc2", "Local", "Call")
	ctxSvc := p.Func("jsonrpc2", "CtxService")
	creq := p.Method("jsonrpc2", "Client", "Request")
	nextID := p.Method("jsonrpc2", "Client", "NextID")
	for _, f := range []*ssa.Function{call, serve, recv, gpc, hr, lcall, ctxSvc, creq, nextID} {
		if f == nil {
			r.Undec("anchors", "jsonrpc2", token.NoPos, "an anchor of the connection layer was not found (Remote.Call/Serve/receive/getPendingChan/handleRequest, Local.Call, CtxService, Client.Request/NextID)")
			return
		}
		r.Analysed(an.FuncName(f))
	}

	// ---- route-by-id: Call
	var bad []string
	var reqCall, writeCall, recvCall ssa.CallInstruction
	for _, c := range an.Calls(call, false) {
		f := an.CallObj(c)
		switch {
		case f != nil && f.Name() == "Request":
			reqCall = c
		case f != nil && f.Name() == "WriteMessage":
			writeCall = c
		case c.Common().StaticCallee() == recv:
			recvCall = c
		}
	}
	if reqCall == nil || writeCall == nil || recvCall == nil {
		bad = append(bad, "Call does not build a request, write it and wait for its reply")
	} else {
		var reqMsg ssa.Value
		for _, ref := range *reqCall.Value().Referrers() {
			if ex, ok := ref.(*ssa.Extract); ok && ex.Index == 0 {
				reqMsg = ex
			}
		}
		if methodArgs(writeCall)[0] != reqMsg {
			bad = append(bad, "the message written is not the request that was built")
		}
		d := p.Derives(0, recvCall.Common().Args[2])
		if !d.HasValue(reqMsg) || !d.HasFieldNamed("Message", "ID") {
			bad = append(bad, "Call waits on an id that is not the id of the message it wrote")
		}
		if recvCall.Common().Args[1] != ssa.Value(call.Params[1]) {
			bad = append(bad, "Call does not wait under the caller's context")
		}
		// write must succeed before waiting
		if reach := an.ReachAvoiding(call, an.EdgeSet(an.ErrEdges(writeCall).Succ)); reach[recvCall.Block()] {
			bad = append(bad, "Call waits for a reply although writing the request failed")
		}
		// the reply that is unmarshalled is the one received
		for _, c := range an.Calls(call, false) {
			if f := an.CallObj(c); f != nil && f.Name() == "UnmarshalResult" {
				dd := p.Derives(0, c.Common().Args[0])
				if !derivesFromCall(dd, recvCall.(*ssa.Call)) {
					bad = append(bad, "the result is not taken from the reply that was received for this call")
				}
				if c.Common().Args[1] != ssa.Value(call.Params[2]) {
					bad = append(bad, "the reply is not unmarshalled into the caller's result")
				}
			}
		}
	}
	r.Check(len(bad) == 0, "route-by-id", an.FuncName(call), call.Pos(), "Call writes its request, waits on that request's id, and returns that reply", "%s", strings.Join(bad, "; "))

	// ---- Serve
	bad = nil
	var readCall ssa.CallInstruction
	for _, c := range an.Calls(serve, false) {
		if f := an.CallObj(c); f != nil && f.Name() == "ReadMessage" {
			readCall = c
		}
	}
	var goHR *ssa.Go
	var syncHR ssa.CallInstruction
	for _, c := range an.Calls(serve, false) {
		if calleeIs(c, hr) {
			if g, ok := c.(*ssa.Go); ok {
				goHR = g
			} else {
				syncHR = c
			}
		}
	}
	// ... or `go func() { ... handleRequest(msg) ... }()`: the goroutine is a closure of Serve that hands the captured
	// message to the handler (the generic rule go-captures-live guards the capture against reassignment)
	var goViaClosure ssa.Value // the captured variable's cell, when the dispatch goes through a closure
	if goHR == nil {
		an.AllInstrs(serve, func(in ssa.Instruction) {
			g, ok := in.(*ssa.Go)
			if !ok {
				return
			}
			mc, ok := g.Call.Value.(*ssa.MakeClosure)
			if !ok {
				return
			}
			cfn, _ := mc.Fn.(*ssa.Function)
			if cfn == nil {
				return
			}
			for _, c := range an.Calls(cfn, false) {
				if !calleeIs(c, hr) {
					continue
				}
				if _, isGo := c.(*ssa.Go); isGo {
					continue
				}
				for _, a := range c.Common().Args {
					u, ok := a.(*ssa.UnOp)
					if !ok || u.Op != token.MUL {
						continue
					}
					for i, fv := range cfn.FreeVars {
						if u.X == ssa.Value(fv) && i < len(mc.Bindings) {
							goHR = g
							goViaClosure = mc.Bindings[i]
						}
					}
				}
			}
		})
	}
	var send *ssa.Send
	an.AllInstrs(serve, func(in ssa.Instruction) {
		if s, ok := in.(*ssa.Send); ok {
			send = s
		}
	})
	if readCall == nil || send == nil || (goHR == nil && syncHR == nil) {
		bad = append(bad, "Serve does not read messages, dispatch requests and deliver replies")
	} else {
		var msg ssa.Value
		for _, ref := range *readCall.Value().Referrers() {
			if ex, ok := ref.(*ssa.Extract); ok && ex.Index == 0 {
				msg = ex
			}
		}
		if syncHR != nil {
			bad = append(bad, "Serve handles requests synchronously in the read loop: a handler that calls back over the same connection waits for a reply nobody reads (deadlock)")
		}
		if goHR != nil {
			passed := false
			for _, a := range goHR.Call.Args {
				if a == msg {
					passed = true
				}
			}
			if goViaClosure != nil && goViaClosure.Referrers() != nil {
				for _, ref := range *goViaClosure.Referrers() {
					if st, ok := ref.(*ssa.Store); ok && st.Addr == goViaClosure && st.Val == msg {
						passed = true
					}
				}
			}
			if !passed {
				bad = append(bad, "the message dispatched is not the message read")
			}
			// only messages with a Request part
			okReq := false
			for _, cr := range ctrlRels(goHR.Block()) {
				if cr.Op == token.NEQ && (isNilValue(cr.R) || isNilValue(cr.L)) {
					v := cr.L
					if isNilValue(v) {
						v = cr.R
					}
					if _, f, ok := embeddedPtrLoad(v); ok && f == "Request" {
						okReq = true
					}
				}
			}
			if !okReq {
				bad = append(bad, "messages are dispatched to handlers without testing that they carry a Request part")
			}
		}
		// every delivery to a waiting caller in the read loop goes to the channel of the received message's own id: a
		// second hand-off ("a null-id error goes to the longest-waiting call") ends some other call with a reply that
		// answers a different message
		an.AllInstrs(serve, func(in ssa.Instruction) {
			sd, ok := in.(*ssa.Send)
			if !ok || sd == send {
				return
			}
			if _, isMsg := sd.X.Type().Underlying().(*types.Struct); !isMsg {
				return
			}
			keyed := false
			for _, n := range p.Derives(0, sd.Chan).Nodes {
				if c, ok := n.(*ssa.Call); ok && c.Common().StaticCallee() == gpc {
					dk := p.Derives(0, c.Call.Args[1])
					if dk.HasValue(msg) && dk.HasFieldNamed("Message", "ID") {
						keyed = true
					}
				}
			}
			if !keyed {
				bad = append(bad, "a message is also handed to a waiting caller at "+p.Pos(sd.Pos())+" through a channel that is not the one of the received message's id")
			}
		})
		// the reply delivery: channel keyed by the received message's id; value is the message
		dch := p.Derives(0, send.Chan)
		var keyCall *ssa.Call
		for _, n := range dch.Nodes {
			if c, ok := n.(*ssa.Call); ok && c.Common().StaticCallee() == gpc {
				keyCall = c
			}
		}
		if keyCall == nil {
			bad = append(bad, "the reply is not sent on a pending-call channel")
		} else {
			dk := p.Derives(0, keyCall.Call.Args[1])
			if !dk.HasValue(msg) || !dk.HasFieldNamed("Message", "ID") {
				bad = append(bad, "the reply is routed by something other than the received message's id")
			}
			// ... on every path: where the key is a merge, each alternative is the received message's id
			seenK := map[ssa.Value]bool{}
			var leaves []ssa.Value
			var walkK func(v ssa.Value)
			walkK = func(v ssa.Value) {
				if seenK[v] {
					return
				}
				seenK[v] = true
				if ph, ok := v.(*ssa.Phi); ok {
					for _, e := range ph.Edges {
						walkK(e)
					}
					return
				}
				leaves = append(leaves, v)
			}
			walkK(keyCall.Call.Args[1])
			if len(leaves) > 1 {
				for _, lv := range leaves {
					dl := p.Derives(0, lv)
					if !dl.HasValue(msg) || !dl.HasFieldNamed("Message", "ID") {
						bad = append(bad, "on some path the reply is routed by a key that is not the received message's id ("+p.Pos(lv.Pos())+"): some other call is ended with a reply that answers a different message")
					}
				}
			}
		}
		if !p.Derives(0, send.X).HasValue(msg) {
			bad = append(bad, "the value delivered to the waiter is not the message received")
		}
		// replies: Request == nil and non-empty id
		okNoReq, okID := false, false
		for _, cr := range ctrlRels(send.Block()) {
			if cr.Op == token.EQL && (isNilValue(cr.R) || isNilValue(cr.L)) {
				v := cr.L
				if isNilValue(v) {
					v = cr.R
				}
				if _, f, ok := embeddedPtrLoad(v); ok && f == "Request" {
					okNoReq = true
				}
			}
			if cr.Kind == "int" {
				if _, isLen := an.LenOf(cr.L); isLen {
					if k, ok := an.ConstInt(cr.R); ok && ((cr.Op == token.GTR && k == 0) || (cr.Op == token.GEQ && k == 1)) {
						okID = true
					}
				}
			}
		}
		if !okNoReq {
			bad = append(bad, "a message carrying a Request part can be delivered to a waiting caller")
		}
		if !okID {
			bad = append(bad, "a message without an id can be delivered to a waiter")
		}
		// a read error ends the loop
		if u := an.ErrEdges(readCall); u.Dropped || len(u.Fail) == 0 {
			bad = append(bad, "read errors do not end the serve loop")
		}
	}
	r.Check(len(bad) == 0, "classify-and-route", an.FuncName(serve), serve.Pos(), "requests -> go handleRequest(msg); request-less messages with an id -> channel of that id", "%s", strings.Join(bad, "; "))

	// ---- receive
	bad = nil
	var sel *ssa.Select
	an.AllInstrs(recv, func(in ssa.Instruction) {
		if s, ok := in.(*ssa.Select); ok {
			sel = s
		}
	})
	idPrm := recv.Params[2]
	if sel == nil || !sel.Blocking {
		bad = append(bad, "receive does not wait with a blocking select")
	} else {
		okMsg, okDone := false, false
		for _, st := range sel.States {
			d := p.Derives(0, st.Chan)
			if c := d.CallTo(func(f *types.Func) bool { return f.Name() == "Done" && f.Pkg() != nil && f.Pkg().Path() == "context" }); c != nil {
				if c.Common().Value == ssa.Value(recv.Params[1]) {
					okDone = true
				}
			}
			for _, n := range d.Nodes {
				if c, ok := n.(*ssa.Call); ok && c.Common().StaticCallee() == gpc {
					if p.Derives(0, c.Call.Args[1]).HasParam(idPrm) {
						okMsg = true
					}
				}
			}
		}
		if !okMsg {
			bad = append(bad, "receive does not wait on the channel of the id it was given")
		}
		if !okDone {
			bad = append(bad, "receive does not watch the caller's context: a call whose context ends would wait forever")
		}
		// a return yielding ctx.Err()
		okErr := false
		an.AllInstrs(recv, func(in ssa.Instruction) {
			if ret, ok := in.(*ssa.Return); ok {
				rr := an.RetResults(ret)
				if c, ok := rr[len(rr)-1].(*ssa.Call); ok {
					if f := an.CallObj(c); f != nil && f.Name() == "Err" && c.Common().Value == ssa.Value(recv.Params[1]) {
						okErr = true
					}
				}
			}
		})
		if !okErr {
			bad = append(bad, "the cancelled wait does not return the context's error")
		}
	}
	// delete uses the same key as the lookup
	for _, a := range poolMapAccessesIn(p, recv, "pending") {
		if a.Kind == "delete" {
			if !p.Derives(0, a.Key).HasParam(idPrm) {
				bad = append(bad, "the pending entry removed is not the one that was waited on")
			}
		}
	}
	r.Check(len(bad) == 0, "cancel-and-key", an.FuncName(recv), recv.Pos(), "wait on the id's channel or ctx.Done(); remove exactly that entry", "%s", strings.Join(bad, "; "))

	// ---- getPendingChan: buffered channel stored under the key
	bad = nil
	if !replyChanBuffered(gpc) {
		bad = append(bad, "the reply channel is unbuffered: a reply arriving before its caller waits blocks the whole read loop")
	}
	keyPrm := gpc.Params[1]
	for _, a := range poolMapAccessesIn(p, gpc, "pending") {
		if (a.Kind == "lookup" || a.Kind == "update") && a.Key != ssa.Value(keyPrm) {
			bad = append(bad, "the pending table is accessed with a key other than the requested id")
		}
	}
	// pending entries (the slots live callers wait on) are discarded only when the table has reached its configured
	// limit: every removal in getPendingChan's region is guarded by len(pending) >= PendingLimit (comparing with the
	// discard count instead evicts live callers' slots long before the limit; their replies land where nobody reads)
	nEvict := 0
	for _, rf := range regionFuncs(p, gpc) {
		for _, a := range poolMapAccessesIn(p, rf, "pending") {
			if a.Kind != "delete" {
				continue
			}
			nEvict++
			site := a.In
			blocks := []*ssa.BasicBlock{site.Block()}
			if rf != gpc {
				blocks = nil
				for _, c := range an.Calls(gpc, false) {
					if c.Common().StaticCallee() == rf {
						blocks = append(blocks, c.Block())
					}
				}
			}
			for _, b := range blocks {
				okLimit := false
				for _, cr := range ctrlRels(b) {
					l, r0, op := cr.L, cr.R, cr.Op
					if _, isLen := an.LenOf(r0); isLen {
						l, r0 = r0, l
						op = cr.Rel.Swap().Op
					}
					x, isLen := an.LenOf(l)
					if !isLen || memMapFieldName(x) != "pending" {
						continue
					}
					if fv := an.FieldOf(stripLoad(r0)); fv != nil && fv.Name() == "PendingLimit" && (op == token.GEQ || op == token.GTR) {
						okLimit = true
					}
				}
				if !okLimit {
					bad = append(bad, "pending reply slots are discarded at "+p.Pos(site.Pos())+" without the table having reached PendingLimit")
				}
			}
		}
	}
	_ = nEvict
	// the channel returned is the entry's channel (existing or the one just stored)
	r.Check(len(bad) == 0, "async-dispatch", an.FuncName(gpc), gpc.Pos(), "one buffered channel per id", "%s", strings.Join(bad, "; "))

	checkNoReadaheadLoss(p, r)
	// request ids are handed out by one atomic operation on the shared counter (shared with C10.atomic-rmw)
	if rmw, _ := splitAtomicRMW(p); true {
		r.Check(len(rmw) == 0, "atomic-rmw", "repo", token.NoPos, "atomic updates are single operations on the shared variable", "%s", strings.Join(rmw, "; "))
	}

	// ---- writer-stateless: Remote writes to the connection from several goroutines (Call, and every request handler
	// answering) without a lock of its own, so a codec's WriteMessage either keeps nothing between calls or guards what it
	// keeps with its own mutex: a scratch buffer shared by two writers sends one caller's bytes twice and the other's never
	if ci := p.Iface("jsonrpc2", "Codec"); ci != nil {
		nW := 0
		for _, cd := range p.Implementations(ci) {
			wm := p.MethodOf(cd, "WriteMessage")
			if wm == nil || len(wm.Blocks) == 0 || isTestDoublePkg(wm) || p.IsTestFunc(wm) {
				continue
			}
			nW++
			r.Analysed(an.FuncName(wm))
			var wb []string
			for _, fn := range regionFuncs(p, wm) {
				li := an.Locksets(fn, nil)
				for _, w := range writesOf(fn) {
					if len(w.Fields) == 0 || len(fn.Params) == 0 || w.Root != ssa.Value(fn.Params[0]) || fn.Signature.Recv() == nil {
						continue
					}
					if len(li.Before[w.In]) > 0 {
						continue
					}
					wb = append(wb, w.Kind+" to "+fn.Params[0].Name()+w.Path+" in "+an.FuncName(fn)+" at "+p.Pos(w.In.Pos())+" with no mutex of the codec held")
				}
			}
			r.Check(len(wb) == 0, "writer-stateless", an.FuncName(wm), wm.Pos(), "WriteMessage keeps no unguarded state between calls", "concurrent writers share what this codec keeps between calls: %s", strings.Join(dedup(wb), "; "))
		}
		r.Floor("codec-writers", nW, 3)
	}

	// ---- ctx-service
	bad = nil
	checkCtx := func(fn *ssa.Function, handleName string) {
		var wv *ssa.Call
		for _, c := range an.Calls(fn, false) {
			if an.IsFunc(an.CallObj(c), "context", "WithValue") {
				wv, _ = c.(*ssa.Call)
			}
		}
		if wv == nil {
			bad = append(bad, an.FuncName(fn)+" does not attach the connection to the handler's context")
			return
		}
		key := wv.Call.Args[1]
		if mi, ok := key.(*ssa.MakeInterface); ok {
			key = mi.X
		}
		if u, ok := key.(*ssa.UnOp); !ok || u.Op != token.MUL || !isGlobalNamed(u.X, "ctxService") {
			bad = append(bad, an.FuncName(fn)+" stores the connection under a key other than ctxService")
		}
		val := wv.Call.Args[2]
		if mi, ok := val.(*ssa.MakeInterface); ok {
			val = mi.X
		}
		if !isOwnReceiver(fn, val) {
			bad = append(bad, an.FuncName(fn)+" stores something other than its own connection in the context")
		}
		okPass := false
		for _, c := range an.Calls(fn, false) {
			if f := an.CallObj(c); f != nil && f.Name() == "Handle" {
				if methodArgs(c)[0] == ssa.Value(wv) {
					okPass = true
				}
			}
		}
		if !okPass {
			bad = append(bad, an.FuncName(fn)+" does not pass the derived context to the handler")
		}
	}
	checkCtx(hr, "Handle")
	checkCtx(lcall, "Handle")
	// CtxService reads the same key
	okKey := false
	for _, c := range an.Calls(ctxSvc, false) {
		if f := an.CallObj(c); f != nil && f.Name() == "Value" {
			k := c.Common().Args[0]
			if mi, ok := k.(*ssa.MakeInterface); ok {
				k = mi.X
			}
			if u, ok := k.(*ssa.UnOp); ok && u.Op == token.MUL && isGlobalNamed(u.X, "ctxService") {
				okKey = true
			}
		}
	}
	if !okKey {
		bad = append(bad, "CtxService does not read the ctxService key")
	}
	// nobody else writes the key variable
	for _, fn := range p.Repo {
		an.AllInstrs(fn, func(in ssa.Instruction) {
			if st, ok := in.(*ssa.Store); ok && isGlobalNamed(st.Addr, "ctxService") && an.Ident(fn.Name()) != "init" {
				bad = append(bad, "the context key is reassigned in "+an.FuncName(fn))
			}
		})
	}
	r.Check(len(bad) == 0, "ctx-service", "jsonrpc2", hr.Pos(), "handlers find the connection their request arrived on in the context", "%s", strings.Join(bad, "; "))

	// ---- reply-id (shared with C15): the reply to a request carries that request's id on every path of
	// Server.Handle, otherwise Serve cannot route it and the caller only returns through its context
	checkReplyID(p, r)

	// ---- unique-id
	bad = nil
	okAtomic := false
	for _, c := range an.Calls(nextID, false) {
		if f := an.CallObj(c); f != nil && f.Pkg() != nil && f.Pkg().Path() == "sync/atomic" && strings.HasPrefix(f.Name(), "Add") {
			if fv := an.FieldOf(c.Common().Args[0]); fv != nil && an.Ident(fv.Name()) == "id" {
				if k, ok := an.ConstInt(c.Common().Args[1]); ok && k != 0 {
					okAtomic = true
				}
			}
		}
	}
	if !okAtomic {
		bad = append(bad, "NextID does not advance the id counter atomically")
	}
	// the id handed out must be the result of that very atomic operation (increment and read in one step)
	an.AllInstrs(nextID, func(in ssa.Instruction) {
		ret, ok := in.(*ssa.Return)
		if !ok || len(ret.Results) == 0 {
			return
		}
		d := p.Derives(2, an.RetResults(ret)[0])
		fromAdd := false
		for _, n := range d.Nodes {
			if c, ok := n.(*ssa.Call); ok {
				if f := an.CallObj(c); f != nil && f.Pkg() != nil && f.Pkg().Path() == "sync/atomic" {
					if strings.HasPrefix(f.Name(), "Add") {
						fromAdd = true
					} else {
						bad = append(bad, "the id returned is read back with atomic."+f.Name()+" instead of being the result of the atomic increment: two concurrent callers can obtain the same id")
					}
				}
			}
			if u, ok := n.(*ssa.UnOp); ok && u.Op == token.MUL {
				if fv := an.FieldOf(u.X); fv != nil && an.Ident(fv.Name()) == "id" {
					bad = append(bad, "the id returned is a plain read of the counter")
				}
			}
		}
		if !fromAdd {
			bad = append(bad, "the id returned is not the value produced by the atomic increment")
		}
	})
	okUse := false
	an.AllInstrs(creq, func(in ssa.Instruction) {
		if st, ok := in.(*ssa.Store); ok {
			if fv := an.FieldOf(st.Addr); fv != nil && fv.Name() == "ID" {
				d := p.Derives(1, st.Val)
				for _, n := range d.Nodes {
					if c, ok := n.(*ssa.Call); ok && c.Common().StaticCallee() == nextID {
						okUse = true
					}
				}
			}
		}
	})
	if !okUse {
		bad = append(bad, "request ids do not come from NextID")
	}
	// the counter lives as long as the connection: a Client created on the fly must be kept (stored into a field),
	// otherwise every call restarts at id 1 and replies are routed to the wrong caller
	for _, fn := range p.Repo {
		if p.IsTestFunc(fn) {
			continue
		}
		for _, c := range an.Calls(fn, false) {
			var rcv ssa.Value
			if c.Common().IsInvoke() {
				if f := c.Common().Method; f.Name() == "Request" && f.Pkg() != nil && strings.HasSuffix(f.Pkg().Path(), "jsonrpc2") {
					rcv = c.Common().Value
				}
			} else if c.Common().StaticCallee() == creq && len(c.Common().Args) > 0 {
				rcv = c.Common().Args[0]
			}
			if rcv == nil {
				continue
			}
			seen := map[ssa.Value]bool{}
			var walk func(v ssa.Value)
			walk = func(v ssa.Value) {
				if seen[v] {
					return
				}
				seen[v] = true
				switch x := v.(type) {
				case *ssa.Phi:
					for _, e := range x.Edges {
						walk(e)
					}
				case *ssa.MakeInterface:
					walk(x.X)
				case *ssa.ChangeInterface:
					walk(x.X)
				case *ssa.Alloc:
					kept := false
					for _, ref := range *x.Referrers() {
						if mi, ok := ref.(*ssa.MakeInterface); ok {
							for _, r2 := range *mi.Referrers() {
								if st, ok := r2.(*ssa.Store); ok && st.Val == ssa.Value(mi) {
									if _, ok := st.Addr.(*ssa.FieldAddr); ok {
										kept = true
									}
								}
							}
						}
						if st, ok := ref.(*ssa.Store); ok && st.Val == ssa.Value(x) {
							if _, ok := st.Addr.(*ssa.FieldAddr); ok {
								kept = true
							}
							if _, ok := st.Addr.(*ssa.Global); ok {
								kept = true
							}
						}
					}
					if !kept {
						bad = append(bad, an.FuncName(fn)+" builds its request with a Client created for this call only ("+p.Pos(x.Pos())+"): its counter restarts at 1 on every call")
					}
					// a default client is put in place only where there is none yet: replacing an existing one (the nil
					// test inverted) restarts the counter on every call as well
					for _, ref := range *x.Referrers() {
						var st *ssa.Store
						if s0, ok := ref.(*ssa.Store); ok && s0.Val == ssa.Value(x) {
							st = s0
						}
						if mi, ok := ref.(*ssa.MakeInterface); ok {
							for _, r2 := range *mi.Referrers() {
								if s0, ok := r2.(*ssa.Store); ok && s0.Val == ssa.Value(mi) {
									st = s0
								}
							}
						}
						if st == nil {
							continue
						}
						fa, ok := st.Addr.(*ssa.FieldAddr)
						if !ok {
							continue
						}
						fld := an.FieldOf(fa)
						okNil := false
						for _, cr := range ctrlRels(st.Block()) {
							for _, pair := range [][2]ssa.Value{{cr.L, cr.R}, {cr.R, cr.L}} {
								if f2 := an.FieldOf(stripLoad(pair[0])); f2 != nil && f2 == fld && isNilValue(pair[1]) && cr.Op == token.EQL {
									okNil = true
								}
							}
						}
						if !okNil {
							bad = append(bad, an.FuncName(fn)+" installs a fresh Client at "+p.Pos(st.Pos())+" without the field having been found nil: an existing client (and its id counter) is replaced on every call")
						}
					}
				}
			}
			walk(rcv)
		}
	}
	// wherever a default Client is put into a field, that is under "the field is nil" (independent of how the call site
	// reads it afterwards)
	for _, fn := range p.Repo {
		if fn.Pkg == nil || fn.Pkg.Pkg.Path() != pkgRPC || p.IsTestFunc(fn) {
			continue
		}
		an.AllInstrs(fn, func(in ssa.Instruction) {
			st, ok := in.(*ssa.Store)
			if !ok {
				return
			}
			fa, ok := st.Addr.(*ssa.FieldAddr)
			if !ok {
				return
			}
			v := st.Val
			if mi, ok := v.(*ssa.MakeInterface); ok {
				v = mi.X
			}
			al, ok := v.(*ssa.Alloc)
			if !ok {
				return
			}
			if n := namedOf(al.Type()); n == nil || n.Obj().Name() != "Client" || n.Obj().Pkg() == nil || n.Obj().Pkg().Path() != pkgRPC {
				return
			}
			if root, _ := an.RootPath(fa); root != nil {
				if _, isPrm := root.(*ssa.Parameter); !isPrm {
					return // a connection under construction
				}
			}
			fld := an.FieldOf(fa)
			okNil := false
			for _, cr := range ctrlRels(st.Block()) {
				for _, pair := range [][2]ssa.Value{{cr.L, cr.R}, {cr.R, cr.L}} {
					if f2 := an.FieldOf(stripLoad(pair[0])); f2 != nil && f2 == fld && isNilValue(pair[1]) && cr.Op == token.EQL {
						okNil = true
					}
				}
			}
			if !okNil {
				bad = append(bad, an.FuncName(fn)+" installs a fresh Client at "+p.Pos(st.Pos())+" without the field having been found nil: an existing client (and its id counter) is replaced, or a missing one never created")
			}
		})
	}
	r.Check(len(bad) == 0, "unique-id", an.FuncName(creq), creq.Pos(), "ids = atomic counter per client", "%s", strings.Join(dedup(bad), "; "))

	// ---- handler-not-gated: between receiving a request and running its handler nothing may wait on another
	// request's progress (a per-connection semaphore or queue makes nested call-backs deadlock beyond its depth)
	{
		var why []string
		var handle ssa.Instruction
		for _, c := range an.Calls(hr, false) {
			if f := an.CallObj(c); f != nil && f.Name() == "Handle" {
				handle = c.(ssa.Instruction)
			}
		}
		isWait := func(in ssa.Instruction) bool {
			if k := blockingKind(p, in); k != "" && !strings.HasPrefix(k, "codec/handler") && !strings.HasPrefix(k, "handler dispatch") {
				return true
			}
			if c, ok := in.(ssa.CallInstruction); ok {
				if f := an.CallObj(c); f != nil {
					if (f.Name() == "Acquire" || f.Name() == "Wait") && f.Pkg() != nil && (strings.Contains(f.Pkg().Path(), "semaphore") || f.Pkg().Path() == "sync") {
						return true
					}
				}
				// a helper of the connection layer that waits inside (acquire a slot, take a token, ...)
				if _, isGo := in.(*ssa.Go); !isGo {
					if cal := c.Common().StaticCallee(); cal != nil && cal != hr && p.InRepo(cal) && cal.Pkg == serve.Pkg && calleeWaits(p, cal, 2) {
						return true
					}
				}
			}
			return false
		}
		if handle == nil {
			why = append(why, "handleRequest does not invoke the handler")
		} else if in := an.PathAvoiding(hr, nil, func(x ssa.Instruction) bool { return x == handle }, isWait, nil); in != nil {
			why = append(why, "handleRequest waits ("+blockingKind(p, in)+" at "+p.Pos(in.Pos())+") before running the handler: handlers that call back over the connection hold their slot while waiting, so nesting beyond the limit deadlocks")
		}
		// the dispatching goroutine itself must not be throttled in Serve either
		if goHR != nil {
			// only the request branch: the reply branch legitimately sends into the (buffered) waiter channel
			reqOnly := func(x ssa.Instruction) bool {
				if x == ssa.Instruction(goHR) || x == readCall.(ssa.Instruction) {
					return true
				}
				_, isSend := x.(*ssa.Send)
				return isSend && x == ssa.Instruction(send)
			}
			if in := an.PathAvoiding(serve, readCall.(ssa.Instruction), reqOnly, isWait, nil); in != nil {
				why = append(why, "Serve waits at "+p.Pos(in.Pos())+" between reading a request and dispatching it")
			}
		}
		r.Check(len(why) == 0, "handler-not-gated", an.FuncName(hr), hr.Pos(), "nothing waits between receiving a request and running its handler", "%s", strings.Join(why, "; "))
	}

	// ---- reply-shape: Call must refuse a reply without Response
	var rs []string
	an.AllInstrs(call, func(in ssa.Instruction) {
		c, ok := in.(ssa.CallInstruction)
		if !ok {
			return
		}
		if f := an.CallObj(c); f == nil || f.Name() != "UnmarshalResult" {
			return
		}
		guarded := false
		for _, cr := range ctrlRels(c.Block()) {
			if cr.Op == token.NEQ && (isNilValue(cr.R) || isNilValue(cr.L)) {
				v := cr.L
				if isNilValue(v) {
					v = cr.R
				}
				if _, f, ok := embeddedPtrLoad(v); ok && f == "Response" {
					guarded = true
				}
			}
		}
		if !guarded {
			rs = append(rs, "Call uses the reply's Response part without testing it for nil (a reply {\"id\":N} crashes the caller)")
		}
	})
	r.Check(len(rs) == 0, "reply-shape", an.FuncName(call), call.Pos(), "a reply lacking its Response part is refused", "%s", strings.Join(rs, "; "))

	// ---- alias-escapes-lock (connection layer; the same rule runs repo-wide in C10)
	checkAliasEscapesLock(p, r, "alias-escapes-lock", func(fn *ssa.Function) bool {
		top := fn
		for top.Parent() != nil {
			top = top.Parent()
		}
		return top.Pkg != nil && strings.HasPrefix(top.Pkg.Pkg.Path(), pkgRPC)
	})

	// ---- no-block-under-lock for the connection layer
	entry := p.EntryLocks()
	infos := map[*ssa.Function]*an.LockInfo{}
	checkNoBlockUnderLock(p, r, "no-block-under-lock", func(fn *ssa.Function) bool {
		top := fn
		for top.Parent() != nil {
			top = top.Parent()
		}
		return top.Pkg != nil && strings.HasPrefix(top.Pkg.Pkg.Path(), pkgRPC)
	}, func(fn *ssa.Function) *an.LockInfo {
		if infos[fn] == nil {
			infos[fn] = an.Locksets(fn, entry[fn])
		}
		return infos[fn]
	})
}

func isGlobalNamed(v ssa.Value, name string) bool {
	g, ok := v.(*ssa.Global)
	return ok && g.Name() == name
}

func poolMapAccessesIn(p *an.Prog, fn *ssa.Function, field string) []mapAccess {
	var out []mapAccess
	for _, a := range poolMapAccesses(p, field) {
		if a.Fn == fn {
			out = append(out, a)
		}
	}
	return out
}

// requestHandlerOf returns the function that serves one incoming request of a Remote: the method handleRequest, or —
// when it was inlined into Serve — the function literal that Serve starts (or calls) and that invokes Server.Handle.
func requestHandlerOf(p *an.Prog) *ssa.Function {
	if hr := p.Method("jsonrpc2", "Remote", "handleRequest"); hr != nil {
		return hr
	}
	serve := p.Method("jsonrpc2", "Remote", "Serve")
	if serve == nil {
		return nil
	}
	for _, c := range an.Calls(serve, false) {
		var fn *ssa.Function
		switch v := c.Common().Value.(type) {
		case *ssa.MakeClosure:
			fn, _ = v.Fn.(*ssa.Function)
		case *ssa.Function:
			fn = v
		}
		if fn == nil {
			continue
		}
		for _, cc := range an.Calls(fn, false) {
			if f := an.CallObj(cc); f != nil && f.Name() == "Handle" {
				return fn
			}
		}
	}
	return nil
}

func calleeIs(c ssa.CallInstruction, fn *ssa.Function) bool {
	if fn == nil {
		return false
	}
	if c.Common().StaticCallee() == fn {
		return true
	}
	if mc, ok := c.Common().Value.(*ssa.MakeClosure); ok && mc.Fn == ssa.Value(fn) {
		return true
	}
	return false
}

// isOwnReceiver: v is the receiver of fn, or — for a function literal — the receiver of the method it is nested in
// (captured by reference: *freevar, bound to the spilled receiver).
func isOwnReceiver(fn *ssa.Function, v ssa.Value) bool {
	if fn.Parent() == nil {
		return len(fn.Params) > 0 && an.Unspill(v) == ssa.Value(fn.Params[0])
	}
	outer := fn
	for outer.Parent() != nil {
		outer = outer.Parent()
	}
	if outer.Signature.Recv() == nil || len(outer.Params) == 0 {
		return false
	}
	var fv *ssa.FreeVar
	switch x := v.(type) {
	case *ssa.FreeVar:
		fv = x
	case *ssa.UnOp:
		if x.Op == token.MUL {
			fv, _ = x.X.(*ssa.FreeVar)
		}
	}
	if fv == nil {
		return false
	}
	idx := -1
	for i, f := range fn.FreeVars {
		if f == fv {
			idx = i
		}
	}
	ok := false
	an.AllInstrs(fn.Parent(), func(in ssa.Instruction) {
		mc, isMC := in.(*ssa.MakeClosure)
		if !isMC || mc.Fn != ssa.Value(fn) || idx < 0 || idx >= len(mc.Bindings) {
			return
		}
		b := mc.Bindings[idx]
		if b == ssa.Value(outer.Params[0]) {
			ok = true
		}
		if al, isAl := b.(*ssa.Alloc); isAl {
			if an.Unspill(&ssa.UnOp{Op: token.MUL, X: al}) == ssa.Value(outer.Params[0]) {
				ok = true
			}
		}
	})
	return ok
}

// calleeWaits: fn (or a same-package static callee, to the given depth) contains a channel operation, blocking select,
// sleep or WaitGroup wait — anything but codec I/O and handler dispatch.
func calleeWaits(p *an.Prog, fn *ssa.Function, depth int) bool {
	waits := false
	for _, f := range an.WithAnon(fn) {
		an.AllInstrs(f, func(in ssa.Instruction) {
			if k := blockingKind(p, in); k != "" && !strings.HasPrefix(k, "codec/handler") && !strings.HasPrefix(k, "handler dispatch") && !strings.HasPrefix(k, "RPC call") {
				waits = true
			}
			if c, ok := in.(ssa.CallInstruction); ok && depth > 0 {
				if _, isGo := in.(*ssa.Go); isGo {
					return
				}
				if cal := c.Common().StaticCallee(); cal != nil && cal != fn && p.InRepo(cal) && cal.Pkg == fn.Pkg && calleeWaits(p, cal, depth-1) {
					waits = true
				}
			}
		})
	}
	return waits
}

// replyChanBuffered: the per-id reply channel made by getPendingChan has room for the reply (the read loop's send never
// waits for a caller that has gone away or has not arrived yet).
func replyChanBuffered(gpc *ssa.Function) bool {
	ok := false
	n := 0
	an.AllInstrs(gpc, func(in ssa.Instruction) {
		if mc, isMC := in.(*ssa.MakeChan); isMC {
			n++
			if k, isK := an.ConstInt(mc.Size); isK && k >= 1 {
				ok = true
			} else {
				ok = false
			}
		}
	})
	return ok && n >= 1
}

// memMapFieldName: the name of the map-typed field v is loaded from ("" when it is not a field load).
func memMapFieldName(v ssa.Value) string {
	if fv := an.FieldOf(stripLoad(v)); fv != nil {
		if _, ok := fv.Type().Underlying().(*types.Map); ok {
			return an.Ident(fv.Name())
		}
	}
	return ""
}

// checkPendingOrder: when the pending table is over its limit the OLDEST entries go — the abandoned ones — so the order
// the eviction sorts by is the entries' time stamps: pendingQueue.Less compares a time field of its two elements (by id
// text, "10" sorts before "7": past a power of ten the live waiters are discarded and the stale entries kept).
func checkPendingOrder(p *an.Prog, r *an.Run) {
	less := p.Method("jsonrpc2", "pendingQueue", "Less")
	if less == nil {
		r.Undec("async-dispatch", "jsonrpc2.pendingQueue.Less", token.NoPos, "anchor not found")
		return
	}
	ok := false
	an.AllInstrs(less, func(in ssa.Instruction) {
		ret, isRet := in.(*ssa.Return)
		if !isRet || len(ret.Results) != 1 {
			return
		}
		for _, n := range p.Derives(0, ret.Results[0]).Nodes {
			if fv := an.FieldOf(n); fv != nil {
				if nm := namedOf(fv.Type()); nm != nil && nm.Obj().Pkg() != nil && nm.Obj().Pkg().Path() == "time" && nm.Obj().Name() == "Time" {
					ok = true
				}
			}
		}
	})
	r.Check(ok, "async-dispatch", an.FuncName(less), less.Pos(), "pending entries are ordered by their time stamp", "%s does not order the pending entries by their time stamp: eviction under PendingLimit no longer discards the oldest (abandoned) entries first, and live waiters lose their slot", an.FuncName(less))
}
