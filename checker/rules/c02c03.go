package rules

import (
	"go/token"
	"go/types"
	"strings"

	"golang.org/x/tools/go/ssa"

	"vipcheck/an"
)

func init() {
	Registry["C02"] = Spec{
		Run: runC02,
		Explanation: "Static provenance/dominance rules for billing: (host-noop, zero-noop) every ledger write in OnUpdate is control-dependent on !IsHost and credit != 0; " +
			"(snapshot-order) the node handed to the balance manager derives from the GetNode that dominates UpdateNodePeers, the peer list from the NodePeers after it; " +
			"(same-credit) every credit is intervalCredit(payer.LastSeen); (bigint-only) no machine-integer multiply/divide or Int64 narrowing in the billing package; " +
			"(mul-before-div) the returned credit is a quotient whose dividend carries ELAPSED and PRICE and whose divisor is INTERVAL only; " +
			"(lastseen-written) both drivers' UpdateNodePeers persist time.Now() as the node's LastSeen and connect registers time.Now(); " +
			"(peer-ids) reported peer ids reach the store through Peers.IDs/EnodeID; (div-guard) every intervalCredit call is guarded by Interval > 0. Round 2: (lastseen-written:SetNode) each driver's SetNode writes the caller's record as a whole and never overwrites its LastSeen. Round 5: (bigint-private) in-place big.Int methods only on owned values.",
		NotDecided: []string{"not decided: the numeric identity floor(elapsed*price/interval), slicing invariance, the microsecond overlap between the store's and the manager's clock; all-or-nothing on failure is C01.atomic-transfer"},
	}
	Registry["C03"] = Spec{
		Run: runC03,
		Explanation: "Static canonical-predicate and must-pass-through rules for the minimum balance: (connect-operand, update-operand) every LowBalanceError is returned under the canonical relation deposit+credit < MinBalance, " +
			"with the sum read from GetNodeBalance of the node (in OnUpdate: read past the debit's success edge) and reported as CurrentBalance; (unset-off) guarded by MinBalance != nil; " +
			"(hosts-exempt) guarded by !IsHost; (cutoff) Update calls disconnectPeers(nodeID, active) on the LowBalanceError branch before returning, and disconnectPeers sends vipnode_disconnect(nodeID) to every peer found in the host registry and collects exactly that many results. Round 2: (wiring) runPool installs the configured minimum under no condition but != \"off\" and error gates; (balance-errors) every composed BalanceStore reports a failed source (failure edges and sentinel comparisons never reach a success return); guard rules also hold across a shared helper, judged per call site. Round 5: the configured minimum is parsed without floating point; (bigint-private).",
		NotDecided: []string{"not decided: threshold arithmetic on concrete balances; that hosts honour the disconnect call"},
	}
}

func findCalls(fn *ssa.Function, nested bool, pred func(*types.Func) bool) []ssa.CallInstruction {
	var out []ssa.CallInstruction
	for _, c := range an.Calls(fn, nested) {
		if f := an.CallObj(c); f != nil && pred(f) {
			out = append(out, c)
		}
	}
	return out
}

type ctrlRel struct {
	an.Rel
	If   *ssa.If
	Succ int
}

// ctrlRels returns the normalised relations that hold on entry to block b.
func ctrlRels(b *ssa.BasicBlock) []ctrlRel {
	var out []ctrlRel
	for _, c := range an.ControllingIfs(b) {
		if r, ok := an.BranchRel(c.If, c.Succ); ok {
			out = append(out, ctrlRel{r, c.If, c.Succ})
		}
	}
	return out
}

// gateRels returns ctrlRels(b) plus the relations established by validation helpers: for a call g(args) to a repo
// function returning an error whose success edge gates b, the relations controlling g's single nil return, with g's
// parameters mapped to the arguments (checkInterval(x) error { if x >= max { return err }; return nil }).
func gateRels(p *an.Prog, b *ssa.BasicBlock) []ctrlRel {
	out := ctrlRels(b)
	fn := b.Parent()
	for _, c := range an.Calls(fn, false) {
		callee := c.Common().StaticCallee()
		if callee == nil || len(callee.Blocks) == 0 || !p.InRepo(callee) {
			continue
		}
		u := an.ErrEdges(c)
		if !u.HasErr || len(u.Succ) == 0 {
			continue
		}
		if an.ReachAvoiding(fn, an.EdgeSet(u.Succ))[b] {
			continue
		}
		var nilRets []*ssa.Return
		an.AllInstrs(callee, func(in ssa.Instruction) {
			if ret, ok := in.(*ssa.Return); ok {
				if cls, _ := returnClass(ret); cls == "nil" {
					nilRets = append(nilRets, ret)
				}
			}
		})
		if len(nilRets) != 1 {
			continue
		}
		bind := map[*ssa.Parameter]ssa.Value{}
		for i, prm := range callee.Params {
			if i < len(c.Common().Args) {
				bind[prm] = c.Common().Args[i]
			}
		}
		for _, cr := range ctrlRels(nilRets[0].Block()) {
			cr.Bind = bind
			cr.L, cr.R = cr.Rel.Arg(cr.L), cr.Rel.Arg(cr.R)
			out = append(out, cr)
		}
	}
	return out
}

// boolCtrl reports whether block b is controlled by cond (a boolean value
// satisfying pred) being want.
func boolCtrl(b *ssa.BasicBlock, pred func(ssa.Value) bool, want bool) bool {
	for _, c := range an.ControllingIfs(b) {
		v := c.If.Cond
		w := c.Succ == 0
		for {
			if u, ok := v.(*ssa.UnOp); ok && u.Op == token.NOT {
				v = u.X
				w = !w
				continue
			}
			break
		}
		if pred(v) && w == want {
			return true
		}
	}
	return false
}

func isFieldOfParam(v ssa.Value, field string, prm *ssa.Parameter) bool {
	if u, ok := v.(*ssa.UnOp); ok && u.Op == token.MUL {
		v = u.X
	}
	fv := an.FieldOf(v)
	if fv == nil || an.Ident(fv.Name()) != field {
		return false
	}
	root, _ := an.RootPath(v)
	if root == ssa.Value(prm) {
		return true
	}
	// spilled parameter: alloc that the parameter is stored into
	if al, ok := root.(*ssa.Alloc); ok {
		for _, ref := range *al.Referrers() {
			if st, ok := ref.(*ssa.Store); ok && st.Addr == ssa.Value(al) && st.Val == ssa.Value(prm) {
				return true
			}
		}
	}
	return false
}

func nodeParam(fn *ssa.Function) *ssa.Parameter {
	for _, prm := range fn.Params {
		if n := namedOf(prm.Type()); n != nil && n.Obj().Name() == "Node" && n.Obj().Pkg() != nil && n.Obj().Pkg().Path() == pkgStore {
			if _, isPtr := prm.Type().(*types.Pointer); !isPtr {
				return prm
			}
		}
	}
	return nil
}

// lowBalanceReturns finds returns of a balance.LowBalanceError in fn.
type lbReturn struct {
	Ret     *ssa.Return
	Current ssa.Value // value stored into CurrentBalance
	Min     ssa.Value
}

func lowBalanceReturns(fn *ssa.Function) []lbReturn {
	var out []lbReturn
	an.AllInstrs(fn, func(in ssa.Instruction) {
		ret, ok := in.(*ssa.Return)
		if !ok {
			return
		}
		for _, res := range an.RetResults(ret) {
			mi, ok := res.(*ssa.MakeInterface)
			if !ok {
				continue
			}
			n := namedOf(mi.X.Type())
			if n == nil || n.Obj().Name() != "LowBalanceError" {
				continue
			}
			lb := lbReturn{Ret: ret}
			// the struct value is loaded from a local alloc; find the field stores
			fieldsOf := func(x ssa.Value) (cur, min ssa.Value) {
				if ld, ok := x.(*ssa.UnOp); ok && ld.Op == token.MUL {
					if al, ok := ld.X.(*ssa.Alloc); ok {
						for _, ref := range *al.Referrers() {
							if fa, ok := ref.(*ssa.FieldAddr); ok {
								for _, r2 := range *fa.Referrers() {
									if st, ok := r2.(*ssa.Store); ok {
										switch an.FieldOf(fa).Name() {
										case "CurrentBalance":
											cur = st.Val
										case "MinBalance":
											min = st.Val
										}
									}
								}
							}
						}
					}
				}
				return
			}
			lb.Current, lb.Min = fieldsOf(mi.X)
			// ... or it is built by a small constructor (newLowBalanceError(current, min)), possibly from defensive
			// copies new(big.Int).Set(x) of its arguments: the fields are the call's arguments
			if call, ok := mi.X.(*ssa.Call); ok && lb.Current == nil && lb.Min == nil {
				if callee := call.Call.StaticCallee(); callee != nil && len(callee.Blocks) > 0 {
					bindArg := func(v ssa.Value) ssa.Value {
						for i := 0; i < 3; i++ {
							c, ok := v.(*ssa.Call)
							if !ok || !an.IsBigIntMethod(c, "Set") || len(c.Call.Args) != 2 {
								break
							}
							if al, ok := c.Call.Args[0].(*ssa.Alloc); !ok || !al.Heap && false {
								break
							}
							v = c.Call.Args[1]
						}
						if prm, ok := v.(*ssa.Parameter); ok {
							for i, q := range callee.Params {
								if q == prm && i < len(call.Call.Args) {
									return call.Call.Args[i]
								}
							}
						}
						return nil
					}
					an.AllInstrs(callee, func(in2 ssa.Instruction) {
						if r2, ok := in2.(*ssa.Return); ok && len(r2.Results) == 1 {
							cur, min := fieldsOf(r2.Results[0])
							if cur != nil {
								lb.Current = bindArg(cur)
							}
							if min != nil {
								lb.Min = bindArg(min)
							}
						}
					})
				}
			}
			out = append(out, lb)
		}
	})
	return out
}

func derivesField(p *an.Prog, v ssa.Value, typ, field string) bool {
	return p.Derives(0, v).HasFieldNamed(typ, field)
}

// checkLowBalanceGuard verifies the canonical refusal predicate for one LowBalanceError return.
// afterDebit, when non-nil, must gate the balance read.
// site is nil when fn itself builds the LowBalanceError; otherwise fn calls, at site, the helper that builds it and the
// guards may sit on either side of that call.
func checkLowBalanceGuard(p *an.Prog, r *an.Run, fn *ssa.Function, lb lbReturn, rule, key string, afterDebit ssa.CallInstruction, site ssa.CallInstruction) {
	var bad []string
	node := nodeParam(fn)
	var rel *ctrlRel
	unsetGuard := false
	rels := ctrlRels(lb.Ret.Block())
	if site != nil {
		rels = append(rels, ctrlRels(site.Block())...)
		bad = append(bad, failPropagates(p, fn, site)...)
	}
	for _, cr := range rels {
		cr := cr
		lMin := derivesField(p, cr.L, "", "MinBalance")
		rMin := derivesField(p, cr.R, "", "MinBalance")
		if cr.Kind == "bigcmp" && (lMin != rMin) {
			if lMin { // orient: balance on the left
				sw := cr.Rel.Swap()
				cr.Rel = sw
			}
			rel = &cr
		}
		if (cr.Op == token.NEQ) && ((lMin && isNilValue(cr.R)) || (rMin && isNilValue(cr.L))) {
			unsetGuard = true
		}
	}
	if rel == nil {
		bad = append(bad, "the LowBalanceError return is not controlled by a comparison with MinBalance")
	} else {
		if rel.Op != token.LSS {
			bad = append(bad, "the refusal predicate is 'balance "+rel.Op.String()+" MinBalance' on the refusing branch; the property requires exactly 'balance < MinBalance' (a client at the minimum is not refused, one below it is)")
		}
		d := p.DerivesIn(fn, 3, rel.L)
		get := d.CallTo(func(f *types.Func) bool { return isStoreMethodNamed(f, "GetNodeBalance") })
		if get == nil {
			bad = append(bad, "the compared value does not derive from GetNodeBalance")
		} else {
			if !d.HasFieldNamed("Balance", "Credit") || !d.HasFieldNamed("Balance", "Deposit") {
				bad = append(bad, "the compared value is not deposit + credit (both Balance fields)")
			}
			for _, n := range d.Nodes {
				if c, ok := n.(*ssa.Call); ok && an.IsBigIntMethod(c) && !an.IsBigIntMethod(c, "Add", "Set") {
					bad = append(bad, "the compared value is computed with "+an.ObjString(an.CallObj(c))+", not a plain sum")
				}
			}
			// ... on every path: where the compared value is a merge, each alternative is a balance read from the store
			// for this request (a value remembered from an earlier request misses what other nodes of the same account,
			// deposits and withdrawals have done to the balance since)
			{
				seenPhi := map[ssa.Value]bool{}
				var leaves []ssa.Value
				var walk func(v ssa.Value)
				walk = func(v ssa.Value) {
					if seenPhi[v] {
						return
					}
					seenPhi[v] = true
					if ph, ok := v.(*ssa.Phi); ok {
						for _, e := range ph.Edges {
							walk(e)
						}
						return
					}
					leaves = append(leaves, v)
				}
				walk(rel.L)
				if len(leaves) > 1 {
					for _, lv := range leaves {
						if p.DerivesIn(fn, 3, lv).CallTo(func(f *types.Func) bool { return isStoreMethodNamed(f, "GetNodeBalance") }) == nil {
							bad = append(bad, "on some path the balance compared with the minimum is not read from the store for this request (a remembered value)")
						}
					}
				}
			}
			if node != nil {
				da := p.Derives(0, methodArgs(get)[0])
				if !da.HasParam(node) || !da.HasFieldNamed("Node", "ID") {
					bad = append(bad, "the balance read is not that of the node being connected/updated")
				}
			}
			if afterDebit != nil {
				reach := an.ReachAvoiding(fn, an.EdgeSet(an.ErrEdges(afterDebit).Succ))
				if reach[get.Block()] {
					bad = append(bad, "the balance compared with the minimum is read before the keep-alive's charge has been debited")
				}
			}
			if d.CallTo(func(f *types.Func) bool { return an.Ident(f.Name()) == "intervalCredit" }) != nil {
				bad = append(bad, "the compared value derives from the size of the charge, not from the node's balance")
			}
		}
		if lb.Current == nil {
			bad = append(bad, "LowBalanceError.CurrentBalance is not set")
		} else {
			r1, _ := an.RootPath(lb.Current)
			r2, _ := an.RootPath(rel.L)
			if r1 != r2 {
				bad = append(bad, "LowBalanceError.CurrentBalance is not the value that was compared with the minimum")
			}
		}
		if lb.Min == nil || !derivesField(p, lb.Min, "", "MinBalance") {
			bad = append(bad, "LowBalanceError.MinBalance is not the configured minimum")
		}
	}
	r.Check(len(bad) == 0, rule, key, lb.Ret.Pos(), "refusal iff deposit+credit < MinBalance, on the node's own (post-charge) balance, reported as CurrentBalance", "%s", strings.Join(bad, "; "))
	r.Check(unsetGuard, "unset-off", key, lb.Ret.Pos(), "refusal is guarded by MinBalance != nil", "the LowBalanceError return is not guarded by MinBalance != nil (an unset minimum must switch the rule off)")
	isHostFld := func(v ssa.Value) bool { return isFieldOfParam(v, "IsHost", node) }
	hostGuard := node != nil && (boolCtrl(lb.Ret.Block(), isHostFld, false) || (site != nil && boolCtrl(site.Block(), isHostFld, false)))
	r.Check(hostGuard, "hosts-exempt", key, lb.Ret.Pos(), "refusal is guarded by !node.IsHost", "a LowBalanceError can be returned for a full-node host (no !IsHost guard on the path): hosts must never be refused for their balance")
}

func isNilValue(v ssa.Value) bool {
	c, ok := v.(*ssa.Const)
	return ok && c.IsNil()
}

func runC03(p *an.Prog, r *an.Run, tier string) {
	checkSurfaceClosed(p, r)
	onClient := p.Method("pool/balance", "payPerInterval", "OnClient")
	onUpdate := p.Method("pool/balance", "payPerInterval", "OnUpdate")
	if onClient == nil || onUpdate == nil {
		r.Undec("anchors", "payPerInterval", token.NoPos, "OnClient/OnUpdate of balance.payPerInterval not found")
		return
	}
	r.Analysed(an.FuncName(onClient), an.FuncName(onUpdate))
	checkMinBalanceWiring(p, r)
	checkBalanceReadErrors(p, r)
	checkMinImmutable(p, r)
	checkBigIntOwnership(p, r)
	checkConnectOrder(p, r)
	// every function constructing a LowBalanceError must be one of the two anchors
	n := 0
	updDebit := func() ssa.CallInstruction {
		var debit ssa.CallInstruction
		for _, c := range an.Calls(onUpdate, false) {
			if isLedgerWriteCall(c) {
				if a := methodArgs(c); len(a) == 2 && negCallOf(p, a[1]) != nil {
					debit = c
				}
			}
		}
		return debit
	}
	checkAt := func(anchor *ssa.Function, lb lbReturn, key string, site ssa.CallInstruction) {
		n++
		switch anchor {
		case onClient:
			checkLowBalanceGuard(p, r, anchor, lb, "connect-operand", key, nil, site)
		case onUpdate:
			if debit := updDebit(); debit == nil {
				r.Fail("update-operand", key, lb.Ret.Pos(), "no debit found in OnUpdate: the minimum cannot be compared with the post-charge balance")
			} else {
				checkLowBalanceGuard(p, r, anchor, lb, "update-operand", key, debit, site)
			}
		default:
			checkLowBalanceGuard(p, r, anchor, lb, "other-operand", key, nil, site)
		}
	}
	for _, fn := range p.Repo {
		lbs := lowBalanceReturns(fn)
		if len(lbs) == 0 {
			continue
		}
		name := an.FuncName(fn)
		// a helper shared by the anchors (never used as a value, called only from them): judged at each call site
		if fn != onClient && fn != onUpdate && isMinBalanceHelper(p, fn, onClient, onUpdate) {
			r.Analysed(name)
			for _, site := range p.StaticSites(fn) {
				for i, lb := range lbs {
					key := an.FuncName(site.Parent())
					if len(lbs) > 1 {
						key += "#" + itoa(i+1)
					}
					checkAt(site.Parent(), lb, key, site)
				}
			}
			continue
		}
		for i, lb := range lbs {
			key := name
			if len(lbs) > 1 {
				key += "#" + itoa(i+1)
			}
			checkAt(fn, lb, key, nil)
		}
	}
	r.Floor("low-balance-sites", n, 2)
	checkNoBypass(p, r, onClient, nil)
	{
		var debit ssa.CallInstruction
		for _, c := range an.Calls(onUpdate, false) {
			if isLedgerWriteCall(c) {
				if a := methodArgs(c); len(a) == 2 && negCallOf(p, a[1]) != nil {
					debit = c
				}
			}
		}
		if debit != nil {
			checkNoBypass(p, r, onUpdate, debit)
		}
	}

	checkCutoff(p, r)
	checkLowBalanceText(p, r)
	checkErrorResultReported(p, r)
}

// checkLowBalanceText: what the refused client and the operator's log get to see is the error's text; it reports the
// balance as the balance and the minimum as the minimum: in LowBalanceError.Error each formatted operand is the field
// the words in front of its verb announce ("current ... %d" <- CurrentBalance, "minimum ... %d" <- MinBalance).
func checkLowBalanceText(p *an.Prog, r *an.Run) {
	em := p.Method("pool/balance", "LowBalanceError", "Error")
	if em == nil {
		r.Undec("error-text", "balance.LowBalanceError.Error", token.NoPos, "method not found")
		return
	}
	var bad []string
	n := 0
	for _, c := range an.Calls(em, false) {
		if !an.IsFunc(an.CallObj(c), "fmt", "Sprintf") || len(c.Common().Args) != 2 {
			continue
		}
		format, ok := an.ConstString(c.Common().Args[0])
		els, ok2 := variadicElems(c.Common().Args[1])
		if !ok || !ok2 {
			continue
		}
		// text segments in front of each verb
		var segs []string
		last := 0
		for i := 0; i < len(format); i++ {
			if format[i] != '%' {
				continue
			}
			if i+1 < len(format) && format[i+1] == '%' {
				i++
				continue
			}
			segs = append(segs, strings.ToLower(format[last:i]))
			last = i
		}
		for i, seg := range segs {
			if i >= len(els) {
				break
			}
			want := ""
			switch {
			case strings.Contains(seg, "minim"):
				want = "MinBalance"
			case strings.Contains(seg, "current") || strings.Contains(seg, "balance"):
				want = "CurrentBalance"
			}
			if want == "" {
				continue
			}
			n++
			d := p.Derives(0, els[i])
			other := map[string]string{"MinBalance": "CurrentBalance", "CurrentBalance": "MinBalance"}[want]
			if !d.HasFieldNamed("LowBalanceError", want) || d.HasFieldNamed("LowBalanceError", other) {
				bad = append(bad, "the text announces the "+map[string]string{"MinBalance": "minimum", "CurrentBalance": "current balance"}[want]+" in front of verb "+itoa(i+1)+" but formats "+other+" there: the client is told the wrong balance")
			}
		}
	}
	r.Floor("low-balance-text-operands", n, 2)
	r.Check(len(bad) == 0, "error-text", "balance.LowBalanceError.Error", em.Pos(), "each formatted operand is the field its words announce", "%s", strings.Join(bad, "; "))
}

// checkCutoff: Update calls disconnectPeers on a LowBalanceError before returning, and disconnectPeers tells every
// connected peer (shared with C09: a connected host that is skipped is a host that cannot be instructed).
func checkCutoff(p *an.Prog, r *an.Run) {
	// cutoff
	upd := p.Method("pool", "VipnodePool", "Update")
	dis := p.Method("pool", "VipnodePool", "disconnectPeers")
	if upd == nil || dis == nil {
		r.Undec("cutoff", "VipnodePool.Update", token.NoPos, "anchors Update/disconnectPeers not found")
		return
	}
	r.Analysed(an.FuncName(upd), an.FuncName(dis))
	onUpd := findCalls(upd, false, func(f *types.Func) bool { return isManagerMethod(f) && f.Name() == "OnUpdate" })
	if len(onUpd) != 1 {
		r.Undec("cutoff", "VipnodePool.Update", upd.Pos(), "expected one BalanceManager.OnUpdate call, found %d", len(onUpd))
		return
	}
	var bad []string
	var lbTypes []types.Type
	for _, fn := range p.Repo {
		for _, lb := range lowBalanceReturns(fn) {
			for _, res := range an.RetResults(lb.Ret) {
				if mi, ok := res.(*ssa.MakeInterface); ok {
					if n := namedOf(mi.X.Type()); n != nil && n.Obj().Name() == "LowBalanceError" {
						lbTypes = append(lbTypes, mi.X.Type())
					}
				}
			}
		}
	}
	errVals := an.ErrValues(onUpd[0])
	var lbEdge *ssa.BasicBlock
	for _, ev := range errVals {
		for _, ref := range *ev.Referrers() {
			ta, ok := ref.(*ssa.TypeAssert)
			if !ok || !ta.CommaOk {
				continue
			}
			if n := namedOf(ta.AssertedType); n == nil || n.Obj().Name() != "LowBalanceError" {
				continue
			}
			// the asserted type must be a dynamic type the balance manager actually returns
			matches := false
			for _, t := range lbTypes {
				if types.Identical(t, ta.AssertedType) {
					matches = true
				}
			}
			if !matches {
				bad = append(bad, "the error is tested against "+ta.AssertedType.String()+", but the balance manager returns "+typeList(lbTypes)+": the low-balance branch can never be taken")
				continue
			}
			for _, r2 := range *ta.Referrers() {
				if ex, ok := r2.(*ssa.Extract); ok && ex.Index == 1 {
					for _, r3 := range *ex.Referrers() {
						if iff, ok := r3.(*ssa.If); ok {
							lbEdge = iff.Block().Succs[0]
						}
					}
				}
			}
		}
	}
	isDisc := func(in ssa.Instruction) bool {
		c, ok := in.(ssa.CallInstruction)
		return ok && c.Common().StaticCallee() == dis
	}
	if lbEdge == nil {
		bad = append(bad, "the OnUpdate error is never tested for LowBalanceError")
	} else {
		if in := pathFromBlock(upd, lbEdge, isDisc, an.IsReturn); in != nil {
			bad = append(bad, "on the LowBalanceError branch a path returns at "+p.Pos(in.Pos())+" without calling disconnectPeers")
		}
		for _, c := range an.Calls(upd, false) {
			if !isDisc(c.(ssa.Instruction)) {
				continue
			}
			a := c.Common().Args // recv, ctx, nodeID, peers
			if len(a) == 4 {
				if !p.Derives(0, a[2]).HasParam(upd.Params[3]) {
					bad = append(bad, "disconnectPeers is not given the updating node's id")
				}
				oa := methodArgs(onUpd[0])
				if len(oa) == 2 && a[3] != oa[1] {
					bad = append(bad, "disconnectPeers is not given the active peer list that was billed")
				}
				// ... which is the store's whole answer: the list handed to disconnectPeers is NodePeers' result itself
				// (through phis), not a re-slice or filtered copy of it ("bill at most N hosts" applied to the shared
				// variable leaves the hosts beyond N connected to a client that was cut off)
				seenV := map[ssa.Value]bool{}
				var whole func(v ssa.Value) bool
				whole = func(v ssa.Value) bool {
					if seenV[v] {
						return true
					}
					seenV[v] = true
					switch t := v.(type) {
					case *ssa.Phi:
						for _, e := range t.Edges {
							if !whole(e) {
								return false
							}
						}
						return true
					case *ssa.Extract:
						if call, ok := t.Tuple.(*ssa.Call); ok && isStoreMethodNamed(an.CallObj(call), "NodePeers") {
							return true
						}
					}
					return false
				}
				if !whole(a[3]) {
					bad = append(bad, "the peer list given to disconnectPeers is not the store's NodePeers answer as it came (re-sliced, filtered or replaced on some path): hosts left out of it keep serving a client that was cut off")
				}
			}
		}
	}
	r.Check(len(bad) == 0, "cutoff", "(*pool.VipnodePool).Update", onUpd[0].Pos(), "LowBalanceError => disconnectPeers(nodeID, active) before returning", "%s", strings.Join(bad, "; "))

	// disconnectPeers shape
	bad = nil
	var svcCalls []ssa.CallInstruction
	for _, fn := range regionFuncs(p, dis) {
		for _, c := range an.Calls(fn, false) {
			if isServiceCall(an.CallObj(c)) {
				svcCalls = append(svcCalls, c)
			}
		}
	}
	if len(svcCalls) != 1 {
		bad = append(bad, "expected one Service.Call in disconnectPeers, found "+itoa(len(svcCalls)))
	} else {
		c := svcCalls[0]
		a := c.Common().Args // ctx, result, method, params...
		if m, ok := an.ConstString(a[2]); !ok || m != "vipnode_disconnect" {
			bad = append(bad, "the reverse call is not vipnode_disconnect")
		}
		els, ok := variadicElems(a[3])
		if !ok || len(els) != 1 || !p.DerivesIn(dis, 2, els[0]).HasParam(dis.Params[2]) {
			bad = append(bad, "vipnode_disconnect is not called with exactly the cut-off node's id")
		}
		// receiver derives from a lookup in remoteHosts keyed by a peer's ID
		d := p.DerivesIn(dis, 2, c.Common().Value)
		okLookup := false
		for _, n := range d.Nodes {
			if lk, ok := n.(*ssa.Lookup); ok && memMapField(lk.X) == "remoteHosts" {
				dk := p.Derives(0, lk.Index)
				if dk.HasParam(dis.Params[3]) && dk.HasFieldNamed("Node", "ID") {
					okLookup = true
				}
			}
		}
		if !okLookup {
			bad = append(bad, "the called service is not the registry entry of one of the given peers")
		}
		// spawned in a go statement inside the loop, counted, and collected
		nGo := 0
		an.AllInstrs(dis, func(in ssa.Instruction) {
			g, ok := in.(*ssa.Go)
			if !ok {
				return
			}
			nGo++
			inc := false
			for _, x := range g.Block().Instrs {
				if bo, ok := x.(*ssa.BinOp); ok && bo.Op == token.ADD {
					if k, ok := an.ConstInt(bo.Y); ok && k == 1 {
						inc = true
					}
				}
			}
			if !inc {
				bad = append(bad, "a disconnect call is spawned without being counted (its result is never awaited)")
			}
			// every cut-off is carried out: no return of disconnectPeers is reachable from its entry without passing the
			// loop over the peers (a quiet period, a dedupe window or a rate limit in front of it drops the instruction
			// for the hosts a client found since, and for a client cut off twice)
			if h := loopHeader(g.Block()); h != nil && g.Parent() == dis {
				// (an early return for an empty peer list has nobody to tell)
				emptyRet := func(x ssa.Instruction) bool {
					if !an.IsReturn(x) {
						return false
					}
					for _, cr := range ctrlRels(x.Block()) {
						if s0, isLen := an.LenOf(cr.L); isLen && len(dis.Params) > 3 && s0 == ssa.Value(dis.Params[3]) {
							if k, isK := an.ConstInt(cr.R); isK && ((cr.Op == token.EQL && k == 0) || (cr.Op == token.LSS && k == 1) || (cr.Op == token.LEQ && k == 0)) {
								return false
							}
						}
					}
					return true
				}
				if hit := an.PathAvoiding(dis, nil, func(x ssa.Instruction) bool { return x.Block() == h }, emptyRet, nil); hit != nil {
					bad = append(bad, "disconnectPeers can return at "+p.Pos(hit.Pos())+" without having gone through its peers: some cut-offs are not carried out")
				}
			}
			// every connected peer is told: after one call has been started the loop goes on to the next peer
			if h := loopHeader(g.Block()); h != nil {
				leaves := func(x ssa.Instruction) bool {
					if _, isRet := x.(*ssa.Return); isRet {
						return true
					}
					return !h.Dominates(x.Block())
				}
				if hit := an.PathAvoiding(g.Parent(), g, func(x ssa.Instruction) bool { return x.Block() == h }, leaves, nil); hit != nil {
					bad = append(bad, "after starting one disconnect call the loop over the peers can be left ("+p.Pos(hit.Pos())+") instead of going on: only the first connected host is asked to drop the client")
				}
			} else {
				bad = append(bad, "the disconnect call is not started inside a loop over the peers")
			}
		})
		if nGo != 1 {
			bad = append(bad, "expected the disconnect calls to be spawned by one go statement, found "+itoa(nGo))
		}
		nRecv := 0
		an.AllInstrs(dis, func(in ssa.Instruction) {
			if u, ok := in.(*ssa.UnOp); ok && u.Op == token.ARROW {
				nRecv++
				// controlled by i < count
				okBound := false
				for _, cr := range ctrlRels(u.Block()) {
					if cr.Kind == "int" && (cr.Op == token.LSS || cr.Op == token.GTR) {
						okBound = true
					}
				}
				if !okBound {
					bad = append(bad, "the result collector is not bounded by the number of spawned calls")
				}
			}
		})
		if nRecv == 0 {
			bad = append(bad, "disconnectPeers does not wait for the calls' results")
		}
	}
	r.Check(len(bad) == 0, "cutoff", "(*pool.VipnodePool).disconnectPeers", dis.Pos(), "every registered peer gets vipnode_disconnect(nodeID); all results are collected", "%s", strings.Join(bad, "; "))
}

// ---------------------------------------------------------------------------

func runC02(p *an.Prog, r *an.Run, tier string) {
	checkSurfaceClosed(p, r)
	// whose balance a credit lands on is decided by the key the drivers spell the wallet with (shared with C01/C12/C13)
	checkKeyOperandTypes(p, r)
	onUpdate := p.Method("pool/balance", "payPerInterval", "OnUpdate")
	ic := p.Method("pool/balance", "payPerInterval", "intervalCredit")
	upd := p.Method("pool", "VipnodePool", "Update")
	if onUpdate == nil || ic == nil || upd == nil {
		r.Undec("anchors", "billing", token.NoPos, "anchors OnUpdate/intervalCredit/Update not found")
		return
	}
	r.Analysed(an.FuncName(onUpdate), an.FuncName(ic), an.FuncName(upd))
	node := nodeParam(onUpdate)
	var peersPrm *ssa.Parameter
	for _, prm := range onUpdate.Params {
		if _, ok := prm.Type().Underlying().(*types.Slice); ok {
			peersPrm = prm
		}
	}
	// host-noop / zero-noop / same-credit
	var writes []ssa.CallInstruction
	for _, c := range an.Calls(onUpdate, false) {
		if isLedgerWriteCall(c) {
			writes = append(writes, c)
		}
	}
	r.Floor("ledger-writes", len(writes), 2)
	for i, w := range writes {
		key := an.FuncName(onUpdate) + "#" + itoa(i+1)
		hostG := node != nil && boolCtrl(w.Block(), func(v ssa.Value) bool { return isFieldOfParam(v, "IsHost", node) }, false)
		r.Check(hostG, "host-noop", key, w.Pos(), "ledger write is control-dependent on !node.IsHost", "a ledger write at %s is reachable for a full-node host's keep-alive: hosts must never pay", p.Pos(w.Pos()))
		// zero credit
		zeroG := false
		for _, cr := range ctrlRels(w.Block()) {
			if cr.Kind == "bigcmp" && cr.Op == token.NEQ || cr.Kind == "bigcmp" && cr.Op == token.GTR {
				dl := p.Derives(0, cr.L)
				if dl.CallTo(func(f *types.Func) bool { return an.Ident(f.Name()) == "intervalCredit" }) != nil && isZeroBig(p, cr.R) {
					zeroG = true
				}
			}
			if cr.Kind == "int" && (cr.Op == token.NEQ || cr.Op == token.GTR) {
				if c, ok := cr.L.(*ssa.Call); ok && an.IsBigIntMethod(c, "Sign") {
					if k, ok := an.ConstInt(cr.R); ok && k == 0 {
						zeroG = true
					}
				}
			}
		}
		r.Check(zeroG, "zero-noop", key, w.Pos(), "ledger write is control-dependent on credit != 0", "a ledger write at %s is reachable when the interval credit is zero", p.Pos(w.Pos()))
	}
	for i, w := range writes {
		a := methodArgs(w)
		if len(a) != 2 {
			continue
		}
		if negCallOf(p, a[1]) != nil {
			continue
		}
		key := an.FuncName(onUpdate) + "#" + itoa(i+1)
		d := p.Derives(0, a[1])
		icCall := d.CallTo(func(f *types.Func) bool { return an.Ident(f.Name()) == "intervalCredit" })
		ok := icCall != nil
		why := "the credited amount does not come from intervalCredit"
		if ok {
			da := p.Derives(0, methodArgs(icCall)[0])
			if !(node != nil && da.HasParam(node) && da.HasFieldNamed("Node", "LastSeen")) {
				ok, why = false, "intervalCredit is not given the paying node's own LastSeen"
			}
			if peersPrm != nil && da.HasParam(peersPrm) {
				ok, why = false, "intervalCredit's argument derives from a peer (a peer's LastSeen would bill the wrong time span)"
			}
			// ... as received: nothing but the parameter itself is ever written into the record's LastSeen before the
			// call (a clamped or defaulted LastSeen changes the elapsed time that is billed), and nothing but the
			// clock and that LastSeen enters the argument
			if node != nil {
				an.AllInstrs(onUpdate, func(in ssa.Instruction) {
					st, isSt := in.(*ssa.Store)
					if !isSt {
						return
					}
					root, _ := an.RootPath(st.Addr)
					al, isAl := root.(*ssa.Alloc)
					if !isAl {
						return
					}
					isSpill := false
					for _, ref := range *al.Referrers() {
						if s0, ok2 := ref.(*ssa.Store); ok2 && s0.Addr == ssa.Value(al) && s0.Val == ssa.Value(node) {
							isSpill = true
							if s0 == st {
								return
							}
						}
					}
					if !isSpill {
						return
					}
					if fv := an.FieldOf(st.Addr); fv != nil && fv.Name() != "LastSeen" {
						return
					}
					if st.Block() == icCall.Block() || an.ReachFrom([]*ssa.BasicBlock{st.Block()}, nil)[icCall.Block()] {
						ok, why = false, "the paying node's LastSeen is rewritten at "+p.Pos(st.Pos())+" before the charge is computed from it"
					}
				})
				for _, nd := range da.Nodes {
					if c, isCall := nd.(*ssa.Call); isCall && c != icCall {
						if f := an.CallObj(c); f != nil && !an.IsFunc(f, "time", "Now") {
							ok, why = false, "intervalCredit's argument passes through "+an.ObjString(f)
						}
					}
				}
			}
			for _, n := range d.Nodes {
				if c, isCall := n.(*ssa.Call); isCall && an.IsBigIntMethod(c) && c != icCall {
					ok, why = false, "the credited amount is further transformed by "+an.ObjString(an.CallObj(c))
				}
			}
		}
		r.Check(ok, "same-credit", key, w.Pos(), "credit = intervalCredit(payer.LastSeen), unmodified", "%s", why)
	}

	// bigint-only in package balance
	var narrow []string
	for _, fn := range p.Repo {
		if fn.Pkg == nil || fn.Pkg.Pkg.Path() != pkgBalance {
			continue
		}
		an.AllInstrs(fn, func(in ssa.Instruction) {
			switch x := in.(type) {
			case *ssa.Call:
				if an.IsBigIntMethod(x, "Int64", "Uint64", "Float64", "Bits", "IsInt64") {
					narrow = append(narrow, p.Pos(x.Pos())+": "+an.ObjString(an.CallObj(x)))
				}
				if f := an.CallObj(x); f != nil && f.Pkg() != nil && f.Pkg().Path() == "math/big" && an.RecvNamed(f) != nil && an.RecvNamed(f).Obj().Name() == "Float" {
					narrow = append(narrow, p.Pos(x.Pos())+": big.Float arithmetic")
				}
			case *ssa.BinOp:
				if x.Op == token.MUL || x.Op == token.QUO || x.Op == token.SHL {
					if b, ok := x.X.Type().Underlying().(*types.Basic); ok && b.Info()&(types.IsInteger|types.IsFloat) != 0 {
						_, cx := x.X.(*ssa.Const)
						_, cy := x.Y.(*ssa.Const)
						if !(cx && cy) {
							narrow = append(narrow, p.Pos(x.Pos())+": machine arithmetic "+x.Op.String())
						}
					}
				}
			}
		})
	}
	r.Check(len(narrow) == 0, "bigint-only", "package balance", ic.Pos(), "no 64-bit narrowing or machine multiply/divide in the billing package", "billing arithmetic leaves big.Int (can wrap for large prices): %s", strings.Join(narrow, "; "))

	checkMulBeforeDiv(p, r, ic)

	// div-guard: every non-test call to intervalCredit is guarded by Interval > 0
	nIC := 0
	for _, fn := range p.Repo {
		for _, c := range an.Calls(fn, false) {
			if c.Common().StaticCallee() != ic {
				continue
			}
			nIC++
			okG := false
			for _, cr := range ctrlRels(c.Block()) {
				if cr.Kind != "int" {
					continue
				}
				rel := cr.Rel
				if !derivesField(p, rel.L, "payPerInterval", "Interval") {
					rel = rel.Swap()
				}
				if derivesField(p, rel.L, "payPerInterval", "Interval") {
					if k, ok := an.ConstInt(rel.R); ok && ((k == 0 && rel.Op == token.GTR) || (k >= 1 && rel.Op == token.GEQ) || (k >= 0 && rel.Op == token.GTR)) {
						okG = true
					}
				}
			}
			r.Check(okG, "div-guard", an.FuncName(fn), c.Pos(), "intervalCredit is called only when Interval > 0", "intervalCredit (which divides by Interval) is called at %s without a dominating Interval > 0 check: a zero interval panics with division by zero", p.Pos(c.Pos()))
		}
	}
	r.Floor("intervalCredit-calls", nIC, 1)

	// snapshot-order
	getNode := findCalls(upd, false, func(f *types.Func) bool { return isStoreMethodNamed(f, "GetNode") })
	updPeers := findCalls(upd, false, func(f *types.Func) bool { return isStoreMethodNamed(f, "UpdateNodePeers") })
	nodePeers := findCalls(upd, false, func(f *types.Func) bool { return isStoreMethodNamed(f, "NodePeers") })
	onUpd := findCalls(upd, false, func(f *types.Func) bool { return isManagerMethod(f) && f.Name() == "OnUpdate" })
	if len(getNode) == 0 || len(updPeers) != 1 || len(nodePeers) == 0 || len(onUpd) != 1 {
		r.Undec("snapshot-order", "(*pool.VipnodePool).Update", upd.Pos(), "expected GetNode, one UpdateNodePeers, NodePeers and one OnUpdate call (found %d/%d/%d/%d)", len(getNode), len(updPeers), len(nodePeers), len(onUpd))
	} else {
		var bad []string
		oa := methodArgs(onUpd[0])
		d0 := p.Derives(0, oa[0])
		var src *ssa.Call
		for _, g := range getNode {
			if d0.HasValue(g.Value()) || derivesFromCall(d0, g.(*ssa.Call)) {
				src = g.(*ssa.Call)
			}
		}
		if src == nil {
			bad = append(bad, "the node given to OnUpdate does not derive from Store.GetNode")
		} else {
			if !an.Dominates(src, updPeers[0].(ssa.Instruction)) {
				bad = append(bad, "the node given to OnUpdate is read after UpdateNodePeers has overwritten LastSeen (elapsed time would always be ~0)")
			}
			// the copy must be materialised before the update as well (GetNode may return a shared pointer)
			okCopy := false
			for _, n := range d0.Nodes {
				if ld, ok := n.(*ssa.UnOp); ok && ld.Op == token.MUL {
					if ex, ok := ld.X.(*ssa.Extract); ok && ex.Tuple == ssa.Value(src) {
						if an.Dominates(ld, updPeers[0].(ssa.Instruction)) {
							okCopy = true
						} else {
							bad = append(bad, "the node record is dereferenced at "+p.Pos(ld.Pos())+" after UpdateNodePeers (a driver returning a shared pointer would expose the new LastSeen)")
						}
					}
				}
			}
			if !okCopy && len(bad) == 0 {
				bad = append(bad, "no by-value snapshot of the node is taken before UpdateNodePeers")
			}
		}
		for _, c := range d0.CallsTo(isStoreMethod) {
			if c != src {
				bad = append(bad, "the node given to OnUpdate also derives from "+an.ObjString(an.CallObj(c)))
			}
		}
		// the snapshot is the store's record as read: nothing assigns a field of it on the way to the balance manager
		// (the host flag decides who pays; "only honour it while the host's connection is registered" bills a
		// legitimate host after a pool restart or a dropped connection)
		if ld, ok := oa[0].(*ssa.UnOp); ok && ld.Op == token.MUL {
			if al, ok := ld.X.(*ssa.Alloc); ok {
				an.AllInstrs(upd, func(in ssa.Instruction) {
					st, ok := in.(*ssa.Store)
					if !ok || st.Addr == ssa.Value(al) {
						return
					}
					if root, path := an.RootPath(st.Addr); root == ssa.Value(al) && path != "" {
						bad = append(bad, "the node snapshot given to OnUpdate is edited at "+p.Pos(st.Pos())+" ("+strings.TrimPrefix(path, ".")+"): the balance manager no longer sees the stored record")
					}
				})
			}
		}
		// peers
		d1 := p.Derives(0, oa[1])
		var psrc ssa.CallInstruction
		for _, np := range nodePeers {
			if derivesFromCall(d1, np.(*ssa.Call)) {
				psrc = np
			}
		}
		if psrc == nil {
			bad = append(bad, "the peer list given to OnUpdate does not derive from Store.NodePeers")
		} else {
			reach := an.ReachAvoiding(upd, an.EdgeSet(an.ErrEdges(updPeers[0]).Succ))
			if reach[psrc.Block()] {
				bad = append(bad, "the billable peer list is read before UpdateNodePeers succeeded (evicted peers would still be billed)")
			}
			da := p.Derives(0, methodArgs(psrc)[0])
			if !da.HasParam(upd.Params[3]) {
				bad = append(bad, "NodePeers is not queried for the updating node")
			}
		}
		r.Check(len(bad) == 0, "snapshot-order", "(*pool.VipnodePool).Update", onUpd[0].Pos(), "OnUpdate(pre-update node snapshot, post-update active peers)", "%s", strings.Join(bad, "; "))

		// peer-ids
		bad = nil
		ua := methodArgs(updPeers[0])
		du := p.Derives(3, ua[1])
		var reqPrm *ssa.Parameter
		for _, prm := range upd.Params {
			if n := namedOf(prm.Type()); n != nil && n.Obj().Name() == "UpdateRequest" {
				reqPrm = prm
			}
		}
		if du.CallTo(func(f *types.Func) bool { return an.IsMethod(f, pkgEthnode, "Peers", "IDs") }) == nil {
			bad = append(bad, "peer ids do not come from ethnode.Peers.IDs")
		}
		bad = append(bad, reportedIDsComplete(p, ua[1])...)
		if reqPrm == nil || !du.HasParam(reqPrm) || !du.HasFieldNamed("UpdateRequest", "PeerInfo") {
			bad = append(bad, "peer ids do not derive from the request's PeerInfo")
		}
		if !p.Derives(0, ua[0]).HasParam(upd.Params[3]) {
			bad = append(bad, "UpdateNodePeers is not called for the verified node id")
		}
		ids := p.Method("ethnode", "Peers", "IDs")
		if ids == nil {
			bad = append(bad, "ethnode.Peers.IDs not found")
		} else {
			r.Analysed(an.FuncName(ids))
			okIDs := false
			for _, c := range an.Calls(ids, false) {
				if b, ok := c.Common().Value.(*ssa.Builtin); ok && an.Ident(b.Name()) == "append" {
					if p.Derives(0, c.Common().Args[1]).CallTo(func(f *types.Func) bool { return an.IsMethod(f, pkgEthnode, "PeerInfo", "EnodeID") }) != nil {
						okIDs = true
					}
				}
			}
			if !okIDs {
				bad = append(bad, "Peers.IDs does not collect EnodeID() of each peer")
			}
		}
		r.Check(len(bad) == 0, "peer-ids", "(*pool.VipnodePool).Update", updPeers[0].Pos(), "UpdateNodePeers(nodeID, Peers(req.PeerInfo).IDs())", "%s", strings.Join(bad, "; "))
	}

	// the client is debited exactly what its peers were credited (the same pairing obligations as C01, for this property's clause
	// "the client is debited exactly the sum ... a failed update is all-or-nothing" as far as structure can tell)
	checkPairing(p, r, onUpdate, false)
	checkBigIntOwnership(p, r)
	// who is billed is who the store tracks as the client's active peers, and what is moved is what the drivers write:
	// the tracked-peer rules of C11 and the drivers' ledger rules of C01 are necessary conditions here too
	runC11(p, r, tier)
	for _, d := range p.Implementations(p.Iface("pool/store", "Store")) {
		checkDriverLedger(p, r, d)
	}

	// lastseen-writers: outside the drivers a node record is only ever (re)written with LastSeen = time.Now();
	// writing back an older record rewinds LastSeen and the same stretch of time is billed again
	{
		var bad []string
		n := 0
		for _, fn := range p.Repo {
			if inDriverPkg(fn) || takesTestingT(fn) || strings.HasSuffix(p.File(fn.Pos()), "testsuite.go") || isTestDoublePkg(fn) {
				continue
			}
			for _, c := range an.Calls(fn, false) {
				if !isStoreMethodNamed(an.CallObj(c), "SetNode") {
					continue
				}
				n++
				arg := methodArgs(c)[0]
				al := allocOfValue(arg)
				okNow := false
				if al != nil {
					for _, ref := range *al.Referrers() {
						if fa, ok := ref.(*ssa.FieldAddr); ok && an.FieldOf(fa) != nil && an.FieldOf(fa).Name() == "LastSeen" {
							for _, r2 := range *fa.Referrers() {
								if st, ok := r2.(*ssa.Store); ok && p.Derives(0, st.Val).CallTo(func(f *types.Func) bool { return an.IsFunc(f, "time", "Now") }) != nil {
									okNow = true
								}
							}
						}
						if st, ok := ref.(*ssa.Store); ok && st.Addr == ssa.Value(al) {
							okNow = false // whole record copied from elsewhere
							bad = append(bad, "SetNode in "+an.FuncName(fn)+" at "+p.Pos(c.Pos())+" writes back a node record copied from an earlier read: its LastSeen is rewound and the time since then is charged again at the next keep-alive")
						}
					}
				}
				if !okNow {
					bad = append(bad, "SetNode in "+an.FuncName(fn)+" at "+p.Pos(c.Pos())+" stores a node whose LastSeen is not time.Now()")
				}
			}
		}
		r.Floor("setnode-callers", n, 1)
		r.Check(len(bad) == 0, "lastseen-writers", "pool", token.NoPos, "node records are only written with LastSeen = now outside the drivers", "%s", strings.Join(dedup(bad), "; "))
	}

	// ledger-writers (shared with C01): the credits and the debit of an update go through the contract's ledger methods
	checkLedgerWriterMethods(p, r)

	// lastseen-written
	drivers := p.Implementations(p.Iface("pool/store", "Store"))
	r.Floor("drivers", len(drivers), 2)
	for _, d := range drivers {
		m := p.MethodOf(d, "UpdateNodePeers")
		if m == nil {
			continue
		}
		r.Analysed(an.FuncName(m))
		checkLastSeenWritten(p, r, d, m)
		if sn := p.MethodOf(d, "SetNode"); sn != nil {
			r.Analysed(an.FuncName(sn))
			checkSetNodeStoresParam(p, r, d, sn)
		}
	}
	conn := p.Method("pool", "VipnodePool", "connect")
	if conn != nil {
		r.Analysed(an.FuncName(conn))
		okc := false
		an.AllInstrs(conn, func(in ssa.Instruction) {
			if st, ok := in.(*ssa.Store); ok {
				if fv := an.FieldOf(st.Addr); fv != nil && fv.Name() == "LastSeen" {
					if p.Derives(0, st.Val).CallTo(func(f *types.Func) bool { return an.IsFunc(f, "time", "Now") }) != nil {
						okc = true
					}
				}
			}
		})
		r.Check(okc, "lastseen-written", "(*pool.VipnodePool).connect", conn.Pos(), "connect registers LastSeen = time.Now()", "connect does not register the node with LastSeen = time.Now(): the first keep-alive would bill from the zero time")
	}
}

func isZeroBig(p *an.Prog, v ssa.Value) bool {
	root, path := an.RootPath(v)
	if path != "" {
		return false
	}
	switch x := root.(type) {
	case *ssa.Alloc:
		// new(big.Int) never written
		d := p.Derives(0, x)
		for _, n := range d.Nodes {
			if n != ssa.Value(x) {
				return false
			}
		}
		return true
	case *ssa.Call:
		if an.IsFunc(an.CallObj(x), "math/big", "NewInt") {
			k, ok := an.ConstInt(x.Call.Args[0])
			return ok && k == 0
		}
	case *ssa.Global:
		return strings.Contains(strings.ToLower(x.Name()), "zero")
	}
	return false
}

func checkMulBeforeDiv(p *an.Prog, r *an.Run, ic *ssa.Function) {
	key := an.FuncName(ic)
	var bad []string
	lastSeen := ic.Params[len(ic.Params)-1]
	classify := func(v ssa.Value) (elapsed, price, interval bool) {
		d := p.Derives(0, v)
		for _, n := range d.Nodes {
			if c, ok := n.(*ssa.Call); ok {
				if f := an.CallObj(c); f != nil && (an.IsMethod(f, "time", "Time", "Sub") || an.IsFunc(f, "time", "Since")) {
					if p.Derives(0, c.Call.Args...).HasParam(lastSeen) {
						elapsed = true
					}
				}
			}
		}
		price = d.HasFieldNamed("payPerInterval", "CreditPerInterval")
		interval = d.HasFieldNamed("payPerInterval", "Interval")
		return
	}
	nRet := 0
	an.AllInstrs(ic, func(in ssa.Instruction) {
		ret, ok := in.(*ssa.Return)
		if !ok || len(ret.Results) != 1 {
			return
		}
		nRet++
		res := an.RetResults(ret)[0]
		var div ssa.CallInstruction
		if c, ok := res.(*ssa.Call); ok && an.IsBigIntMethod(c, "Div", "Quo") {
			div = c
		} else {
			// returned alloc: the last mutator before the return must be the division
			root := bigRoot(res)
			var last ssa.CallInstruction
			for _, c := range an.Calls(ic, false) {
				if an.IsBigIntMutator(c) {
					if r0 := bigRoot(c.Common().Args[0]); r0 == root && an.Dominates(c.(ssa.Instruction), ret) {
						if last == nil || an.Dominates(last.(ssa.Instruction), c.(ssa.Instruction)) {
							last = c
						}
					}
				}
			}
			if last != nil && an.IsBigIntMethod(last, "Div", "Quo") {
				div = last
			}
		}
		if div == nil {
			bad = append(bad, "the returned credit is not the result of a big.Int division (division must come last: floor(elapsed*price/interval))")
			return
		}
		a := div.Common().Args // recv, x, y
		e, pr, iv := classify(a[2])
		if !iv || e || pr {
			bad = append(bad, "the divisor is not the billing Interval alone")
		}
		// dividend: the multiplication feeding it
		var muls []ssa.CallInstruction
		for _, c := range an.Calls(ic, false) {
			if an.IsBigIntMethod(c, "Mul") {
				muls = append(muls, c)
			}
		}
		if len(muls) != 1 {
			bad = append(bad, "expected exactly one multiplication, found "+itoa(len(muls)))
		} else {
			m := muls[0]
			rm := bigRoot(m.Common().Args[0])
			rx := bigRoot(a[1])
			if rm != rx {
				bad = append(bad, "the dividend is not the product elapsed*price")
			}
			if !an.Dominates(m.(ssa.Instruction), div.(ssa.Instruction)) {
				bad = append(bad, "the multiplication does not precede the division (premature division truncates)")
			}
			e1, p1, i1 := classify(m.Common().Args[1])
			e2, p2, i2 := classify(m.Common().Args[2])
			// operands must be exactly {elapsed, price} with no interval mixed in and no prior division
			if !((e1 && p2 && !p1 && !e2) || (e2 && p1 && !p2 && !e1)) || i1 || i2 {
				bad = append(bad, "the product's operands are not (elapsed since lastSeen, CreditPerInterval)")
			}
		}
		nDiv := 0
		for _, c := range an.Calls(ic, false) {
			if an.IsBigIntMethod(c, "Div", "Quo", "Rem", "Mod", "DivMod", "QuoRem", "Rsh") {
				nDiv++
			}
		}
		if nDiv != 1 {
			bad = append(bad, "expected exactly one division, found "+itoa(nDiv))
		}
	})
	if nRet == 0 {
		bad = append(bad, "no return found")
	}
	r.Check(len(bad) == 0, "mul-before-div", key, ic.Pos(), "credit = (elapsed * price) / interval in big.Int arithmetic, division last", "%s", strings.Join(bad, "; "))
}

func checkLastSeenWritten(p *an.Prog, r *an.Run, d *types.Named, m *ssa.Function) {
	kind := driverKind(d)
	key := kind + ".UpdateNodePeers"
	var bad []string
	var recAlloc ssa.Value
	var storeIn ssa.Instruction
	for _, fn := range an.WithAnon(m) {
		an.AllInstrs(fn, func(in ssa.Instruction) {
			st, ok := in.(*ssa.Store)
			if !ok {
				return
			}
			fv := an.FieldOf(st.Addr)
			if fv == nil || fv.Name() != "LastSeen" {
				return
			}
			if p.Derives(0, st.Val).CallTo(func(f *types.Func) bool { return an.IsFunc(f, "time", "Now") }) != nil {
				root, _ := an.RootPath(st.Addr)
				recAlloc = root
				storeIn = in
			}
		})
	}
	if recAlloc == nil {
		bad = append(bad, "the updating node's LastSeen is not set to time.Now() (the same time span would be billed again at the next keep-alive)")
	} else {
		// persisted: a write op in the node space whose value is that record
		persisted := false
		for _, o := range driverOps(p, d, m) {
			if o.Kind != opWrite || !o.inSpace("node") || o.Val == nil {
				continue
			}
			v := underlyingConcrete(o.Val)
			if u, ok := v.(*ssa.UnOp); ok && u.Op == token.MUL {
				v = u.X
			}
			root, _ := an.RootPath(v)
			if sameObject(root, recAlloc) {
				if storeIn.Parent() != o.In.Parent() || storeIn == o.In || an.Dominates(storeIn, o.In) {
					persisted = true
				}
			}
		}
		if !persisted {
			bad = append(bad, "the record carrying the new LastSeen is not written back to the node space")
		}
	}
	r.Check(len(bad) == 0, "lastseen-written", key, m.Pos(), "LastSeen = time.Now() is persisted for the updating node", "%s", strings.Join(bad, "; "))
}

// sameObject: a and b denote the same variable, allowing for one being the
// free-variable view of the other's alloc.
func sameObject(a, b ssa.Value) bool {
	if a == b {
		return true
	}
	res := func(v ssa.Value) ssa.Value {
		if fv, ok := v.(*ssa.FreeVar); ok {
			fn := fv.Parent()
			if par := fn.Parent(); par != nil {
				for i, x := range fn.FreeVars {
					if x == fv {
						var out ssa.Value
						an.AllInstrs(par, func(in ssa.Instruction) {
							if mc, ok := in.(*ssa.MakeClosure); ok && mc.Fn == fn && i < len(mc.Bindings) {
								out = mc.Bindings[i]
							}
						})
						if out != nil {
							return out
						}
					}
				}
			}
		}
		return v
	}
	return res(a) == res(b)
}

// bigRoot returns the object a *big.Int value points to: mutator calls return
// their receiver, so their result is the receiver's object.
func bigRoot(v ssa.Value) ssa.Value {
	for {
		root, _ := an.RootPath(v)
		if c, ok := root.(*ssa.Call); ok && an.IsBigIntMutator(c) && len(c.Call.Args) > 0 {
			v = c.Call.Args[0]
			continue
		}
		return root
	}
}

func typeList(ts []types.Type) string {
	var ss []string
	for _, t := range ts {
		ss = append(ss, t.String())
	}
	return strings.Join(dedup(ss), ", ")
}

// checkNoBypass: the only ways to accept (return a nil error) are MinBalance == nil,
// the node being a host, or the balance comparison's non-refusing edge. Any other
// accepting path (e.g. "minimum <= 0 counts as unset") lets a client below the
// configured minimum through. When from is non-nil the search starts at its
// success edges (OnUpdate: after the debit), otherwise at the function entry.
func checkNoBypass(p *an.Prog, r *an.Run, fn *ssa.Function, from ssa.CallInstruction) {
	node := nodeParam(fn)
	cut := map[an.Edge]bool{}
	nCmp := 0
	an.AllInstrs(fn, func(in ssa.Instruction) {
		iff, ok := in.(*ssa.If)
		if !ok {
			return
		}
		b := iff.Block()
		// IsHost
		v, w := iff.Cond, true
		for {
			if u, ok := v.(*ssa.UnOp); ok && u.Op == token.NOT {
				v, w = u.X, !w
				continue
			}
			break
		}
		if node != nil && isFieldOfParam(v, "IsHost", node) {
			if w {
				cut[an.Edge{From: b, To: b.Succs[0]}] = true
			} else {
				cut[an.Edge{From: b, To: b.Succs[1]}] = true
			}
			return
		}
		rel, ok := an.NormCond(iff.Cond)
		if !ok {
			return
		}
		lMin := derivesField(p, rel.L, "", "MinBalance")
		rMin := derivesField(p, rel.R, "", "MinBalance")
		switch {
		case (rel.Op == token.EQL || rel.Op == token.NEQ) && ((lMin && isNilValue(rel.R)) || (rMin && isNilValue(rel.L))):
			if rel.Op == token.EQL {
				cut[an.Edge{From: b, To: b.Succs[0]}] = true
			} else {
				cut[an.Edge{From: b, To: b.Succs[1]}] = true
			}
		case rel.Kind == "bigcmp" && lMin != rMin:
			if lMin {
				rel = rel.Swap()
			}
			// refusing edge: balance < min ; the other edge is the legitimate accept
			nCmp++
			switch rel.Op {
			case token.LSS, token.LEQ:
				cut[an.Edge{From: b, To: b.Succs[1]}] = true
			case token.GEQ, token.GTR:
				cut[an.Edge{From: b, To: b.Succs[0]}] = true
			}
		}
	})
	// a call of the shared min-balance helper is the comparison: its success edge is the legitimate accept (the helper
	// itself is checked in its own right below)
	for _, c := range an.Calls(fn, false) {
		h := c.Common().StaticCallee()
		if h == nil || h == fn || len(lowBalanceReturns(h)) == 0 || !isMinBalanceHelper(p, h, fn, p.Method("pool/balance", "payPerInterval", "OnClient"), p.Method("pool/balance", "payPerInterval", "OnUpdate")) {
			continue
		}
		nCmp++
		for _, e := range an.ErrEdges(c).Succ {
			cut[e] = true
		}
		checkNoBypass(p, r, h, nil)
	}
	isAccept := func(in ssa.Instruction) bool {
		ret, ok := in.(*ssa.Return)
		if !ok {
			return false
		}
		rr := an.RetResults(ret)
		if len(rr) == 0 {
			return true
		}
		res := rr[len(rr)-1]
		if c, ok := res.(*ssa.Const); ok && c.IsNil() {
			return true
		}
		return false
	}
	var found ssa.Instruction
	if from == nil {
		found = an.PathAvoiding(fn, nil, nil, isAccept, cut)
	} else {
		for _, e := range an.ErrEdges(from).Succ {
			if in := pathFromBlockCut(fn, e.To, isAccept, cut); in != nil {
				found = in
			}
		}
	}
	name := an.FuncName(fn)
	if nCmp == 0 {
		r.Fail("no-bypass", name, fn.Pos(), "no comparison with MinBalance found")
		return
	}
	if found != nil {
		r.Fail("no-bypass", name, found.Pos(), "the node is accepted at %s on a path that is neither 'MinBalance unset', 'node is a host' nor 'balance >= MinBalance': some configured minimum (e.g. zero or negative) is silently not enforced", p.Pos(found.Pos()))
	} else {
		r.Ok("no-bypass", name, fn.Pos(), "acceptance only via MinBalance == nil, IsHost, or balance >= MinBalance")
	}
}

func pathFromBlockCut(fn *ssa.Function, b *ssa.BasicBlock, bad func(ssa.Instruction) bool, cut map[an.Edge]bool) ssa.Instruction {
	if len(b.Instrs) == 0 {
		return nil
	}
	first := b.Instrs[0]
	if bad(first) {
		return first
	}
	return an.PathAvoiding(fn, first, nil, bad, cut)
}

// checkSetNodeStoresParam: SetNode persists the caller's record, in particular its LastSeen (connect relies on it to
// restart the billing clock): the record written to the node space receives the parameter as a whole, and its
// LastSeen is not overwritten from anything else (e.g. the record stored earlier).
func checkSetNodeStoresParam(p *an.Prog, r *an.Run, d *types.Named, m *ssa.Function) {
	kind := driverKind(d)
	key := kind + ".SetNode"
	var bad []string
	if len(m.Params) < 2 {
		r.Undec("lastseen-written", key, m.Pos(), "SetNode has no node parameter")
		return
	}
	prm := m.Params[1]
	fns := an.WithAnon(m)
	isParamVal := func(v ssa.Value) bool {
		v = an.Unspill(v)
		if v == ssa.Value(prm) {
			return true
		}
		if fv, ok := v.(*ssa.FreeVar); ok && fv.Name() == prm.Name() {
			return true
		}
		if u, ok := v.(*ssa.UnOp); ok && u.Op == token.MUL {
			root, path := an.RootPath(u.X)
			if path != "" {
				return false
			}
			if fv, ok := root.(*ssa.FreeVar); ok && fv.Name() == prm.Name() {
				return true
			}
			if a, ok := root.(*ssa.Alloc); ok {
				n, okAll := 0, true
				for _, ref := range *a.Referrers() {
					if st, ok := ref.(*ssa.Store); ok && st.Addr == ssa.Value(a) {
						n++
						if st.Val != ssa.Value(prm) {
							okAll = false
						}
					}
				}
				return n == 1 && okAll
			}
		}
		return false
	}
	nWrites := 0
	for _, o := range driverOps(p, d, m) {
		if o.Kind != opWrite || !o.inSpace("node") || o.Val == nil {
			continue
		}
		nWrites++
		v := underlyingConcrete(o.Val)
		if u, ok := v.(*ssa.UnOp); ok && u.Op == token.MUL {
			v = u.X
		}
		rec, _ := an.RootPath(v)
		whole := false
		if isParamVal(v) || isParamVal(o.Val) {
			whole = true
		}
		if a, ok := rec.(*ssa.Alloc); ok {
			for _, ref := range *a.Referrers() {
				if st, ok := ref.(*ssa.Store); ok && st.Addr == ssa.Value(a) && st.Val == ssa.Value(prm) {
					whole = true // the record is the parameter's own cell
				}
			}
		}
		for _, fn := range fns {
			an.AllInstrs(fn, func(in ssa.Instruction) {
				st, ok := in.(*ssa.Store)
				if !ok {
					return
				}
				root, _ := an.RootPath(st.Addr)
				if !sameObject(root, rec) {
					return
				}
				if n, ok := st.Val.Type().(*types.Named); ok && n.Obj().Name() == "Node" && n.Obj().Pkg() != nil && strings.HasSuffix(n.Obj().Pkg().Path(), "pool/store") {
					if isParamVal(st.Val) {
						whole = true
					} else {
						bad = append(bad, "the stored record's Node part is not the caller's record ("+p.Pos(st.Pos())+")")
					}
					return
				}
				if fv := an.FieldOf(st.Addr); fv != nil && fv.Name() == "LastSeen" {
					fromPrm := false
					if ld, ok := st.Val.(*ssa.UnOp); ok && ld.Op == token.MUL {
						if f2 := an.FieldOf(ld.X); f2 != nil && f2.Name() == "LastSeen" {
							if r0, _ := an.RootPath(ld.X); an.Unspill(&ssa.UnOp{Op: token.MUL, X: r0}) == ssa.Value(prm) || r0 == ssa.Value(prm) {
								fromPrm = true
							}
						}
					}
					if fl, ok := st.Val.(*ssa.Field); ok && isParamVal(fl.X) {
						fromPrm = true
					}
					if !fromPrm {
						bad = append(bad, "the stored record's LastSeen is overwritten ("+p.Pos(st.Pos())+"): a re-registration (connect) would not restart the billing clock and the first keep-alive after it bills the offline gap")
					}
				}
			})
		}
		if !whole {
			bad = append(bad, "the record written to the node space does not receive the caller's record as a whole")
		}
	}
	if nWrites == 0 {
		bad = append(bad, "SetNode does not write the node space")
	}
	r.Check(len(bad) == 0, "lastseen-written", key, m.Pos(), "SetNode persists the caller's record, LastSeen included", "%s", strings.Join(dedup(bad), "; "))
}

// checkMinBalanceWiring: the pool binary installs the configured minimum for every value of the option except the
// documented "off": the store into payPerInterval.MinBalance in main is controlled only by the "off" comparison and by
// error gates, and its value derives from the option.
func checkMinBalanceWiring(p *an.Prog, r *an.Run) {
	runPool := p.Func("", "runPool")
	if runPool == nil {
		r.Undec("wiring", "main.runPool", token.NoPos, "main.runPool not found")
		return
	}
	r.Analysed(an.FuncName(runPool))
	n, nParse := 0, 0
	var bad []string
	for _, fn := range regionFuncs(p, runPool) {
		an.AllInstrs(fn, func(in ssa.Instruction) {
			st, ok := in.(*ssa.Store)
			if !ok {
				return
			}
			fv := an.FieldOf(st.Addr)
			if fv == nil || fv.Name() != "MinBalance" {
				return
			}
			if _, ok := fv.Type().(*types.Pointer); !ok {
				return
			}
			n++
			dv := p.DerivesIn(runPool, 2, st.Val)
			fromOption := false
			for _, nd := range dv.Nodes {
				if f := an.FieldOf(nd); f != nil && f.Name() == "MinBalance" {
					if b, ok := f.Type().Underlying().(*types.Basic); ok && b.Info()&types.IsString != 0 {
						fromOption = true
					}
				}
			}
			if !fromOption {
				bad = append(bad, "the installed minimum at "+p.Pos(st.Pos())+" does not derive from the min-balance option")
			}
			// the threshold is an exact number of wei: whatever turns the option's text into it stays in exact arithmetic
			// (big.Int / big.Rat); a float64 on the way moves the threshold by wei for most decimal fractions
			for _, nd := range dv.Nodes {
				c, ok := nd.(*ssa.Call)
				if !ok {
					continue
				}
				callee := c.Call.StaticCallee()
				if callee == nil || !p.InRepo(callee) || len(callee.Blocks) == 0 {
					continue
				}
				nParse++
				for _, rf := range regionFuncs(p, callee) {
					if why := floatArithmetic(p, rf); why != "" {
						bad = append(bad, "the configured minimum is converted by "+an.FuncName(callee)+" through floating point ("+why+"): the installed threshold differs from the configured amount by some wei, so a client holding exactly the minimum is refused or one just below it is let in")
					}
				}
			}
			for _, c := range an.ControllingIfs(st.Block()) {
				if isErrNilTest(c.If.Cond) {
					continue
				}
				if rel, ok := an.NormCond(c.If.Cond); ok && rel.Kind == "string" && (rel.Op == token.EQL || rel.Op == token.NEQ) {
					// a spelled-out value of the option itself ("off", "", "none"): the operator switching the rule off
					_, lok := an.ConstString(rel.L)
					_, rok := an.ConstString(rel.R)
					other := rel.L
					if lok {
						other = rel.R
					}
					if lok != rok && isMinBalanceOption(p, other) {
						continue
					}
				}
				bad = append(bad, "the configured minimum is installed only under an extra condition ("+p.Pos(c.If.Pos())+"): for the values it excludes a client below the minimum is neither refused nor cut off")
			}
		})
	}
	r.Floor("min-balance-wiring", n, 1)
	r.Floor("min-balance-parsers", nParse, 1)
	r.Check(len(bad) == 0, "wiring", "main.runPool", runPool.Pos(), "the configured minimum is installed for every value but \"off\"", "%s", strings.Join(dedup(bad), "; "))
}

// isErrNilTest: v is "e == nil" / "e != nil" for an error-typed e.
func isErrNilTest(v ssa.Value) bool {
	b, ok := v.(*ssa.BinOp)
	if !ok || (b.Op != token.EQL && b.Op != token.NEQ) {
		return false
	}
	isNil := func(x ssa.Value) bool { c, ok := x.(*ssa.Const); return ok && c.Value == nil }
	isErr := func(x ssa.Value) bool { return types.Identical(x.Type(), types.Universe.Lookup("error").Type()) }
	return (isNil(b.Y) && isErr(b.X)) || (isNil(b.X) && isErr(b.Y))
}

// checkBalanceReadErrors: the spendable balance compared with the minimum is what BalanceStore.GetNodeBalance returns.
// A BalanceStore that composes it from several sources (the contract proxy: stored credit + on-chain deposit) must
// report a failed source as an error; returning the partial balance with a nil error makes a funded client look poor
// (refused / cut off with a wrong CurrentBalance).
func checkBalanceReadErrors(p *an.Prog, r *an.Run) {
	bs := p.Iface("pool/store", "BalanceStore")
	full := p.Iface("pool/store", "Store")
	n := 0
	for _, impl := range p.Implementations(bs) {
		if full != nil && (types.Implements(impl, full) || types.Implements(types.NewPointer(impl), full)) {
			continue // the drivers: single-source reads, covered by C12/C13
		}
		for _, name := range []string{"GetNodeBalance", "GetAccountBalance"} {
			m := p.MethodOf(impl, name)
			if m == nil || p.IsTestFunc(m) {
				continue
			}
			n++
			r.Analysed(an.FuncName(m))
			var bad []string
			for _, fn := range regionFuncs(p, m) {
				for _, c := range an.Calls(fn, false) {
					bad = append(bad, failPropagates(p, fn, c)...)
					bad = append(bad, sentinelSwallowed(p, fn, c)...)
				}
			}
			// the deposit is left out only for a balance that has no account (a node still on its trial balance): a
			// successful return that did not pass the deposit read is controlled by "the balance's Account is empty"
			var depReads []ssa.Instruction
			for _, c := range an.Calls(m, false) {
				if callee := c.Common().StaticCallee(); callee != nil && p.InRepo(callee) && callee.Signature.Results().Len() == 2 && isBigIntPtr(callee.Signature.Results().At(0).Type()) {
					depReads = append(depReads, c.(ssa.Instruction))
				}
			}
			if len(depReads) > 0 {
				isDep := func(in ssa.Instruction) bool {
					for _, d := range depReads {
						if in == d {
							return true
						}
					}
					return false
				}
				an.AllInstrs(m, func(in ssa.Instruction) {
					ret, ok := in.(*ssa.Return)
					if !ok {
						return
					}
					if cls, _ := returnClass(ret); cls != "nil" {
						return
					}
					// reachable without the deposit read?
					if an.PathAvoiding(m, nil, isDep, func(x ssa.Instruction) bool { return x == in }, nil) == nil {
						return
					}
					okTrial := false
					for _, cr := range ctrlRels(ret.Block()) {
						for _, pair := range [][2]ssa.Value{{cr.L, cr.R}, {cr.R, cr.L}} {
							x := pair[0]
							if lx, isLen := an.LenOf(x); isLen {
								x = lx
							}
							fv := an.FieldOf(stripLoad(stripConv(x)))
							if fv == nil || fv.Name() != "Account" {
								continue
							}
							if k, isK := an.ConstInt(pair[1]); isK && k == 0 && cr.Op == token.EQL {
								okTrial = true
							}
							if cs, isS := an.ConstString(pair[1]); isS && cs == "" && cr.Op == token.EQL {
								okTrial = true
							}
						}
					}
					if !okTrial {
						bad = append(bad, "the balance is returned at "+p.Pos(ret.Pos())+" without the deposit although that is not confined to balances without an account: a funded wallet is judged on its credit alone (refused at the minimum, paid out short)")
					}
				})
			}
			r.Check(len(bad) == 0, "balance-errors", an.FuncName(m), m.Pos(), "a failed balance source is reported, never replaced by a partial balance", "%s", strings.Join(dedup(bad), "; "))
		}
	}
	r.Floor("composed-balance-reads", n, 2)
}

// sentinelSwallowed: "if err == ErrSomething { return partial, nil }" — on the branch where a call's error equals a
// sentinel (so it is non-nil) no return may report success.
func sentinelSwallowed(p *an.Prog, fn *ssa.Function, c ssa.CallInstruction) []string {
	var bad []string
	evs := an.ErrValues(c)
	isEv := func(v ssa.Value) bool {
		for _, e := range evs {
			if e == v {
				return true
			}
		}
		return false
	}
	for _, ev := range evs {
		for _, ref := range *ev.Referrers() {
			b, ok := ref.(*ssa.BinOp)
			if !ok || (b.Op != token.EQL && b.Op != token.NEQ) {
				continue
			}
			other := b.Y
			if other == ev {
				other = b.X
			}
			if cst, ok := other.(*ssa.Const); ok && cst.Value == nil {
				continue
			}
			for _, rr := range *b.Referrers() {
				iff, ok := rr.(*ssa.If)
				if !ok {
					continue
				}
				eq := 0
				if b.Op == token.NEQ {
					eq = 1
				}
				start := iff.Block().Succs[eq]
				seen := map[*ssa.BasicBlock]bool{}
				work := []*ssa.BasicBlock{start}
				for len(work) > 0 {
					blk := work[len(work)-1]
					work = work[:len(work)-1]
					if seen[blk] {
						continue
					}
					seen[blk] = true
					for _, in := range blk.Instrs {
						if ret, ok := in.(*ssa.Return); ok {
							res := an.RetResults(ret)
							if len(res) == 0 {
								continue
							}
							last := res[len(res)-1]
							if an.IsErrorType(last.Type()) && !(definitelyNonNilError(last) || isEv(last) || returnOnFailEdge(ret, last)) {
								bad = append(bad, "when "+callName(c)+" fails with a particular error ("+p.Pos(iff.Pos())+") the return at "+p.Pos(ret.Pos())+" reports success with a partial result")
							}
						}
					}
					for i, sc := range blk.Succs {
						if !an.DeadEdge(blk, i) {
							work = append(work, sc)
						}
					}
				}
			}
		}
	}
	return dedup(bad)
}

// isMinBalanceHelper: fn builds the LowBalanceError for the anchors: it is never used as a value and every static call
// site is in one of them.
func isMinBalanceHelper(p *an.Prog, fn *ssa.Function, anchors ...*ssa.Function) bool {
	if p.IsAddressTaken(fn) {
		return false
	}
	sites := p.StaticSites(fn)
	if len(sites) == 0 {
		return false
	}
	for _, s := range sites {
		ok := false
		for _, a := range anchors {
			if s.Parent() == a {
				ok = true
			}
		}
		if !ok {
			return false
		}
	}
	return true
}

// isMinBalanceOption: v is the min-balance option string itself (a load of a string field named MinBalance).
func isMinBalanceOption(p *an.Prog, v ssa.Value) bool {
	for _, nd := range p.Derives(0, v).Nodes {
		if f := an.FieldOf(nd); f != nil && f.Name() == "MinBalance" {
			if b, ok := f.Type().Underlying().(*types.Basic); ok && b.Info()&types.IsString != 0 {
				return true
			}
		}
	}
	return false
}

// checkMinImmutable: the configured minimum is a *big.Int shared by the manager and by every LowBalanceError it hands
// out; "exactly when below the minimum" presupposes that nothing computes in place on it (big.Int methods store their
// result in the receiver).
func checkMinImmutable(p *an.Prog, r *an.Run) {
	var bad []string
	n := 0
	for _, fn := range p.Repo {
		if p.IsTestFunc(fn) || isTestDoublePkg(fn) {
			continue
		}
		for _, c := range an.Calls(fn, false) {
			if !an.IsBigIntMutator(c) || len(c.Common().Args) == 0 {
				continue
			}
			n++
			recv := c.Common().Args[0]
			// the receiver pointer itself is a load of a MinBalance field (not a fresh value derived from it)
			v := recv
			for {
				if ph, ok := v.(*ssa.Phi); ok && len(ph.Edges) > 0 {
					v = ph.Edges[0]
					continue
				}
				break
			}
			if ld, ok := v.(*ssa.UnOp); ok && ld.Op == token.MUL {
				if fv := an.FieldOf(ld.X); fv != nil && (fv.Name() == "MinBalance" || fv.Name() == "WithdrawMin") {
					bad = append(bad, an.ObjString(an.CallObj(c))+" in "+an.FuncName(fn)+" at "+p.Pos(c.Pos())+" stores its result in the shared "+fv.Name()+" value: the configured minimum changes for every client judged afterwards")
				}
			}
			if fl, ok := v.(*ssa.Field); ok {
				if fv := an.FieldOf(fl); fv != nil && (fv.Name() == "MinBalance" || fv.Name() == "WithdrawMin") {
					bad = append(bad, an.ObjString(an.CallObj(c))+" in "+an.FuncName(fn)+" at "+p.Pos(c.Pos())+" stores its result in the shared "+fv.Name()+" value: the configured minimum changes for every client judged afterwards")
				}
			}
		}
	}
	r.Floor("bigint-mutator-calls", n, 10)
	r.Check(len(bad) == 0, "min-immutable", "repo", token.NoPos, "nothing computes in place on the configured minimum", "%s", strings.Join(dedup(bad), "; "))
}

// reportedIDsComplete: the id list handed to the store is the list Peers.IDs() returned, as a whole — not a prefix,
// sample or filtered copy of it (a bound counted by position drops registered, live, reported peers behind unknown ids).
func reportedIDsComplete(p *an.Prog, arg ssa.Value) []string {
	v := p.Resolve(arg)
	for {
		switch x := v.(type) {
		case *ssa.ChangeType:
			v = x.X
			continue
		case *ssa.Convert:
			v = x.X
			continue
		}
		break
	}
	if c, ok := v.(*ssa.Call); ok {
		if an.IsMethod(an.CallObj(c), pkgEthnode, "Peers", "IDs") {
			return nil
		}
		// through a repo helper: it must hand on the IDs() result itself on every return
		if h := c.Common().StaticCallee(); h != nil && p.InRepo(h) && len(h.Blocks) > 0 {
			okAll := true
			nRet := 0
			an.AllInstrs(h, func(in ssa.Instruction) {
				ret, ok := in.(*ssa.Return)
				if !ok || len(ret.Results) == 0 {
					return
				}
				nRet++
				rv := an.RetResults(ret)[0]
				for {
					if ct, ok := rv.(*ssa.ChangeType); ok {
						rv = ct.X
						continue
					}
					break
				}
				rc, isCall := rv.(*ssa.Call)
				if !isCall || !an.IsMethod(an.CallObj(rc), pkgEthnode, "Peers", "IDs") {
					okAll = false
				}
			})
			if okAll && nRet > 0 {
				return nil
			}
			return []string{"the id list handed to the store is rebuilt by " + an.FuncName(h) + " (filtered, bounded or re-sliced) instead of being the reported list as a whole: a registered, live, reported peer can be left out"}
		}
	}
	return []string{"the id list handed to the store is not the result of Peers.IDs() as a whole"}
}

// checkConnectOrder: the connect-time check reads the node's balance by its id, and both drivers answer
// ErrUnregisteredNode for an id they do not hold: the manager's OnClient is only reached once the node record has been
// saved (otherwise a first-time client at or above the minimum is refused, and one below it gets the wrong error).
func checkConnectOrder(p *an.Prog, r *an.Run) {
	var conn *ssa.Function
	var onc, setn ssa.CallInstruction
	vp := p.Named("pool", "VipnodePool")
	if vp == nil {
		r.Undec("connect-order", "pool.VipnodePool", token.NoPos, "type not found")
		return
	}
	for _, fn := range p.Repo {
		if p.IsTestFunc(fn) || fn.Signature.Recv() == nil || namedOf(fn.Signature.Recv().Type()) != vp {
			continue
		}
		for _, c := range an.Calls(fn, false) {
			if f := an.CallObj(c); f != nil && f.Name() == "OnClient" && an.RecvNamed(f) != nil && an.RecvNamed(f).Obj().Name() == "Manager" {
				conn, onc = fn, c
			}
		}
	}
	if conn == nil {
		r.Undec("connect-order", "pool.VipnodePool", token.NoPos, "no call of the balance manager's OnClient found in the pool")
		return
	}
	r.Analysed(an.FuncName(conn))
	for _, c := range an.Calls(conn, false) {
		if isStoreMethodNamed(an.CallObj(c), "SetNode") {
			setn = c
		}
	}
	var bad []string
	if setn == nil {
		bad = append(bad, "the connecting node is not saved before the balance manager judges it")
	} else if an.ReachAvoiding(conn, an.EdgeSet(an.ErrEdges(setn).Succ))[onc.Block()] {
		bad = append(bad, "OnClient at "+p.Pos(onc.Pos())+" is reachable without the node having been saved (SetNode at "+p.Pos(setn.Pos())+"): the balance lookup of a first-time client fails with ErrUnregisteredNode instead of judging its balance")
	}
	r.Check(len(bad) == 0, "connect-order", an.FuncName(conn), conn.Pos(), "the node record is saved before OnClient reads its balance", "%s", strings.Join(bad, "; "))
}

// floatArithmetic: fn computes with a floating-point value (a float-typed SSA value that is not a constant, or a
// big.Float); returns where, or "".
func floatArithmetic(p *an.Prog, fn *ssa.Function) string {
	why := ""
	isFloat := func(t types.Type) bool {
		if b, ok := t.Underlying().(*types.Basic); ok && b.Info()&types.IsFloat != 0 {
			return true
		}
		if pt, ok := t.(*types.Pointer); ok {
			t = pt.Elem()
		}
		if n, ok := t.(*types.Named); ok && n.Obj().Pkg() != nil && n.Obj().Pkg().Path() == "math/big" && n.Obj().Name() == "Float" {
			return true
		}
		return false
	}
	an.AllInstrs(fn, func(in ssa.Instruction) {
		if why != "" {
			return
		}
		v, ok := in.(ssa.Value)
		if !ok {
			return
		}
		if tup, ok := v.Type().(*types.Tuple); ok {
			for i := 0; i < tup.Len(); i++ {
				if isFloat(tup.At(i).Type()) {
					why = "a " + tup.At(i).Type().String() + " at " + p.Pos(in.Pos())
				}
			}
			return
		}
		if isFloat(v.Type()) {
			why = "a " + v.Type().String() + " at " + p.Pos(in.Pos())
		}
	})
	return why
}
