package rules

import (
	"go/types"
	"strings"

	"golang.org/x/tools/go/ssa"

	"vipcheck/an"
)

// ResolveAnchors makes the rules independent of the names of unexported functions, methods and types: every such
// object the rules refer to by its pinned-tree name is looked up by name first and, when that fails (it was renamed),
// by what it structurally is. A structural match is registered as an alias, so that lookups, name comparisons and
// obligation keys keep using the canonical name. Exported names (the RPC and Go API) are not aliased: renaming them
// changes the program's surface. When no unique structural match exists nothing is registered and the rule that needs
// the anchor reports it as not found (undecided).
func ResolveAnchors(p *an.Prog) {
	sigStr := func(fn *ssa.Function) string {
		s := fn.Signature
		var ps, rs []string
		for i := 0; i < s.Params().Len(); i++ {
			ps = append(ps, types.TypeString(s.Params().At(i).Type(), func(pk *types.Package) string { return pk.Name() }))
		}
		for i := 0; i < s.Results().Len(); i++ {
			rs = append(rs, types.TypeString(s.Results().At(i).Type(), func(pk *types.Package) string { return pk.Name() }))
		}
		return "(" + strings.Join(ps, ",") + ")(" + strings.Join(rs, ",") + ")"
	}
	inPkg := func(fn *ssa.Function, rel string) bool {
		path := an.Module
		if rel != "" {
			path += "/" + rel
		}
		return fn.Pkg != nil && fn.Pkg.Pkg.Path() == path && fn.Parent() == nil && !p.IsTestFunc(fn) && fn.Synthetic == ""
	}
	recvIs := func(fn *ssa.Function, n *types.Named) bool {
		return fn.Signature.Recv() != nil && namedOf(fn.Signature.Recv().Type()) == n && n != nil
	}
	callsNamed := func(fn *ssa.Function, pred func(ssa.CallInstruction) bool) bool {
		for _, f := range an.WithAnon(fn) {
			for _, c := range an.Calls(f, false) {
				if pred(c) {
					return true
				}
			}
		}
		return false
	}
	uniqueFn := func(cands []*ssa.Function) *ssa.Function {
		if len(cands) == 1 {
			return cands[0]
		}
		return nil
	}
	findFn := func(rel string, pred func(fn *ssa.Function) bool) *ssa.Function {
		var cands []*ssa.Function
		for _, fn := range p.Repo {
			if inPkg(fn, rel) && pred(fn) {
				cands = append(cands, fn)
			}
		}
		return uniqueFn(cands)
	}
	typesOf := func(rel string, pred func(n *types.Named) bool) *types.Named {
		pk := p.Pkg(rel)
		if pk == nil {
			return nil
		}
		var cands []*types.Named
		sc := pk.Types.Scope()
		for _, name := range sc.Names() {
			tn, ok := sc.Lookup(name).(*types.TypeName)
			if !ok || tn.IsAlias() {
				continue
			}
			if n, ok := tn.Type().(*types.Named); ok && pred(n) {
				if f := p.Fset.Position(tn.Pos()).Filename; strings.HasSuffix(f, "_test.go") {
					continue
				}
				cands = append(cands, n)
			}
		}
		if len(cands) == 1 {
			return cands[0]
		}
		return nil
	}
	hasMethod := func(n *types.Named, name string) bool { return p.MethodOf(n, name) != nil }
	embeds := func(n *types.Named, typ string) bool {
		st, ok := n.Underlying().(*types.Struct)
		if !ok {
			return false
		}
		for i := 0; i < st.NumFields(); i++ {
			if f := st.Field(i); f.Embedded() {
				if nn := namedOf(f.Type()); nn != nil && nn.Obj().Name() == typ {
					return true
				}
			}
		}
		return false
	}
	aliasT := func(rel, canon string, find func() *types.Named) *types.Named {
		if n := p.Named(rel, canon); n != nil {
			return n
		}
		if n := find(); n != nil {
			p.AliasType(rel, canon, n)
			return n
		}
		return nil
	}
	aliasF := func(rel, typ, canon string, find func() *ssa.Function) *ssa.Function {
		var cur *ssa.Function
		if typ == "" {
			cur = p.Func(rel, canon)
		} else {
			cur = p.Method(rel, typ, canon)
		}
		if cur != nil {
			return cur
		}
		if fn := find(); fn != nil {
			p.AliasFunc(rel, typ, canon, fn)
			return fn
		}
		return nil
	}

	// ---- types
	iface := func(rel, name string) *types.Interface { return p.Iface(rel, name) }
	implements := func(n *types.Named, it *types.Interface) bool {
		return it != nil && (types.Implements(n, it) || types.Implements(types.NewPointer(n), it))
	}
	aliasT("pool/store/memory", "memoryStore", func() *types.Named {
		return typesOf("pool/store/memory", func(n *types.Named) bool { return implements(n, iface("pool/store", "Store")) })
	})
	badgerStore := aliasT("pool/store/badger", "badgerStore", func() *types.Named {
		return typesOf("pool/store/badger", func(n *types.Named) bool { return implements(n, iface("pool/store", "Store")) })
	})
	_ = badgerStore
	aliasT("pool/store/memory", "memNode", func() *types.Named {
		return typesOf("pool/store/memory", func(n *types.Named) bool { return embeds(n, "Node") })
	})
	aliasT("pool", "hostService", func() *types.Named {
		return typesOf("pool", func(n *types.Named) bool { return embeds(n, "Node") && embeds(n, "Service") })
	})
	ppi := aliasT("pool/balance", "payPerInterval", func() *types.Named {
		return typesOf("pool/balance", func(n *types.Named) bool {
			if !implements(n, iface("pool/balance", "Manager")) {
				return false
			}
			m := p.MethodOf(n, "OnUpdate")
			return m != nil && callsNamed(m, isLedgerWriteCall)
		})
	})
	aliasT("pool/payment", "contractPayment", func() *types.Named {
		return typesOf("pool/payment", func(n *types.Named) bool {
			return implements(n, iface("pool/store", "BalanceStore")) && !implements(n, iface("pool/store", "Store"))
		})
	})
	aliasT("pool/payment", "balanceCache", func() *types.Named {
		return typesOf("pool/payment", func(n *types.Named) bool {
			st, ok := n.Underlying().(*types.Struct)
			if !ok || !hasMethod(n, "Set") || !hasMethod(n, "Get") {
				return false
			}
			for i := 0; i < st.NumFields(); i++ {
				if _, isMap := st.Field(i).Type().Underlying().(*types.Map); isMap {
					return true
				}
			}
			return false
		})
	})
	aliasT("jsonrpc2", "jsonCodec", func() *types.Named {
		if ioc := p.Func("jsonrpc2", "IOCodec"); ioc != nil && ioc.Signature.Results().Len() == 1 {
			return namedOf(ioc.Signature.Results().At(0).Type())
		}
		return nil
	})
	codecIface := iface("jsonrpc2", "Codec")
	for _, rel := range []string{"jsonrpc2/ws/gobwas", "jsonrpc2/ws/gorilla"} {
		rel := rel
		aliasT(rel, "wsCodec", func() *types.Named {
			return typesOf(rel, func(n *types.Named) bool { return implements(n, codecIface) })
		})
	}
	aliasT("jsonrpc2", "pendingQueue", func() *types.Named {
		return typesOf("jsonrpc2", func(n *types.Named) bool {
			_, isSlice := n.Underlying().(*types.Slice)
			return isSlice && hasMethod(n, "Len") && hasMethod(n, "Less") && hasMethod(n, "Swap")
		})
	})
	aliasT("", "server", func() *types.Named {
		return typesOf("", func(n *types.Named) bool { return hasMethod(n, "ServeHTTP") })
	})
	aliasT("", "agentRunner", func() *types.Named {
		return typesOf("", func(n *types.Named) bool { return hasMethod(n, "LoadAgent") })
	})

	// ---- unexported fields the rules refer to: identified by their type (and, among equally typed ones, their
	// order) within the owning struct when the name is gone
	typeKey := func(t types.Type) string {
		s := types.TypeString(t, func(pk *types.Package) string { return pk.Name() })
		// canonical spelling of renamed types inside the string
		var b strings.Builder
		i := 0
		for i < len(s) {
			j := i
			for j < len(s) && (s[j] == '_' || s[j] >= '0' && s[j] <= '9' || s[j] >= 'a' && s[j] <= 'z' || s[j] >= 'A' && s[j] <= 'Z') {
				j++
			}
			if j > i {
				b.WriteString(an.Ident(s[i:j]))
				i = j
				continue
			}
			b.WriteByte(s[i])
			i++
		}
		return b.String()
	}
	type fieldSpec struct{ name, typ string }
	fieldTable := []struct {
		rel, owner string
		fields     []fieldSpec
	}{
		{"pool/store/memory", "memoryStore", []fieldSpec{{"mu", "sync.Mutex"}, {"balances", "map[store.Account]store.Balance"}, {"nodes", "map[store.NodeID]memory.memNode"}, {"accounts", "map[store.NodeID]store.Account"}, {"trials", "map[store.NodeID]store.Balance"}, {"nonces", "map[string]int64"}}},
		{"pool/store/memory", "memNode", []fieldSpec{{"peers", "map[store.NodeID]time.Time"}}},
		{"pool", "VipnodePool", []fieldSpec{{"skipWhitelist", "bool"}, {"mu", "sync.Mutex"}, {"remoteHosts", "map[store.NodeID]jsonrpc2.Service"}, {"remoteNodeLookup", "map[jsonrpc2.Service]store.NodeID"}}},
		{"pool/store/badger", "badgerStore", []fieldSpec{{"db", "*badger.DB"}, {"nonceExpire", "time.Duration"}}},
		{"", "server", []fieldSpec{{"onDisconnect", "func(remote jsonrpc2.Service) error"}}},
		{"jsonrpc2", "Client", []fieldSpec{{"id", "int32"}}},
		{"jsonrpc2", "Server", []fieldSpec{{"mu", "sync.Mutex"}, {"registry", "map[string]jsonrpc2.Method"}}},
		{"jsonrpc2", "Remote", []fieldSpec{{"mu", "sync.Mutex"}, {"pending", "map[string]jsonrpc2.pendingMsg"}}},
		{"jsonrpc2", "jsonCodec", []fieldSpec{{"rwc", "io.ReadWriteCloser"}, {"remoteAddr", "string"}, {"buffered", "*bytes.Reader"}}},
		{"agent", "Agent", []fieldSpec{{"mu", "sync.Mutex"}, {"started", "bool"}, {"stopCh", "chan struct{}"}, {"waitCh", "chan error"}, {"nodeInfo", "ethnode.UserAgent"}}},
		{"pool/payment", "balanceCache", []fieldSpec{{"mu", "sync.Mutex"}, {"cache", "map[store.Account]payment.balanceItem"}}},
		{"pool/payment", "PaymentService", []fieldSpec{{"withdrawMu", "sync.Mutex"}}},
		{"pool/status", "PoolStatus", []fieldSpec{{"mu", "sync.RWMutex"}}},
		{"pool/balance", "payPerInterval", []fieldSpec{{"now", "func() time.Time"}}},
		{"jsonrpc2/ws/gorilla", "wsCodec", []fieldSpec{{"muWrite", "sync.Mutex"}, {"muRead", "sync.Mutex"}, {"conn", "*websocket.Conn"}}},
		{"jsonrpc2/ws/gobwas", "wsCodec", []fieldSpec{{"inner", "jsonrpc2.Codec"}, {"r", "*wsutil.Reader"}, {"w", "*wsutil.Writer"}, {"remoteAddr", "string"}}},
	}
	for _, ft := range fieldTable {
		n := p.Named(ft.rel, ft.owner)
		if n == nil {
			continue
		}
		st, ok := n.Underlying().(*types.Struct)
		if !ok {
			continue
		}
		have := map[string]bool{}
		for i := 0; i < st.NumFields(); i++ {
			have[st.Field(i).Name()] = true
		}
		canon := map[string]bool{}
		for _, fs := range ft.fields {
			canon[fs.name] = true
		}
		// unexported, not canonically named fields, in declaration order, by type key
		free := map[string][]string{}
		for i := 0; i < st.NumFields(); i++ {
			f := st.Field(i)
			if f.Exported() || f.Embedded() || canon[f.Name()] {
				continue
			}
			k := typeKey(f.Type())
			free[k] = append(free[k], f.Name())
		}
		// missing canonical names, in table order, by type key
		var missing []fieldSpec
		for _, fs := range ft.fields {
			if have[fs.name] {
				continue
			}
			if l := free[fs.typ]; len(l) > 0 {
				an.AliasIdent(l[0], fs.name)
				free[fs.typ] = l[1:]
				continue
			}
			missing = append(missing, fs)
		}
		// a group of fields moved into a sub-struct of the owner (a named struct type of the same package held by
		// value or pointer in one of the owner's fields): look one level down
		if len(missing) > 0 {
			for i := 0; i < st.NumFields(); i++ {
				ft2 := st.Field(i).Type()
				if pt, ok := ft2.(*types.Pointer); ok {
					ft2 = pt.Elem()
				}
				sub, ok := ft2.(*types.Named)
				if !ok || sub.Obj().Pkg() == nil || n.Obj().Pkg() == nil || sub.Obj().Pkg().Path() != n.Obj().Pkg().Path() {
					continue
				}
				sst, ok := sub.Underlying().(*types.Struct)
				if !ok {
					continue
				}
				subFree := map[string][]string{}
				subHave := map[string]bool{}
				for j := 0; j < sst.NumFields(); j++ {
					f := sst.Field(j)
					subHave[f.Name()] = true
					if !f.Exported() && !f.Embedded() {
						k := typeKey(f.Type())
						subFree[k] = append(subFree[k], f.Name())
					}
				}
				var still []fieldSpec
				for _, fs := range missing {
					if subHave[fs.name] {
						continue
					}
					if l := subFree[fs.typ]; len(l) > 0 && fs.typ != "sync.Mutex" && fs.typ != "bool" {
						an.AliasIdent(l[0], fs.name)
						subFree[fs.typ] = l[1:]
						continue
					}
					still = append(still, fs)
				}
				missing = still
			}
		}
	}

	// the agent's started flag may be a bool or a small two-state named type: when no field carries the name, it is the
	// one unexported field of basic underlying type that Start's region writes
	if ag := p.Named("agent", "Agent"); ag != nil {
		if st, ok := ag.Underlying().(*types.Struct); ok {
			has := false
			for i := 0; i < st.NumFields(); i++ {
				if an.Ident(st.Field(i).Name()) == "started" {
					has = true
				}
			}
			if startFn := p.MethodOf(ag, "Start"); !has && startFn != nil {
				cands := map[string]bool{}
				for _, fn := range regionFuncs(p, startFn) {
					an.AllInstrs(fn, func(in ssa.Instruction) {
						stI, ok := in.(*ssa.Store)
						if !ok {
							return
						}
						fv := an.FieldOf(stI.Addr)
						if fv == nil || fv.Exported() || namedOf(structOfFieldAccessType(stI.Addr)) != ag {
							return
						}
						if b, ok := fv.Type().Underlying().(*types.Basic); ok && (b.Info()&types.IsBoolean != 0 || b.Info()&types.IsInteger != 0) {
							cands[fv.Name()] = true
						}
					})
				}
				if len(cands) == 1 {
					for name := range cands {
						an.AliasIdent(name, "started")
					}
				}
			}
		}
	}

	// ---- functions and methods
	vp := p.Named("pool", "VipnodePool")
	aliasF("pool", "VipnodePool", "connect", func() *ssa.Function {
		return findFn("pool", func(fn *ssa.Function) bool {
			return recvIs(fn, vp) && !fn.Object().Exported() && callsNamed(fn, func(c ssa.CallInstruction) bool { return isStoreMethodNamed(an.CallObj(c), "SetNode") })
		})
	})
	aliasF("pool", "VipnodePool", "requestHosts", func() *ssa.Function {
		return findFn("pool", func(fn *ssa.Function) bool {
			return recvIs(fn, vp) && !fn.Object().Exported() && callsNamed(fn, func(c ssa.CallInstruction) bool { return isStoreMethodNamed(an.CallObj(c), "ActiveHosts") })
		})
	})
	aliasF("pool", "VipnodePool", "disconnectPeers", func() *ssa.Function {
		return findFn("pool", func(fn *ssa.Function) bool {
			if !recvIs(fn, vp) || fn.Object().Exported() {
				return false
			}
			for _, rf := range regionFuncs(p, fn) {
				if rf != fn && rf.Parent() == nil && recvIs(rf, vp) {
					continue
				}
				for _, c := range an.Calls(rf, false) {
					if isServiceCall(an.CallObj(c)) && len(c.Common().Args) >= 3 {
						if m, ok := an.ConstString(c.Common().Args[2]); ok && m == "vipnode_disconnect" {
							return true
						}
					}
				}
			}
			return false
		})
	})
	aliasF("pool", "", "normalizeNodeURI", func() *ssa.Function {
		isNorm := func(fn *ssa.Function) bool {
			return fn.Signature.Recv() == nil && sigStr(fn) == "(string,string,string,string)(string,error)"
		}
		if fn := findFn("pool", isNorm); fn != nil {
			return fn
		}
		// moved to another package (exported there): the function of that shape connect calls
		if conn := p.Method("pool", "VipnodePool", "connect"); conn != nil {
			var cands []*ssa.Function
			for _, c := range an.Calls(conn, false) {
				if callee := c.Common().StaticCallee(); callee != nil && p.InRepo(callee) && callee.Parent() == nil && isNorm(callee) {
					dup := false
					for _, x := range cands {
						dup = dup || x == callee
					}
					if !dup {
						cands = append(cands, callee)
					}
				}
			}
			return uniqueFn(cands)
		}
		return nil
	})
	aliasF("", "", "runPool", func() *ssa.Function {
		return findFn("", func(fn *ssa.Function) bool {
			if fn.Signature.Recv() != nil || !callsNamed(fn, func(c ssa.CallInstruction) bool {
				f := an.CallObj(c)
				return f != nil && f.Name() == "New" && f.Pkg() != nil && strings.HasSuffix(f.Pkg().Path(), "/pool")
			}) {
				return false
			}
			// the pool binary's entry also builds the payment service (the agent's in-process test pool does not)
			hasPayment := false
			an.AllInstrs(fn, func(in ssa.Instruction) {
				if al, ok := in.(*ssa.Alloc); ok {
					if n := namedOf(al.Type()); n != nil && n.Obj().Name() == "PaymentService" {
						hasPayment = true
					}
				}
			})
			return hasPayment
		})
	})
	if ppi != nil {
		aliasF("pool/balance", "payPerInterval", "intervalCredit", func() *ssa.Function {
			return findFn("pool/balance", func(fn *ssa.Function) bool {
				return recvIs(fn, ppi) && strings.HasSuffix(sigStr(fn), "(*big.Int)") && strings.Contains(sigStr(fn), "time.Time")
			})
		})
	}
	rem := p.Named("jsonrpc2", "Remote")
	aliasF("jsonrpc2", "Remote", "receive", func() *ssa.Function {
		return findFn("jsonrpc2", func(fn *ssa.Function) bool {
			return recvIs(fn, rem) && !fn.Object().Exported() && strings.HasSuffix(sigStr(fn), "(*jsonrpc2.Message,error)") && strings.Contains(sigStr(fn), "context.Context")
		})
	})
	aliasF("jsonrpc2", "Remote", "getPendingChan", func() *ssa.Function {
		return findFn("jsonrpc2", func(fn *ssa.Function) bool {
			return recvIs(fn, rem) && !fn.Object().Exported() && strings.HasSuffix(sigStr(fn), "(chan jsonrpc2.Message)")
		})
	})
	aliasF("jsonrpc2", "", "parsePositionalArguments", func() *ssa.Function {
		return findFn("jsonrpc2", func(fn *ssa.Function) bool {
			return fn.Signature.Recv() == nil && strings.HasSuffix(sigStr(fn), "([]reflect.Value,error)") && strings.Contains(sigStr(fn), "[]reflect.Type")
		})
	})
	aliasF("jsonrpc2", "", "pendingOldest", func() *ssa.Function {
		return findFn("jsonrpc2", func(fn *ssa.Function) bool {
			if fn.Signature.Recv() != nil || fn.Signature.Params().Len() != 2 || fn.Signature.Results().Len() != 1 {
				return false
			}
			_, isMap := fn.Signature.Params().At(0).Type().Underlying().(*types.Map)
			_, isSlice := fn.Signature.Results().At(0).Type().Underlying().(*types.Slice)
			return isMap && isSlice && isBasic(fn.Signature.Params().At(1).Type(), types.Int)
		})
	})
	ag := p.Named("agent", "Agent")
	aliasF("agent", "Agent", "serveUpdates", func() *ssa.Function {
		return findFn("agent", func(fn *ssa.Function) bool {
			if !recvIs(fn, ag) || fn.Object().Exported() {
				return false
			}
			hasSel := false
			an.AllInstrs(fn, func(in ssa.Instruction) {
				if s, ok := in.(*ssa.Select); ok && s.Blocking {
					hasSel = true
				}
			})
			return hasSel && callsNamed(fn, func(c ssa.CallInstruction) bool { f := an.CallObj(c); return f != nil && f.Name() == "UpdatePeers" })
		})
	})
	aliasF("request", "", "assemble", func() *ssa.Function {
		return findFn("request", func(fn *ssa.Function) bool {
			return fn.Signature.Recv() == nil && !fn.Object().Exported() && strings.HasSuffix(sigStr(fn), "([]byte,error)") && fn.Signature.Variadic()
		})
	})
	for _, typ := range []string{"NodeRequest", "AddressRequest"} {
		typ := typ
		n := p.Named("request", typ)
		aliasF("request", typ, "hash", func() *ssa.Function {
			return findFn("request", func(fn *ssa.Function) bool {
				return recvIs(fn, n) && !fn.Object().Exported() && sigStr(fn) == "()([]byte,error)"
			})
		})
	}

	// ---- the access primitives of the badger driver, by what they do with the transaction
	txnParam := func(fn *ssa.Function) bool {
		for _, prm := range fn.Params {
			if n := namedOf(prm.Type()); n != nil && n.Obj().Name() == "Txn" {
				return true
			}
		}
		return false
	}
	callsTxn := func(fn *ssa.Function, names ...string) bool {
		return callsNamed(fn, func(c ssa.CallInstruction) bool { return isBadgerTxnMethod(an.CallObj(c), names...) })
	}
	hasIfaceParam := func(fn *ssa.Function) bool {
		for _, prm := range fn.Params {
			if it, ok := prm.Type().Underlying().(*types.Interface); ok && it.NumMethods() == 0 {
				return true
			}
		}
		return false
	}
	hasDurationParam := func(fn *ssa.Function) bool {
		for _, prm := range fn.Params {
			if strings.HasSuffix(prm.Type().String(), "time.Duration") {
				return true
			}
		}
		return false
	}
	hasFuncParam := func(fn *ssa.Function) bool {
		for _, prm := range fn.Params {
			if _, ok := prm.Type().Underlying().(*types.Signature); ok {
				return true
			}
		}
		return false
	}
	prim := func(canon string, pred func(fn *ssa.Function) bool) {
		aliasF("pool/store/badger", "", canon, func() *ssa.Function {
			return findFn("pool/store/badger", func(fn *ssa.Function) bool {
				return fn.Signature.Recv() == nil && !fn.Object().Exported() && txnParam(fn) && pred(fn)
			})
		})
	}
	prim("getItem", func(fn *ssa.Function) bool {
		return callsTxn(fn, "Get") && hasIfaceParam(fn) && !hasFuncParam(fn) && !callsTxn(fn, "Set", "SetEntry", "NewIterator")
	})
	prim("hasKey", func(fn *ssa.Function) bool {
		return callsTxn(fn, "Get") && !hasIfaceParam(fn) && sigStrHasResult(fn, "bool")
	})
	prim("setItem", func(fn *ssa.Function) bool {
		return callsTxn(fn, "Set", "SetEntry") && hasIfaceParam(fn) && !hasDurationParam(fn)
	})
	prim("setExpiringItem", func(fn *ssa.Function) bool {
		return callsTxn(fn, "Set", "SetEntry") && hasIfaceParam(fn) && hasDurationParam(fn)
	})
	prim("loopItem", func(fn *ssa.Function) bool {
		return callsTxn(fn, "NewIterator") && hasFuncParam(fn) && hasIfaceParam(fn)
	})
	// version helpers: (txn) (int, error) reads it; (txn, int) error either writes it (reaches a Set) or compares it
	reachesTxn := func(fn *ssa.Function, names ...string) bool {
		_, ok := p.ReachesCall(fn, func(c ssa.CallInstruction) bool { return isBadgerTxnMethod(an.CallObj(c), names...) })
		return ok
	}
	prim("getVersion", func(fn *ssa.Function) bool { return sigStr(fn) == "(*badger.Txn)(int,error)" })
	prim("setVersion", func(fn *ssa.Function) bool {
		return sigStr(fn) == "(*badger.Txn,int)(error)" && reachesTxn(fn, "Set", "SetEntry")
	})
	prim("checkVersion", func(fn *ssa.Function) bool {
		return sigStr(fn) == "(*badger.Txn,int)(error)" && !reachesTxn(fn, "Set", "SetEntry")
	})
}

func sigStrHasResult(fn *ssa.Function, t string) bool {
	rs := fn.Signature.Results()
	for i := 0; i < rs.Len(); i++ {
		if rs.At(i).Type().String() == t {
			return true
		}
	}
	return false
}

// structOfFieldAccessType: the struct type whose field the address v selects (nil when v is not a field access).
func structOfFieldAccessType(v ssa.Value) types.Type {
	if n := structOfFieldAccess(v); n != nil {
		return n
	}
	return nil
}
