package rules

import (
	"go/token"
	"go/types"
	"strings"

	"golang.org/x/tools/go/ssa"

	"vipcheck/an"
)

func init() {
	Registry["C08"] = Spec{
		Run: runC08,
		Explanation: "Static canonical-predicate / provenance rules over requestHosts, its callers and both drivers' ActiveHosts: " +
			"(nonpositive) every store/reverse call in requestHosts is control-dependent on count > 0, the count being clamped to MaxRequestHosts when that is positive; " +
			"(bound) the candidate list is cut off at the clamped count (len(candidates) >= n => stop, or [:n]); (skip) the skip set holds the requester and every NodePeers id and its miss-edge, plus the registry hit-edge, guard each candidate; " +
			"(ack) a host reaches the accept channel only on the nil-error edge of Call(ctx with timeout, \"vipnode_whitelist\", requester id) made on that same host's connection, the returned list is built from accept-channel receives only, the collector waits for len(candidates) results, and an error is returned only when nothing was accepted; " +
			"(test-bypass) skipWhitelist is written only by tests; (driver-filters) in each driver every append to the result is fenced by host flag, kind (unless the query is empty), and LastSeen > now - ExpireInterval, with the documented limit handling; " +
			"(default) the legacy client endpoint asks for 3 hosts unless NumHosts > 0, and both endpoints pass the requested kind. Round 2: (ack) every Service.Call implementation returns, when not failing, the result of Response.UnmarshalResult, which tests Error first; (setnode-keeps-peers) the tracked peer set survives SetNode in both drivers.",
		NotDecided: []string{"not decided: counts for concrete populations, arrival orders of acknowledgements, the 'exactly as many as requested when supply allows' clause beyond the over-fetch including len(skip)"},
	}
}

func fieldLoadOf(v ssa.Value, typ, field string) bool {
	if u, ok := v.(*ssa.UnOp); ok && u.Op == token.MUL {
		v = u.X
	}
	fv := an.FieldOf(v)
	if fv == nil || an.Ident(fv.Name()) != field {
		return false
	}
	if typ == "" {
		return true
	}
	n := structOfFieldAccess(v)
	return n != nil && an.TName(n) == typ
}

func runC08(p *an.Prog, r *an.Run, tier string) {
	checkSurfaceClosed(p, r)
	checkExpiryWindow(p, r)
	checkKindParsing(p, r)
	rh := p.Method("pool", "VipnodePool", "requestHosts")
	if rh == nil {
		r.Undec("anchors", "requestHosts", token.NoPos, "(*VipnodePool).requestHosts not found")
		return
	}
	r.Analysed(an.FuncName(rh))
	name := an.FuncName(rh)
	idPrm, numPrm, kindPrm := rh.Params[2], rh.Params[3], rh.Params[4]

	// ---- nonpositive + clamp
	// N: the value compared with 0 that derives from the count parameter
	var N ssa.Value
	var bad []string
	var effectCalls []ssa.CallInstruction
	for _, fn := range an.WithAnon(rh) {
		for _, c := range an.Calls(fn, false) {
			if _, ok := isEffectCall(c); ok {
				effectCalls = append(effectCalls, c)
			}
		}
	}
	r.CallSites += len(effectCalls)
	for _, c := range effectCalls {
		if c.Parent() != rh {
			continue // closure calls are spawned from the guarded region
		}
		guarded := false
		for _, cr := range ctrlRels(c.Block()) {
			if cr.Kind != "int" {
				continue
			}
			rel := cr.Rel
			if k, ok := an.ConstInt(rel.L); ok && k == 0 {
				rel = rel.Swap()
			}
			if k, ok := an.ConstInt(rel.R); ok && p.Derives(0, rel.L).HasParam(numPrm) {
				if (k == 0 && rel.Op == token.GTR) || (k == 1 && rel.Op == token.GEQ) {
					guarded = true
					N = rel.L
				}
			}
		}
		if !guarded {
			bad = append(bad, callName(c)+" at "+p.Pos(c.Pos())+" is reachable with a zero or negative host count")
		}
	}
	r.Check(len(bad) == 0 && N != nil, "nonpositive", name, rh.Pos(), "every store/reverse call requires count > 0", "%s", strings.Join(dedup(append(bad, ifEmpty(N == nil, "no 'count <= 0 => return' guard found")...)), "; "))

	bad = nil
	if N != nil {
		dn := p.Derives(0, N)
		if !dn.HasFieldNamed("VipnodePool", "MaxRequestHosts") {
			bad = append(bad, "the count that is used was not clamped to MaxRequestHosts")
		} else if phi, ok := N.(*ssa.Phi); ok {
			okClamp := false
			for i, e := range phi.Edges {
				if !fieldLoadOf(e, "VipnodePool", "MaxRequestHosts") {
					continue
				}
				pred := phi.Block().Preds[i]
				gtMax, maxPos := false, false
				for _, cr := range ctrlRels(pred) {
					rel := cr.Rel
					if fieldLoadOf(rel.L, "VipnodePool", "MaxRequestHosts") {
						rel = rel.Swap()
					}
					if fieldLoadOf(rel.R, "VipnodePool", "MaxRequestHosts") && rel.L == ssa.Value(numPrm) && (rel.Op == token.GTR || rel.Op == token.GEQ) {
						gtMax = true
					}
					rel2 := cr.Rel
					if k, ok := an.ConstInt(rel2.L); ok && k == 0 {
						rel2 = rel2.Swap()
					}
					if k, ok := an.ConstInt(rel2.R); ok && k == 0 && fieldLoadOf(rel2.L, "VipnodePool", "MaxRequestHosts") && rel2.Op == token.GTR {
						maxPos = true
					}
				}
				if gtMax && maxPos {
					okClamp = true
				}
			}
			if !okClamp {
				bad = append(bad, "the count is replaced by MaxRequestHosts under a condition other than 'MaxRequestHosts > 0 && count > MaxRequestHosts'")
			}
			for _, e := range phi.Edges {
				if e != ssa.Value(numPrm) && !fieldLoadOf(e, "VipnodePool", "MaxRequestHosts") {
					bad = append(bad, "the count takes a value other than the request or the maximum")
				}
			}
		} else {
			bad = append(bad, "the clamp has an unrecognised shape")
		}
	}
	r.Check(len(bad) == 0, "max-clamp", name, rh.Pos(), "count = min(request, MaxRequestHosts) when the maximum is positive", "%s", strings.Join(bad, "; "))

	// ---- candidates: the slice appended with registry entries
	var candAppend *ssa.Call
	cfn := rh // the function holding the candidate loop: requestHosts itself or a helper it was moved to
	for _, rf := range regionFuncs(p, rh) {
		for _, c := range an.Calls(rf, false) {
			if b, ok := c.Common().Value.(*ssa.Builtin); ok && an.Ident(b.Name()) == "append" {
				if sl, ok := c.Common().Args[0].Type().Underlying().(*types.Slice); ok && isNamedType(sl.Elem(), "hostService") {
					candAppend, _ = c.(*ssa.Call)
					cfn = rf
				}
			}
		}
	}
	r.Analysed(an.FuncName(cfn))
	if candAppend == nil {
		r.Undec("skip", name, rh.Pos(), "the candidate list (append of hostService) was not found")
		return
	}

	// ---- bound
	bad = nil
	bounded := false
	an.AllInstrs(cfn, func(in ssa.Instruction) {
		switch x := in.(type) {
		case *ssa.If:
			rel, ok := an.NormCond(x.Cond)
			if !ok || rel.Kind != "int" {
				return
			}
			if _, isLen := an.LenOf(rel.R); isLen {
				rel = rel.Swap()
			}
			s, isLen := an.LenOf(rel.L)
			if !isLen || N == nil || p.Resolve(rel.R) != N {
				return
			}
			if sl, ok := s.Type().Underlying().(*types.Slice); !ok || !(isNamedType(sl.Elem(), "hostService") || isNamedType(sl.Elem(), "Node")) {
				return
			}
			// stop edge
			stop := -1
			switch rel.Op {
			case token.GEQ, token.EQL:
				stop = 0
			case token.LSS, token.NEQ:
				stop = 1
			case token.GTR:
				// len > n followed by a truncation is checked via the slice case
			}
			if stop >= 0 && inLoop(in) {
				// from the stop edge no further candidate may be appended
				if pathFromBlock(cfn, x.Block().Succs[stop], nil, func(i2 ssa.Instruction) bool { return i2 == ssa.Instruction(candAppend) }) == nil {
					// and the test happens after each append (same iteration)
					if an.PathAvoiding(cfn, candAppend, func(i2 ssa.Instruction) bool { return i2 == ssa.Instruction(x) }, func(i2 ssa.Instruction) bool { return i2 == ssa.Instruction(candAppend) }, nil) == nil {
						bounded = true
					}
				}
			}
		case *ssa.Slice:
			if x.High != nil && N != nil && p.Resolve(x.High) == N {
				if sl, ok := x.X.Type().Underlying().(*types.Slice); ok && (isNamedType(sl.Elem(), "hostService") || isNamedType(sl.Elem(), "Node")) {
					bounded = true
				}
			}
		}
	})
	r.Check(bounded, "bound", name, candAppend.Pos(), "the candidate list stops growing at the clamped count", "nothing bounds the number of hosts by the requested count: the store is asked for count+len(skip) candidates, so a requester that is not itself a host gets more hosts than it asked for")

	// ---- skip
	bad = nil
	// skip set: a local map whose lookup miss-edge controls the candidate append
	var skipMap ssa.Value
	okSkipGuard, okRegGuard := false, false
	for _, c := range an.ControllingIfs(candAppend.Block()) {
		ex, ok := c.If.Cond.(*ssa.Extract)
		if !ok || ex.Index != 1 {
			continue
		}
		lk, ok := ex.Tuple.(*ssa.Lookup)
		if !ok {
			continue
		}
		dk := p.Derives(0, lk.Index)
		if memMapField(lk.X) == "remoteHosts" {
			if c.Succ == 0 && dk.HasFieldNamed("Node", "ID") {
				okRegGuard = true
			}
			continue
		}
		if mm, isMake := p.Resolve(lk.X).(*ssa.MakeMap); isMake && c.Succ == 1 && dk.HasFieldNamed("Node", "ID") {
			skipMap = mm
			okSkipGuard = true
		}
	}
	if !okSkipGuard {
		bad = append(bad, "a candidate is appended without passing the miss-edge of the skip set (the requester itself or an existing peer could be returned)")
	}
	if !okRegGuard {
		bad = append(bad, "a candidate is appended without passing the hit-edge of the host registry (hosts without a live connection would be called)")
	}
	if skipMap != nil {
		hasSelf, hasPeers := false, false
		for _, ref := range *skipMap.Referrers() {
			if mu, ok := ref.(*ssa.MapUpdate); ok {
				dk := p.Derives(0, mu.Key)
				if dk.HasParam(idPrm) {
					hasSelf = true
				}
				if dk.CallTo(func(f *types.Func) bool { return isStoreMethodNamed(f, "NodePeers") }) != nil && dk.HasFieldNamed("Node", "ID") {
					hasPeers = true
				}
			}
		}
		if !hasSelf {
			bad = append(bad, "the skip set does not contain the requester")
		}
		if !hasPeers {
			bad = append(bad, "the skip set does not contain the requester's current peers (NodePeers)")
		}
		// NodePeers queried for the requester
		for _, c := range findCalls(rh, false, func(f *types.Func) bool { return isStoreMethodNamed(f, "NodePeers") }) {
			if !p.Derives(0, methodArgs(c)[0]).HasParam(idPrm) {
				bad = append(bad, "NodePeers is not queried for the requester")
			}
		}
	}
	// the appended candidate pairs the node with its own registry entry
	{
		els, ok := variadicElems(candAppend.Call.Args[1])
		if ok && len(els) == 1 {
			d := p.Derives(0, els[0])
			okPair := false
			for _, n := range d.Nodes {
				if lk, ok := n.(*ssa.Lookup); ok && memMapField(lk.X) == "remoteHosts" {
					okPair = true
				}
			}
			if !okPair {
				bad = append(bad, "the candidate's connection does not come from the host registry")
			}
		}
	}
	// ActiveHosts query: kind passed through, limit = N + len(skip)
	for _, c := range findCalls(rh, false, func(f *types.Func) bool { return isStoreMethodNamed(f, "ActiveHosts") }) {
		a := methodArgs(c)
		if a[0] != ssa.Value(kindPrm) {
			bad = append(bad, "ActiveHosts is not queried with the requested kind")
		}
		dl := p.Derives(0, a[1])
		if N != nil && !dl.HasValue(N) {
			bad = append(bad, "ActiveHosts' limit does not derive from the clamped count")
		}
		okOver := false
		for _, n := range dl.Nodes {
			if s, ok := an.LenOf(n); ok && s == skipMap {
				okOver = true
			}
		}
		if !okOver {
			bad = append(bad, "ActiveHosts' limit does not include len(skip set): with as many skipped hosts as requested, no eligible host would be found although supply allows")
		}
		for _, n := range dl.Nodes {
			if bo, ok := n.(*ssa.BinOp); ok && bo.Op != token.ADD {
				bad = append(bad, "ActiveHosts' limit is computed with "+bo.Op.String())
			}
		}
	}
	r.Check(len(bad) == 0, "skip", name, candAppend.Pos(), "candidates = ActiveHosts(kind, n+len(skip)) minus requester and current peers, restricted to registry entries", "%s", strings.Join(dedup(bad), "; "))

	// ---- ack
	bad = nil
	var svcCalls []ssa.CallInstruction
	var sends []*ssa.Send
	isAcceptChan := func(v ssa.Value) bool {
		ch, ok := v.Type().Underlying().(*types.Chan)
		return ok && isNamedType(ch.Elem(), "Node")
	}
	// the other shape of the fan-out: one channel of {node, err} results instead of an accept and an error channel
	resultChanFields := func(v ssa.Value) (nodeIdx, errIdx int, ok bool) {
		ch, isCh := v.Type().Underlying().(*types.Chan)
		if !isCh {
			return 0, 0, false
		}
		st, isSt := ch.Elem().Underlying().(*types.Struct)
		if !isSt {
			return 0, 0, false
		}
		nodeIdx, errIdx = -1, -1
		for i := 0; i < st.NumFields(); i++ {
			if isNamedType(st.Field(i).Type(), "Node") {
				if nodeIdx >= 0 {
					return 0, 0, false
				}
				nodeIdx = i
			}
			if an.IsErrorType(st.Field(i).Type()) {
				if errIdx >= 0 {
					return 0, 0, false
				}
				errIdx = i
			}
		}
		return nodeIdx, errIdx, nodeIdx >= 0 && errIdx >= 0
	}
	structMode := false
	// fan: the function holding the fan-out and its collector — requestHosts itself, or a helper it calls
	fan := rh
	var fanCall ssa.CallInstruction
	haveAccept := false
	for _, fn := range regionFuncs(p, rh) {
		an.AllInstrs(fn, func(in ssa.Instruction) {
			if c, ok := in.(ssa.CallInstruction); ok && isServiceCall(an.CallObj(c)) {
				svcCalls = append(svcCalls, c)
			}
			if s, ok := in.(*ssa.Send); ok {
				sends = append(sends, s)
			}
			if mc, ok := in.(*ssa.MakeChan); ok && isAcceptChan(mc) && fn.Parent() == nil {
				fan = fn
				haveAccept = true
			}
		})
	}
	if !haveAccept {
		for _, fn := range regionFuncs(p, rh) {
			an.AllInstrs(fn, func(in ssa.Instruction) {
				if mc, ok := in.(*ssa.MakeChan); ok && fn.Parent() == nil {
					if _, _, isRes := resultChanFields(mc); isRes {
						fan = fn
						structMode = true
					}
				}
			})
		}
	}
	if fan != rh {
		for _, c := range an.Calls(rh, false) {
			if c.Common().StaticCallee() == fan {
				fanCall = c
			}
		}
		if fanCall == nil {
			bad = append(bad, "the whitelist fan-out lives in "+an.FuncName(fan)+", which requestHosts does not call directly")
			fan = rh
		}
	}
	if len(svcCalls) != 1 {
		bad = append(bad, "expected exactly one reverse call in requestHosts, found "+itoa(len(svcCalls)))
	} else {
		c := svcCalls[0]
		a := c.Common().Args
		if m, ok := an.ConstString(a[2]); !ok || m != "vipnode_whitelist" {
			bad = append(bad, "the reverse call is not vipnode_whitelist")
		}
		els, ok := variadicElems(a[3])
		if !ok || len(els) != 1 || !p.DerivesIn(rh, 2, els[0]).HasParam(idPrm) {
			bad = append(bad, "vipnode_whitelist is not called with exactly the requester's node id")
		}
		if p.DerivesIn(rh, 2, a[0]).CallTo(func(f *types.Func) bool {
			return an.IsFunc(f, "context", "WithTimeout") || an.IsFunc(f, "context", "WithDeadline")
		}) == nil {
			bad = append(bad, "the whitelist call has no timeout: one silent host would block the whole reply")
		}
		u := an.ErrEdges(c)
		reach := an.ReachAvoiding(c.Parent(), an.EdgeSet(u.Succ))
		nAccept := 0
		for _, s := range sends {
			if !structMode {
				break
			}
			nodeIdx, errIdx, isRes := resultChanFields(s.Chan)
			if !isRes {
				continue
			}
			nAccept++
			// the result sent pairs this host's node with the outcome of this host's whitelist call
			var nodeVal, errVal ssa.Value
			if ld, ok := s.X.(*ssa.UnOp); ok && ld.Op == token.MUL {
				if al, ok := ld.X.(*ssa.Alloc); ok {
					for _, ref := range *al.Referrers() {
						fa, ok := ref.(*ssa.FieldAddr)
						if !ok {
							continue
						}
						for _, r2 := range *fa.Referrers() {
							if st, ok := r2.(*ssa.Store); ok && st.Addr == ssa.Value(fa) {
								if fa.Field == nodeIdx {
									nodeVal = st.Val
								}
								if fa.Field == errIdx {
									errVal = st.Val
								}
							}
						}
					}
				}
			}
			if s.Parent() != c.Parent() || errVal == nil || errVal != c.Value() {
				bad = append(bad, "the result sent at "+p.Pos(s.Pos())+" does not carry the outcome of this host's whitelist call")
			}
			common := false
			if nodeVal != nil {
				dn := p.DerivesIn(rh, 2, nodeVal)
				ds := p.DerivesIn(rh, 2, c.Common().Value)
				for _, n := range dn.Nodes {
					if isHostServiceVal(n) && ds.HasValue(n) {
						common = true
					}
				}
			}
			if !common {
				bad = append(bad, "the node reported with a result is not the one whose connection was asked")
			}
		}
		for _, s := range sends {
			if structMode || !isAcceptChan(s.Chan) {
				continue
			}
			nAccept++
			if s.Parent() != c.Parent() || reach[s.Block()] || len(u.Succ) == 0 {
				bad = append(bad, "a host is put on the accept channel at "+p.Pos(s.Pos())+" without its whitelist call having returned nil (a failing or timed-out host would be handed to the client)")
			}
			// the node sent belongs to the service called: both are fields of one candidate at the go call site
			dn := p.DerivesIn(rh, 2, s.X)
			ds := p.DerivesIn(rh, 2, c.Common().Value)
			common := false
			for _, n := range dn.Nodes {
				if (isHostServiceVal(n)) && ds.HasValue(n) {
					common = true
				}
			}
			if !common {
				bad = append(bad, "the node put on the accept channel is not the one whose connection acknowledged")
			}
		}
		if nAccept == 0 {
			bad = append(bad, "no host is ever accepted")
		}
		// every goroutine sends exactly one result (accept or error) on all paths
		gfn := c.Parent()
		if gfn != rh && gfn != fan {
			n, _ := enumPaths(gfn, 256, func(path []*ssa.BasicBlock, ret *ssa.Return) {
				cnt := 0
				for _, b := range path {
					for _, in := range b.Instrs {
						if _, ok := in.(*ssa.Send); ok {
							cnt++
						}
					}
				}
				if cnt != 1 {
					bad = append(bad, "a whitelist goroutine reports "+itoa(cnt)+" results on some path (the collector expects exactly one per candidate)")
				}
			})
			r.Paths += n
		}
	}
	// the accepted list is built only from accept-channel receives, and success is returned with it
	var sel *ssa.Select
	an.AllInstrs(fan, func(in ssa.Instruction) {
		if s, ok := in.(*ssa.Select); ok {
			sel = s
		}
	})
	// struct mode: the collector is a receive from the result channel; a node is taken from a result only on the branch
	// on which that result's error is nil
	var recvs []*ssa.UnOp
	ackNodes := map[ssa.Value]bool{} // node values read from a received result under "its err == nil"
	if structMode {
		an.AllInstrs(fan, func(in ssa.Instruction) {
			if u, ok := in.(*ssa.UnOp); ok && u.Op == token.ARROW {
				if _, _, isRes := resultChanFields(u.X); isRes {
					recvs = append(recvs, u)
				}
			}
		})
		fieldOfRecv := func(v ssa.Value, rc *ssa.UnOp, idx int) bool {
			switch x := v.(type) {
			case *ssa.Field:
				return x.Field == idx && isRecvValue(x.X, rc)
			case *ssa.UnOp:
				if fa, ok := x.X.(*ssa.FieldAddr); ok && x.Op == token.MUL && fa.Field == idx {
					if al, ok := fa.X.(*ssa.Alloc); ok {
						for _, ref := range *al.Referrers() {
							if st, ok := ref.(*ssa.Store); ok && st.Addr == ssa.Value(al) && st.Val == ssa.Value(rc) {
								return true
							}
						}
					}
				}
			}
			return false
		}
		for _, rc := range recvs {
			nodeIdx, errIdx, _ := resultChanFields(rc.X)
			an.AllInstrs(fan, func(in ssa.Instruction) {
				v, ok := in.(ssa.Value)
				if !ok || !fieldOfRecv(v, rc, nodeIdx) {
					return
				}
				// controlled by err-of-this-result == nil
				for _, ci := range an.ControllingIfs(in.Block()) {
					rel, ok := an.BranchRel(ci.If, ci.Succ)
					if !ok || rel.Op != token.EQL {
						continue
					}
					l, rr := rel.Arg(rel.L), rel.Arg(rel.R)
					isNil := func(x ssa.Value) bool { c, ok := x.(*ssa.Const); return ok && c.IsNil() }
					other := l
					if isNil(l) {
						other = rr
					} else if !isNil(rr) {
						continue
					}
					okErr := false
					for _, nd := range p.Derives(1, other).Nodes {
						if fieldOfRecv(nd, rc, errIdx) {
							okErr = true
						}
						// the same read inside a predicate method of the result type, its receiver bound to this result
						var base ssa.Value
						switch x := nd.(type) {
						case *ssa.Field:
							if x.Field == errIdx {
								base = x.X
							}
						case *ssa.UnOp:
							if fa, ok := x.X.(*ssa.FieldAddr); ok && x.Op == token.MUL && fa.Field == errIdx {
								if al, ok := fa.X.(*ssa.Alloc); ok {
									for _, ref := range *al.Referrers() {
										if st, ok := ref.(*ssa.Store); ok && st.Addr == ssa.Value(al) {
											base = st.Val
										}
									}
								}
							}
						}
						if prm, isP := base.(*ssa.Parameter); isP && isRecvValue(rel.Arg(prm), rc) {
							okErr = true
						}
					}
					if okErr {
						ackNodes[v] = true
					}
				}
			})
		}
		if len(recvs) == 0 {
			bad = append(bad, "no collector receive found")
		}
		// every node appended to the reply was read from a result under its err == nil
		for _, c := range an.Calls(fan, false) {
			b, ok := c.Common().Value.(*ssa.Builtin)
			if !ok || an.Ident(b.Name()) != "append" || len(c.Common().Args) != 2 {
				continue
			}
			if sl, ok := c.Common().Args[0].Type().Underlying().(*types.Slice); !ok || !isNamedType(sl.Elem(), "Node") {
				continue
			}
			els, ok := variadicElems(c.Common().Args[1])
			if !ok {
				bad = append(bad, "cannot see what is appended to the reply at "+p.Pos(c.Pos()))
				continue
			}
			for _, e := range els {
				if !ackNodes[e] {
					bad = append(bad, "a host is added to the reply at "+p.Pos(c.Pos())+" without its result's error having been found nil (a failing or timed-out host would be handed to the client)")
				}
			}
		}
	}
	collectorBlock := func() *ssa.BasicBlock {
		if sel != nil {
			return sel.Block()
		}
		if len(recvs) > 0 {
			return recvs[0].Block()
		}
		return nil
	}()
	fromCollector := func(n ssa.Value) bool {
		if ex, ok := n.(*ssa.Extract); ok && sel != nil && ex.Tuple == ssa.Value(sel) {
			return true
		}
		return ackNodes[n]
	}
	if collectorBlock == nil {
		if !structMode {
			bad = append(bad, "no collector select found")
		}
	} else {
		// collector bound: controlled by i > 0 with i starting at len(candidates)
		okBound := false
		for _, cr := range ctrlRels(collectorBlock) {
			if cr.Kind != "int" {
				continue
			}
			d := p.Derives(0, cr.L, cr.R)
			for _, n := range d.Nodes {
				if s, ok := an.LenOf(n); ok {
					if sl, ok := s.Type().Underlying().(*types.Slice); ok && isNamedType(sl.Elem(), "hostService") {
						okBound = true
					}
				}
			}
		}
		if !okBound {
			bad = append(bad, "the collector does not wait for exactly len(candidates) results")
		}
		// each of the len(candidates) turns takes one RESULT: every case of the collector's select is a receive from a
		// channel made in this function for the whitelist goroutines (or the context's Done). A ticker or timer case
		// added for logging uses up a turn per tick: a host that answers later than the first tick is dropped although
		// it acknowledged well inside the timeout
		if sel != nil {
			for _, st := range sel.States {
				ch := st.Chan
				if _, isMake := stripConv(ch).(*ssa.MakeChan); isMake {
					continue
				}
				if c, isCall := ch.(*ssa.Call); isCall && c.Common().IsInvoke() && c.Common().Method.Name() == "Done" {
					continue
				}
				if u, isLoad := ch.(*ssa.UnOp); isLoad && u.Op == token.MUL {
					if _, isAlloc := u.X.(*ssa.Alloc); isAlloc {
						continue // a local variable holding one of the result channels
					}
				}
				bad = append(bad, "the collector's select also waits on "+ch.String()+" ("+p.Pos(sel.Pos())+"), which is not a result channel: each time it fires one of the len(candidates) turns is used up without a result having been taken")
			}
		}
		if fan != rh {
			// the helper hands back what came off the accept channel, and nothing else
			an.AllInstrs(fan, func(in ssa.Instruction) {
				ret, ok := in.(*ssa.Return)
				if !ok || len(ret.Results) == 0 || (fan.Recover != nil && ret.Block() == fan.Recover) {
					return
				}
				d := p.Derives(0, an.RetResults(ret)[0])
				okSrc := false
				for _, n := range d.Nodes {
					if fromCollector(n) {
						okSrc = true
					}
				}
				if !okSrc {
					bad = append(bad, "the list "+an.FuncName(fan)+" returns at "+p.Pos(ret.Pos())+" is not built from accept-channel receives")
				}
			})
		}
		an.AllInstrs(rh, func(in ssa.Instruction) {
			ret, ok := in.(*ssa.Return)
			if !ok {
				return
			}
			rr := an.RetResults(ret)
			cls, _ := returnClass(ret)
			// "after whitelisting" = dominated by the creation of the accept channel (or by the call of the fan-out helper)
			var mk ssa.Instruction
			if fan != rh {
				mk = fanCall.(ssa.Instruction)
			} else {
				an.AllInstrs(rh, func(i2 ssa.Instruction) {
					if mc, ok := i2.(*ssa.MakeChan); ok && isAcceptChan(mc) {
						mk = mc
					}
					if mc, ok := i2.(*ssa.MakeChan); ok && structMode {
						if _, _, isRes := resultChanFields(mc); isRes {
							mk = mc
						}
					}
				})
			}
			if mk == nil || !an.Dominates(mk, ret) {
				return
			}
			if cls == "nil" {
				// success after whitelisting: list must come from the accept channel only
				d := p.Derives(0, rr[0])
				okSrc := false
				for _, n := range d.Nodes {
					if fromCollector(n) {
						okSrc = true
					}
					if ex, ok := n.(*ssa.Extract); ok && fan != rh && ex.Tuple == fanCall.Value() && ex.Index == 0 {
						okSrc = true
					}
					if c, ok := n.(*ssa.Call); ok && isStoreMethodNamed(an.CallObj(c), "ActiveHosts") {
						bad = append(bad, "the list returned at "+p.Pos(ret.Pos())+" derives from the store query directly, bypassing the acknowledgements")
					}
				}
				if !okSrc {
					bad = append(bad, "the list returned at "+p.Pos(ret.Pos())+" is not built from accept-channel receives")
				}
				// controlled by len(accepted) >= 1
				okNonEmpty := false
				for _, cr := range ctrlRels(ret.Block()) {
					if s, isLen := an.LenOf(cr.L); isLen && cr.Kind == "int" {
						_ = s
						k, _ := an.ConstInt(cr.R)
						if (cr.Op == token.GEQ && k == 1) || (cr.Op == token.GTR && k == 0) {
							okNonEmpty = true
						}
					}
				}
				if !okNonEmpty {
					bad = append(bad, "success is returned at "+p.Pos(ret.Pos())+" without at least one acknowledged host")
				}
			} else {
				// error return after the collector: only when nothing was accepted
				okEmpty := false
				for _, cr := range ctrlRels(ret.Block()) {
					if _, isLen := an.LenOf(cr.L); isLen && cr.Kind == "int" {
						k, _ := an.ConstInt(cr.R)
						if (cr.Op == token.LSS && k == 1) || (cr.Op == token.LEQ && k == 0) || (cr.Op == token.EQL && k == 0) {
							okEmpty = true
						}
					}
				}
				if !okEmpty {
					bad = append(bad, "an error is returned at "+p.Pos(ret.Pos())+" although hosts may have been accepted")
				}
			}
		})
	}
	r.Check(len(bad) == 0, "ack", name, rh.Pos(), "accepted <=> vipnode_whitelist(requester) returned nil on that host's connection within the timeout; error only when nothing accepted", "%s", strings.Join(dedup(bad), "; "))
	checkErrorReplies(p, r)
	checkErrorResultReported(p, r)
	// the "not already its peer" filter reads the tracked peer set, which must survive re-registration (shared with C12)
	checkSetNodeKeepsPeers(p, r)
	// "is currently connected": the registry discipline of C09 (a close only unregisters its own connection, the maps
	// are written together under the lock, ...) is what keeps a live host in the candidate set
	runC09(p, r, tier)

	// ---- test-bypass
	bad = nil
	for _, fn := range p.Repo {
		an.AllInstrs(fn, func(in ssa.Instruction) {
			if st, ok := in.(*ssa.Store); ok {
				if fv := an.FieldOf(st.Addr); fv != nil && an.Ident(fv.Name()) == "skipWhitelist" {
					bad = append(bad, "skipWhitelist is written in non-test code at "+p.Pos(st.Pos()))
				}
			}
		})
	}
	r.Check(len(bad) == 0, "test-bypass", "VipnodePool.skipWhitelist", token.NoPos, "the whitelist bypass is only ever enabled by tests", "%s", strings.Join(bad, "; "))

	// ---- every host list requestHosts returns was collected by this call: no successful return hands back a list that
	// comes out of another function of the repository (an answer remembered from an earlier request skips the
	// connected / not-already-a-peer / acknowledged checks of this one)
	{
		var rb []string
		an.AllInstrs(rh, func(in ssa.Instruction) {
			ret, ok := in.(*ssa.Return)
			if !ok || len(ret.Results) != 2 || (rh.Recover != nil && ret.Block() == rh.Recover) {
				return
			}
			res := an.RetResults(ret)
			if c, isC := res[1].(*ssa.Const); !isC || !c.IsNil() {
				return
			}
			for _, nd := range p.Derives(0, res[0]).Nodes {
				call, isCall := nd.(*ssa.Call)
				if !isCall {
					continue
				}
				g := call.Call.StaticCallee()
				if g == nil || !p.InRepo(g) || isStoreMethod(an.CallObj(call)) {
					continue
				}
				// the whitelist round itself, extracted into a helper (it starts the goroutines and collects): judged by
				// the rules above
				isFan := false
				for _, gf := range regionFuncs(p, g) {
					an.AllInstrs(gf, func(x ssa.Instruction) {
						switch x.(type) {
						case *ssa.Go, *ssa.Select:
							isFan = true
						}
					})
				}
				if isFan {
					continue
				}
				if sl, isSl := call.Type().Underlying().(*types.Slice); isSl && isNamedType(sl.Elem(), "Node") {
					rb = append(rb, "the host list returned at "+p.Pos(ret.Pos())+" comes out of "+an.FuncName(g)+" ("+p.Pos(call.Pos())+"), not out of this request's whitelist round")
				}
				if tup, isT := call.Type().(*types.Tuple); isT && tup.Len() > 0 {
					if sl, isSl := tup.At(0).Type().Underlying().(*types.Slice); isSl && isNamedType(sl.Elem(), "Node") {
						rb = append(rb, "the host list returned at "+p.Pos(ret.Pos())+" comes out of "+an.FuncName(g)+" ("+p.Pos(call.Pos())+"), not out of this request's whitelist round")
					}
				}
			}
		})
		r.Check(len(rb) == 0, "ack", an.FuncName(rh)+":collected-here", rh.Pos(), "every returned host list was collected by this call", "%s", strings.Join(dedup(rb), "; "))
	}
	// ---- callers: default + kind
	checkC08Callers(p, r, rh)

	// ---- driver filters
	exp, _ := p.PkgConstInt("pool/store", "ExpireInterval")
	drivers := p.Implementations(p.Iface("pool/store", "Store"))
	r.Floor("drivers", len(drivers), 2)
	checkResultsPrivate(p, r)
	for _, d := range drivers {
		m := p.MethodOf(d, "ActiveHosts")
		if m == nil || driverKind(d) == "" {
			continue
		}
		r.Analysed(an.FuncName(m))
		checkActiveHosts(p, r, d, m, exp)
	}
}

// isRecvValue: v is the received value rc itself, or a load of the local variable it was stored into.
func isRecvValue(v ssa.Value, rc *ssa.UnOp) bool {
	if v == ssa.Value(rc) {
		return true
	}
	if u, ok := v.(*ssa.UnOp); ok && u.Op == token.MUL {
		if al, ok := u.X.(*ssa.Alloc); ok {
			n, hit := 0, false
			for _, ref := range *al.Referrers() {
				if st, ok := ref.(*ssa.Store); ok && st.Addr == ssa.Value(al) {
					n++
					hit = hit || st.Val == ssa.Value(rc)
				}
			}
			return n == 1 && hit
		}
	}
	return false
}

func ifEmpty(cond bool, s string) []string {
	if cond {
		return []string{s}
	}
	return nil
}

func isHostServiceVal(v ssa.Value) bool {
	t := v.Type()
	if p, ok := t.Underlying().(*types.Pointer); ok {
		t = p.Elem()
	}
	return isNamedType(t, "hostService")
}

func checkC08Callers(p *an.Prog, r *an.Run, rh *ssa.Function) {
	n := 0
	for _, fn := range p.Repo {
		for _, c := range an.Calls(fn, false) {
			if c.Common().StaticCallee() != rh {
				continue
			}
			n++
			name := an.FuncName(fn)
			r.Analysed(name)
			a := c.Common().Args // recv ctx nodeID num kind
			var bad []string
			// id is the verified node id parameter
			if _, ok := a[2].(*ssa.Parameter); !ok {
				bad = append(bad, "requestHosts is not called with the endpoint's node id parameter")
			}
			// one request, one round: the bounds (count asked for, configured maximum) are enforced per call of
			// requestHosts, so an endpoint that calls it in a loop and adds the results up can hand out several times
			// the maximum
			if in, ok := c.(ssa.Instruction); ok && onCycle(in.Block()) {
				bad = append(bad, "requestHosts is called in a loop ("+p.Pos(c.Pos())+"): its per-call bounds no longer bound the reply")
			}
			// kind from the request
			if !p.Derives(0, a[4]).HasFieldNamed("", "Kind") {
				bad = append(bad, "the requested kind is not passed on")
			}
			dn := p.Derives(0, a[3])
			switch {
			case dn.HasFieldNamed("PeerRequest", "Num"):
				if _, isPhi := a[3].(*ssa.Phi); isPhi {
					bad = append(bad, "the peer count is altered before the request")
				}
			case dn.HasFieldNamed("ClientRequest", "NumHosts"):
				phi, ok := a[3].(*ssa.Phi)
				if !ok {
					bad = append(bad, "the legacy client count has no default")
					break
				}
				okDef, okReq := false, false
				for i, e := range phi.Edges {
					if k, ok := an.ConstInt(e); ok {
						okDef = k == 3
						continue
					}
					if fieldLoadOf(e, "ClientRequest", "NumHosts") {
						pred := phi.Block().Preds[i]
						for _, cr := range ctrlRels(pred) {
							rel := cr.Rel
							if fieldLoadOf(rel.R, "ClientRequest", "NumHosts") {
								rel = rel.Swap()
							}
							k, isK := an.ConstInt(rel.R)
							if fieldLoadOf(rel.L, "ClientRequest", "NumHosts") && isK && ((k == 0 && rel.Op == token.GTR) || (k == 1 && rel.Op == token.GEQ)) {
								okReq = true
							}
						}
					}
				}
				if !okDef {
					bad = append(bad, "the documented default of three hosts is not used when no count is named")
				}
				if !okReq {
					bad = append(bad, "the client's NumHosts is used under a condition other than NumHosts > 0")
				}
			default:
				bad = append(bad, "the host count does not come from the request")
			}
			r.Check(len(bad) == 0, "default", name, c.Pos(), "count/kind come from the request (default 3 for the legacy client endpoint)", "%s", strings.Join(bad, "; "))
		}
	}
	r.Floor("requestHosts-callers", n, 2)
}

func checkActiveHosts(p *an.Prog, r *an.Run, d *types.Named, m *ssa.Function, exp int64) {
	kind := driverKind(d)
	kindPrm := m.Params[1]
	var bad []string
	// the result appends
	var appends []*ssa.Call
	var loopFn *ssa.Function
	for _, fn := range an.WithAnon(m) {
		for _, c := range an.Calls(fn, false) {
			if b, ok := c.Common().Value.(*ssa.Builtin); ok && an.Ident(b.Name()) == "append" {
				if sl, ok := c.Common().Args[0].Type().Underlying().(*types.Slice); ok && isNamedType(sl.Elem(), "Node") {
					appends = append(appends, c.(*ssa.Call))
					loopFn = fn
				}
			}
		}
	}
	if len(appends) != 1 {
		r.Undec("driver-filters", kind, m.Pos(), "expected one append to the result in ActiveHosts, found %d", len(appends))
		return
	}
	app := appends[0]
	isApp := func(in ssa.Instruction) bool { return in == ssa.Instruction(app) }
	// the records examined are the node records themselves: the query iterates the node space, not a second index
	// or cache of it (a copy that is maintained on some transitions only keeps stale hosts eligible)
	nIter := 0
	for _, o := range driverOps(p, d, m) {
		if o.Kind != opIter {
			continue
		}
		nIter++
		if !o.inSpace("node") || len(o.Spaces) != 1 {
			bad = append(bad, "ActiveHosts iterates over "+strings.Join(o.Spaces, ",")+" ("+p.Pos(o.In.Pos())+"), not over the node records themselves")
		}
	}
	if nIter == 0 {
		bad = append(bad, "ActiveHosts does not iterate over the node space")
	}
	// "next iteration" markers: map range Next, or the iterator's Next/ValidForPrefix call
	isNext := func(in ssa.Instruction) bool {
		if _, ok := in.(*ssa.Next); ok {
			return true
		}
		if c, ok := in.(ssa.CallInstruction); ok {
			f := an.CallObj(c)
			return an.IsMethod(f, badgerLib, "Iterator", "Next") || an.IsMethod(f, badgerLib, "Iterator", "ValidForPrefix")
		}
		return false
	}
	type filt struct {
		found bool
		why   string
	}
	host, knd, seen := filt{}, filt{}, filt{}
	var kindBypassOK bool
	// classify a condition: which filter it is, and whether the record is kept when the condition is true
	classify := func(home *ssa.Function, cond ssa.Value) (class string, keepWhenTrue bool, ok bool) {
		v, w := cond, true
		for {
			if u, isNot := v.(*ssa.UnOp); isNot && u.Op == token.NOT {
				v, w = u.X, !w
				continue
			}
			break
		}
		if fieldLoadOf(v, "", "IsHost") || isFieldNamed(v, "IsHost") {
			return "host", w, true
		}
		rel, isRel := an.NormCond(cond)
		if !isRel {
			return "", false, false
		}
		switch rel.Kind {
		case "string":
			isKindField := func(x ssa.Value) bool { return fieldLoadOf(x, "", "Kind") || isFieldNamed(x, "Kind") }
			isKindPrm := func(x ssa.Value) bool { return isPlainParam(p, x, kindPrm) }
			if (isKindField(rel.L) && isKindPrm(rel.R)) || (isKindField(rel.R) && isKindPrm(rel.L)) {
				switch rel.Op {
				case token.NEQ:
					return "kind", false, true
				case token.EQL:
					return "kind", true, true
				}
			}
		case "time":
			rr := rel
			isLS := func(x ssa.Value) bool { return p.DerivesIn(m, 0, x).HasFieldNamed("Node", "LastSeen") }
			if !isLS(rr.L) {
				rr = rr.Swap()
			}
			if !isLS(rr.L) {
				return "", false, false
			}
			dd := p.DerivesIn(m, 0, rr.R)
			okWin := dd.CallTo(func(f *types.Func) bool { return an.IsFunc(f, "time", "Now") }) != nil
			okK := false
			for _, n := range dd.Nodes {
				if k, isK := an.ConstInt(n); isK && k == -exp {
					okK = true
				}
			}
			if !okWin || !okK {
				seen.why = "a recency comparison is not against now - ExpireInterval"
				return "", false, false
			}
			switch rr.Op {
			case token.GTR:
				return "seen", true, true
			case token.LEQ:
				return "seen", false, true
			default:
				seen.why = "the recency test is 'LastSeen " + rr.Op.String() + " now - ExpireInterval', expected '>'"
			}
		}
		return "", false, false
	}
	kindQueryGuard := func(b *ssa.BasicBlock) bool {
		for _, c := range an.ControllingIfs(b) {
			if r2, isRel := an.BranchRel(c.If, c.Succ); isRel && r2.Kind == "string" && r2.Op == token.NEQ {
				if sv, isS := an.ConstString(r2.R); isS && sv == "" && isPlainParam(p, r2.L, kindPrm) {
					return true
				}
			}
		}
		return false
	}
	mark := func(class string, okFence bool, where token.Pos, bypassOK bool) {
		f := map[string]*filt{"host": &host, "kind": &knd, "seen": &seen}[class]
		if okFence {
			f.found = true
			if class == "kind" && bypassOK {
				kindBypassOK = true
			}
		} else if f.why == "" {
			f.why = "the " + class + " test at " + p.Pos(where) + " does not fence the result"
		}
	}
	an.AllInstrs(loopFn, func(in ssa.Instruction) {
		iff, isIf := in.(*ssa.If)
		if !isIf {
			return
		}
		b := iff.Block()
		fence := func(skipSucc int) bool {
			return pathFromBlock(loopFn, b.Succs[skipSucc], isNext, isApp) == nil
		}
		if class, keep, ok := classify(loopFn, iff.Cond); ok {
			skip := 0
			if keep {
				skip = 1
			}
			dom := b.Dominates(app.Block())
			mark(class, fence(skip) && (dom || class == "kind"), iff.Pos(), kindQueryGuard(b) || dom)
			return
		}
		// a predicate helper: if keep(n, kind, since) { append }
		v, w := iff.Cond, true
		for {
			if u, isNot := v.(*ssa.UnOp); isNot && u.Op == token.NOT {
				v, w = u.X, !w
				continue
			}
			break
		}
		call, isCall := v.(*ssa.Call)
		if !isCall {
			return
		}
		h := call.Call.StaticCallee()
		if h == nil || len(h.Blocks) == 0 || !p.InRepo(h) || h.Signature.Results().Len() != 1 {
			return
		}
		falseSucc := 1
		if !w {
			falseSucc = 0
		}
		if !fence(falseSucc) || !b.Dominates(app.Block()) {
			return
		}
		// inside the helper: which filters are necessary for a truthy result
		var truthy []*ssa.Return
		an.AllInstrs(h, func(x ssa.Instruction) {
			if ret, isRet := x.(*ssa.Return); isRet {
				if c, isC := ret.Results[0].(*ssa.Const); isC && c.Value != nil && c.Value.String() == "false" {
					return
				}
				truthy = append(truthy, ret)
			}
		})
		isTruthy := func(x ssa.Instruction) bool {
			for _, t := range truthy {
				if x == ssa.Instruction(t) {
					return true
				}
			}
			return false
		}
		for _, class := range []string{"host", "kind", "seen"} {
			all := len(truthy) > 0
			bypass := false
			for _, t := range truthy {
				okT := false
				// the returned expression itself
				if c2, keep, ok := classify(h, t.Results[0]); ok && c2 == class && keep {
					okT = true
				}
				an.AllInstrs(h, func(x ssa.Instruction) {
					j, isIf := x.(*ssa.If)
					if !isIf {
						return
					}
					c2, keep, ok := classify(h, j.Cond)
					if !ok || c2 != class {
						return
					}
					skip := 0
					if keep {
						skip = 1
					}
					if pathFromBlock(h, j.Block().Succs[skip], nil, isTruthy) == nil && (class == "kind" || j.Block().Dominates(t.Block())) {
						okT = true
						if class == "kind" && (kindQueryGuard(j.Block()) || j.Block().Dominates(t.Block())) {
							bypass = true
						}
					}
				})
				if !okT {
					all = false
				}
			}
			if all {
				mark(class, true, iff.Pos(), bypass)
			}
		}
	})
	if !host.found {
		bad = append(bad, "no host-flag filter fences the result: light clients could be returned as hosts; "+host.why)
	}
	if !knd.found {
		bad = append(bad, "no kind filter fences the result; "+knd.why)
	}
	if !kindBypassOK && knd.found {
		bad = append(bad, "the kind filter can be bypassed for a non-empty query")
	}
	// ... and an empty query means "any kind": from the branch on which the queried kind is empty the result append is
	// reachable without the record's kind having to equal it (an `||` for the `&&` of the skip condition returns only
	// records of empty kind, i.e. nothing, for the unrestricted query the status page and legacy clients make)
	{
		h := app.Parent()
		var emptyEdges []*ssa.BasicBlock
		cutDiff := map[an.Edge]bool{}
		kindIfs := map[*ssa.If]bool{}
		an.AllInstrs(h, func(x ssa.Instruction) {
			iff, isIf := x.(*ssa.If)
			if !isIf {
				return
			}
			rel, ok := an.NormCond(iff.Cond)
			if !ok || rel.Kind != "string" {
				return
			}
			b := iff.Block()
			for _, pair := range [][2]ssa.Value{{rel.L, rel.R}, {rel.R, rel.L}} {
				if sv, isS := an.ConstString(pair[1]); isS && sv == "" && isPlainParam(p, pair[0], kindPrm) {
					if rel.Op == token.EQL {
						emptyEdges = append(emptyEdges, b.Succs[0])
					} else if rel.Op == token.NEQ {
						emptyEdges = append(emptyEdges, b.Succs[1])
					}
				}
			}
			if c2, _, ok2 := classify(h, iff.Cond); ok2 && c2 == "kind" {
				kindIfs[iff] = true
			}
		})
		_ = cutDiff
		for _, start := range emptyEdges {
			isKindIf := func(x ssa.Instruction) bool {
				iff, ok := x.(*ssa.If)
				return ok && kindIfs[iff]
			}
			if pathFromBlock(h, start, isKindIf, isApp) == nil {
				bad = append(bad, "with an empty kind query the result append is only reachable through the comparison of the record's kind with the (empty) query: the unrestricted query returns no hosts of any real kind")
			}
		}
	}
	if !seen.found {
		bad = append(bad, "no recency filter fences the result: hosts that stopped checking in would be returned; "+seen.why)
	}
	bad = append(bad, limitSemantics(p, d, m, app)...)
	if kind == "badger" {
		dec, _ := freshDecodeViolations(p, func(fn *ssa.Function) bool { return isNested(fn, m) })
		bad = append(bad, dec...)
	}
	r.Check(len(bad) == 0, "driver-filters", kind, m.Pos(), "result fenced by IsHost, kind (unless empty query), LastSeen > now-ExpireInterval; limit honoured (0 = unlimited)", "%s", strings.Join(dedup(bad), "; "))
}

func isFieldNamed(v ssa.Value, name string) bool {
	if f, ok := v.(*ssa.Field); ok {
		if fv := an.FieldOf(f); fv != nil && an.Ident(fv.Name()) == name {
			return true
		}
		return isFieldNamed(f.X, name) && false
	}
	return false
}

// limitSemantics checks the documented limit handling of ActiveHosts (limit > 0 caps the result, 0 = unlimited).
func limitSemantics(p *an.Prog, d *types.Named, m *ssa.Function, app *ssa.Call) []string {
	kind := driverKind(d)
	limitPrm := m.Params[2]
	isApp := func(in ssa.Instruction) bool { return in == ssa.Instruction(app) }
	var bad []string
	switch kind {
	case "memory":
		okBreak := false
		an.AllInstrs(m, func(in ssa.Instruction) {
			iff, ok := in.(*ssa.If)
			if !ok {
				return
			}
			rel, ok := an.NormCond(iff.Cond)
			if !ok || rel.Kind != "int" || rel.Op != token.EQL {
				return
			}
			if k, ok := an.ConstInt(rel.R); !ok || k != 0 {
				return
			}
			if bo, ok := rel.L.(*ssa.BinOp); ok && bo.Op == token.SUB {
				if k, ok := an.ConstInt(bo.Y); ok && k == 1 && p.Derives(0, bo.X).HasParam(limitPrm) {
					// the break edge leaves the loop: no more appends
					if pathFromBlock(m, iff.Block().Succs[0], nil, isApp) == nil && an.Dominates(app, iff) {
						okBreak = true
					}
				}
			}
		})
		if !okBreak {
			bad = append(bad, "the limit is not honoured (no 'limit-1 == 0 => stop' after an append)")
		}
	case "badger":
		okSlice := false
		an.AllInstrs(m, func(in ssa.Instruction) {
			if sl, ok := in.(*ssa.Slice); ok && sl.High == ssa.Value(limitPrm) && sl.Low == nil {
				okSlice = true
				// guarded by limit > 0 and len(r) >= limit
				var pos, enough bool
				for _, cr := range ctrlRels(sl.Block()) {
					rel := cr.Rel
					if rel.Kind != "int" {
						continue
					}
					if rel.L == ssa.Value(limitPrm) {
						if k, ok := an.ConstInt(rel.R); ok && k == 0 && rel.Op == token.GTR {
							pos = true
						}
					}
					if _, isLen := an.LenOf(rel.L); isLen && rel.R == ssa.Value(limitPrm) && (rel.Op == token.GEQ || rel.Op == token.GTR) {
						enough = true
					}
				}
				if !pos || !enough {
					bad = append(bad, "the truncation r[:limit] is not guarded by limit > 0 && len(r) >= limit")
				}
			}
		})
		if !okSlice {
			bad = append(bad, "the limit is not honoured (result never truncated to limit)")
		}
	}
	return bad
}

// checkErrorReplies: "returned nil" means "the host acknowledged" only if every Service implementation turns a reply's
// error member into a Go error: each non-failing return of a Call method is the result of Response.UnmarshalResult
// (which consults Error first), also when the caller passes a nil result as the pool does for whitelist/disconnect.
func checkErrorReplies(p *an.Prog, r *an.Run) {
	svc := p.Iface("jsonrpc2", "Service")
	ur := p.Method("jsonrpc2", "Response", "UnmarshalResult")
	if svc == nil || ur == nil {
		r.Undec("ack", "jsonrpc2.Service", token.NoPos, "jsonrpc2.Service / Response.UnmarshalResult not found")
		return
	}
	isUR := func(v ssa.Value) bool {
		c, ok := v.(*ssa.Call)
		return ok && c.Common().StaticCallee() == ur
	}
	n := 0
	for _, impl := range p.Implementations(svc) {
		m := p.MethodOf(impl, "Call")
		if m == nil || p.IsTestFunc(m) || !p.InRepo(m) || strings.Contains(m.Pkg.Pkg.Path(), "/internal/") {
			continue
		}
		n++
		r.Analysed(an.FuncName(m))
		var bad []string
		an.AllInstrs(m, func(in ssa.Instruction) {
			ret, ok := in.(*ssa.Return)
			if !ok {
				return
			}
			if m.Recover != nil && ret.Block() == m.Recover {
				return // synthetic exit taken only after a recovered panic (none in this code)
			}
			rr := an.RetResults(ret)
			if len(rr) == 0 {
				return
			}
			res := rr[len(rr)-1]
			var check func(v ssa.Value, depth int) bool
			check = func(v ssa.Value, depth int) bool {
				if isUR(v) || definitelyNonNilError(v) || returnOnFailEdge(ret, v) {
					return true
				}
				// "if err := resp.UnmarshalResult(r); err != nil { return err }; return nil"
				if cst, ok := v.(*ssa.Const); ok && cst.IsNil() {
					for _, uc := range an.Calls(m, false) {
						if uc.Common().StaticCallee() != ur {
							continue
						}
						if u := an.ErrEdges(uc); len(u.Succ) > 0 && !an.ReachAvoiding(m, an.EdgeSet(u.Succ))[ret.Block()] {
							return true
						}
					}
				}
				if ph, ok := v.(*ssa.Phi); ok && depth < 4 {
					for _, e := range ph.Edges {
						if !check(e, depth+1) {
							return false
						}
					}
					return true
				}
				// delegation to another Service's Call
				if c, ok := v.(*ssa.Call); ok {
					if f := an.CallObj(c); f != nil && f.Name() == "Call" {
						return true
					}
				}
				return false
			}
			if !check(res, 0) {
				bad = append(bad, "the return at "+p.Pos(ret.Pos())+" can report success without the reply's error member having been consulted (Response.UnmarshalResult): an error reply to vipnode_whitelist would count as an acknowledgement")
			}
		})
		r.Check(len(bad) == 0, "ack", an.FuncName(m), m.Pos(), "a reply's error member always becomes the call's error", "%s", strings.Join(dedup(bad), "; "))
	}
	r.Floor("service-implementations", n, 3)
	// UnmarshalResult consults Error before anything else
	var bad []string
	an.AllInstrs(ur, func(in ssa.Instruction) {
		ret, ok := in.(*ssa.Return)
		if !ok {
			return
		}
		res := an.RetResults(ret)[0]
		if mi, ok := res.(*ssa.MakeInterface); ok {
			if fv := an.FieldOf(stripLoad(mi.X)); fv != nil && fv.Name() == "Error" {
				return
			}
		}
		okCtl := false
		for _, c := range an.ControllingIfs(ret.Block()) {
			if b, ok := c.If.Cond.(*ssa.BinOp); ok {
				if fv := an.FieldOf(stripLoad(b.X)); fv != nil && fv.Name() == "Error" {
					if (b.Op == token.NEQ && c.Succ == 1) || (b.Op == token.EQL && c.Succ == 0) {
						okCtl = true
					}
				}
			}
		}
		if !okCtl {
			bad = append(bad, "UnmarshalResult can return at "+p.Pos(ret.Pos())+" without having tested the reply's Error")
		}
	})
	r.Check(len(bad) == 0, "ack", an.FuncName(ur), ur.Pos(), "the error member is tested before the result is used", "%s", strings.Join(bad, "; "))
}

func stripLoad(v ssa.Value) ssa.Value {
	if u, ok := v.(*ssa.UnOp); ok && u.Op == token.MUL {
		return u.X
	}
	return v
}

// checkKindParsing: a kind name the pool does not know stays unknown: ethnode.ParseNodeKind returns Unknown for it (the
// pool stores "" for unknown kinds, which no kind-specific request matches). A default that maps unknown names to a
// real kind hands hosts of unlisted or misspelled kinds to clients that asked for that kind explicitly.
func checkKindParsing(p *an.Prog, r *an.Run) {
	pk := p.Func("ethnode", "ParseNodeKind")
	if pk == nil {
		r.Undec("driver-filters", "ethnode.ParseNodeKind", token.NoPos, "anchor not found")
		return
	}
	unk, ok := p.PkgConstInt("ethnode", "Unknown")
	hasUnknown := false
	n := 0
	an.AllInstrs(pk, func(in ssa.Instruction) {
		ret, isRet := in.(*ssa.Return)
		if !isRet || len(ret.Results) != 1 {
			return
		}
		n++
		vals := []ssa.Value{ret.Results[0]}
		if ph, isPhi := ret.Results[0].(*ssa.Phi); isPhi {
			vals = ph.Edges
		}
		for _, v := range vals {
			if k, isK := an.ConstInt(v); isK && ok && k == unk {
				hasUnknown = true
			}
		}
	})
	r.Check(hasUnknown && n > 0, "driver-filters", an.FuncName(pk), pk.Pos(), "unrecognised kind names parse to Unknown", "%s never returns ethnode.Unknown: a kind name the pool does not recognise is stored as a real kind, and hosts of that unlisted kind are handed to clients that asked for it by name", an.FuncName(pk))
}
