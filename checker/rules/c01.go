package rules

import (
	"go/token"
	"go/types"
	"strings"

	"golang.org/x/tools/go/ssa"

	"vipcheck/an"
)

func init() {
	Registry["C01"] = Spec{
		Run: runC01,
		Explanation: "Static necessary conditions of the zero-sum ledger, decided over the SSA of every ledger writer found by who-may-call: " +
			"(writers) every function outside the drivers that calls AddNodeBalance/AddAccountBalance is a pure forwarder, a paired transfer or a settlement consume; " +
			"(error-discipline) no ledger-mutating call drops its error; " +
			"(pairing) in the paired transfer each successful credit of x is accumulated exactly once with the same x, the accumulator is written by nothing else, every path from a credit to a return passes the single debit of Neg(accumulator) to the paying node; " +
			"(atomic-transfer) the transfer's writes share one store transaction — violated by design, recorded known finding; " +
			"(single-write) each driver's AddNodeBalance writes exactly one of {account balance, trial balance} on success paths and none on failure paths, value = stored + credit; " +
			"(migrate) each driver's AddAccountNode adds the trial credit read in the same region to the account balance and deletes the trial entry on the same paths; " +
			"(stats-cover) each driver's Stats counts both balance spaces. Round 2: the credit to migrate is read from a key in the trial space only. Round 5: (bigint-private) in-place big.Int methods only on owned values, no aliasing *big.Int results; (key-spelling) ids in badger key formats are spelled as themselves; (one-txn:retry-closure) functions handed to retrying wrappers keep nothing from a failed attempt.",
		NotDecided: []string{"not decided: arithmetic value of the sums; optimistic-transaction conflicts at run time (only their structural consequence); wallet-sharing effects"},
	}
}

// methodArgs returns the arguments of a method call without the receiver.
func methodArgs(c ssa.CallInstruction) []ssa.Value {
	cc := c.Common()
	if cc.IsInvoke() {
		return cc.Args
	}
	if f := cc.StaticCallee(); f != nil && f.Signature.Recv() != nil && len(cc.Args) > 0 {
		return cc.Args[1:]
	}
	return cc.Args
}

func isLedgerWriteCall(c ssa.CallInstruction) bool {
	return isStoreMethodNamed(an.CallObj(c), "AddNodeBalance", "AddAccountBalance")
}

func inDriverPkg(fn *ssa.Function) bool {
	for fn.Parent() != nil {
		fn = fn.Parent()
	}
	if fn.Pkg == nil {
		return false
	}
	pth := fn.Pkg.Pkg.Path()
	return pth == pkgMemory || pth == pkgBadger
}

func takesTestingT(fn *ssa.Function) bool {
	for fn.Parent() != nil {
		fn = fn.Parent()
	}
	for _, prm := range fn.Params {
		if pt, ok := prm.Type().(*types.Pointer); ok {
			if n, ok := pt.Elem().(*types.Named); ok && n.Obj().Pkg() != nil && n.Obj().Pkg().Path() == "testing" {
				return true
			}
		}
	}
	return false
}

// isForwarder: fn's only effect is one call of the same-named method on an
// inner store with its own parameters passed through, result returned.
func isForwarder(fn *ssa.Function, c ssa.CallInstruction) bool {
	f := an.CallObj(c)
	if f == nil || f.Name() != fn.Name() {
		return false
	}
	args := methodArgs(c)
	params := fn.Params
	if fn.Signature.Recv() != nil {
		params = params[1:]
	}
	if len(args) != len(params) {
		return false
	}
	for i := range args {
		if args[i] != ssa.Value(params[i]) {
			return false
		}
	}
	// no other calls with effects, result returned directly
	n := 0
	for _, cc := range an.Calls(fn, true) {
		if _, ok := isEffectCall(cc); ok {
			n++
		}
	}
	if n != 1 {
		return false
	}
	u := an.ErrEdges(c)
	return u.Returned && !u.Dropped
}

func negCallOf(p *an.Prog, v ssa.Value) *ssa.Call {
	d := p.Derives(0, v)
	for _, n := range d.Nodes {
		if c, ok := n.(*ssa.Call); ok && an.IsBigIntMethod(c, "Neg") {
			return c
		}
	}
	return nil
}

func runC01(p *an.Prog, r *an.Run, tier string) {
	checkSurfaceClosed(p, r)
	transfer := checkLedgerWriters(p, r)
	runC01rest(p, r, transfer)
}

// checkLedgerWriters: writers / error-discipline — every function outside the drivers that writes the ledger is a pure
// forwarder (own parameters handed through verbatim, result returned), a paired transfer or a settlement consume, and
// no ledger error is dropped. Shared with C07: a wrapper that books a settlement under another spelling of the account
// than the one it reads the balance under leaves the paid credit in place. Returns the paired transfer.
func checkLedgerWriters(p *an.Prog, r *an.Run) *ssa.Function {
	// ---- writers / error discipline
	type writer struct {
		fn    *ssa.Function
		calls []ssa.CallInstruction
	}
	var writers []*writer
	nSites := 0
	for _, fn := range p.Repo {
		if inDriverPkg(fn) || takesTestingT(fn) {
			continue
		}
		// test scaffolding that lives in non-test files (store/testsuite.go)
		if strings.HasSuffix(p.File(fn.Pos()), "testsuite.go") {
			continue
		}
		var cs []ssa.CallInstruction
		for _, c := range an.Calls(fn, false) {
			if isLedgerWriteCall(c) {
				cs = append(cs, c)
			}
		}
		if len(cs) > 0 {
			writers = append(writers, &writer{fn, cs})
			nSites += len(cs)
		}
	}
	r.Floor("writers", nSites, 4)
	r.CallSites += nSites
	var transfer *ssa.Function
	for _, w := range writers {
		name := an.FuncName(w.fn)
		r.Analysed(name)
		kind := ""
		switch {
		case len(w.calls) == 1 && isForwarder(w.fn, w.calls[0]):
			kind = "forwarder"
		case isSettlementConsumer(p, w.fn, w.calls):
			kind = "settlement-consume"
		default:
			hasNeg, hasPos := false, false
			for _, c := range w.calls {
				a := methodArgs(c)
				if len(a) == 2 && negCallOf(p, a[1]) != nil {
					hasNeg = true
				} else {
					hasPos = true
				}
			}
			if hasNeg && hasPos {
				kind = "paired-transfer"
				if transfer == nil {
					transfer = w.fn
				}
			}
		}
		if kind == "" {
			r.Fail("writers", name, w.calls[0].Pos(), "%s writes the ledger but is neither a pure forwarder, a paired transfer (credit(s) + negated debit) nor a settlement consume: it creates or destroys credit", name)
		} else {
			r.Ok("writers", name, w.fn.Pos(), kind)
		}
		for i, c := range w.calls {
			u := an.ErrEdges(c)
			key := name
			if len(w.calls) > 1 {
				key = name + "#" + itoa(i+1)
			}
			if u.Dropped || (!u.Returned && len(u.Succ) == 0 && !u.Other) {
				r.Fail("error-discipline", key, c.Pos(), "the error result of %s is dropped: a failed ledger write is treated as done", an.ObjString(an.CallObj(c)))
			} else {
				r.Ok("error-discipline", key, c.Pos(), "error result is branched on or returned")
			}
		}
	}
	// AddAccountNode call sites too (error discipline only)
	for _, fn := range p.Repo {
		if inDriverPkg(fn) || takesTestingT(fn) || strings.HasSuffix(p.File(fn.Pos()), "testsuite.go") {
			continue
		}
		for _, c := range an.Calls(fn, false) {
			if isStoreMethodNamed(an.CallObj(c), "AddAccountNode") {
				u := an.ErrEdges(c)
				r.Check(!u.Dropped, "error-discipline", an.FuncName(fn)+":AddAccountNode", c.Pos(), "error propagated", "the error of AddAccountNode is dropped")
			}
		}
	}

	return transfer
}

func runC01rest(p *an.Prog, r *an.Run, transfer *ssa.Function) {
	// ---- pairing in the paired transfer
	if transfer == nil {
		r.Undec("pairing", "paired-transfer", token.NoPos, "no paired transfer (credits + negated debit) found among the ledger writers; expected payPerInterval.OnUpdate")
	} else {
		checkPairing(p, r, transfer, true)
	}

	// ---- drivers
	drivers := p.Implementations(p.Iface("pool/store", "Store"))
	r.Floor("drivers", len(drivers), 2)
	checkLedgerWriterMethods(p, r)
	checkTxnWrappers(p, r)
	checkBigIntOwnership(p, r)
	checkKeyOperandTypes(p, r)
	checkTTLDiscipline(p, r)
	for _, d := range drivers {
		checkDriverLedger(p, r, d)
	}
}

// isSettlementConsumer: every ledger write in fn is reachable only through
// the success edge of a call through a function-valued field named Settle
// (or typed SettleHandler) and writes a negated amount.
func isSettlementConsumer(p *an.Prog, fn *ssa.Function, calls []ssa.CallInstruction) bool {
	settles := settleCalls(fn)
	if len(settles) != 1 {
		return false
	}
	settle := settles[0]
	reach := an.ReachAvoiding(fn, an.EdgeSet(an.ErrEdges(settle).Succ))
	for _, c := range calls {
		if reach[c.Block()] {
			return false
		}
		a := methodArgs(c)
		if len(a) != 2 {
			return false
		}
		neg := negCallOf(p, a[1])
		if neg == nil {
			return false
		}
		// the consumed amount is the Credit of the single balance snapshot read before settlement
		na := neg.Call.Args
		root, path := an.RootPath(na[len(na)-1])
		al, _ := root.(*ssa.Alloc)
		if al == nil || path != ".Credit" {
			return false
		}
		nStores, okSrc := 0, false
		for _, ref := range *al.Referrers() {
			if st, ok := ref.(*ssa.Store); ok && st.Addr == ssa.Value(al) {
				nStores++
				if ex, ok := st.Val.(*ssa.Extract); ok {
					if g, ok := ex.Tuple.(*ssa.Call); ok && isStoreMethodNamed(an.CallObj(g), "GetAccountBalance") && an.Dominates(g, settle.(ssa.Instruction)) {
						okSrc = true
					}
				}
			}
		}
		if nStores != 1 || !okSrc {
			return false
		}
	}
	return true
}

func settleCalls(fn *ssa.Function) []ssa.CallInstruction {
	var out []ssa.CallInstruction
	for _, c := range an.Calls(fn, false) {
		cc := c.Common()
		if cc.IsInvoke() || cc.StaticCallee() != nil {
			continue
		}
		if n, ok := cc.Value.Type().(*types.Named); ok && n.Obj().Name() == "SettleHandler" {
			out = append(out, c)
			continue
		}
		if u, ok := cc.Value.(*ssa.UnOp); ok && u.Op == token.MUL {
			if fv := an.FieldOf(u.X); fv != nil && fv.Name() == "Settle" {
				out = append(out, c)
			}
		}
	}
	return out
}

func checkPairing(p *an.Prog, r *an.Run, fn *ssa.Function, withAtomic bool) {
	name := an.FuncName(fn)
	var credits, debits []ssa.CallInstruction
	for _, c := range an.Calls(fn, false) {
		if !isLedgerWriteCall(c) {
			continue
		}
		a := methodArgs(c)
		if len(a) == 2 && negCallOf(p, a[1]) != nil {
			debits = append(debits, c)
		} else {
			credits = append(credits, c)
		}
	}
	if len(debits) != 1 {
		r.Fail("pairing", name+":debit", fn.Pos(), "expected exactly one debit (ledger write of a negated amount) in the transfer, found %d", len(debits))
		return
	}
	if len(credits) == 0 {
		r.Fail("pairing", name+":credit", fn.Pos(), "no credit found in the transfer")
		return
	}
	// every peer of the list is credited: inside the loop that credits, no turn can come round again without having
	// passed the credit call (a `continue` ahead of it for peers "whose credit and debit would cancel anyway" lets a
	// client use those hosts for free)
	for _, c := range credits {
		in, isIn := c.(ssa.Instruction)
		if !isIn || !onCycle(in.Block()) {
			continue
		}
		hdr := loopHeader(in.Block())
		if hdr == nil {
			continue
		}
		isC := func(x ssa.Instruction) bool { return x == in }
		atHdr := func(x ssa.Instruction) bool { return x.Block() == hdr }
		var skips []string
		for _, sc := range hdr.Succs {
			if !an.ReachFrom([]*ssa.BasicBlock{sc}, nil)[hdr] {
				continue
			}
			if hit := pathFromBlock(fn, sc, isC, atHdr); hit != nil {
				skips = append(skips, "a turn of the loop can reach the next one without the credit at "+p.Pos(c.Pos())+" having been attempted")
			}
		}
		r.Check(len(skips) == 0, "pairing", name+":every-peer", c.Pos(), "every peer handed to the transfer is credited", "%s", strings.Join(dedup(skips), "; "))
	}
	debit := debits[0]
	neg := negCallOf(p, methodArgs(debit)[1])
	// accumulator = root of Neg's operand
	negArgs := neg.Call.Args
	accRoot := bigRoot(negArgs[len(negArgs)-1])
	isAcc := func(v ssa.Value) bool { return bigRoot(v) == accRoot }
	if _, ok := accRoot.(*ssa.Alloc); !ok {
		r.Undec("pairing", name+":accumulator", neg.Pos(), "the negated amount is not a locally allocated accumulator (%s)", accRoot)
		return
	}
	// all writes to the accumulator
	type acc struct {
		call ssa.CallInstruction
		x    ssa.Value
	}
	var accs []acc
	var badAcc []string
	for _, c := range an.Calls(fn, true) {
		if !an.IsBigIntMutator(c) {
			continue
		}
		args := c.Common().Args
		if len(args) == 0 || !isAcc(args[0]) {
			continue
		}
		if an.IsBigIntMethod(c, "Add") && len(args) == 3 && (isAcc(args[1]) != isAcc(args[2])) {
			x := args[2]
			if isAcc(args[2]) {
				x = args[1]
			}
			accs = append(accs, acc{c, x})
		} else {
			badAcc = append(badAcc, p.Pos(c.Pos())+": "+an.ObjString(an.CallObj(c)))
		}
	}
	// escaping uses of the accumulator other than Add/Neg (e.g. stored elsewhere)
	for _, ref := range *accRoot.(*ssa.Alloc).Referrers() {
		switch x := ref.(type) {
		case *ssa.Store:
			if x.Val == accRoot {
				badAcc = append(badAcc, p.Pos(x.Pos())+": accumulator pointer stored")
			}
		case *ssa.MakeClosure:
			badAcc = append(badAcc, p.Pos(x.Pos())+": accumulator captured by a closure")
		}
	}
	r.Check(len(badAcc) == 0, "pairing", name+":accumulator-writes", neg.Pos(), "the accumulator is written only by acc.Add(acc, x)", "the accumulator feeding the debit is also written by: %s", strings.Join(badAcc, "; "))

	isAccum := func(in ssa.Instruction) bool {
		for _, a := range accs {
			if a.call.(ssa.Instruction) == in {
				return true
			}
		}
		return false
	}
	isDebit := func(in ssa.Instruction) bool { return in == debit.(ssa.Instruction) }
	isLedger := func(in ssa.Instruction) bool {
		c, ok := in.(ssa.CallInstruction)
		return ok && isLedgerWriteCall(c)
	}

	for i, c := range credits {
		key := name + ":credit"
		if len(credits) > 1 {
			key += "#" + itoa(i+1)
		}
		x := methodArgs(c)[1]
		u := an.ErrEdges(c)
		var bad []string
		// accumulates of this x
		var mine []acc
		for _, a := range accs {
			if a.x == x {
				mine = append(mine, a)
			}
		}
		if len(mine) == 0 {
			bad = append(bad, "the credited amount is never added to the accumulator that is debited")
		}
		// (a1) accumulate only after success
		reach := an.ReachAvoiding(fn, an.EdgeSet(u.Succ))
		for _, a := range mine {
			if len(u.Succ) == 0 || reach[a.call.Block()] {
				bad = append(bad, "accumulate at "+p.Pos(a.call.Pos())+" is reachable without the credit having succeeded (charged for credit not given)")
			}
		}
		// (a2) from success: must accumulate before next ledger write / return
		for _, e := range u.Succ {
			first := e.To.Instrs[0]
			if isAccum(first) {
				continue
			}
			if in := pathFromBlock(fn, e.To, isAccum, func(in ssa.Instruction) bool { return isLedger(in) || an.IsReturn(in) }); in != nil {
				bad = append(bad, "after a successful credit a path reaches "+p.Pos(in.Pos())+" without accumulating it (credit given but never debited)")
			}
		}
		// (a3) from failure: no accumulate before the next ledger write
		for _, e := range u.Fail {
			if in := pathFromBlock(fn, e.To, isLedger, isAccum); in != nil {
				bad = append(bad, "after a failed credit the amount is still accumulated at "+p.Pos(in.Pos()))
			}
		}
		// (a4) not accumulated twice
		for _, a := range mine {
			if in := an.PathAvoiding(fn, a.call.(ssa.Instruction), isLedger, isAccum, nil); in != nil {
				bad = append(bad, "the amount is accumulated twice ("+p.Pos(a.call.Pos())+" then "+p.Pos(in.Pos())+") for one credit")
			}
		}
		// (b) every path from a successful credit to a return passes the debit
		for _, e := range u.Succ {
			if in := pathFromBlock(fn, e.To, isDebit, an.IsReturn); in != nil {
				bad = append(bad, "a path from a successful credit reaches the return at "+p.Pos(in.Pos())+" without debiting the payer (credit created)")
			}
		}
		// (c) credited node derives from the peer list, not from the payer
		dn := p.Derives(0, methodArgs(c)[0])
		payer := payerParam(p, fn, debit)
		if payer != nil && dn.HasParam(payer) {
			bad = append(bad, "the credited node derives from the paying node")
		}
		r.Paths++
		r.Check(len(bad) == 0, "pairing", key, c.Pos(), "successful credit of x <=> accumulate x once; every path to a return passes the debit", "%s", strings.Join(bad, "; "))
	}
	// debit executes at most once and its node is the payer
	var bad []string
	if in := an.PathAvoiding(fn, debit.(ssa.Instruction), nil, isDebit, nil); in != nil {
		bad = append(bad, "the debit can execute more than once")
	}
	payer := payerParam(p, fn, debit)
	if payer == nil {
		bad = append(bad, "the debited node does not derive from exactly one node parameter's ID")
	}
	for _, c := range credits {
		if in := an.PathAvoiding(fn, debit.(ssa.Instruction), nil, func(in ssa.Instruction) bool { return in == c.(ssa.Instruction) }, nil); in != nil {
			bad = append(bad, "a credit at "+p.Pos(in.Pos())+" can follow the debit (credit after the bill was settled)")
		}
	}
	r.Check(len(bad) == 0, "pairing", name+":debit", debit.Pos(), "one debit of Neg(accumulator) to the paying node after all credits", "%s", strings.Join(bad, "; "))

	// atomic-transfer: credits and debit are separate store calls -> separate transactions
	nWrites := len(credits) + len(debits)
	if !withAtomic {
		return
	}
	if nWrites > 1 {
		r.Fail("atomic-transfer", name, debit.Pos(), "the transfer performs its credits and its debit as separate BalanceStore calls (separate transactions / critical sections): a debit that fails after the credits succeeded leaves credit created")
	} else {
		r.Ok("atomic-transfer", name, fn.Pos(), "single store call")
	}
}

// pathFromBlock: like PathAvoiding but starting at the top of block b.
func pathFromBlock(fn *ssa.Function, b *ssa.BasicBlock, stop, bad func(ssa.Instruction) bool) ssa.Instruction {
	if len(b.Instrs) == 0 {
		return nil
	}
	first := b.Instrs[0]
	if stop != nil && stop(first) {
		return nil
	}
	if bad(first) {
		return first
	}
	return an.PathAvoiding(fn, first, stop, bad, nil)
}

// payerParam returns the parameter whose ID the debit's node argument derives from.
func payerParam(p *an.Prog, fn *ssa.Function, debit ssa.CallInstruction) *ssa.Parameter {
	d := p.Derives(0, methodArgs(debit)[0])
	var out *ssa.Parameter
	for _, prm := range d.Params() {
		if prm.Parent() != fn {
			continue
		}
		if n := namedOf(prm.Type()); n != nil && n.Obj().Name() == "Node" {
			if out != nil {
				return nil
			}
			out = prm
		} else if _, isSlice := prm.Type().Underlying().(*types.Slice); isSlice {
			return nil
		}
	}
	if out != nil && !d.HasFieldNamed("Node", "ID") {
		return nil
	}
	return out
}

// ---------------------------------------------------------------------------
// Drivers: single-write, migrate, stats-cover

func allocOfValue(v ssa.Value) *ssa.Alloc {
	v = underlyingConcrete(v)
	if u, ok := v.(*ssa.UnOp); ok && u.Op == token.MUL {
		v = u.X
	}
	root, path := an.RootPath(v)
	if path != "" {
		return nil
	}
	a, _ := root.(*ssa.Alloc)
	return a
}

// creditMutators returns the big.Int mutator calls (in fn) on <alloc>.Credit.
func fieldMutators(fn *ssa.Function, alloc *ssa.Alloc, field string) []ssa.CallInstruction {
	var out []ssa.CallInstruction
	for _, c := range an.Calls(fn, false) {
		if !an.IsBigIntMutator(c) || len(c.Common().Args) == 0 {
			continue
		}
		root, path := an.RootPath(c.Common().Args[0])
		if root == ssa.Value(alloc) && path == "."+field {
			out = append(out, c)
		}
	}
	return out
}

func opsOnPath(ops []storeOp, path []*ssa.BasicBlock) int {
	n := 0
	for _, b := range path {
		for _, o := range ops {
			if o.In.Block() == b {
				n++
			}
		}
	}
	return n
}

func filterOps(ops []storeOp, f func(storeOp) bool) []storeOp {
	var out []storeOp
	for _, o := range ops {
		if f(o) {
			out = append(out, o)
		}
	}
	return out
}

func isLedgerSpace(o storeOp) bool { return o.inSpace("balance") || o.inSpace("trial") }

func checkDriverLedger(p *an.Prog, r *an.Run, d *types.Named) {
	kind := driverKind(d)
	if kind == "" {
		r.Undec("drivers", d.Obj().Name(), d.Obj().Pos(), "store implementation %s is neither the memory nor the badger driver: no ledger model for it", d.Obj().Name())
		return
	}
	for _, mname := range []string{"AddNodeBalance", "AddAccountBalance"} {
		m := p.MethodOf(d, mname)
		if m == nil {
			r.Undec("single-write", kind+"."+mname, d.Obj().Pos(), "method not found")
			continue
		}
		checkSingleWrite(p, r, d, kind, m)
	}
	if m := p.MethodOf(d, "AddAccountNode"); m != nil {
		checkMigrate(p, r, d, kind, m)
	} else {
		r.Undec("migrate", kind+".AddAccountNode", d.Obj().Pos(), "method not found")
	}
	if m := p.MethodOf(d, "Stats"); m != nil {
		r.Analysed(an.FuncName(m))
		ops := driverOps(p, d, m)
		var missing []string
		for _, sp := range []string{"balance", "trial"} {
			if len(filterOps(ops, func(o storeOp) bool { return o.inSpace(sp) && (o.Kind == opIter || o.Kind == opRead) })) == 0 {
				missing = append(missing, sp)
			}
		}
		nCount := 0
		for _, fn := range an.WithAnon(m) {
			for _, c := range an.Calls(fn, false) {
				if an.IsMethod(an.CallObj(c), pkgStore, "Stats", "CountBalance") {
					nCount++
				}
			}
		}
		if nCount == 0 {
			missing = append(missing, "CountBalance call")
		}
		r.Check(len(missing) == 0, "stats-cover", kind+".Stats", m.Pos(), "Stats aggregates both the account-balance and the trial-balance space",
			"Stats does not cover: %s (the reported total would not equal the ledger sum)", strings.Join(missing, ", "))
	}
}

func checkSingleWrite(p *an.Prog, r *an.Run, d *types.Named, kind string, m *ssa.Function) {
	key := kind + "." + m.Name()
	r.Analysed(an.FuncName(m))
	region := regionOf(p, d, m)
	if region == nil {
		r.Fail("single-write", key, m.Pos(), "%s does not run in exactly one transaction region", m.Name())
		return
	}
	ops := driverOps(p, d, m)
	writes := filterOps(ops, func(o storeOp) bool {
		return (o.Kind == opWrite || o.Kind == opDelete) && isLedgerSpace(o) && o.Fn == region
	})
	outside := filterOps(ops, func(o storeOp) bool { return (o.Kind == opWrite || o.Kind == opDelete) && o.Fn != region })
	var bad []string
	for _, o := range outside {
		bad = append(bad, "write outside the critical region at "+p.Pos(o.In.Pos()))
	}
	other := filterOps(ops, func(o storeOp) bool { return (o.Kind == opWrite || o.Kind == opDelete) && !isLedgerSpace(o) })
	for _, o := range other {
		bad = append(bad, "unexpected write to space "+o.space()+" at "+p.Pos(o.In.Pos()))
	}
	if len(writes) == 0 {
		bad = append(bad, "no ledger write found")
	}
	n, complete := enumPaths(region, 4096, func(path []*ssa.BasicBlock, ret *ssa.Return) {
		cls, _ := returnClass(ret)
		cnt := opsOnPath(writes, path)
		switch cls {
		case "nil", "call":
			if cnt != 1 {
				bad = append(bad, "a success path returning at "+p.Pos(ret.Pos())+" performs "+itoa(cnt)+" ledger writes (want exactly 1)")
			}
		case "nonnil":
			if kind == "memory" && cnt != 0 {
				bad = append(bad, "a failing path returning at "+p.Pos(ret.Pos())+" has already written the ledger (the memory driver has no rollback)")
			}
		default:
			bad = append(bad, "cannot classify the return at "+p.Pos(ret.Pos()))
		}
	})
	r.Paths += n
	if !complete {
		r.Undec("single-write", key, m.Pos(), "path cap reached")
		return
	}
	// value written = stored value + credit parameter
	credit := m.Params[len(m.Params)-1]
	for _, w := range writes {
		if w.Kind != opWrite {
			bad = append(bad, "ledger entry deleted at "+p.Pos(w.In.Pos()))
			continue
		}
		al := allocOfValue(w.Val)
		if al == nil {
			bad = append(bad, "written value at "+p.Pos(w.In.Pos())+" is not a local balance record")
			continue
		}
		// loaded from the same key
		loaded := false
		for _, o := range ops {
			if o.Kind != opRead || o.Key != w.Key && !sameSpaceKey(o, w) && !(o.Key != nil && w.Key != nil && sameLoad(o.Key, w.Key)) {
				continue
			}
			if kind == "badger" {
				if o.Val != nil && allocOfValue(o.Val) == al {
					loaded = true
				}
			} else {
				for _, ref := range *al.Referrers() {
					if st, ok := ref.(*ssa.Store); ok && st.Addr == ssa.Value(al) && st.Val == o.In.(ssa.Value) {
						loaded = true
					}
				}
			}
		}
		if !loaded {
			bad = append(bad, "the record written at "+p.Pos(w.In.Pos())+" is not the one loaded from the same key (the stored balance would be overwritten, not incremented)")
		}
		addend, at, why := creditUpdate(p, region, al)
		if why != "" {
			bad = append(bad, why)
		} else {
			if !isPlainParam(p, addend, credit) {
				bad = append(bad, "the amount added to the stored Credit is not the credit parameter")
			}
			if !an.Dominates(at, w.In) {
				bad = append(bad, "the credit is added after the record is written")
			}
		}
		for _, c := range fieldMutators(region, al, "Deposit") {
			bad = append(bad, "Deposit is modified at "+p.Pos(c.Pos()))
		}
	}
	// the ledger takes a movement of any size and sign: no refusal of the method depends on the amount itself (a range or
	// sign check through a big.Int method or a helper). A paired transfer is several movements — the hosts' credits and
	// the client's n-times larger negative debit — and a bound that passes the parts and refuses the whole leaves the
	// credits in place with nobody debited.
	if len(m.Params) >= 3 {
		amount := m.Params[len(m.Params)-1]
		for _, fn := range an.WithAnon(m) {
			an.AllInstrs(fn, func(in ssa.Instruction) {
				ret, ok := in.(*ssa.Return)
				if !ok || len(ret.Results) == 0 || (fn.Recover != nil && ret.Block() == fn.Recover) {
					return
				}
				if cls, _ := returnClass(ret); cls == "nil" {
					return
				}
				for _, c := range an.ControllingIfs(ret.Block()) {
					// a call among the condition's sources that is handed the amount (credit.IsInt64(), a helper's verdict on
					// it): the verdict depends on the value by control flow, which the data-flow derivation does not show
					looked := false
					for _, nd := range p.Derives(0, c.If.Cond).Nodes {
						call, isCall := nd.(*ssa.Call)
						if !isCall {
							continue
						}
						for _, a := range call.Call.Args {
							if isParamValue(a, amount) {
								looked = true
							}
						}
					}
					if !looked {
						continue // credit == nil and the like: no method or helper looked at the value
					}
					bad = append(bad, "the refusal returned at "+p.Pos(ret.Pos())+" depends on the amount itself ("+p.Pos(c.If.Pos())+"): a transfer's credits can pass where its larger debit is refused, so a failed request creates credit")
				}
			})
		}
	}
	r.Check(len(bad) == 0, "single-write", key, m.Pos(), "every success path writes exactly one balance record = stored + credit; failing paths write nothing", "%s", strings.Join(dedup(bad), "; "))
}

// sameSpaceKey: memory reads use the same index value as the write.
func sameSpaceKey(o, w storeOp) bool {
	return o.Key != nil && o.Key == w.Key && o.space() == w.space()
}

func checkMigrate(p *an.Prog, r *an.Run, d *types.Named, kind string, m *ssa.Function) {
	key := kind + ".AddAccountNode"
	r.Analysed(an.FuncName(m))
	region := regionOf(p, d, m)
	if region == nil {
		r.Fail("migrate", key, m.Pos(), "AddAccountNode does not run in exactly one transaction region: the trial balance can be both migrated and kept, or lost")
		return
	}
	ops := driverOps(p, d, m)
	var bad []string
	for _, o := range ops {
		if o.Fn != region && (o.Kind == opWrite || o.Kind == opDelete) {
			bad = append(bad, "write outside the critical region at "+p.Pos(o.In.Pos()))
		}
	}
	balW := filterOps(ops, func(o storeOp) bool { return o.Kind == opWrite && o.inSpace("balance") && !o.inSpace("trial") })
	trialDel := filterOps(ops, func(o storeOp) bool { return o.Kind == opDelete && o.inSpace("trial") })
	trialW := filterOps(ops, func(o storeOp) bool { return o.Kind == opWrite && o.inSpace("trial") })
	acctW := filterOps(ops, func(o storeOp) bool { return o.Kind == opWrite && o.inSpace("account") })
	// the credit to migrate is read from the trial space and nowhere else (a key that may also name the wallet's
	// balance would migrate the wallet's own credit again when an already linked node is linked once more)
	trialR := filterOps(ops, func(o storeOp) bool { return o.Kind == opRead && o.inSpace("trial") && !o.inSpace("balance") })
	if len(balW) != 1 {
		bad = append(bad, "expected one write of the account balance, found "+itoa(len(balW)))
	}
	if len(trialDel) != 1 {
		bad = append(bad, "expected one delete of the trial balance, found "+itoa(len(trialDel)))
	}
	if len(trialW) != 0 {
		bad = append(bad, "the trial balance is written")
	}
	if len(acctW) != 1 {
		bad = append(bad, "expected one write of the node->account link, found "+itoa(len(acctW)))
	}
	if len(trialR) == 0 {
		bad = append(bad, "the trial balance is never read")
	}
	n, complete := enumPaths(region, 4096, func(path []*ssa.BasicBlock, ret *ssa.Return) {
		cls, _ := returnClass(ret)
		nb, nd, na := opsOnPath(balW, path), opsOnPath(trialDel, path), opsOnPath(acctW, path)
		switch cls {
		case "nil", "call":
			if nb != 1 || nd != 1 || na != 1 {
				bad = append(bad, "success path returning at "+p.Pos(ret.Pos())+": balance writes="+itoa(nb)+" trial deletes="+itoa(nd)+" link writes="+itoa(na)+" (want 1/1/1)")
			}
		case "nonnil":
			if kind == "memory" && (nb+nd+na) != 0 {
				bad = append(bad, "failing path returning at "+p.Pos(ret.Pos())+" has already modified the store (no rollback in the memory driver)")
			}
		default:
			bad = append(bad, "cannot classify the return at "+p.Pos(ret.Pos()))
		}
	})
	r.Paths += n
	if !complete {
		r.Undec("migrate", key, m.Pos(), "path cap reached")
		return
	}
	// amount added = trial credit read in this region, exactly once
	if len(balW) == 1 && len(trialR) > 0 {
		w := balW[0]
		al := allocOfValue(w.Val)
		if al == nil {
			bad = append(bad, "written balance is not a local record")
		} else {
			other, at, why := creditUpdate(p, region, al)
			if why != "" {
				bad = append(bad, why)
			} else {
				fromTrial := false
				for _, nd := range p.DerivesIn(region, 3, other).Nodes {
					fa, isFA := nd.(*ssa.FieldAddr)
					if !isFA {
						continue
					}
					ro, po := an.RootPath(fa)
					tal, _ := ro.(*ssa.Alloc)
					if tal == nil || po != ".Credit" || tal == al {
						continue
					}
					for _, tr := range trialR {
						if kind == "badger" && tr.Val != nil && allocOfValue(tr.Val) == tal {
							fromTrial = true
						}
						if kind == "memory" {
							for _, ref := range *tal.Referrers() {
								if st, ok := ref.(*ssa.Store); ok && st.Addr == ssa.Value(tal) && st.Val == tr.In.(ssa.Value) {
									fromTrial = true
								}
							}
						}
					}
				}
				if !fromTrial {
					bad = append(bad, "the amount added to the account is not the Credit of the trial balance read in this region")
				}
				if !an.Dominates(at, w.In) {
					bad = append(bad, "the trial credit is added after the balance is written")
				}
			}
			// the account balance record was loaded from the balance space
			loaded := false
			for _, o := range ops {
				if o.Kind == opRead && o.inSpace("balance") {
					if kind == "badger" && o.Val != nil && allocOfValue(o.Val) == al {
						loaded = true
					}
					if kind == "memory" {
						for _, ref := range *al.Referrers() {
							if st, ok := ref.(*ssa.Store); ok && st.Addr == ssa.Value(al) && st.Val == o.In.(ssa.Value) {
								loaded = true
							}
						}
					}
				}
			}
			if !loaded {
				bad = append(bad, "the account balance written is not the one loaded from the store (existing credit would be lost)")
			}
		}
	}
	r.Check(len(bad) == 0, "migrate", key, m.Pos(), "trial credit read, added once to the account balance, link written and trial deleted on exactly the success paths, in one region", "%s", strings.Join(bad, "; "))
}

// creditUpdate finds how <al>.Credit gets its new value inside fn and returns
// the addend: either in place, al.Credit.Add(&al.Credit, x), or through a
// fresh integer, al.Credit = *new(big.Int).Add(&al.Credit, x). Exactly one
// update must exist.
func creditUpdate(p *an.Prog, fn *ssa.Function, al *ssa.Alloc) (ssa.Value, ssa.Instruction, string) {
	isSelf := func(v ssa.Value) bool {
		r0, p0 := an.RootPath(v)
		return r0 == ssa.Value(al) && p0 == ".Credit"
	}
	pick := func(c ssa.CallInstruction) (ssa.Value, bool) {
		a := c.Common().Args
		if !an.IsBigIntMethod(c, "Add") || len(a) != 3 {
			return nil, false
		}
		switch {
		case isSelf(a[1]) && !isSelf(a[2]):
			return a[2], true
		case isSelf(a[2]) && !isSelf(a[1]):
			return a[1], true
		}
		return nil, false
	}
	muts := fieldMutators(fn, al, "Credit")
	// stores into al.Credit
	var stores []*ssa.Store
	an.AllInstrs(fn, func(in ssa.Instruction) {
		if st, ok := in.(*ssa.Store); ok && isSelf(st.Addr) {
			stores = append(stores, st)
		}
	})
	switch {
	case len(muts) == 1 && len(stores) == 0:
		x, ok := pick(muts[0])
		if !ok {
			return nil, nil, "Credit is updated by " + an.ObjString(an.CallObj(muts[0])) + " whose operands are not (stored Credit, addend)"
		}
		return x, muts[0].(ssa.Instruction), ""
	case len(muts) == 0 && len(stores) == 1:
		// value = a freshly computed sum: exactly one big.Int Add in its derivation (possibly inside a helper),
		// one operand being this record's stored Credit, the other the addend
		dv := p.DerivesDeep(stores[0].Val)
		var adds []*ssa.Call
		for _, n := range dv.Nodes {
			c, ok := n.(*ssa.Call)
			if !ok || !an.IsBigIntMethod(c) {
				continue
			}
			if an.IsBigIntMethod(c, "Add") {
				adds = append(adds, c)
			} else if an.IsBigIntMutator(c) {
				return nil, nil, "the new Credit is computed with " + an.ObjString(an.CallObj(c)) + ", not a plain sum"
			}
		}
		if len(adds) != 1 {
			return nil, nil, "Credit is overwritten with a value that is not a single freshly computed sum (" + itoa(len(adds)) + " additions)"
		}
		a := adds[0].Call.Args
		if len(a) != 3 {
			return nil, nil, "unrecognised Add"
		}
		selfish := func(o ssa.Value) bool {
			for _, n := range p.DerivesIn(fn, 3, o).Nodes {
				if _, isFA := n.(*ssa.FieldAddr); isFA && isSelf(n) {
					return true
				}
			}
			return false
		}
		// the receiver of the Add must be fresh (not the stored record)
		if selfish(a[0]) && adds[0].Parent() == fn {
			if r0, _ := an.RootPath(a[0]); r0 == ssa.Value(al) {
				return nil, nil, "the sum is computed in place on the stored record"
			}
		}
		s1, s2 := selfish(a[1]), selfish(a[2])
		switch {
		case s1 && !s2:
			return a[2], stores[0], ""
		case s2 && !s1:
			return a[1], stores[0], ""
		}
		return nil, nil, "the fresh sum's operands are not (stored Credit, addend)"
	case len(muts) == 0 && len(stores) == 0:
		return nil, nil, "the record's Credit is never updated"
	}
	return nil, nil, "the record's Credit is updated more than once (" + itoa(len(muts)) + " in-place mutations, " + itoa(len(stores)) + " stores)"
}

// isPlainParam: v is prm itself, or a load of a captured copy of it, with no
// arithmetic in between.
// isParamValue: v is the parameter prm itself as seen from its function or from a closure of it — the parameter, a load
// of the cell it was spilled to, or a load of the free variable bound to that cell (nothing computed from it).
func isParamValue(v ssa.Value, prm *ssa.Parameter) bool {
	if v == ssa.Value(prm) {
		return true
	}
	isCell := func(x ssa.Value) bool {
		al, ok := x.(*ssa.Alloc)
		if !ok {
			return false
		}
		for _, ref := range *al.Referrers() {
			if st, ok := ref.(*ssa.Store); ok && st.Addr == ssa.Value(al) && st.Val == ssa.Value(prm) {
				return true
			}
		}
		return false
	}
	u, ok := v.(*ssa.UnOp)
	if !ok || u.Op != token.MUL {
		if fv, isFV := v.(*ssa.FreeVar); isFV {
			return freeVarBinding(fv) == ssa.Value(prm)
		}
		return false
	}
	if isCell(u.X) {
		return true
	}
	if fv, isFV := u.X.(*ssa.FreeVar); isFV {
		if b := freeVarBinding(fv); b != nil {
			return isCell(b)
		}
	}
	return false
}

// freeVarBinding: the value bound to fv where its closure is made (in the enclosing function), or nil.
func freeVarBinding(fv *ssa.FreeVar) ssa.Value {
	fn := fv.Parent()
	par := fn.Parent()
	if par == nil {
		return nil
	}
	idx := -1
	for i, x := range fn.FreeVars {
		if x == fv {
			idx = i
		}
	}
	var out ssa.Value
	an.AllInstrs(par, func(in ssa.Instruction) {
		if mc, ok := in.(*ssa.MakeClosure); ok && mc.Fn == ssa.Value(fn) && idx >= 0 && idx < len(mc.Bindings) {
			out = mc.Bindings[idx]
		}
	})
	return out
}

func isPlainParam(p *an.Prog, v ssa.Value, prm *ssa.Parameter) bool {
	if v == ssa.Value(prm) {
		return true
	}
	d := p.DerivesIn(prm.Parent(), 0, v)
	if !d.HasParam(prm) {
		return false
	}
	for _, n := range d.Nodes {
		switch n.(type) {
		case *ssa.Call, *ssa.BinOp:
			return false
		}
	}
	return true
}

// checkLedgerWriterMethods: the balance and trial spaces of a driver are written by the three contract methods only
// (AddNodeBalance, AddAccountBalance, AddAccountNode). The zero-sum and billing rules are stated over those; a further
// writer (a batch credit reached through an ad-hoc interface, a reset, a clean-up) moves credit behind them.
func checkLedgerWriterMethods(p *an.Prog, r *an.Run) {
	allowed := map[string]bool{"AddNodeBalance": true, "AddAccountBalance": true, "AddAccountNode": true}
	for _, d := range p.Implementations(p.Iface("pool/store", "Store")) {
		kind := driverKind(d)
		if kind == "" {
			continue
		}
		var bad []string
		nm := 0
		ms := types.NewMethodSet(types.NewPointer(d))
		for i := 0; i < ms.Len(); i++ {
			m := p.MethodOf(d, ms.At(i).Obj().Name())
			if m == nil {
				continue
			}
			nm++
			if allowed[m.Name()] {
				continue
			}
			for _, o := range driverOps(p, d, m) {
				if (o.Kind == opWrite || o.Kind == opDelete) && (o.inSpace("balance") || o.inSpace("trial")) {
					bad = append(bad, an.FuncName(m)+" writes a balance record at "+p.Pos(o.In.Pos())+" although it is not one of the store contract's ledger methods")
				}
			}
		}
		r.Floor("ledger-writers-"+kind+"-methods", nm, 10)
		r.Check(len(bad) == 0, "ledger-writers", kind, token.NoPos, "balances are written by AddNodeBalance/AddAccountBalance/AddAccountNode only", "%s", strings.Join(dedup(bad), "; "))
	}
	// and the balance manager reaches the store through store.BalanceStore only
	var bad []string
	for _, fn := range p.Repo {
		if fn.Pkg == nil || !strings.HasSuffix(fn.Pkg.Pkg.Path(), "/pool/balance") || p.IsTestFunc(fn) {
			continue
		}
		an.AllInstrs(fn, func(in ssa.Instruction) {
			ta, ok := in.(*ssa.TypeAssert)
			if !ok {
				return
			}
			if fv := an.FieldOf(stripLoad(ta.X)); fv != nil && fv.Name() == "Store" {
				bad = append(bad, an.FuncName(fn)+" type-asserts its store to "+ta.AssertedType.String()+" at "+p.Pos(ta.Pos())+": ledger writes made through another interface escape the pairing and error rules")
			}
		})
	}
	r.Check(len(bad) == 0, "ledger-writers", "balance-manager", token.NoPos, "the balance manager writes the ledger through store.BalanceStore only", "%s", strings.Join(dedup(bad), "; "))
}
