package rules

import (
	"go/token"
	"go/types"
	"sort"
	"strconv"
	"strings"

	"golang.org/x/tools/go/ssa"

	"vipcheck/an"
)

func init() {
	Registry["C04"] = Spec{
		Run: runC04,
		Explanation: "Static must-pass-through / provenance rules over the SSA of every signed endpoint discovered from the Register calls: " +
			"(verify-first) with the success edges of every verify call removed no store/manager/service call, registry write or helper reaching one is reachable from the endpoint entry; " +
			"(verify-args) each verify call passes the endpoint's own sig/identity/nonce parameters, a constant method string equal to the name the method is registered under, and every remaining request parameter; " +
			"(wrapper) each verify wrapper forwards exactly its parameters to request.Verify and returns nil only past its success edge; " +
			"(hash-covers) the signed bytes derive from method, identity, nonce and args, and each request.Verify returns nil only under the cryptographic check fed by identity, hash and signature; " +
			"(dispatch-agree) Sign and Verify dispatch on the same predicate, and RemotePool signs under the constants its server-side twins verify. " +
			"Decides the shape of the authentication mechanism on all paths, not cryptographic strength. Round 2: no write to an endpoint parameter reaches the verify call; hash() hands nonce and identity to assemble unconverted. Round 5: (param-codec) no custom JSON/text codec on types inside signed parameters; wrapper parameters by role, assemble inputs by slot.",
		NotDecided: []string{"not decided: cryptographic strength of secp256k1/keccak; JSON canonicalisation of the signed payload"},
		Exhaustive: true,
	}
	Registry["C06"] = Spec{
		Run: runC06,
		Explanation: "Static ordering rules (gate reachability over SSA CFGs): (nonce-after-sig) in every verify wrapper the nonce store is reachable only through the success edge of request.Verify; " +
			"(effects-after-verify) in every signed endpoint no effect (store, balance manager, reverse RPC, host registry write) is reachable with the verify success edges removed; " +
			"(no-pre-verify-state) no receiver field or package variable is written before the verify call. A refused request therefore reaches no state-changing construct. Round 2: (hash-covers) shared with C04 — the signed bytes carry the exact nonce and identity, so a nonce-altered copy is refused at all. Round 5: (nonce-kept-on-refusal) no nonce-space write precedes a refusing return of CheckAndSaveNonce.",
		NotDecided: []string{"not decided: refusals for reasons other than authentication (e.g. low balance after SetNode) are outside C06's statement"},
		Exhaustive: true,
	}
}

type authCtx struct {
	regs      []Registration
	endpoints []*Endpoint
	wrappers  []*ssa.Function
	eff       *effects
}

func buildAuth(p *an.Prog) *authCtx {
	a := &authCtx{}
	a.regs = Registrations(p)
	a.endpoints = SignedEndpoints(p, a.regs)
	a.wrappers = VerifyWrappers(p)
	a.eff = newEffects(p)
	return a
}

// gateCalls returns the calls in fn to a verify wrapper or request.Verify.
func (a *authCtx) gateCalls(fn *ssa.Function) []ssa.CallInstruction {
	var out []ssa.CallInstruction
	for _, c := range an.Calls(fn, false) {
		if callee := c.Common().StaticCallee(); callee != nil && inFuncs(callee, a.wrappers) {
			out = append(out, c)
		} else if an.IsFunc(an.CallObj(c), pkgRequest, "Verify") {
			out = append(out, c)
		}
	}
	return out
}

// ungatedEffects lists effects in fn reachable from the entry when all gate
// success edges are removed.
func (a *authCtx) ungatedEffects(p *an.Prog, fn *ssa.Function, gates []ssa.CallInstruction) []string {
	var cut []an.Edge
	isGate := map[ssa.Instruction]bool{}
	for _, g := range gates {
		cut = append(cut, an.ErrEdges(g).Succ...)
		isGate[g.(ssa.Instruction)] = true
	}
	reach := an.ReachAvoiding(fn, an.EdgeSet(cut))
	var out []string
	for _, b := range fn.Blocks {
		if !reach[b] {
			continue
		}
		for _, in := range b.Instrs {
			if isGate[in] {
				continue
			}
			if c, ok := in.(ssa.CallInstruction); ok {
				if s, ok := isEffectCall(c); ok {
					out = append(out, p.Pos(in.Pos())+": "+s)
					continue
				}
				for _, callee := range p.CalleesAt(c) {
					if !p.InRepo(callee) {
						continue
					}
					if inFuncs(callee, a.wrappers) {
						continue
					}
					if w := a.eff.Of(callee); w != "" {
						out = append(out, p.Pos(in.Pos())+": call to "+an.FuncName(callee)+" ("+w+")")
						break
					}
				}
			}
			if addr, ok := sharedWrite(in); ok {
				out = append(out, p.Pos(in.Pos())+": write to "+addr.String())
			}
		}
	}
	return out
}

func runC04(p *an.Prog, r *an.Run, tier string) {
	checkSurfaceClosed(p, r)
	a := buildAuth(p)
	r.Floor("signed-endpoints", len(a.endpoints), 7)
	r.Floor("verify-wrappers", len(a.wrappers), 2)

	for _, ep := range a.endpoints {
		name := an.FuncName(ep.Fn)
		r.Analysed(name)
		gates := a.gateCalls(ep.Fn)
		r.CallSites += len(gates)
		// verify-first
		if len(gates) == 0 {
			r.Fail("verify-first", name, ep.Fn.Pos(), "signed endpoint %s never calls a verify wrapper or request.Verify: its signature, identity and nonce are ignored", name)
		} else if un := a.ungatedEffects(p, ep.Fn, gates); len(un) > 0 {
			r.Fail("verify-first", name, ep.Fn.Pos(), "effects reachable without passing a successful verify: %s", strings.Join(un, "; "))
		} else {
			r.Ok("verify-first", name, ep.Fn.Pos(), "all effects are reachable only through the success edge of a verify call")
		}
		// verify-args
		for gi, g := range gates {
			checkVerifyArgs(p, r, a, ep, g, gi)
		}
	}
	for _, w := range a.wrappers {
		checkWrapper(p, r, w)
	}
	// unsigned-surface: an exposed RPC method that is not a signed endpoint must not reach a state-changing effect
	signed := map[*ssa.Function]bool{}
	for _, ep := range a.endpoints {
		signed[ep.Fn] = true
	}
	nUnsigned := 0
	for _, h := range HandlerMethods(p, a.regs) {
		if signed[h] || isTestDoublePkg(h) {
			continue
		}
		// agent-side reverse services act on the local node, not on pool state
		if h.Pkg != nil && h.Pkg.Pkg.Path() == pkgAgent {
			continue
		}
		nUnsigned++
		name := an.FuncName(h)
		r.Analysed(name)
		w := mutatingEffect(p, h)
		r.Check(w == "", "unsigned-surface", name, h.Pos(), "exposed without signature and free of state-changing effects",
			"%s is exposed as an RPC method without (signature, identity, nonce) parameters but reaches a state-changing effect: %s", name, w)
	}
	r.Floor("unsigned-methods", nUnsigned, 3)
	checkHashCovers(p, r)
	checkDispatchAgree(p, r, a)
	checkParamCodecs(p, r, a)
	checkSameIdentity(p, r)
}

// checkParamCodecs: the client signs the parameters it marshals, the pool verifies the parameters it decoded and
// marshals again, so decode-then-encode must reproduce every parameter. That holds for plain structs; it stops holding
// as soon as a parameter type (or a type nested in one) brings its own UnmarshalJSON / MarshalJSON / text codec that
// fills in, normalises or drops something. No repository type reachable from a signed endpoint's parameters declares
// one.
func checkParamCodecs(p *an.Prog, r *an.Run, a *authCtx) {
	seen := map[types.Type]bool{}
	var named []*types.Named
	var walk func(t types.Type)
	walk = func(t types.Type) {
		if t == nil || seen[t] {
			return
		}
		seen[t] = true
		switch x := t.(type) {
		case *types.Named:
			if x.Obj().Pkg() != nil && strings.HasPrefix(x.Obj().Pkg().Path(), an.Module) {
				named = append(named, x)
				walk(x.Underlying())
			}
		case *types.Pointer:
			walk(x.Elem())
		case *types.Slice:
			walk(x.Elem())
		case *types.Array:
			walk(x.Elem())
		case *types.Map:
			walk(x.Key())
			walk(x.Elem())
		case *types.Struct:
			for i := 0; i < x.NumFields(); i++ {
				walk(x.Field(i).Type())
			}
		}
	}
	for _, ep := range a.endpoints {
		for _, prm := range ep.Extra {
			walk(prm.Type())
		}
	}
	var bad []string
	for _, n := range named {
		for _, t := range []types.Type{n, types.NewPointer(n)} {
			ms := types.NewMethodSet(t)
			for _, name := range []string{"UnmarshalJSON", "MarshalJSON", "UnmarshalText", "MarshalText"} {
				if sel := ms.Lookup(nil, name); sel != nil {
					if f, ok := sel.Obj().(*types.Func); ok && f.Pkg() != nil && strings.HasPrefix(f.Pkg().Path(), an.Module) {
						bad = append(bad, types.TypeString(n, func(pk *types.Package) string { return pk.Name() })+" (part of a signed request's parameters) declares "+name+" at "+p.Pos(f.Pos())+": what the pool re-marshals for verification need no longer be what the client marshalled and signed — correctly signed requests are refused, or differing requests verify alike")
					}
				}
			}
		}
	}
	r.Floor("param-types", len(named), 4)
	r.Check(len(bad) == 0, "param-codec", "signed-parameters", token.NoPos, "no custom JSON/text codec on the "+itoa2(len(named))+" repository types inside signed parameters", "%s", strings.Join(dedup(bad), "; "))
}

func itoa2(i int) string { return strconv.Itoa(i) }

// gateArgs returns (sig, method, id, nonce, variadic) of a gate call.
func gateArgs(g ssa.CallInstruction) []ssa.Value {
	args := g.Common().Args
	callee := g.Common().StaticCallee()
	if callee != nil {
		// a wrapper's parameters are identified by what it hands to request.Verify, not by their position (the
		// wrapper may be a method or a function taking its dependencies as further parameters)
		if roles, ok := wrapperRoles(callee); ok {
			out := make([]ssa.Value, 0, 5)
			for _, j := range roles {
				if j >= len(args) {
					return args
				}
				out = append(out, args[j])
			}
			return out
		}
		if callee.Signature.Recv() != nil {
			args = args[1:]
		}
	}
	return args
}

// wrapperRoles: for a verify wrapper, the indices of its parameters that supply (sig, method, id, nonce, args...) of
// the request.Verify call(s) it makes; ok=false when it makes none or they disagree.
func wrapperRoles(w *ssa.Function) ([5]int, bool) {
	var roles [5]int
	found := false
	for _, c := range an.Calls(w, false) {
		if !an.IsFunc(an.CallObj(c), pkgRequest, "Verify") {
			continue
		}
		args := c.Common().Args
		if len(args) < 5 {
			return roles, false
		}
		var cur [5]int
		for i := 0; i < 5; i++ {
			cur[i] = -1
			for j, prm := range w.Params {
				if args[i] == ssa.Value(prm) {
					cur[i] = j
				}
			}
			if cur[i] < 0 {
				return roles, false
			}
		}
		if found && cur != roles {
			return roles, false
		}
		roles, found = cur, true
	}
	return roles, found
}

func checkVerifyArgs(p *an.Prog, r *an.Run, a *authCtx, ep *Endpoint, g ssa.CallInstruction, gi int) {
	name := an.FuncName(ep.Fn)
	args := gateArgs(g)
	if len(args) < 5 {
		r.Undec("verify-args", name, g.Pos(), "verify call with %d arguments, expected (sig, method, id, nonce, args...)", len(args))
		return
	}
	var bad []string
	if args[0] != ssa.Value(ep.Sig) {
		bad = append(bad, "signature argument is not the endpoint's signature parameter")
	}
	if args[2] != ssa.Value(ep.ID) {
		bad = append(bad, "identity argument is not the endpoint's identity parameter")
	}
	if args[3] != ssa.Value(ep.Nonce) {
		bad = append(bad, "nonce argument is not the endpoint's nonce parameter")
	}
	m, ok := an.ConstString(args[1])
	if !ok {
		bad = append(bad, "method string is not a constant")
	} else if len(ep.Names) == 0 {
		bad = append(bad, "endpoint is not registered under any constant RPC name")
	} else {
		match := false
		for _, n := range ep.Names {
			if n == m {
				match = true
			}
		}
		if !match {
			bad = append(bad, "method string "+m+" differs from the registered RPC name(s) "+strings.Join(ep.Names, ","))
		}
	}
	// every remaining request parameter must be covered by the variadic args
	els, ok := variadicElems(args[4])
	if !ok {
		bad = append(bad, "variadic argument list has an unrecognised shape")
	} else {
		d := p.Derives(1, els...)
		for _, ex := range ep.Extra {
			if !d.HasParam(ex) {
				bad = append(bad, "request parameter "+ex.Name()+" is not covered by the signature check")
			}
		}
		// nothing but request parameters may be signed over (a constant or foreign value would make
		// the verifier disagree with every honest signer)
		for _, el := range els {
			de := p.Derives(1, el)
			okSrc := false
			for _, ex := range ep.Extra {
				if de.HasParam(ex) {
					okSrc = true
				}
			}
			if !okSrc {
				bad = append(bad, "signed argument "+el.String()+" does not derive from a request parameter")
			}
		}
	}
	// a fallback that verifies a re-packaged subset of the request (the deprecated keep-alive format signs peers and
	// block number only) vouches for those fields alone: every other field of the request must be cleared on the
	// fallback's success edge, or the pool acts on data nobody signed
	if ok {
		for _, el := range els {
			mi, isMI := el.(*ssa.MakeInterface)
			if !isMI {
				continue
			}
			ld, isLd := mi.X.(*ssa.UnOp)
			if !isLd || ld.Op != token.MUL {
				continue
			}
			lit, isAl := ld.X.(*ssa.Alloc)
			if !isAl {
				continue
			}
			// is it a parameter's own cell? then the whole parameter is signed
			own := false
			for _, ref := range *lit.Referrers() {
				if st, isSt := ref.(*ssa.Store); isSt && st.Addr == ssa.Value(lit) {
					if _, isPrm := st.Val.(*ssa.Parameter); isPrm {
						own = true
					}
				}
			}
			if own {
				continue
			}
			for _, ex := range ep.Extra {
				pst, isStruct := ex.Type().Underlying().(*types.Struct)
				if !isStruct {
					continue
				}
				covered := map[string]bool{}
				for _, nd := range p.Derives(0, mi.X).Nodes {
					if fa, isFA := nd.(*ssa.FieldAddr); isFA {
						if root, _ := an.RootPath(fa); an.Unspill(&ssa.UnOp{Op: token.MUL, X: root}) == ssa.Value(ex) || root == ssa.Value(ex) {
							if fv := an.FieldOf(fa); fv != nil {
								covered[fv.Name()] = true
							}
						}
					}
					if fl, isF := nd.(*ssa.Field); isF && an.Unspill(fl.X) == ssa.Value(ex) {
						if fv := an.FieldOf(fl); fv != nil {
							covered[fv.Name()] = true
						}
					}
				}
				if len(covered) == 0 {
					continue
				}
				noSucc := an.ReachAvoiding(ep.Fn, an.EdgeSet(an.ErrEdges(g).Succ))
				for i := 0; i < pst.NumFields(); i++ {
					fname := pst.Field(i).Name()
					if covered[fname] {
						continue
					}
					cleared := false
					var clears []*ssa.Store
					an.AllInstrs(ep.Fn, func(in ssa.Instruction) {
						st, isSt := in.(*ssa.Store)
						if !isSt || noSucc[st.Block()] {
							return
						}
						fv := an.FieldOf(st.Addr)
						if fv == nil || fv.Name() != fname {
							return
						}
						root, _ := an.RootPath(st.Addr)
						if an.Unspill(&ssa.UnOp{Op: token.MUL, X: root}) != ssa.Value(ex) {
							return
						}
						if c, isC := st.Val.(*ssa.Const); isC && (c.IsNil() || c.Value == nil) {
							cleared = true
							clears = append(clears, st)
						}
					})
					// ... and nothing read the field before it is cleared: a copy taken ahead of the fallback keeps the
					// unsigned data alive past the clearing
					an.AllInstrs(ep.Fn, func(in ssa.Instruction) {
						ld, isLd := in.(*ssa.UnOp)
						if !isLd || ld.Op != token.MUL {
							return
						}
						fv := an.FieldOf(ld.X)
						if fv == nil || fv.Name() != fname {
							return
						}
						root, _ := an.RootPath(ld.X)
						if an.Unspill(&ssa.UnOp{Op: token.MUL, X: root}) != ssa.Value(ex) {
							return
						}
						for _, cs := range clears {
							cs := cs
							if an.PathAvoiding(ep.Fn, ld, nil, func(x ssa.Instruction) bool { return x == ssa.Instruction(cs) }, nil) == nil {
								continue
							}
							// ... and what was read is still in use past the clearing (a log line ahead of it is not)
							uses := map[ssa.Instruction]bool{}
							seenV := map[ssa.Value]bool{}
							var fwd func(v ssa.Value)
							fwd = func(v ssa.Value) {
								if seenV[v] || v.Referrers() == nil {
									return
								}
								seenV[v] = true
								for _, ref := range *v.Referrers() {
									uses[ref] = true
									if rv, ok := ref.(ssa.Value); ok {
										fwd(rv)
									}
								}
							}
							fwd(ld)
							if hit := an.PathAvoiding(ep.Fn, cs, nil, func(x ssa.Instruction) bool { return uses[x] }, nil); hit != nil {
								bad = append(bad, "field "+fname+" of "+ex.Name()+" is read at "+p.Pos(ld.Pos())+" before the fallback clears it at "+p.Pos(cs.Pos())+" and what was read is still used at "+p.Pos(hit.Pos())+": the copy keeps the part of the request nothing signed")
								return
							}
						}
					})
					if !cleared {
						bad = append(bad, "the fallback signature covers only "+setString(covered)+" of "+ex.Name()+"; field "+fname+" is not cleared on the fallback's success edge, so the endpoint acts on a part of the request that nothing signed")
					}
				}
			}
		}
	}
	// the parameters are verified as received: no write to a request parameter can reach the verify call
	// (a clamped, defaulted or normalised parameter is not what the caller signed)
	prmSet := map[*ssa.Parameter]bool{ep.Sig: true, ep.ID: true, ep.Nonce: true}
	for _, ex := range ep.Extra {
		prmSet[ex] = true
	}
	an.AllInstrs(ep.Fn, func(in ssa.Instruction) {
		st, ok := in.(*ssa.Store)
		if !ok {
			return
		}
		root, _ := an.RootPath(st.Addr)
		al, ok := root.(*ssa.Alloc)
		if !ok {
			return
		}
		var owner *ssa.Parameter
		for _, ref := range *al.Referrers() {
			if s0, ok := ref.(*ssa.Store); ok && s0.Addr == ssa.Value(al) {
				if prm, ok := s0.Val.(*ssa.Parameter); ok && prmSet[prm] {
					owner = prm
					if s0 == st {
						return // the spill itself
					}
				}
			}
		}
		if owner == nil {
			return
		}
		reaches := false
		if st.Block() == g.Block() {
			for _, x := range st.Block().Instrs {
				if x == ssa.Instruction(st) {
					reaches = true
					break
				}
				if x == g.(ssa.Instruction) {
					break
				}
			}
		}
		if !reaches {
			var starts []*ssa.BasicBlock
			for i, sc := range st.Block().Succs {
				if !an.DeadEdge(st.Block(), i) {
					starts = append(starts, sc)
				}
			}
			reaches = an.ReachFrom(starts, nil)[g.Block()]
		}
		if reaches {
			bad = append(bad, "request parameter "+owner.Name()+" is modified at "+p.Pos(st.Pos())+" before it is verified: the signature is checked over server-altered values")
		}
	})
	key := name
	if gi > 0 {
		key = name + "#" + itoa(gi+1)
	}
	if len(bad) > 0 {
		r.Fail("verify-args", key, g.Pos(), "%s", strings.Join(bad, "; "))
	} else {
		r.Ok("verify-args", key, g.Pos(), "sig/id/nonce are the endpoint parameters, method="+m+", all request parameters covered")
	}
}

func itoa(i int) string {
	return string(rune('0' + i))
}

func checkWrapper(p *an.Prog, r *an.Run, w *ssa.Function) {
	name := an.FuncName(w)
	r.Analysed(name)
	var vcalls []ssa.CallInstruction
	for _, c := range an.Calls(w, false) {
		if an.IsFunc(an.CallObj(c), pkgRequest, "Verify") {
			vcalls = append(vcalls, c)
		}
	}
	params := w.Params
	if w.Signature.Recv() != nil {
		params = params[1:]
	}
	if roles, ok := wrapperRoles(w); ok {
		params = nil
		for _, j := range roles {
			params = append(params, w.Params[j])
		}
	}
	if len(params) != 5 {
		r.Undec("wrapper", name, w.Pos(), "verify wrapper has %d parameters, expected (sig, method, id, nonce, args...)", len(params))
		return
	}
	var bad []string
	var cut []an.Edge
	for _, c := range vcalls {
		args := c.Common().Args
		for i := 0; i < 5 && i < len(args); i++ {
			if args[i] != ssa.Value(params[i]) {
				bad = append(bad, "request.Verify argument "+itoa(i)+" is not the wrapper's parameter "+params[i].Name())
			}
		}
		u := an.ErrEdges(c)
		if len(u.Succ) == 0 {
			bad = append(bad, "the result of request.Verify is not branched on")
		}
		cut = append(cut, u.Succ...)
	}
	// nil may be returned only past the success edge of Verify
	reach := an.ReachAvoiding(w, an.EdgeSet(cut))
	for _, b := range w.Blocks {
		if !reach[b] {
			continue
		}
		for _, in := range b.Instrs {
			ret, ok := in.(*ssa.Return)
			if !ok || len(ret.Results) == 0 {
				continue
			}
			rr := an.RetResults(ret)
			res := rr[len(rr)-1]
			if !definitelyNonNilError(res) {
				bad = append(bad, "a return at "+p.Pos(ret.Pos())+" may yield nil without a successful request.Verify")
			}
		}
	}
	// completeness: "a correctly signed fresh request is always accepted by the verification step" — the wrapper
	// refuses only because request.Verify or the nonce store refused. A refusal reachable without either having failed
	// (a lockout keyed by the claimed identity, a rate limit, a blacklist fed by unauthenticated requests) lets a
	// stranger shut out the legitimate owner.
	var failCut []an.Edge
	for _, c := range an.Calls(w, false) {
		f := an.CallObj(c)
		if an.IsFunc(f, pkgRequest, "Verify") || (f != nil && f.Name() == "CheckAndSaveNonce") {
			failCut = append(failCut, an.ErrEdges(c).Fail...)
		}
	}
	noFail := an.ReachAvoiding(w, an.EdgeSet(failCut))
	an.AllInstrs(w, func(in ssa.Instruction) {
		ret, ok := in.(*ssa.Return)
		if !ok || len(ret.Results) == 0 || !noFail[ret.Block()] || (w.Recover != nil && ret.Block() == w.Recover) {
			return
		}
		rr := an.RetResults(ret)
		res := rr[len(rr)-1]
		if c, isC := res.(*ssa.Const); isC && c.IsNil() {
			return
		}
		if definitelyNonNilError(res) {
			// a refusal decided from the request itself (its parameters, the clock, constants) — e.g. an early "nonce
			// older than the window" test — is not what this rule is about; one that consults state kept between
			// requests (a failure counter, a blacklist, a rate limiter) is
			stateless := true
			nCtl := 0
			for _, cc := range an.ControllingIfs(ret.Block()) {
				nCtl++
				for _, nd := range p.Derives(1, cc.If.Cond).Nodes {
					switch x := nd.(type) {
					case *ssa.FieldAddr, *ssa.Field:
						if root, _ := an.RootPath(x.(ssa.Value)); root == ssa.Value(w.Params[0]) && w.Signature.Recv() != nil {
							stateless = false
						}
					case *ssa.Global:
						if !strings.HasPrefix(x.Name(), "Err") {
							stateless = false
						}
					case *ssa.Lookup:
						stateless = false
					case *ssa.Call:
						if cal := x.Common().StaticCallee(); cal != nil && p.InRepo(cal) && cal.Signature.Recv() != nil {
							stateless = false
						}
						if x.Common().IsInvoke() {
							stateless = false
						}
					}
				}
			}
			if nCtl == 0 || !stateless {
				bad = append(bad, "the wrapper refuses at "+p.Pos(ret.Pos())+" although neither request.Verify nor the nonce store has refused, on a condition that depends on state kept between requests: a correctly signed fresh request can be turned away")
			}
		}
	})
	if len(bad) > 0 {
		r.Fail("wrapper", name, w.Pos(), "%s", strings.Join(bad, "; "))
	} else {
		r.Ok("wrapper", name, w.Pos(), "forwards its five parameters to request.Verify and returns nil only past its success edge")
	}
}

// definitelyNonNilError: a MakeInterface of a concrete value, or a load of a
// package-level error variable (sentinel).
func definitelyNonNilError(v ssa.Value) bool {
	switch x := v.(type) {
	case *ssa.MakeInterface:
		return true
	case *ssa.UnOp:
		if x.Op == token.MUL {
			if _, ok := x.X.(*ssa.Global); ok {
				return true
			}
		}
	case *ssa.Call:
		// errors.New / fmt.Errorf
		f := an.CallObj(x)
		if an.IsFunc(f, "errors", "New") || an.IsFunc(f, "fmt", "Errorf") {
			return true
		}
	case *ssa.Phi:
		for _, e := range x.Edges {
			if !definitelyNonNilError(e) {
				return false
			}
		}
		return true
	}
	return false
}

// errKnownNonNil: v is an error value extracted from a call, and the return
// sits on a failure edge of that call's check. Used for `return err` inside
// `if err != nil`.
func returnOnFailEdge(ret *ssa.Return, v ssa.Value) bool {
	var call ssa.CallInstruction
	switch x := v.(type) {
	case *ssa.Call:
		call = x
	case *ssa.Extract:
		if c, ok := x.Tuple.(*ssa.Call); ok {
			call = c
		}
	}
	if call == nil {
		return false
	}
	u := an.ErrEdges(call)
	for _, e := range u.Fail {
		if e.To == ret.Block() || e.To.Dominates(ret.Block()) {
			if len(e.To.Preds) == 1 {
				return true
			}
		}
	}
	return false
}

// assembleSlots: the inputs of the function that builds the signed bytes — its parameters, or, when it takes one
// parameter struct, that struct's fields in declaration order.
type asmSlot struct {
	prm   *ssa.Parameter
	field int // -1: the parameter itself
	name  string
}

func assembleSlots(asm *ssa.Function) []asmSlot {
	var out []asmSlot
	for _, prm := range asm.Params {
		if st, ok := prm.Type().Underlying().(*types.Struct); ok && len(asm.Params) == 1 {
			for i := 0; i < st.NumFields(); i++ {
				out = append(out, asmSlot{prm, i, prm.Name() + "." + st.Field(i).Name()})
			}
			continue
		}
		out = append(out, asmSlot{prm, -1, prm.Name()})
	}
	return out
}

// slotReads: the values in asm that are a read of the slot (Field of the parameter, or a load of the field's address in
// the parameter's spill slot).
func slotReads(asm *ssa.Function, sl asmSlot) []ssa.Value {
	var out []ssa.Value
	spill := map[ssa.Value]bool{}
	an.AllInstrs(asm, func(in ssa.Instruction) {
		if st, ok := in.(*ssa.Store); ok && st.Val == ssa.Value(sl.prm) {
			spill[st.Addr] = true
		}
	})
	an.AllInstrs(asm, func(in ssa.Instruction) {
		switch x := in.(type) {
		case *ssa.Field:
			if x.X == ssa.Value(sl.prm) && x.Field == sl.field {
				out = append(out, x)
			}
		case *ssa.UnOp:
			if fa, ok := x.X.(*ssa.FieldAddr); ok && x.Op == token.MUL && fa.Field == sl.field && spill[fa.X] {
				out = append(out, x)
			}
		}
	})
	return out
}

// slotArgs: what a call of asm supplies for each slot (nil where it cannot be seen).
func slotArgs(asm *ssa.Function, c ssa.CallInstruction) []ssa.Value {
	slots := assembleSlots(asm)
	args := c.Common().Args
	out := make([]ssa.Value, len(slots))
	for i, sl := range slots {
		pi := -1
		for j, prm := range asm.Params {
			if prm == sl.prm {
				pi = j
			}
		}
		if pi < 0 || pi >= len(args) {
			continue
		}
		if sl.field < 0 {
			out[i] = args[pi]
			continue
		}
		// a struct literal built for the call: the value stored into the field of the local it is loaded from
		u, ok := args[pi].(*ssa.UnOp)
		if !ok || u.Op != token.MUL {
			continue
		}
		al, ok := u.X.(*ssa.Alloc)
		if !ok {
			continue
		}
		n := 0
		for _, ref := range *al.Referrers() {
			if fa, ok := ref.(*ssa.FieldAddr); ok && fa.Field == sl.field {
				for _, r2 := range *fa.Referrers() {
					if st, ok := r2.(*ssa.Store); ok && st.Addr == ssa.Value(fa) {
						out[i] = st.Val
						n++
					}
				}
			}
		}
		if n != 1 {
			out[i] = nil
		}
	}
	return out
}

func checkHashCovers(p *an.Prog, r *an.Run) {
	asm := p.Func("request", "assemble")
	if asm == nil {
		r.Undec("hash-covers", "request.assemble", token.NoPos, "anchor request.assemble not found")
		return
	}
	r.Analysed(an.FuncName(asm))
	// returned bytes derive from all four parameters
	var rets []ssa.Value
	an.AllInstrs(asm, func(in ssa.Instruction) {
		if ret, ok := in.(*ssa.Return); ok && len(ret.Results) > 0 {
			if c, ok := ret.Results[0].(*ssa.Const); ok && c.IsNil() {
				return
			}
			rets = append(rets, ret.Results[0])
		}
	})
	d := p.Derives(0, rets...)
	var missing []string
	// the inputs of assemble are its parameters, or the fields of a parameter struct
	slots := assembleSlots(asm)
	for _, sl := range slots {
		if sl.field < 0 {
			if !d.HasParam(sl.prm) {
				missing = append(missing, sl.name)
			}
			continue
		}
		okRead := false
		for _, v := range slotReads(asm, sl) {
			if d.HasValue(v) {
				okRead = true
			}
		}
		if !okRead {
			missing = append(missing, sl.name)
		}
	}
	// identity and nonce must enter the payload unconverted (a float64 or narrowed nonce makes neighbouring nonces sign alike)
	exact := map[int]bool{}
	isSlotValue := func(v ssa.Value) int {
		for i, sl := range slots {
			if sl.field < 0 {
				if v == ssa.Value(sl.prm) {
					return i
				}
				continue
			}
			for _, rv := range slotReads(asm, sl) {
				if v == rv {
					return i
				}
			}
		}
		return -1
	}
	an.AllInstrs(asm, func(in ssa.Instruction) {
		if mi, ok := in.(*ssa.MakeInterface); ok {
			if i := isSlotValue(mi.X); i >= 0 {
				exact[i] = true
			}
		}
		if cv, ok := in.(*ssa.Convert); ok {
			if i := isSlotValue(cv.X); i >= 0 {
				if b, ok := cv.Type().Underlying().(*types.Basic); ok && b.Info()&types.IsNumeric != 0 {
					missing = append(missing, slots[i].name+" (converted to "+cv.Type().String()+" before signing: lossy)")
				}
			}
		}
	})
	if len(slots) == 4 {
		for i := 1; i < 3; i++ {
			if !exact[i] {
				missing = append(missing, slots[i].name+" (does not enter the signed payload as itself)")
			}
		}
	} else {
		missing = append(missing, "assemble has "+itoa(len(slots))+" inputs, expected method, identity, nonce and arguments")
	}
	r.Check(len(missing) == 0 && len(rets) > 0, "hash-covers", "request.assemble", asm.Pos(),
		"signed bytes derive from method, identity, nonce and args",
		"signed bytes do not depend on parameter(s) %s", strings.Join(missing, ","))

	for _, typ := range []string{"NodeRequest", "AddressRequest"} {
		h := p.Method("request", typ, "hash")
		v := p.Method("request", typ, "Verify")
		s := p.Method("request", typ, "Sign")
		if h == nil || v == nil || s == nil {
			r.Undec("hash-covers", "request."+typ, token.NoPos, "anchor methods hash/Verify/Sign of %s not found", typ)
			continue
		}
		r.Analysed(an.FuncName(h), an.FuncName(v), an.FuncName(s))
		// hash passes the four fields to assemble, in order
		okHash := false
		var why []string
		for _, c := range an.Calls(h, false) {
			if c.Common().StaticCallee() != asm {
				continue
			}
			okHash = true
			args := slotArgs(asm, c)
			idField := "NodeID"
			if typ == "AddressRequest" {
				idField = "Address"
			}
			want := []string{"Method", idField, "Nonce", "ExtraArgs"}
			for i, w := range want {
				if i >= len(args) || args[i] == nil {
					okHash = false
					why = append(why, "cannot see what is passed to assemble as its input "+itoa(i))
					continue
				}
				dd := p.Derives(0, args[i])
				if !dd.HasFieldNamed(typ, w) {
					okHash = false
					why = append(why, "argument "+itoa(i)+" of assemble does not derive from field "+w)
				}
				if w == "Nonce" || w == idField {
					// the nonce and the identity enter the signed message as themselves: a converted, rounded or
					// normalised value makes neighbouring nonces / other spellings verify under one signature
					for _, nd := range dd.Nodes {
						switch x := nd.(type) {
						case *ssa.Convert:
							sb, _ := x.X.Type().Underlying().(*types.Basic)
							tb, _ := x.Type().Underlying().(*types.Basic)
							if (sb != nil && sb.Info()&types.IsNumeric != 0) || (tb != nil && tb.Info()&types.IsNumeric != 0) {
								okHash = false
								why = append(why, "field "+w+" is converted ("+x.X.Type().String()+" -> "+x.Type().String()+") before it is signed")
							}
						case *ssa.BinOp:
							okHash = false
							why = append(why, "field "+w+" is combined by '"+x.Op.String()+"' before it is signed")
						case *ssa.Call:
							okHash = false
							why = append(why, "field "+w+" passes through "+callName(x)+" before it is signed")
						}
					}
				}
				for _, other := range want {
					if other != w && dd.HasFieldNamed(typ, other) {
						okHash = false
						why = append(why, "argument "+itoa(i)+" of assemble derives from field "+other+" instead of only "+w)
					}
				}
			}
			// returned hash derives from the assemble result
			var hr []ssa.Value
			an.AllInstrs(h, func(in ssa.Instruction) {
				if ret, ok := in.(*ssa.Return); ok && len(ret.Results) > 0 {
					if cst, ok := ret.Results[0].(*ssa.Const); ok && cst.IsNil() {
						return
					}
					hr = append(hr, ret.Results[0])
				}
			})
			dh := p.Derives(0, hr...)
			if !dh.HasValue(c.(*ssa.Call)) && !derivesFromCall(dh, c.(*ssa.Call)) {
				okHash = false
				why = append(why, "returned hash does not derive from the assembled request")
			}
			if dh.CallTo(func(f *types.Func) bool { return strings.HasPrefix(f.Name(), "Keccak256") }) == nil {
				okHash = false
				why = append(why, "returned hash is not a Keccak256 digest")
			}
		}
		if !okHash && len(why) == 0 {
			why = append(why, "hash does not call assemble")
		}
		r.Check(okHash, "hash-covers", an.FuncName(h), h.Pos(), "hash = Keccak256(assemble(method, id, nonce, args))", "%s", strings.Join(why, "; "))

		checkVerifyMethod(p, r, typ, v, h)
		// Sign uses the same hash
		signsHash := false
		for _, c := range an.Calls(s, false) {
			if an.IsFunc(an.CallObj(c), "github.com/ethereum/go-ethereum/crypto", "Sign") && len(c.Common().Args) >= 1 {
				ds := p.Derives(0, c.Common().Args[0])
				for _, n := range ds.Nodes {
					if cc, ok := n.(*ssa.Call); ok && cc.Common().StaticCallee() == h {
						signsHash = true
					}
				}
			}
		}
		r.Check(signsHash, "hash-covers", an.FuncName(s), s.Pos(), "Sign signs the digest of hash()", "Sign does not sign the digest returned by hash()")
	}
}

func derivesFromCall(d *an.Deriv, c *ssa.Call) bool {
	for _, n := range d.Nodes {
		if ex, ok := n.(*ssa.Extract); ok && ex.Tuple == ssa.Value(c) {
			return true
		}
	}
	return false
}

// checkVerifyMethod: Verify returns nil only under the cryptographic check
// whose inputs derive from identity, hash() and the signature parameter.
func checkVerifyMethod(p *an.Prog, r *an.Run, typ string, v, h *ssa.Function) {
	name := an.FuncName(v)
	sigParam := v.Params[len(v.Params)-1]
	idField := "NodeID"
	if typ == "AddressRequest" {
		idField = "Address"
	}
	var bad []string
	nilReturns := 0
	hashDerived := func(d *an.Deriv) bool {
		for _, n := range d.Nodes {
			if cc, ok := n.(*ssa.Call); ok && cc.Common().StaticCallee() == h {
				return true
			}
		}
		return false
	}
	an.AllInstrs(v, func(in ssa.Instruction) {
		ret, ok := in.(*ssa.Return)
		if !ok || len(ret.Results) != 1 {
			return
		}
		res := an.RetResults(ret)[0]
		if definitelyNonNilError(res) || returnOnFailEdge(ret, res) {
			return
		}
		cst, isConst := res.(*ssa.Const)
		if !isConst || !cst.IsNil() {
			bad = append(bad, "return at "+p.Pos(ret.Pos())+" yields a value that is not provably non-nil and is not the literal nil")
			return
		}
		nilReturns++
		// find the controlling cryptographic check
		found := false
		for _, c := range an.ControllingIfs(ret.Block()) {
			// (a) VerifySignature(pub, hash, sig) true edge
			if call, ok := c.If.Cond.(*ssa.Call); ok && c.Succ == 0 &&
				an.IsFunc(an.CallObj(call), "github.com/ethereum/go-ethereum/crypto", "VerifySignature") && len(call.Call.Args) == 3 {
				d0 := p.Derives(1, call.Call.Args[0])
				d1 := p.Derives(1, call.Call.Args[1])
				d2 := p.Derives(1, call.Call.Args[2])
				if !d0.HasFieldNamed(typ, idField) {
					bad = append(bad, "public key given to VerifySignature does not derive from the claimed identity")
				}
				if !hashDerived(d1) {
					bad = append(bad, "digest given to VerifySignature does not derive from hash()")
				}
				if !d2.HasParam(sigParam) {
					bad = append(bad, "signature given to VerifySignature does not derive from the signature parameter")
				}
				found = true
			}
			// (b) recovered address == claimed address
			rel, ok := an.BranchRel(c.If, c.Succ)
			if ok && rel.Op == token.EQL && rel.Kind == "string" {
				dl := p.Derives(1, rel.L)
				dr := p.Derives(1, rel.R)
				rec, claim := dl, dr
				if dr.CallTo(isSigToPub) != nil {
					rec, claim = dr, dl
				}
				if sc := rec.CallTo(isSigToPub); sc != nil && claim.HasFieldNamed(typ, idField) && rec.CallTo(isSigToPub) != nil && claim.CallTo(isSigToPub) == nil {
					if len(sc.Call.Args) == 2 {
						dh := p.Derives(1, sc.Call.Args[0])
						ds := p.Derives(1, sc.Call.Args[1])
						if !hashDerived(dh) {
							bad = append(bad, "digest given to SigToPub does not derive from hash()")
						}
						if !ds.HasParam(sigParam) {
							bad = append(bad, "signature given to SigToPub does not derive from the signature parameter")
						}
					}
					found = true
				}
			}
		}
		if !found {
			bad = append(bad, "nil returned at "+p.Pos(ret.Pos())+" without being controlled by the signature check (VerifySignature true, or recovered address == claimed address)")
		}
	})
	if nilReturns == 0 {
		bad = append(bad, "Verify never returns nil")
	}
	// a correctly signed request is accepted: the shape tests on the decoded signature refuse exactly what cannot be a
	// signature. (a) where the bytes are cut to their first h bytes, the refusal guarding the cut is "len < h" — not
	// "len <= h", which turns away the compact h-byte form the verifier asks for; (b) where the legacy recovery byte is
	// normalised (v -= 27), both legacy values 27 and 28 are recognised
	an.AllInstrs(v, func(in ssa.Instruction) {
		sl, ok := in.(*ssa.Slice)
		if !ok || sl.High == nil || sl.Low != nil {
			return
		}
		h, isK := an.ConstInt(sl.High)
		if !isK {
			return
		}
		if _, isBytes := sl.X.Type().Underlying().(*types.Slice); !isBytes {
			return
		}
		for _, cr := range ctrlRels(sl.Block()) {
			l, rr, op := cr.L, cr.R, cr.Op
			if _, isLen := an.LenOf(rr); isLen {
				l, rr = rr, l
				op = cr.Rel.Swap().Op
			}
			x, isLen := an.LenOf(l)
			k, isConst := an.ConstInt(rr)
			if !isLen || !isConst || stripConv(x) != stripConv(sl.X) {
				continue
			}
			// relation holding on the path to the cut
			okShape := (op == token.GEQ && k == h) || (op == token.GTR && k == h-1) || (op == token.EQL && k >= h)
			if !okShape {
				bad = append(bad, "the signature is cut to its first "+strconv.FormatInt(h, 10)+" bytes at "+p.Pos(sl.Pos())+" only when len "+op.String()+" "+strconv.FormatInt(k, 10)+": a signature of exactly "+strconv.FormatInt(h, 10)+" bytes (the form the verifier wants) is refused although correctly signed")
			}
		}
	})
	legacy := map[int64]bool{}
	normalises := false
	an.AllInstrs(v, func(in ssa.Instruction) {
		bo, ok := in.(*ssa.BinOp)
		if !ok {
			return
		}
		isVByte := func(x ssa.Value) bool {
			u, ok := x.(*ssa.UnOp)
			if !ok || u.Op != token.MUL {
				return false
			}
			ia, ok := u.X.(*ssa.IndexAddr)
			if !ok {
				return false
			}
			k, isK := an.ConstInt(ia.Index)
			return isK && k == 64
		}
		if bo.Op == token.EQL && isVByte(bo.X) {
			if k, isK := an.ConstInt(bo.Y); isK {
				legacy[k] = true
			}
		}
		if bo.Op == token.SUB && isVByte(bo.X) {
			if k, isK := an.ConstInt(bo.Y); isK && k == 27 {
				normalises = true
			}
		}
	})
	if normalises && !(legacy[27] && legacy[28]) {
		bad = append(bad, "the legacy recovery byte is normalised (v -= 27) but not for both legacy values 27 and 28: a wallet signature in the 27/28 form with the unrecognised value is refused although correctly signed")
	}
	// (c) the signature text reaches the hex decoder either whole or with an exact prefix cut off (s[k:], TrimPrefix):
	// a character-set trim or any other rewriting of the text changes the digits of some correctly made signatures
	an.AllInstrs(v, func(in ssa.Instruction) {
		call, ok := in.(*ssa.Call)
		if !ok || !an.IsFunc(an.CallObj(call), "encoding/hex", "DecodeString") || len(call.Call.Args) != 1 {
			return
		}
		seen := map[ssa.Value]bool{}
		var walk func(x ssa.Value)
		walk = func(x ssa.Value) {
			if seen[x] {
				return
			}
			seen[x] = true
			switch t := x.(type) {
			case *ssa.Parameter, *ssa.Const:
			case *ssa.Phi:
				for _, e := range t.Edges {
					walk(e)
				}
			case *ssa.Slice:
				if t.High != nil || t.Max != nil {
					bad = append(bad, "the signature text is cut at its end ("+p.Pos(t.Pos())+") before hex decoding")
				}
				walk(t.X)
			case *ssa.Call:
				f := an.CallObj(t)
				if an.IsFunc(f, "strings", "TrimPrefix") || an.IsFunc(f, "strings", "TrimSpace") || an.IsFunc(f, "strings", "ToLower") || an.IsFunc(f, "strings", "ToUpper") {
					// exact prefix removal; surrounding blanks and letter case do not change any hex digit
					walk(t.Call.Args[0])
					return
				}
				fromSig := false
				for _, a := range t.Call.Args {
					if p.Derives(1, a).HasParam(sigParam) {
						fromSig = true
					}
				}
				if fromSig {
					nm := "a call"
					if f != nil {
						nm = f.FullName()
					}
					bad = append(bad, "the signature text is rewritten by "+nm+" at "+p.Pos(t.Pos())+" before hex decoding: only an exact prefix may be removed (s[k:] or strings.TrimPrefix), anything else alters the digits of some correctly made signatures")
				}
			}
		}
		walk(call.Call.Args[0])
	})
	r.Check(len(bad) == 0, "verify-crypto", name, v.Pos(), "nil is returned only under the cryptographic check of (identity, hash(), signature)", "%s", strings.Join(bad, "; "))
}

func isSigToPub(f *types.Func) bool {
	return an.IsFunc(f, "github.com/ethereum/go-ethereum/crypto", "SigToPub") || an.IsFunc(f, "github.com/ethereum/go-ethereum/crypto", "Ecrecover")
}

func checkDispatchAgree(p *an.Prog, r *an.Run, a *authCtx) {
	type disp struct {
		ok       bool
		k        int64
		op       token.Token
		trueTyp  string
		falseTyp string
	}
	get := func(fn *ssa.Function, method string) (disp, string) {
		var d disp
		if fn == nil {
			return d, "anchor not found"
		}
		r.Analysed(an.FuncName(fn))
		pub := fn.Params[len(fn.Params)-3]
		if method == "Sign" {
			pub = fn.Params[2]
		} else {
			pub = fn.Params[2]
		}
		var ifs []*ssa.If
		an.AllInstrs(fn, func(in ssa.Instruction) {
			if iff, ok := in.(*ssa.If); ok {
				ifs = append(ifs, iff)
			}
		})
		for _, iff := range ifs {
			rel, ok := an.NormCond(iff.Cond)
			if !ok {
				continue
			}
			lx, lok := an.LenOf(rel.L)
			if !lok {
				rel = rel.Swap()
				lx, lok = an.LenOf(rel.L)
			}
			if !lok || rel.Arg(lx) != ssa.Value(pub) {
				continue
			}
			k, ok := an.ConstInt(rel.R)
			if !ok {
				continue
			}
			d.k, d.op = k, rel.Op
			typOf := func(b *ssa.BasicBlock) string {
				for _, blk := range reachBlocks(b) {
					for _, in := range blk.Instrs {
						if c, ok := in.(ssa.CallInstruction); ok {
							if f := an.CallObj(c); f != nil && f.Name() == method {
								if n := an.RecvNamed(f); n != nil && n.Obj().Pkg() != nil && n.Obj().Pkg().Path() == pkgRequest {
									return n.Obj().Name()
								}
							}
						}
					}
				}
				return ""
			}
			d.trueTyp = typOf(iff.Block().Succs[0])
			d.falseTyp = typOf(iff.Block().Succs[1])
			d.ok = true
			return d, ""
		}
		return d, "no branch on len(identity) found"
	}
	sign, e1 := get(p.Func("request", "Sign"), "Sign")
	ver, e2 := get(p.Func("request", "Verify"), "Verify")
	if !sign.ok || !ver.ok {
		r.Undec("dispatch-agree", "request.Sign/Verify", token.NoPos, "Sign: %s; Verify: %s", e1, e2)
	} else {
		same := sign.k == ver.k && sign.op == ver.op && sign.trueTyp == ver.trueTyp && sign.falseTyp == ver.falseTyp &&
			sign.trueTyp != "" && sign.falseTyp != "" && sign.trueTyp != sign.falseTyp
		r.Check(same, "dispatch-agree", "request.Sign/Verify", p.Func("request", "Verify").Pos(),
			"Sign and Verify dispatch on the same length predicate to the same request kinds",
			"Sign dispatches on len(id) %s %d to %s/%s but Verify on len(id) %s %d to %s/%s",
			sign.op, sign.k, sign.trueTyp, sign.falseTyp, ver.op, ver.k, ver.trueTyp, ver.falseTyp)
		// wallet identities ("0x"+40 hex = 42) must go to the address kind, node ids (128 hex) to the node kind
		okSplit := false
		switch ver.op {
		case token.LEQ:
			okSplit = ver.k >= 42 && ver.k < 128 && ver.trueTyp == "AddressRequest" && ver.falseTyp == "NodeRequest"
		case token.LSS:
			okSplit = ver.k > 42 && ver.k <= 128 && ver.trueTyp == "AddressRequest" && ver.falseTyp == "NodeRequest"
		case token.GTR:
			okSplit = ver.k >= 42 && ver.k < 128 && ver.trueTyp == "NodeRequest" && ver.falseTyp == "AddressRequest"
		case token.GEQ:
			okSplit = ver.k > 42 && ver.k <= 128 && ver.trueTyp == "NodeRequest" && ver.falseTyp == "AddressRequest"
		}
		r.Check(okSplit, "dispatch-agree", "request.Verify-split", p.Func("request", "Verify").Pos(),
			"42-character wallet addresses are verified as addresses, 128-character node ids as node keys",
			"the length split (len %s %d -> %s else %s) does not send 42-byte wallets to AddressRequest and 128-byte node ids to NodeRequest", ver.op, ver.k, ver.trueTyp, ver.falseTyp)
	}

	// RemotePool signs under the constant its server-side twin verifies.
	rp := p.Named("pool", "RemotePool")
	if rp == nil {
		r.Undec("dispatch-agree", "pool.RemotePool", token.NoPos, "anchor type pool.RemotePool not found")
		return
	}
	found := 0
	for _, ep := range a.endpoints {
		n := an.RecvNamed(ep.Obj)
		if n == nil || n.Obj().Name() != "VipnodePool" {
			continue
		}
		cm := p.MethodOf(rp, ep.Obj.Name())
		if cm == nil {
			continue
		}
		r.Analysed(an.FuncName(cm))
		// constant stored into the Method field of the NodeRequest literal
		var consts []string
		an.AllInstrs(cm, func(in ssa.Instruction) {
			if st, ok := in.(*ssa.Store); ok {
				if fv := an.FieldOf(st.Addr); fv != nil && fv.Name() == "Method" {
					if s, ok := an.ConstString(st.Val); ok {
						consts = append(consts, s)
					}
				}
			}
		})
		// ... or the literal is built by a helper that receives the name as an argument at this call site
		for _, hc := range an.Calls(cm, false) {
			h := hc.Common().StaticCallee()
			if h == nil || !p.InRepo(h) || len(h.Blocks) == 0 || h.Pkg != cm.Pkg {
				continue
			}
			an.AllInstrs(h, func(in ssa.Instruction) {
				st, ok := in.(*ssa.Store)
				if !ok {
					return
				}
				if fv := an.FieldOf(st.Addr); fv == nil || fv.Name() != "Method" {
					return
				}
				for i, prm := range h.Params {
					if st.Val == ssa.Value(prm) && i < len(hc.Common().Args) {
						if s, ok := an.ConstString(hc.Common().Args[i]); ok {
							consts = append(consts, s)
						} else {
							consts = append(consts, "<non-constant>")
						}
					}
				}
			})
		}
		found++
		okc := len(consts) == 1 && len(ep.Names) > 0
		if okc {
			okc = false
			for _, nm := range ep.Names {
				if nm == consts[0] {
					okc = true
				}
			}
		}
		r.Check(okc, "dispatch-agree", an.FuncName(cm), cm.Pos(), "client signs under the RPC name the server verifies",
			"client signs under %v but the server-side endpoint is registered as %v", consts, ep.Names)
		// and the client sends to that same method name with SignedArgs of that request
	}
	r.Floor("remote-twins", found, 5)
}

func reachBlocks(b *ssa.BasicBlock) []*ssa.BasicBlock {
	seen := map[*ssa.BasicBlock]bool{b: true}
	out := []*ssa.BasicBlock{b}
	for i := 0; i < len(out); i++ {
		for _, s := range out[i].Succs {
			if !seen[s] {
				seen[s] = true
				out = append(out, s)
			}
		}
	}
	return out
}

// ---------------------------------------------------------------------------

// checkNonceKeptOnRefusal: a refusal by the nonce store itself (stale or not larger than the remembered nonce) leaves
// the remembered nonce as it was: in each driver's CheckAndSaveNonce no write or delete in the nonce space is followed
// by a refusing return (other than the failure of that very write).
func checkNonceKeptOnRefusal(p *an.Prog, r *an.Run) {
	n := 0
	for _, d := range p.Implementations(p.Iface("pool/store", "NonceStore")) {
		kind := driverKind(d)
		m := p.MethodOf(d, "CheckAndSaveNonce")
		if kind == "" || m == nil {
			continue
		}
		r.Analysed(an.FuncName(m))
		var bad []string
		for _, o := range driverOps(p, d, m) {
			if (o.Kind != opWrite && o.Kind != opDelete) || !o.inSpace("nonce") || o.In == nil {
				continue
			}
			n++
			fn := o.In.Parent()
			cut := map[an.Edge]bool{}
			if c, ok := o.In.(ssa.CallInstruction); ok {
				for _, e := range an.ErrEdges(c).Fail {
					cut[e] = true
				}
			}
			refusing := func(in ssa.Instruction) bool {
				ret, ok := in.(*ssa.Return)
				if !ok {
					return false
				}
				cls, v := returnClass(ret)
				if cls != "nonnil" {
					return false
				}
				// the failure of the write itself, handed back
				if c, ok := o.In.(ssa.CallInstruction); ok && v != nil {
					for _, ev := range an.ErrValues(c) {
						if ev == v {
							return false
						}
					}
				}
				return true
			}
			if in := an.PathAvoiding(fn, o.In, nil, refusing, cut); in != nil {
				bad = append(bad, "the "+o.Kind.String()+" in the nonce space at "+p.Pos(o.In.Pos())+" can be followed by the refusal at "+p.Pos(in.Pos())+": a refused request changes what the store remembers for the identity (an ancient replay would wipe the high-water mark and re-open every recent request for replay)")
			}
		}
		r.Check(len(bad) == 0, "nonce-kept-on-refusal", kind, m.Pos(), "no nonce-space write precedes a refusal", "%s", strings.Join(bad, "; "))
	}
	r.Floor("nonce-writes", n, 2)
}

func runC06(p *an.Prog, r *an.Run, tier string) {
	checkSurfaceClosed(p, r)
	a := buildAuth(p)
	r.Floor("signed-endpoints", len(a.endpoints), 7)
	r.Floor("verify-wrappers", len(a.wrappers), 2)
	// "refused" presupposes that a request altered in its nonce is refused at all: the signed bytes carry the exact nonce
	// and identity (same rule as C04.hash-covers). A rounded nonce lets a forged, nonce-raised copy through, which then
	// consumes the owner's nonce and leaves every trace a valid request leaves.
	checkHashCovers(p, r)
	checkNonceKeptOnRefusal(p, r)
	checkNonceStores(p, r)
	// what a refused request carried does not live on in the next request's parameters
	checkFreshParams(p, r)
	// every signature check of a request comes before its first effect: where an endpoint (or a function it calls)
	// verifies a second signature — the payout wallet's, say — no store write or registry update can precede that
	// check on any path, or a request refused by it has already registered a node, a connection, a nonce
	{
		writeNames := map[string]bool{"AddNodeBalance": true, "AddAccountBalance": true, "AddAccountNode": true, "SetNode": true, "UpdateNodePeers": true}
		var lb []string
		nEp := 0
		for _, ep := range a.endpoints {
			nEp++
			fns := regionFuncs(p, ep.Fn)
			hasGate := map[*ssa.Function]bool{}
			for _, f := range fns {
				if len(a.gateCalls(f)) > 0 && !inFuncs(f, a.wrappers) {
					hasGate[f] = true
				}
			}
			for _, f := range fns {
				if inFuncs(f, a.wrappers) {
					continue
				}
				isPoint := func(x ssa.Instruction) bool {
					c, ok := x.(ssa.CallInstruction)
					if !ok {
						return false
					}
					if callee := c.Common().StaticCallee(); callee != nil {
						if inFuncs(callee, a.wrappers) || (hasGate[callee] && callee != ep.Fn) {
							return true
						}
					}
					return an.IsFunc(an.CallObj(c), pkgRequest, "Verify")
				}
				an.AllInstrs(f, func(in ssa.Instruction) {
					isEffect := false
					if c, ok := in.(ssa.CallInstruction); ok && isStoreMethod(an.CallObj(c)) && writeNames[an.CallObj(c).Name()] {
						isEffect = true
					}
					if mu, ok := in.(*ssa.MapUpdate); ok && (memMapField(mu.Map) == "remoteHosts" || memMapField(mu.Map) == "remoteNodeLookup") {
						isEffect = true
					}
					if !isEffect {
						return
					}
					if hit := an.PathAvoiding(f, in, nil, isPoint, nil); hit != nil {
						lb = append(lb, an.FuncName(f)+" (serving "+an.FuncName(ep.Fn)+"): the signature check at "+p.Pos(hit.Pos())+" comes after the effect at "+p.Pos(in.Pos())+": a request it refuses has already changed the pool")
					}
				})
			}
		}
		r.Check(len(lb) == 0 && nEp > 0, "effects-after-verify", "every-check-first", token.NoPos, "no signature check of a request follows one of its effects", "%s", strings.Join(dedup(lb), "; "))
	}
	// an authentication refusal is issued by the verify wrappers only, i.e. before the nonce is stored: an endpoint
	// that answers VerifyFailedError on its own does so after its verify call has succeeded and consumed the nonce — the
	// request is refused as unauthenticated and yet the owner's next, smaller nonce is turned away
	{
		isWrapper := map[*ssa.Function]bool{}
		for _, w := range a.wrappers {
			isWrapper[w] = true
		}
		var vb []string
		nMade := 0
		for _, fn := range p.Repo {
			if p.IsTestFunc(fn) || isTestDoublePkg(fn) {
				continue
			}
			top := fn
			for top.Parent() != nil {
				top = top.Parent()
			}
			an.AllInstrs(fn, func(in ssa.Instruction) {
				mi, ok := in.(*ssa.MakeInterface)
				if !ok || !an.IsErrorType(mi.Type()) {
					return
				}
				n := namedOf(mi.X.Type())
				if n == nil || n.Obj().Name() != "VerifyFailedError" {
					return
				}
				nMade++
				if !isWrapper[top] {
					vb = append(vb, an.FuncName(fn)+" answers VerifyFailedError at "+p.Pos(mi.Pos())+" outside the verify wrappers: by then the wrapper has accepted the signature and stored the nonce")
				}
			})
		}
		r.Check(len(vb) == 0 && nMade > 0, "refusal-before-nonce", "VerifyFailedError", token.NoPos, "authentication refusals are issued by the verify wrappers only", "%s (constructions: %d)", strings.Join(dedup(vb), "; "), nMade)
	}
	for _, w := range a.wrappers {
		name := an.FuncName(w)
		r.Analysed(name)
		var cut []an.Edge
		nVerify := 0
		for _, c := range an.Calls(w, false) {
			if an.IsFunc(an.CallObj(c), pkgRequest, "Verify") {
				cut = append(cut, an.ErrEdges(c).Succ...)
				nVerify++
			}
		}
		reach := an.ReachAvoiding(w, an.EdgeSet(cut))
		var bad []string
		nNonce := 0
		for _, c := range an.Calls(w, false) {
			f := an.CallObj(c)
			if f != nil && f.Name() == "CheckAndSaveNonce" {
				nNonce++
				r.CallSites++
				if reach[c.Block()] {
					bad = append(bad, "CheckAndSaveNonce at "+p.Pos(c.Pos())+" is reachable before request.Verify has succeeded: a forged request consumes the identity's nonce")
				}
			} else if s, ok := isEffectCall(c); ok && reach[c.Block()] {
				bad = append(bad, s+" at "+p.Pos(c.Pos())+" reachable before request.Verify succeeded")
			}
		}
		if nNonce == 0 {
			bad = append(bad, "wrapper never stores the nonce")
		}
		// "leaves no trace": without a successful request.Verify the wrapper (and the helpers it calls) writes nothing
		// into the service's own state either — a failure counter, throttle or blacklist keyed by the claimed identity is
		// a trace that refused requests leave, and it is what later turns the legitimate owner away
		var scanW func(fn *ssa.Function, reachAll bool, depth int)
		seenW := map[*ssa.Function]bool{}
		scanW = func(fn *ssa.Function, reachAll bool, depth int) {
			if seenW[fn] || depth > 2 {
				return
			}
			seenW[fn] = true
			an.AllInstrs(fn, func(in ssa.Instruction) {
				if !reachAll && !reach[in.Block()] {
					return
				}
				if addr, ok := sharedWrite(in); ok {
					// re-initialising an unset field of a fresh receiver aside, any such write counts
					_ = addr
					bad = append(bad, "service state is written at "+p.Pos(in.Pos())+" ("+an.FuncName(fn)+") for a request whose signature has not been verified: refused requests leave a trace")
				}
				if c, ok := in.(ssa.CallInstruction); ok {
					if _, isGo := in.(*ssa.Go); isGo {
						return
					}
					if cal := c.Common().StaticCallee(); cal != nil && p.InRepo(cal) && cal.Pkg == w.Pkg && cal.Signature.Recv() != nil && w.Signature.Recv() != nil &&
						types.Identical(cal.Signature.Recv().Type(), w.Signature.Recv().Type()) {
						scanW(cal, true, depth+1)
					}
				}
			})
		}
		scanW(w, false, 0)
		r.Check(len(bad) == 0, "nonce-after-sig", name, w.Pos(), "nonce is checked and saved only past the success edge of request.Verify", "%s", strings.Join(bad, "; "))
	}
	for _, ep := range a.endpoints {
		name := an.FuncName(ep.Fn)
		r.Analysed(name)
		gates := a.gateCalls(ep.Fn)
		if len(gates) == 0 {
			r.Fail("effects-after-verify", name, ep.Fn.Pos(), "signed endpoint never verifies: every effect of %s happens for forged requests", name)
			continue
		}
		un := a.ungatedEffects(p, ep.Fn, gates)
		r.Check(len(un) == 0, "effects-after-verify", name, ep.Fn.Pos(), "no store/manager/service/registry effect reachable without a successful verify",
			"effects reachable for a refused request: %s", strings.Join(un, "; "))
	}
}

var mutatingStoreMethods = map[string]bool{"SetNode": true, "AddNodeBalance": true, "AddAccountBalance": true, "AddAccountNode": true,
	"UpdateNodePeers": true, "CheckAndSaveNonce": true, "RemoveNode": true}

// mutatingEffect returns a witness when fn transitively reaches a call that
// changes pool state or instructs a host: store mutators, balance manager,
// reverse RPC, settlement, or a write to the VipnodePool host registry.
func mutatingEffect(p *an.Prog, fn *ssa.Function) string {
	var names []*ssa.Function
	for g := range p.Reach(fn) {
		names = append(names, g)
	}
	sortFuncs(names)
	for _, g := range names {
		w := ""
		an.AllInstrs(g, func(in ssa.Instruction) {
			if w != "" {
				return
			}
			if c, ok := in.(ssa.CallInstruction); ok {
				f := an.CallObj(c)
				switch {
				case f != nil && isStoreMethod(f) && mutatingStoreMethods[f.Name()]:
					w = an.ObjString(f)
				case f != nil && (isManagerMethod(f) || isServiceCall(f)):
					w = an.ObjString(f)
				case f == nil && len(settleCallsAt(c)) > 0:
					w = "settlement handler"
				}
				if w != "" {
					w += " at " + p.Pos(c.Pos()) + " (in " + an.FuncName(g) + ")"
				}
			}
			switch x := in.(type) {
			case *ssa.MapUpdate:
				if f := memMapField(x.Map); f == "remoteHosts" || f == "remoteNodeLookup" {
					w = "host registry write at " + p.Pos(in.Pos())
				}
			}
		})
		if w != "" {
			return w
		}
	}
	return ""
}

func settleCallsAt(c ssa.CallInstruction) []ssa.CallInstruction {
	cc := c.Common()
	if cc.IsInvoke() || cc.StaticCallee() != nil {
		return nil
	}
	if n, ok := cc.Value.Type().(*types.Named); ok && n.Obj().Name() == "SettleHandler" {
		return []ssa.CallInstruction{c}
	}
	if u, ok := cc.Value.(*ssa.UnOp); ok && u.Op == token.MUL {
		if fv := an.FieldOf(u.X); fv != nil && fv.Name() == "Settle" {
			return []ssa.CallInstruction{c}
		}
	}
	return nil
}

func sortFuncs(l []*ssa.Function) {
	sort.Slice(l, func(i, j int) bool { return an.FuncName(l[i]) < an.FuncName(l[j]) })
}
