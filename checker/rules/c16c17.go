package rules

import (
	"go/token"
	"go/types"
	"net/textproto"
	"sort"
	"strconv"
	"strings"

	"golang.org/x/tools/go/ssa"

	"vipcheck/an"
)

func init() {
	Registry["C16"] = Spec{
		Run: runC16,
		Explanation: "Exhaustive registry rule plus gate reachability: (surface) for every Register/RegisterMethod call in the binaries' package the exposed names are computed with go/types from the receiver's method set, the registration's prefix and its allow-list, " +
			"and the union over network-facing servers must equal the documented surface {vipnode_connect, update, peer, client, host, ping; pool_account, addNode, withdraw, status; vipnode_whitelist} — registrations on in-process Local servers are listed but unrestricted; " +
			"(register-filter) in Server.Register the registry store is unreachable without passing 'no allow-list given' or the allow-list hit, the allow-list is built from the onlyMethods argument whenever it is non-empty, and the name is prefix + lower-cased first rune + rest; " +
			"(dispatch) in Server.Handle the method is invoked only past the registry hit for the request's method name and the success edge of parsePositionalArguments(req.Params, m.ArgTypes), with method-not-found / invalid-params codes on the other edges; " +
			"(arity) parsePositionalArguments refuses too many arguments, undecodable ones and missing non-pointer ones, and Method.Call re-checks the count. Round 5: no exposed method declares a pointer parameter.",
		NotDecided: []string{"not decided: JSON-to-Go decoding leniency per parameter type (e.g. null for a value parameter, extra object fields)"},
		Exhaustive: true,
	}
	Registry["C17"] = Spec{
		Run: runC17,
		Explanation: "Static ownership / lockset rules over the codecs: (no-readahead-loss) a json.Decoder built on a receiver-held stream must either be kept in the receiver or hand its Buffered() remainder to a receiver field that the next decoder reads first — a per-call decoder that is dropped loses every message that arrived coalesced with the previous one; " +
			"(one-encode) the stream codec writes a message with exactly one Encode (one Write) of that message; (single-writer) in the gorilla codec every write on the connection holds muWrite and every read holds muRead; " +
			"(framing) the gobwas codec advances to the next frame before each read and flushes after each successful write; (shipped-codec) the binaries import the gorilla codec only. Round 2: (http-once) the HTTP stub builds a constant POST and sets no replay-enabling or non-constant header; (framing) a successful Discard() on the same reader precedes every NextFrame. Round 5: (payload-verbatim) no interface{} member in the message types.",
		NotDecided: []string{"not decided: exactly-once/in-order delivery over arbitrary chunkings (needs execution); interleaving of concurrent writers on the gobwas and plain stream codecs, which the binaries do not use for concurrent writers"},
	}
}

var documentedSurface = []string{"vipnode_connect", "vipnode_update", "vipnode_peer", "vipnode_client", "vipnode_host", "vipnode_ping",
	"pool_account", "pool_addNode", "pool_withdraw", "pool_status", "vipnode_whitelist"}

func regNames(reg Registration) ([]string, bool) {
	if reg.Single {
		if !reg.PrefixOK {
			return nil, false
		}
		return []string{reg.Prefix}, true
	}
	if !reg.PrefixOK || (reg.HasAllow && !reg.AllowOK) {
		return nil, false
	}
	var out []string
	for _, m := range ExposedMethods(reg.RecvType) {
		// methods the registry rejects: unsupported result lists make Register fail as a whole; ignore here
		n := lowerFirst(m.Name())
		if reg.HasAllow {
			ok := false
			for _, a := range reg.Allow {
				if a == n {
					ok = true
				}
			}
			if !ok {
				continue
			}
		}
		out = append(out, reg.Prefix+n)
	}
	sort.Strings(out)
	return out, true
}

func serverIsLocal(v ssa.Value) bool {
	root, _ := an.RootPath(v)
	t := root.Type()
	if p, ok := t.Underlying().(*types.Pointer); ok {
		t = p.Elem()
	}
	return isNamedType(t, "Local")
}

// exposedSurface: rpc name -> where it is registered, for every network-facing registration of the binaries' package.
func exposedSurface(p *an.Prog, r *an.Run, verbose bool) (map[string]string, int, int) {
	regs := Registrations(p)
	exposed := map[string]string{}
	nMain := 0
	for _, reg := range regs {
		top := reg.Fn
		for top.Parent() != nil {
			top = top.Parent()
		}
		inMain := top.Pkg != nil && top.Pkg.Pkg.Path() == an.Module
		names, ok := regNames(reg)
		where := an.FuncName(reg.Fn) + " at " + p.Pos(reg.Call.Pos())
		if !inMain {
			if verbose {
				r.Note("registration outside the binaries' package (not restricted): %s -> %v", where, names)
			}
			continue
		}
		nMain++
		if !ok {
			if verbose {
				r.Undec("surface", where, reg.Call.Pos(), "the registration's prefix or allow-list is not constant: the exposed names cannot be enumerated")
			}
			continue
		}
		if serverIsLocal(reg.ServerVal) {
			if verbose {
				r.Note("in-process registration (jsonrpc2.Local, not network-facing): %s -> %v", where, names)
			}
			continue
		}
		for _, n := range names {
			exposed[n] = where
		}
	}
	return exposed, len(regs), nMain
}

// checkSurfaceClosed: the per-endpoint rules of a property are written for the documented endpoints. An RPC name exposed
// beyond them (a new pool_transfer, an exported helper picked up by the catch-all registration) is an endpoint none of
// those rules has looked at: the property is not decided for it. Shared by every property that quantifies over "every
// registered endpoint" (C01, C04, C05, C06, C07, C10); C16 states it for its own sake.
func checkSurfaceClosed(p *an.Prog, r *an.Run) {
	exposed, _, _ := exposedSurface(p, r, false)
	want := map[string]bool{}
	for _, n := range documentedSurface {
		want[n] = true
	}
	var extra []string
	for n, w := range exposed {
		if !want[n] {
			extra = append(extra, n+" (registered in "+w+")")
		}
	}
	sort.Strings(extra)
	r.Check(len(extra) == 0 && len(exposed) > 0, "surface", "extra", token.NoPos, "no RPC name beyond the documented surface is exposed", "the binaries expose RPC names that are not part of the documented surface, so the per-endpoint rules of this property have not judged them: %s", strings.Join(extra, "; "))
}

func runC16(p *an.Prog, r *an.Run, tier string) {
	checkFreshParams(p, r)
	// what a connection answers is what Server.Handle made of this very request (shared with C14/C15)
	checkReplyID(p, r)
	regs := Registrations(p)
	r.Floor("registrations", len(regs), 7)
	exposed := map[string]string{}
	nMain := 0
	for _, reg := range regs {
		top := reg.Fn
		for top.Parent() != nil {
			top = top.Parent()
		}
		inMain := top.Pkg != nil && top.Pkg.Pkg.Path() == an.Module
		names, ok := regNames(reg)
		where := an.FuncName(reg.Fn) + " at " + p.Pos(reg.Call.Pos())
		if !inMain {
			r.Note("registration outside the binaries' package (not restricted): %s -> %v", where, names)
			continue
		}
		nMain++
		if !ok {
			r.Undec("surface", where, reg.Call.Pos(), "the registration's prefix or allow-list is not constant: the exposed names cannot be enumerated")
			continue
		}
		if serverIsLocal(reg.ServerVal) {
			r.Note("in-process registration (jsonrpc2.Local, not network-facing): %s -> %v", where, names)
			continue
		}
		for _, n := range names {
			exposed[n] = where
		}
		// allow-list entries that match no method are dead weight but harmless; entries are reported in evidence
	}
	r.Floor("registrations-in-main", nMain, 7)
	want := map[string]bool{}
	for _, n := range documentedSurface {
		want[n] = true
	}
	var extra, missing []string
	for n, w := range exposed {
		if !want[n] {
			extra = append(extra, n+" (registered in "+w+")")
		}
	}
	for n := range want {
		if _, ok := exposed[n]; !ok {
			missing = append(missing, n)
		}
	}
	sort.Strings(extra)
	sort.Strings(missing)
	var all []string
	for n := range exposed {
		all = append(all, n)
	}
	sort.Strings(all)
	r.Note("network-facing RPC surface: %s", strings.Join(all, " "))
	r.Check(len(extra) == 0, "surface", "extra", token.NoPos, "no RPC name beyond the documented surface is exposed", "the binaries expose RPC names that are not part of the documented surface: %s", strings.Join(extra, "; "))
	r.Check(len(missing) == 0, "surface", "missing", token.NoPos, "every documented RPC name is exposed", "documented RPC names are no longer exposed: %s", strings.Join(missing, ", "))

	checkRegisterFilter(p, r)
	checkDispatch(p, r)
	checkArity(p, r)
}

func checkRegisterFilter(p *an.Prog, r *an.Run) {
	reg := p.Method("jsonrpc2", "Server", "Register")
	if reg == nil {
		r.Undec("register-filter", "Server.Register", token.NoPos, "anchor not found")
		return
	}
	r.Analysed(an.FuncName(reg))
	name := an.FuncName(reg)
	prefixPrm, onlyPrm := reg.Params[1], reg.Params[3]
	var bad []string
	// the registry store
	var regUpd *ssa.MapUpdate
	an.AllInstrs(reg, func(in ssa.Instruction) {
		if mu, ok := in.(*ssa.MapUpdate); ok && memMapField(mu.Map) == "registry" {
			regUpd = mu
		}
	})
	if regUpd == nil {
		r.Fail("register-filter", name, reg.Pos(), "Register never stores into the registry")
		return
	}
	// allow-list map: the MakeMap whose keys come from onlyMethods
	var wl *ssa.MakeMap
	an.AllInstrs(reg, func(in ssa.Instruction) {
		if mu, ok := in.(*ssa.MapUpdate); ok {
			if mm, ok := mu.Map.(*ssa.MakeMap); ok && p.Derives(0, mu.Key).HasParam(onlyPrm) {
				wl = mm
			}
		}
	})
	if wl == nil {
		bad = append(bad, "no allow-list is built from the onlyMethods argument")
	} else {
		// built exactly when len(onlyMethods) > 0
		okLen := false
		for _, cr := range ctrlRels(wl.Block()) {
			if s, isLen := an.LenOf(cr.L); isLen && s == ssa.Value(onlyPrm) {
				if k, ok := an.ConstInt(cr.R); ok && ((cr.Op == token.GTR && k == 0) || (cr.Op == token.GEQ && k == 1)) {
					okLen = true
				}
			}
		}
		if !okLen {
			bad = append(bad, "the allow-list is not built under 'len(onlyMethods) > 0'")
		}
		// gate: cut the 'list is nil' edges and the 'hit' edges; the registry store must become unreachable
		cut := map[an.Edge]bool{}
		isWL := func(v ssa.Value) bool {
			d := p.Derives(0, v)
			return d.HasValue(wl)
		}
		an.AllInstrs(reg, func(in ssa.Instruction) {
			iff, ok := in.(*ssa.If)
			if !ok {
				return
			}
			b := iff.Block()
			if rel, ok := an.NormCond(iff.Cond); ok && (rel.Op == token.EQL || rel.Op == token.NEQ) {
				v := rel.L
				if isNilValue(v) {
					v = rel.R
				}
				if (isNilValue(rel.L) || isNilValue(rel.R)) && isWL(v) {
					if rel.Op == token.EQL {
						cut[an.Edge{From: b, To: b.Succs[0]}] = true
					} else {
						cut[an.Edge{From: b, To: b.Succs[1]}] = true
					}
				}
			}
			// lookup hit
			v, w := iff.Cond, true
			for {
				if u, ok := v.(*ssa.UnOp); ok && u.Op == token.NOT {
					v, w = u.X, !w
					continue
				}
				break
			}
			if ex, ok := v.(*ssa.Extract); ok && ex.Index == 1 {
				if lk, ok := ex.Tuple.(*ssa.Lookup); ok && isWL(lk.X) {
					// the looked-up name must be the method's exposed name without the prefix
					if w {
						cut[an.Edge{From: b, To: b.Succs[0]}] = true
					} else {
						cut[an.Edge{From: b, To: b.Succs[1]}] = true
					}
				}
			}
		})
		if len(cut) < 2 {
			bad = append(bad, "the allow-list is never consulted before a method is stored")
		}
		if an.ReachAvoiding(reg, cut)[regUpd.Block()] {
			bad = append(bad, "a method can be stored in the registry although an allow-list was given and does not contain it (helper methods of the receiver become callable)")
		}
	}
	// the name: prefix, then lower-cased first rune, then the rest
	var ws []ssa.CallInstruction
	for _, c := range an.Calls(reg, false) {
		f := an.CallObj(c)
		if f != nil && an.RecvNamed(f) != nil && an.RecvNamed(f).Obj().Name() == "Buffer" && (f.Name() == "WriteString" || f.Name() == "WriteRune" || f.Name() == "WriteByte") {
			ws = append(ws, c)
		}
	}
	okName := false
	if len(ws) == 3 {
		a0 := ws[0].Common().Args[1]
		a1 := ws[1].Common().Args[1]
		a2 := ws[2].Common().Args[1]
		lower := p.Derives(0, a1).CallTo(func(f *types.Func) bool { return an.IsFunc(f, "unicode", "ToLower") }) != nil
		rest := false
		if sl, ok := a2.(*ssa.Slice); ok {
			if k, ok := an.ConstInt(sl.Low); ok && k == 1 && sl.High == nil {
				rest = true
			}
		}
		if a0 == ssa.Value(prefixPrm) && lower && rest && an.Dominates(ws[0].(ssa.Instruction), ws[1].(ssa.Instruction)) && an.Dominates(ws[1].(ssa.Instruction), ws[2].(ssa.Instruction)) && an.Dominates(ws[2].(ssa.Instruction), regUpd) {
			okName = true
		}
	}
	if !okName {
		bad = append(bad, "the registered name is not built as prefix + lower-cased first rune + rest of the method name")
	}
	if p.Derives(0, regUpd.Key).CallTo(func(f *types.Func) bool {
		return f.Name() == "String" && an.RecvNamed(f) != nil && an.RecvNamed(f).Obj().Name() == "Buffer"
	}) == nil {
		bad = append(bad, "the registry key is not the assembled name")
	}
	r.Check(len(bad) == 0, "register-filter", name, reg.Pos(), "allow-list applied whenever given; name = prefix + lowerFirst(method)", "%s", strings.Join(bad, "; "))
}

func errCodeStores(p *an.Prog, b *ssa.BasicBlock) []int64 {
	var out []int64
	for _, blk := range reachBlocksNoLoop(b) {
		for _, in := range blk.Instrs {
			if st, ok := in.(*ssa.Store); ok {
				if fv := an.FieldOf(st.Addr); fv != nil && fv.Name() == "Code" {
					if k, ok := an.ConstInt(st.Val); ok {
						out = append(out, k)
					}
				}
			}
			if _, ok := in.(*ssa.Return); ok {
				return out
			}
		}
		if len(blk.Succs) > 1 {
			break
		}
	}
	return out
}

func reachBlocksNoLoop(b *ssa.BasicBlock) []*ssa.BasicBlock {
	out := []*ssa.BasicBlock{b}
	for len(out[len(out)-1].Succs) == 1 && len(out) < 8 {
		out = append(out, out[len(out)-1].Succs[0])
	}
	return out
}

func checkDispatch(p *an.Prog, r *an.Run) {
	h := p.Method("jsonrpc2", "Server", "Handle")
	if h == nil {
		r.Undec("dispatch", "Server.Handle", token.NoPos, "anchor not found")
		return
	}
	r.Analysed(an.FuncName(h))
	name := an.FuncName(h)
	reqPrm := h.Params[2]
	var bad []string
	// the registry lookup, in Handle itself or in a helper that returns (method, found)
	var lk *ssa.Lookup
	for _, rf := range regionFuncs(p, h) {
		an.AllInstrs(rf, func(in ssa.Instruction) {
			if l, ok := in.(*ssa.Lookup); ok && memMapField(l.X) == "registry" && l.CommaOk {
				lk = l
			}
		})
	}
	var parse, invoke ssa.CallInstruction
	for _, c := range an.Calls(h, false) {
		if an.IsFunc(an.CallObj(c), pkgRPC, "parsePositionalArguments") {
			parse = c
		}
		if an.IsMethod(an.CallObj(c), pkgRPC, "Method", "Call") {
			invoke = c
		}
	}
	if lk == nil || parse == nil || invoke == nil {
		r.Fail("dispatch", name, h.Pos(), "Handle does not look the method up in the registry (comma-ok), parse positional arguments and invoke it")
		return
	}
	// values of Handle that stand for the lookup's method (index 0) and found flag (index 1)
	lkVals := map[int]map[ssa.Value]bool{0: {}, 1: {}}
	if lk.Parent() == h {
		for _, ref := range *lk.Referrers() {
			if ex, ok := ref.(*ssa.Extract); ok {
				lkVals[ex.Index][ex] = true
			}
		}
	} else {
		helper := lk.Parent()
		for _, c := range an.Calls(h, false) {
			if c.Common().StaticCallee() != helper || c.Value() == nil {
				continue
			}
			for ri := 0; ri < helper.Signature.Results().Len(); ri++ {
				which := -1
				okAll := true
				an.AllInstrs(helper, func(in ssa.Instruction) {
					ret, ok := in.(*ssa.Return)
					if !ok || ri >= len(ret.Results) {
						return
					}
					ex, ok := ret.Results[ri].(*ssa.Extract)
					if !ok || ex.Tuple != ssa.Value(lk) {
						okAll = false
						return
					}
					if which != -1 && which != ex.Index {
						okAll = false
					}
					which = ex.Index
				})
				if okAll && which >= 0 {
					for _, ref := range *c.Value().Referrers() {
						if ex, ok := ref.(*ssa.Extract); ok && ex.Index == ri {
							lkVals[which][ex] = true
						}
					}
				}
			}
		}
	}
	fromLookup := func(d *an.Deriv, idx int) bool {
		for v := range lkVals[idx] {
			if d.HasValue(v) {
				return true
			}
		}
		return false
	}
	dk := p.DerivesIn(h, 0, lk.Index)
	if !dk.HasParam(reqPrm) || !dk.HasFieldNamed("Request", "Method") {
		bad = append(bad, "the registry is not looked up by the request's method name")
	}
	for _, n := range dk.Nodes {
		if c, ok := n.(*ssa.Call); ok {
			if f := an.CallObj(c); f != nil && (f.Name() == "ToLower" || f.Name() == "ToUpper" || f.Name() == "TrimSpace" || f.Name() == "EqualFold" || strings.HasPrefix(f.Name(), "Trim")) {
				bad = append(bad, "the method name is normalised with "+f.Name()+" before the lookup: unregistered spellings become callable")
			}
		}
	}
	// found edge
	var foundIf *ssa.If
	var foundSucc int
	an.AllInstrs(h, func(in ssa.Instruction) {
		iff, ok := in.(*ssa.If)
		if !ok {
			return
		}
		v, w := iff.Cond, 0
		for {
			if u, ok := v.(*ssa.UnOp); ok && u.Op == token.NOT {
				v, w = u.X, 1-w
				continue
			}
			break
		}
		if lkVals[1][v] {
			foundIf, foundSucc = iff, w
		}
	})
	if foundIf == nil {
		bad = append(bad, "the lookup's ok result is not branched on")
	} else {
		cut := map[an.Edge]bool{{From: foundIf.Block(), To: foundIf.Block().Succs[foundSucc]}: true}
		if an.ReachAvoiding(h, cut)[invoke.Block()] {
			bad = append(bad, "a method can be invoked without having been found in the registry")
		}
		codes := errCodeStores(p, foundIf.Block().Succs[1-foundSucc])
		if !containsInt(codes, -32601) {
			bad = append(bad, "an unknown method is not answered with the method-not-found code (-32601)")
		}
	}
	// parse gate
	pu := an.ErrEdges(parse)
	if len(pu.Succ) == 0 || an.ReachAvoiding(h, an.EdgeSet(pu.Succ))[invoke.Block()] {
		bad = append(bad, "the method is invoked although its positional parameters failed to parse (wrong count or types)")
	}
	for _, e := range pu.Fail {
		if !containsInt(errCodeStores(p, e.To), -32602) {
			bad = append(bad, "a parameter failure is not answered with the invalid-params code (-32602)")
		}
	}
	// parse(req.Params, m.ArgTypes) with m the looked-up method; invoke(ctx, parsed args) on that same m
	pa := parse.Common().Args
	if d := p.Derives(0, pa[0]); !d.HasParam(reqPrm) || !d.HasFieldNamed("Request", "Params") {
		bad = append(bad, "the arguments parsed are not the request's params")
	}
	if d := p.Derives(0, pa[1]); !fromLookup(d, 0) || !d.HasFieldNamed("Method", "ArgTypes") {
		bad = append(bad, "the parameter types used for parsing are not those of the method that was looked up")
	}
	ia := invoke.Common().Args
	if d := p.Derives(0, ia[0]); !fromLookup(d, 0) {
		bad = append(bad, "the method invoked is not the one that was looked up")
	}
	if d := p.Derives(0, ia[2]); !derivesFromCall(d, parse.(*ssa.Call)) {
		bad = append(bad, "the arguments passed to the method are not the parsed ones")
	}
	r.Check(len(bad) == 0, "dispatch", name, h.Pos(), "invoke only past registry hit and successful positional parsing; -32601 / -32602 otherwise", "%s", strings.Join(bad, "; "))
}

func containsInt(l []int64, k int64) bool {
	for _, x := range l {
		if x == k {
			return true
		}
	}
	return false
}

func checkArity(p *an.Prog, r *an.Run) {
	pp := p.Func("jsonrpc2", "parsePositionalArguments")
	mc := p.Method("jsonrpc2", "Method", "Call")
	if pp == nil || mc == nil {
		r.Undec("arity", "jsonrpc2", token.NoPos, "anchors not found")
		return
	}
	r.Analysed(an.FuncName(pp), an.FuncName(mc))
	typesPrm := pp.Params[1]
	var bad []string
	tooMany, missingNonPtr := false, 0
	nonNilRet := func(b *ssa.BasicBlock) bool {
		for _, blk := range reachBlocksNoLoop(b) {
			for _, in := range blk.Instrs {
				if ret, ok := in.(*ssa.Return); ok {
					cls, _ := returnClass(ret)
					return cls == "nonnil"
				}
			}
		}
		return false
	}
	an.AllInstrs(pp, func(in ssa.Instruction) {
		iff, ok := in.(*ssa.If)
		if !ok {
			return
		}
		rel, ok := an.NormCond(iff.Cond)
		if !ok {
			return
		}
		b := iff.Block()
		if rel.Kind == "int" {
			rr := rel
			if _, isLen := an.LenOf(rr.L); isLen {
				rr = rr.Swap()
			}
			if s, isLen := an.LenOf(rr.R); isLen && s == ssa.Value(typesPrm) && inLoop(in) {
				// i >= len(types) => refuse
				if rr.Op == token.GEQ && nonNilRet(b.Succs[0]) {
					tooMany = true
				}
				if rr.Op == token.LSS && nonNilRet(b.Succs[1]) {
					tooMany = true
				}
			}
			// Kind() != reflect.Ptr => refuse
			if c, ok := rel.L.(*ssa.Call); ok {
				if f := an.CallObj(c); f != nil && f.Name() == "Kind" {
					if k, ok := an.ConstInt(rel.R); ok && k == 22 { // reflect.Ptr
						if rel.Op == token.NEQ && nonNilRet(b.Succs[0]) {
							missingNonPtr++
						}
						if rel.Op == token.EQL && nonNilRet(b.Succs[1]) {
							missingNonPtr++
						}
					}
				}
			}
		}
	})
	if !tooMany {
		bad = append(bad, "surplus positional arguments are not refused (no 'i >= len(types) => error' in the decode loop)")
	}
	if missingNonPtr < 2 {
		bad = append(bad, "missing or null values for non-pointer parameters are not refused in both places (explicit null, and too few arguments)")
	}
	for _, c := range an.Calls(pp, false) {
		if f := an.CallObj(c); f != nil && f.Name() == "Decode" {
			bad = append(bad, failPropagates(p, pp, c)...)
		}
	}
	// no success ahead of the checks: every successful return lies past the decoder's opening-bracket test and therefore
	// past the fill loop that refuses missing required arguments. An early "no params at all" success (absent or null
	// params) hands Method.Call zero arguments for a method that declares some: the call is refused there, but as an
	// internal error (-32603), not as invalid params — "too few" has to be answered with -32602 whatever its spelling
	var tokCall ssa.Instruction
	for _, c := range an.Calls(pp, false) {
		if f := an.CallObj(c); f != nil && f.Name() == "Token" && tokCall == nil {
			tokCall = c.(ssa.Instruction)
		}
	}
	an.AllInstrs(pp, func(in ssa.Instruction) {
		ret, ok := in.(*ssa.Return)
		if !ok || (pp.Recover != nil && ret.Block() == pp.Recover) {
			return
		}
		if cls, _ := returnClass(ret); cls == "nonnil" {
			return
		}
		if tokCall != nil && an.Dominates(tokCall, ret) {
			return
		}
		okNone := false // no early success at all: a zero-parameter method called with surplus params must be refused too
		if !okNone {
			bad = append(bad, "a success return at "+p.Pos(ret.Pos())+" is reachable without the params having been decoded and the required arguments counted: absent or null params for a method that declares parameters are then refused later as an internal error (-32603) instead of invalid params (-32602)")
		}
	})
	// every success return hands back len(types) values: the fill loop runs to len(types)
	r.Check(len(bad) == 0, "arity", an.FuncName(pp), pp.Pos(), "too many / undecodable / missing required arguments are refused", "%s", strings.Join(bad, "; "))

	bad = nil
	var reflCall ssa.CallInstruction
	for _, c := range an.Calls(mc, false) {
		if f := an.CallObj(c); f != nil && f.Name() == "Call" && an.RecvNamed(f) != nil && an.RecvNamed(f).Obj().Name() == "Value" {
			reflCall = c
		}
	}
	if reflCall == nil {
		bad = append(bad, "Method.Call does not invoke the method")
	} else {
		okCnt := false
		for _, cr := range ctrlRels(reflCall.Block()) {
			_, l1 := an.LenOf(cr.L)
			_, l2 := an.LenOf(cr.R)
			if l1 && l2 && cr.Op == token.EQL {
				okCnt = true
			}
		}
		if !okCnt {
			bad = append(bad, "the method is invoked without the argument count having been compared with the declared parameter count (reflect would panic)")
		}
	}
	bad = append(bad, errPosGuard(p, mc)...)
	r.Check(len(bad) == 0, "arity", an.FuncName(mc), mc.Pos(), "len(args) == len(ArgTypes) before the reflective call", "%s", strings.Join(bad, "; "))

	// ---- declared parameters are required: the positional parser (borrowed from go-ethereum) treats a pointer-typed
	// parameter as optional — a call that leaves it out is not answered with invalid-params, the method runs with nil.
	// No method exposed on a network-facing registration declares a pointer parameter.
	bad = nil
	nH := 0
	for _, h := range HandlerMethods(p, Registrations(p)) {
		if isTestDoublePkg(h) || p.IsTestFunc(h) {
			continue
		}
		nH++
		params := h.Signature.Params()
		for i := 0; i < params.Len(); i++ {
			t := params.At(i).Type()
			if isContext(t) {
				continue
			}
			if _, isPtr := t.Underlying().(*types.Pointer); isPtr {
				bad = append(bad, an.FuncName(h)+" declares the pointer parameter "+params.At(i).Name()+" "+types.TypeString(t, func(pk *types.Package) string { return pk.Name() })+": a call with that parameter left out is accepted and the method runs with nil instead of being refused with invalid-params")
			}
		}
	}
	r.Floor("exposed-methods", nH, 10)
	r.Check(len(bad) == 0, "arity", "exposed-methods", token.NoPos, "no exposed method has an optional (pointer) parameter", "%s", strings.Join(dedup(bad), "; "))
}

// ---------------------------------------------------------------------------

func runC17(p *an.Prog, r *an.Run, tier string) {
	checkNoReadaheadLoss(p, r)
	runC17rest(p, r, tier)
}

// checkNoReadaheadLoss: a codec that decodes one message at a time from a stream it keeps must keep what the decoder
// read ahead (shared with C10 and C14: a request or reply lost or reordered inside the codec is a lost update / a call
// that never gets its reply).
func checkNoReadaheadLoss(p *an.Prog, r *an.Run) {
	// ---- no-readahead-loss
	n := 0
	for _, fn := range p.Repo {
		if fn.Signature.Recv() == nil || isTestDoublePkg(fn) {
			continue
		}
		recv := fn.Params[0]
		for _, c := range an.Calls(fn, false) {
			if !an.IsFunc(an.CallObj(c), "encoding/json", "NewDecoder") {
				continue
			}
			region := regionFuncs(p, fn)
			src := c.Common().Args[0]
			if mi, ok := src.(*ssa.MakeInterface); ok {
				src = mi.X
			}
			if bc, ok := src.(*ssa.Call); ok && (an.IsFunc(an.CallObj(bc), "bufio", "NewReader") || an.IsFunc(an.CallObj(bc), "bufio", "NewReaderSize")) {
				src = bc.Call.Args[0] // look through a buffering layer (judged below)
			}
			d := p.DerivesIn(fn, 2, src)
			if !d.HasParam(recv) {
				continue // per-call reader
			}
			// a stream held by the receiver: some receiver field with a Read method feeds the decoder
			held := false
			for _, nd := range d.Nodes {
				if fv := an.FieldOf(nd); fv != nil {
					if root, _ := an.RootPath(nd); p.Resolve(root) == ssa.Value(recv) && hasReadMethod(fv.Type()) {
						held = true
					}
				}
			}
			if !held {
				continue
			}
			n++
			name := an.FuncName(fn)
			r.Analysed(name)
			dec := c.Value()
			kept := false
			perCallBuf := false
			var why []string
			// a buffering reader put between the connection and the decoder for this call only (to skip a BOM, say)
			// reads ahead on its own: what it holds when the call returns is gone, whatever the decoder's remainder says
			for _, rf := range region {
				for _, bc := range an.Calls(rf, false) {
					bf := an.CallObj(bc)
					if !(an.IsFunc(bf, "bufio", "NewReader") || an.IsFunc(bf, "bufio", "NewReaderSize")) || bc.Value() == nil {
						continue
					}
					keptBuf := false
					for _, ref := range *bc.Value().Referrers() {
						if st, ok := ref.(*ssa.Store); ok && st.Val == bc.Value() {
							if root, _ := an.RootPath(st.Addr); p.Resolve(root) == ssa.Value(recv) {
								keptBuf = true
							}
						}
					}
					if !keptBuf {
						perCallBuf = true
						why = append(why, "a bufio reader is made for this call at "+p.Pos(bc.Pos())+" and dropped with it: the bytes it read ahead of the decoder (up to its buffer size) never reach the next message")
					}
				}
			}
			// (a) decoder stored into the receiver
			for _, ref := range *dec.Referrers() {
				if st, ok := ref.(*ssa.Store); ok && st.Val == dec {
					if root, _ := an.RootPath(st.Addr); root == ssa.Value(recv) {
						kept = true
					}
				}
			}
			// (b) Buffered() remainder stored (possibly copied) into a receiver field that feeds the next decoder
			if !kept {
				var bufCall ssa.CallInstruction
				for _, rf := range region {
					for _, bc := range an.Calls(rf, false) {
						if f := an.CallObj(bc); f != nil && f.Name() == "Buffered" && p.Resolve(bc.Common().Args[0]) == dec {
							bufCall = bc
						}
					}
				}
				if bufCall == nil {
					why = append(why, "the decoder's Buffered() remainder is never taken")
				} else {
					visit := func(in ssa.Instruction) {
						st, ok := in.(*ssa.Store)
						if !ok {
							return
						}
						root, _ := an.RootPath(st.Addr)
						fv := an.FieldOf(st.Addr)
						if p.Resolve(root) != ssa.Value(recv) || fv == nil || !hasReadMethod(fv.Type()) {
							return
						}
						ds := p.DerivesIn(fn, 2, st.Val)
						if !ds.HasValue(bufCall.Value()) {
							return
						}
						// the reader given to NewDecoder must read that field first
						if !d.HasFieldNamed("", fv.Name()) {
							why = append(why, "the buffered remainder is saved but the next decoder does not read it")
							return
						}
						// what the decoder did not get to of the earlier remainder must be kept as well
						if !p.DerivesStop([]ssa.Value{bufCall.Value()}, 0, st.Val).HasFieldNamed("", fv.Name()) {
							why = append(why, "the saved remainder replaces the earlier one without keeping its unread tail (several small messages arriving behind a large one are lost)")
							return
						}
						// the remainder must be carried over byte for byte
						for _, nd := range ds.Nodes {
							if cc, ok := nd.(*ssa.Call); ok {
								if f := an.CallObj(cc); f != nil && f.Pkg() != nil && (f.Pkg().Path() == "bytes" || f.Pkg().Path() == "strings") {
									switch f.Name() {
									case "NewReader", "NewBuffer", "NewBufferString", "Bytes", "String", "ReadFrom", "Write", "WriteTo", "WriteString", "Len", "Join":
									default:
										why = append(why, "the carried-over bytes are passed through "+an.ObjString(f)+": a remainder cut inside a JSON string would be altered")
										return
									}
								}
							}
							if sl, ok := nd.(*ssa.Slice); ok && (sl.Low != nil || sl.High != nil) {
								if _, isBuf := sl.X.Type().Underlying().(*types.Slice); isBuf {
									why = append(why, "the carried-over bytes are sliced before being saved")
									return
								}
							}
						}
						kept = true
						// what was carried over is read before anything new from the connection: where the two are joined
						// (io.MultiReader), the saved remainder comes first — the other order delivers later bytes ahead of
						// older ones (messages out of order, or a buffered message stuck until the connection ends)
						if savedFld := an.FieldOf(st.Addr); savedFld != nil {
							for _, rf2 := range region {
								for _, mc := range an.Calls(rf2, false) {
									if !an.IsFunc(an.CallObj(mc), "io", "MultiReader") || len(mc.Common().Args) != 1 {
										continue
									}
									els, ok := variadicElems(mc.Common().Args[0])
									if !ok {
										continue
									}
									savedAt, otherAt := -1, -1
									for i, e := range els {
										de := p.DerivesIn(fn, 1, e)
										isSaved, isOther := false, false
										for _, nd := range de.Nodes {
											if fv := an.FieldOf(nd); fv != nil {
												if fv == savedFld {
													isSaved = true
												} else if hasReadMethod(fv.Type()) {
													isOther = true
												}
											}
										}
										if isSaved && savedAt < 0 {
											savedAt = i
										}
										if isOther && !isSaved && otherAt < 0 {
											otherAt = i
										}
									}
									if savedAt >= 0 && otherAt >= 0 && otherAt < savedAt {
										kept = false
										why = append(why, "io.MultiReader at "+p.Pos(mc.Pos())+" reads the connection before the carried-over remainder: bytes that arrived earlier are delivered after later ones")
									}
								}
							}
						}
						// the save itself, or the call (in fn) of the helper that performs it on all of its paths
						gate := ssa.Instruction(st)
						if st.Parent() != fn {
							gate = nil
							if an.PathAvoiding(st.Parent(), nil, func(x ssa.Instruction) bool { return x == ssa.Instruction(st) }, an.IsReturn, nil) == nil {
								for _, hc := range an.Calls(fn, false) {
									if hc.Common().StaticCallee() == st.Parent() {
										gate = hc.(ssa.Instruction)
									}
								}
							}
							if gate == nil {
								kept = false
								why = append(why, "the remainder is saved in "+an.FuncName(st.Parent())+", which "+an.FuncName(fn)+" does not call on every path (or which can return without saving)")
								return
							}
						}
						for _, dc := range an.Calls(fn, false) {
							if g := an.CallObj(dc); g != nil && g.Name() == "Decode" && dc.Common().Args[0] == dec {
								if in := an.PathAvoiding(fn, dc.(ssa.Instruction), func(x ssa.Instruction) bool { return x == gate }, an.IsReturn, nil); in != nil {
									kept = false
									why = append(why, "a path returns at "+p.Pos(in.Pos())+" without saving the decoder's buffered remainder")
								}
							}
						}
					}
					for _, rf := range region {
						an.AllInstrs(rf, visit)
					}
				}
			}
			// the carried-over bytes are replayed whenever there are any: a test of the remainder's length is "> 0" (or
			// "!= 0", ">= 1") — with "> 1" a single byte stays behind and turns up after the next read-ahead, inside
			// whatever token that read was cut in
			for _, rf := range region {
				an.AllInstrs(rf, func(in ssa.Instruction) {
					iff, ok := in.(*ssa.If)
					if !ok {
						return
					}
					rel, ok := an.NormCond(iff.Cond)
					if !ok {
						return
					}
					lc, isCall := rel.L.(*ssa.Call)
					k, isK := an.ConstInt(rel.R)
					if !isCall || !isK || an.CallObj(lc) == nil || an.CallObj(lc).Name() != "Len" || len(lc.Call.Args) == 0 {
						return
					}
					if root, _ := an.RootPath(stripLoad(lc.Call.Args[0])); p.Resolve(root) != ssa.Value(recv) {
						return
					}
					okRel := (rel.Op == token.GTR && k == 0) || (rel.Op == token.NEQ && k == 0) || (rel.Op == token.GEQ && k == 1) || (rel.Op == token.EQL && k == 0) || (rel.Op == token.LEQ && k == 0) || (rel.Op == token.LSS && k == 1)
					if !okRel {
						kept = false
						why = append(why, "the carried-over remainder is replayed only when its length "+rel.Op.String()+" "+strconv.FormatInt(k, 10)+" ("+p.Pos(iff.Pos())+"): shorter remainders are not put in front of the next read")
					}
				})
			}
			r.Check(kept && !perCallBuf, "no-readahead-loss", name, c.Pos(), "the decoder's read-ahead survives the call", "%s builds a json.Decoder on the connection's stream for one message and drops it: whatever it read past that message (a second message that arrived in the same read) is lost; %s", name, strings.Join(why, "; "))
		}
	}
	r.Floor("stream-decoders", n, 1)
}

func runC17rest(p *an.Prog, r *an.Run, tier string) {
	// ---- one-encode (stream codec)
	if wm := p.Method("jsonrpc2", "jsonCodec", "WriteMessage"); wm != nil {
		r.Analysed(an.FuncName(wm))
		var encs []ssa.CallInstruction
		for _, c := range an.Calls(wm, false) {
			if f := an.CallObj(c); f != nil && f.Name() == "Encode" {
				encs = append(encs, c)
			}
		}
		ok := len(encs) == 1 && encs[0].Common().Args[1] != nil
		if ok {
			a := encs[0].Common().Args[1]
			if mi, isMI := a.(*ssa.MakeInterface); isMI {
				a = mi.X
			}
			ok = a == ssa.Value(wm.Params[1]) && !inLoop(encs[0].(ssa.Instruction))
			if u := an.ErrEdges(encs[0]); u.Dropped {
				ok = false
			}
		}
		r.Check(ok, "one-encode", an.FuncName(wm), wm.Pos(), "one Encode (one Write) of the message, error returned", "jsonCodec.WriteMessage does not write the message with exactly one Encode of it (or drops the error): messages could be written partially or twice")
	} else {
		r.Undec("one-encode", "jsonCodec.WriteMessage", token.NoPos, "anchor not found")
	}

	// ---- http-limits: the optional size limit of the HTTP server and client never loses a message that is within it:
	// a body is refused for its length only when the announced length is *greater* than the configured maximum, and
	// where the body is read through a LimitReader the limit is that configured maximum (not the message's own
	// Content-Length, which is -1 for a chunked reply: nothing is read then)
	{
		var hb []string
		nLim := 0
		for _, fn := range p.Repo {
			if fn.Pkg == nil || fn.Pkg.Pkg.Path() != pkgRPC || p.IsTestFunc(fn) || fn.Parent() != nil {
				continue
			}
			isMaxField := func(v ssa.Value) bool {
				fv := an.FieldOf(stripLoad(v))
				return fv != nil && fv.Name() == "MaxContentLength"
			}
			isMsgLen := func(v ssa.Value) bool {
				fv := an.FieldOf(stripLoad(v))
				return fv != nil && fv.Name() == "ContentLength"
			}
			for _, c := range an.Calls(fn, false) {
				if an.IsFunc(an.CallObj(c), "io", "LimitReader") && len(c.Common().Args) == 2 {
					nLim++
					okLimit := isMaxField(c.Common().Args[1])
					if prm, isPrm := c.Common().Args[1].(*ssa.Parameter); isPrm && !okLimit {
						// a small helper limitReader(r, max): judged at its call sites
						idx := -1
						for i, q := range fn.Params {
							if q == prm {
								idx = i
							}
						}
						sites := p.StaticSites(fn)
						okLimit = idx >= 0 && len(sites) > 0
						for _, site := range sites {
							if p.IsTestFunc(site.Parent()) {
								continue
							}
							if idx >= len(site.Common().Args) || !isMaxField(site.Common().Args[idx]) {
								okLimit = false
							}
						}
					}
					if !okLimit {
						hb = append(hb, an.FuncName(fn)+" reads the body through a LimitReader at "+p.Pos(c.Pos())+" whose limit is not the configured MaxContentLength: a message within the limit can be cut short or not read at all")
					}
				}
			}
			an.AllInstrs(fn, func(in ssa.Instruction) {
				iff, ok := in.(*ssa.If)
				if !ok {
					return
				}
				rel, ok := an.NormCond(iff.Cond)
				if !ok {
					return
				}
				l, r0, op := rel.L, rel.R, rel.Op
				if isMaxField(l) && isMsgLen(r0) {
					l, r0 = r0, l
					op = rel.Swap().Op
				}
				if !(isMsgLen(l) && isMaxField(r0)) {
					return
				}
				nLim++
				if op != token.GTR {
					hb = append(hb, an.FuncName(fn)+" refuses a body at "+p.Pos(iff.Pos())+" when its length "+op.String()+" MaxContentLength: a message of exactly the permitted size is turned away (refuse only when greater)")
				}
			})
		}
		r.Floor("http-limit-sites", nLim, 3)
		r.Check(len(hb) == 0, "http-limits", "jsonrpc2", token.NoPos, "bodies within MaxContentLength are read in full", "%s", strings.Join(dedup(hb), "; "))
	}

	// ---- payload-verbatim: every codec reads and writes jsonrpc2.Message; whatever JSON a message carries beyond its
	// envelope (params, result, error data, the id) crosses this process as the bytes that arrived. A member typed
	// interface{} is decoded into maps and float64 instead and re-encoded from those: integers above 2^53 (wei amounts,
	// nanosecond nonces) come out rounded. No member of the message types holds an empty interface.
	if mt := p.Named("jsonrpc2", "Message"); mt != nil {
		var pb []string
		seenT := map[types.Type]bool{}
		nF := 0
		var walk func(t types.Type, where string)
		walk = func(t types.Type, where string) {
			if seenT[t] {
				return
			}
			seenT[t] = true
			switch x := t.(type) {
			case *types.Named:
				if x.Obj().Pkg() != nil && strings.HasPrefix(x.Obj().Pkg().Path(), an.Module) {
					walk(x.Underlying(), x.Obj().Name())
				}
			case *types.Pointer:
				walk(x.Elem(), where)
			case *types.Slice:
				walk(x.Elem(), where)
			case *types.Map:
				walk(x.Elem(), where)
			case *types.Interface:
				if x.NumMethods() == 0 {
					pb = append(pb, where+" holds an interface{}: JSON carried there is decoded through float64 and maps and is not forwarded as it arrived")
				}
			case *types.Struct:
				for i := 0; i < x.NumFields(); i++ {
					nF++
					walk(x.Field(i).Type(), where+"."+x.Field(i).Name())
				}
			}
		}
		walk(mt, "Message")
		r.Floor("message-fields", nF, 8)
		r.Check(len(pb) == 0, "payload-verbatim", "jsonrpc2.Message", mt.Obj().Pos(), "the message types carry foreign JSON as raw bytes", "%s", strings.Join(dedup(pb), "; "))
		// ... and no codec edits the message it carries: in every ReadMessage/WriteMessage of a Codec implementation,
		// and in the helpers they call, nothing is stored through the Request / Response pointers of a message (a copy
		// `out := *msg` shares them: abbreviating out.Request.Params "for the log" rewrites the message being delivered)
		var eb []string
		nCodecFns := 0
		seenFn := map[*ssa.Function]bool{}
		var scan func(fn *ssa.Function, depth int)
		scan = func(fn *ssa.Function, depth int) {
			if fn == nil || seenFn[fn] || len(fn.Blocks) == 0 || !p.InRepo(fn) {
				return
			}
			seenFn[fn] = true
			nCodecFns++
			an.AllInstrs(fn, func(in ssa.Instruction) {
				st, ok := in.(*ssa.Store)
				if !ok {
					return
				}
				// walk the address chain for a load of an embedded Request/Response pointer
				a := st.Addr
				for i := 0; i < 6 && a != nil; i++ {
					switch t := a.(type) {
					case *ssa.FieldAddr:
						a = t.X
					case *ssa.IndexAddr:
						a = t.X
					case *ssa.UnOp:
						if _, f, ok := embeddedPtrLoad(t); ok && (f == "Request" || f == "Response") {
							eb = append(eb, an.FuncName(fn)+" writes into the "+f+" part of a message at "+p.Pos(st.Pos())+": the part is shared with the message being read or written, which no longer arrives as it was sent")
						}
						a = nil
					default:
						a = nil
					}
				}
			})
			if depth > 0 {
				for _, c := range an.Calls(fn, false) {
					scan(c.Common().StaticCallee(), depth-1)
				}
			}
		}
		for _, fn := range p.Repo {
			if fn.Parent() == nil && (fn.Name() == "ReadMessage" || fn.Name() == "WriteMessage") && fn.Signature.Recv() != nil && !p.IsTestFunc(fn) {
				scan(fn, 2)
			}
		}
		r.Check(len(eb) == 0 && nCodecFns >= 6, "payload-verbatim", "codecs", token.NoPos, "no codec writes into the request/response part of a message", "%s (functions scanned: %d)", strings.Join(dedup(eb), "; "), nCodecFns)
	} else {
		r.Undec("payload-verbatim", "jsonrpc2.Message", token.NoPos, "type not found")
	}

	// ---- single-writer (gorilla), shared with C15: a second concurrent writer makes gorilla panic
	checkGorillaSingleWriter(p, r)

	// ---- framing (gobwas)
	if rm, wm := p.Method("jsonrpc2/ws/gobwas", "wsCodec", "ReadMessage"), p.Method("jsonrpc2/ws/gobwas", "wsCodec", "WriteMessage"); rm != nil && wm != nil {
		r.Analysed(an.FuncName(rm), an.FuncName(wm))
		var bad []string
		var nf, ir ssa.CallInstruction
		for _, c := range an.Calls(rm, false) {
			if f := an.CallObj(c); f != nil && f.Name() == "NextFrame" {
				nf = c
			}
			if f := an.CallObj(c); f != nil && f.Name() == "ReadMessage" {
				ir = c
			}
		}
		if nf == nil || ir == nil || an.ReachAvoiding(rm, an.EdgeSet(an.ErrEdges(nf).Succ))[ir.Block()] {
			bad = append(bad, "the framed codec reads a message without first advancing to the next frame successfully")
		}
		// the JSON decoder stops at the end of the value: the rest of the message (its newline, the last fragments
		// of a message sent in several frames) stays unread, and NextFrame would parse it as a header. The unread
		// remainder is discarded (successfully) before every advance.
		if nf != nil {
			var dc ssa.CallInstruction
			for _, c := range an.Calls(rm, false) {
				if f := an.CallObj(c); f != nil && f.Name() == "Discard" && an.RecvNamed(f) != nil && (an.RecvNamed(f).Obj().Name() == "Reader" || c.Common().IsInvoke()) {
					dc = c
				}
			}
			if dc == nil {
				bad = append(bad, "the framed codec advances to the next frame without discarding what the decoder left unread of the previous message: after a message sent in several frames (larger than the writer's buffer) the next read fails and the following message is lost")
			} else {
				if an.ReachAvoiding(rm, an.EdgeSet(an.ErrEdges(dc).Succ))[nf.Block()] {
					bad = append(bad, "NextFrame is reachable without a successful Discard of the previous message's remainder")
				}
				if stripLoad(methodRecv(dc)) == nil || !sameFieldLoad(methodRecv(dc), methodRecv(nf)) {
					bad = append(bad, "Discard and NextFrame act on different readers")
				}
			}
		}
		var iw, fl ssa.CallInstruction
		for _, c := range an.Calls(wm, false) {
			if f := an.CallObj(c); f != nil && f.Name() == "WriteMessage" {
				iw = c
			}
			if f := an.CallObj(c); f != nil && f.Name() == "Flush" {
				fl = c
			}
		}
		if iw == nil || fl == nil {
			bad = append(bad, "the framed codec does not write and flush")
		} else {
			for _, e := range an.ErrEdges(iw).Succ {
				if in := pathFromBlock(wm, e.To, func(x ssa.Instruction) bool { return x == fl.(ssa.Instruction) }, an.IsReturn); in != nil {
					bad = append(bad, "a successfully written message may stay in the frame buffer (return at "+p.Pos(in.Pos())+" without Flush)")
				}
			}
			bad = append(bad, failPropagates(p, wm, fl)...)
		}
		r.Check(len(bad) == 0, "framing", "gobwas.wsCodec", rm.Pos(), "NextFrame before each read, Flush after each write", "%s", strings.Join(bad, "; "))
	}

	// ---- full-read: a message body is never taken from a single Read call (the transport may deliver it in pieces)
	{
		var bad []string
		for _, fn := range p.Repo {
			top := fn
			for top.Parent() != nil {
				top = top.Parent()
			}
			if top.Pkg == nil || !strings.HasPrefix(top.Pkg.Pkg.Path(), pkgRPC) {
				continue
			}
			for _, c := range an.Calls(fn, false) {
				f := an.CallObj(c)
				if f == nil || f.Name() != "Read" || !c.Common().IsInvoke() {
					continue
				}
				if fn.Name() == "Read" {
					continue // a reader wrapper forwarding Read
				}
				bad = append(bad, an.FuncName(fn)+" takes message bytes from a single Read call at "+p.Pos(c.Pos())+": a reply that does not arrive in one piece is truncated (use a decoder, io.ReadFull or ReadAll)")
			}
		}
		r.Check(len(bad) == 0, "full-read", "package jsonrpc2", token.NoPos, "no message is read with a bare Read call", "%s", strings.Join(bad, "; "))
	}

	// ---- http-once: over HTTP a message is delivered once only if the transport never re-sends it on its own.
	// net/http replays a request after a connection failure when it is "idempotent": a GET/HEAD/OPTIONS/TRACE, or any
	// request carrying an Idempotency-Key / X-Idempotency-Key header. The client stub must stay a plain POST.
	if hc := p.Method("jsonrpc2", "HTTPService", "Call"); hc != nil {
		r.Analysed(an.FuncName(hc))
		var bad []string
		nReq := 0
		for _, fn := range regionFuncs(p, hc) {
			for _, c := range an.Calls(fn, false) {
				f := an.CallObj(c)
				if f == nil {
					continue
				}
				a := c.Common().Args
				switch {
				case an.IsFunc(f, "net/http", "NewRequest") || an.IsFunc(f, "net/http", "NewRequestWithContext"):
					nReq++
					mi := 0
					if f.Name() == "NewRequestWithContext" {
						mi = 1
					}
					if m, ok := an.ConstString(a[mi]); !ok || m != "POST" {
						bad = append(bad, "the request built at "+p.Pos(c.Pos())+" is not a constant POST: the transport re-sends idempotent methods after a connection failure")
					}
				case an.IsMethod(f, "net/http", "Header", "Set") || an.IsMethod(f, "net/http", "Header", "Add"):
					k, ok := an.ConstString(a[1])
					if !ok {
						continue // a configured header name: not decidable here, and not the stub's own doing
					}
					if ck := textproto.CanonicalMIMEHeaderKey(k); ck == "Idempotency-Key" || ck == "X-Idempotency-Key" {
						bad = append(bad, "the request carries the header "+k+" ("+p.Pos(c.Pos())+"): net/http treats it as replayable and silently re-sends it on a fresh connection when a reused connection dies, so the message is executed twice")
					}
				}
			}
			an.AllInstrs(fn, func(in ssa.Instruction) {
				if mu, ok := in.(*ssa.MapUpdate); ok {
					if n, ok := mu.Map.Type().(*types.Named); ok && n.Obj().Name() == "Header" && n.Obj().Pkg() != nil && n.Obj().Pkg().Path() == "net/http" {
						bad = append(bad, "a request header is written directly into the header map at "+p.Pos(mu.Pos()))
					}
				}
			})
		}
		// ... and the stub itself sends it once: one Do per Call, outside any loop, through a helper (if any) that is
		// itself called once — a retry "after a connection loss" re-executes a message the server may have handled
		nDo := 0
		for _, fn := range regionFuncs(p, hc) {
			for _, c := range an.Calls(fn, false) {
				f := an.CallObj(c)
				if f == nil || !(an.IsMethod(f, "net/http", "Client", "Do") || an.IsMethod(f, "net/http", "Client", "Post") || an.IsFunc(f, "net/http", "Post")) {
					continue
				}
				nDo++
				if inLoop(c.(ssa.Instruction)) {
					bad = append(bad, "the request is sent inside a loop ("+p.Pos(c.Pos())+")")
				}
				top := fn
				for top.Parent() != nil {
					top = top.Parent()
				}
				if top != hc {
					sites := p.StaticSites(top)
					if len(sites) != 1 || inLoop(sites[0].(ssa.Instruction)) {
						bad = append(bad, an.FuncName(top)+", which sends the request, is called "+itoa(len(sites))+" times (or in a loop) per Call: a message the server already handled can be sent again")
					}
				}
			}
		}
		if nDo != 1 {
			bad = append(bad, "expected exactly one send of the HTTP request per Call, found "+itoa(nDo))
		}
		r.Floor("http-requests-built", nReq, 1)
		r.Check(len(bad) == 0, "http-once", an.FuncName(hc), hc.Pos(), "the HTTP stub sends a plain POST the transport never replays", "%s", strings.Join(dedup(bad), "; "))
	} else {
		r.Undec("http-once", "jsonrpc2.HTTPService", token.NoPos, "HTTPService.Call not found")
	}
	// ... and on the serving side each POST is read through a codec of its own: the stream codec keeps what it read
	// ahead for its next read; a codec that served another request (kept in a field, a global or a sync.Pool) puts
	// that request's left-over bytes in front of this one's body
	if sh := p.Method("jsonrpc2", "HTTPServer", "ServeHTTP"); sh != nil {
		r.Analysed(an.FuncName(sh))
		var cb []string
		nRead := 0
		for _, fn := range an.WithAnon(sh) {
			for _, c := range an.Calls(fn, false) {
				f := an.CallObj(c)
				if f == nil || f.Name() != "ReadMessage" || len(c.Common().Args) == 0 || c.Common().IsInvoke() {
					continue
				}
				nRead++
				recv := c.Common().Args[0]
				root, _ := an.RootPath(recv)
				if u, ok := root.(*ssa.UnOp); ok && u.Op == token.MUL {
					if al, ok := u.X.(*ssa.Alloc); ok {
						// a local holding the codec pointer: judge what was stored into it
						for _, ref := range *al.Referrers() {
							if st, ok := ref.(*ssa.Store); ok && st.Addr == ssa.Value(al) {
								root, _ = an.RootPath(st.Val)
							}
						}
					}
				}
				if al, ok := root.(*ssa.Alloc); ok && al.Parent() == sh {
					continue
				}
				cb = append(cb, "the request is read through a codec that is not made for it ("+p.Pos(c.Pos())+", from "+root.String()+"): bytes a previous request left unread are parsed as the beginning of this one")
			}
		}
		r.Check(len(cb) == 0 && nRead > 0, "http-once", an.FuncName(sh), sh.Pos(), "each POST is read through a codec made for it", "%s", strings.Join(dedup(cb), "; "))
	}

	// ---- shipped-codec
	mainPkg := p.Pkg("")
	if mainPkg == nil {
		r.Undec("shipped-codec", "main", token.NoPos, "main package not found")
		return
	}
	hasGorilla, hasGobwas := false, false
	for path := range mainPkg.Imports {
		if path == pkgRPC+"/ws/gorilla" {
			hasGorilla = true
		}
		if path == pkgRPC+"/ws/gobwas" {
			hasGobwas = true
		}
	}
	r.Check(hasGorilla && !hasGobwas, "shipped-codec", "main", token.NoPos, "the binaries use the gorilla codec (locked writes) only", "package main imports gorilla=%v gobwas=%v: the gobwas and plain stream codecs do not serialise concurrent writers", hasGorilla, hasGobwas)
}

func hasReadMethod(t types.Type) bool {
	ms := types.NewMethodSet(t)
	for i := 0; i < ms.Len(); i++ {
		if ms.At(i).Obj().Name() == "Read" {
			return true
		}
	}
	if _, ok := t.Underlying().(*types.Interface); !ok {
		ms = types.NewMethodSet(types.NewPointer(t))
		for i := 0; i < ms.Len(); i++ {
			if ms.At(i).Obj().Name() == "Read" {
				return true
			}
		}
	}
	return false
}

func methodRecv(c ssa.CallInstruction) ssa.Value {
	if c.Common().IsInvoke() {
		return c.Common().Value
	}
	if len(c.Common().Args) > 0 {
		return c.Common().Args[0]
	}
	return nil
}

// sameFieldLoad: a and b are loads of the same field of the same base object.
func sameFieldLoad(a, b ssa.Value) bool {
	if a == nil || b == nil {
		return false
	}
	if a == b {
		return true
	}
	fa, oka := stripLoad(a).(*ssa.FieldAddr)
	fb, okb := stripLoad(b).(*ssa.FieldAddr)
	return oka && okb && fa.Field == fb.Field && fa.X == fb.X
}

// errPosGuard: complaints about how Method.Call tests for the method's error result (shared by C16, C08, C03).
func errPosGuard(p *an.Prog, mc *ssa.Function) []string {
	var bad []string
	// a method's error result is reported whenever it has one: the test on the recorded position of the error result is
	// "ErrPos >= 0" (position 0 is the error of methods that return nothing else — vipnode_whitelist, vipnode_disconnect:
	// with "> 0" their failures come back as successes)
	nErrPos := 0
	an.AllInstrs(mc, func(in ssa.Instruction) {
		iff, ok := in.(*ssa.If)
		if !ok {
			return
		}
		rel, ok := an.NormCond(iff.Cond)
		if !ok {
			return
		}
		l, r0, op := rel.L, rel.R, rel.Op
		if fv := an.FieldOf(stripLoad(r0)); fv != nil && fv.Name() == "ErrPos" {
			l, r0 = r0, l
			op = rel.Swap().Op
		}
		fv := an.FieldOf(stripLoad(l))
		k, isK := an.ConstInt(r0)
		if fv == nil || fv.Name() != "ErrPos" || !isK {
			return
		}
		nErrPos++
		okRel := (op == token.GEQ && k == 0) || (op == token.GTR && k == -1) || (op == token.NEQ && k == -1) || (op == token.LSS && k == 0) || (op == token.LEQ && k == -1) || (op == token.EQL && k == -1)
		if !okRel {
			bad = append(bad, "Method.Call tests the position of the error result with 'ErrPos "+op.String()+" "+strconv.FormatInt(k, 10)+"' ("+p.Pos(iff.Pos())+"): the error of a method whose only result is the error (position 0) is not reported — a failed vipnode_whitelist looks like an acknowledgement")
		}
	})
	if nErrPos == 0 {
		bad = append(bad, "Method.Call does not test whether the method has an error result")
	}
	return bad
}

// checkErrorResultReported: the reverse calls the pool relies on (whitelist, disconnect) are methods whose only result
// is an error: Method.Call must report it.
func checkErrorResultReported(p *an.Prog, r *an.Run) {
	mc := p.Method("jsonrpc2", "Method", "Call")
	if mc == nil {
		r.Undec("error-result", "jsonrpc2.Method.Call", token.NoPos, "anchor not found")
		return
	}
	bad := errPosGuard(p, mc)
	r.Check(len(bad) == 0, "error-result", an.FuncName(mc), mc.Pos(), "a method's error result is reported whenever it has one", "%s", strings.Join(bad, "; "))
}

// checkReadErrorTerminal: gorilla's contract for readers — once a read method of the connection has failed, every later
// read fails too, and after 1000 of them the library panics ("repeated read on failed websocket connection"); the
// application must leave its read loop on the first error. In every function of the shipped codec package, no read
// method of *websocket.Conn is reachable from the failure edge of one (a "skip the undecodable message and read on"
// loop turns a single malformed frame into a process-killing panic). Shared by C15 and C17.
func checkReadErrorTerminal(p *an.Prog, r *an.Run) {
	isConnRead := func(c ssa.CallInstruction) bool {
		if c.Common().IsInvoke() {
			// the connection held behind a small interface of the codec package
			switch c.Common().Method.Name() {
			case "ReadJSON", "NextReader":
				return true
			}
			return false
		}
		f := an.CallObj(c)
		if f == nil || an.RecvNamed(f) == nil || an.RecvNamed(f).Obj().Pkg() == nil {
			return false
		}
		if an.RecvNamed(f).Obj().Pkg().Path() != "github.com/gorilla/websocket" || an.RecvNamed(f).Obj().Name() != "Conn" {
			return false
		}
		switch f.Name() {
		case "ReadJSON", "ReadMessage", "NextReader":
			return true
		}
		return false
	}
	var bad []string
	n := 0
	for _, fn := range p.Repo {
		top := fn
		for top.Parent() != nil {
			top = top.Parent()
		}
		if top.Pkg == nil || !strings.HasSuffix(top.Pkg.Pkg.Path(), "jsonrpc2/ws/gorilla") || p.IsTestFunc(fn) {
			continue
		}
		for _, c := range an.Calls(fn, false) {
			if !isConnRead(c) {
				continue
			}
			n++
			u := an.ErrEdges(c)
			if u.Returned && len(u.Fail) == 0 {
				continue
			}
			if u.Dropped || len(u.Fail) == 0 {
				bad = append(bad, an.FuncName(fn)+" does not branch on the error of "+callName(c)+" at "+p.Pos(c.Pos()))
				continue
			}
			for _, e := range u.Fail {
				hit := pathFromBlock(fn, e.To, nil, func(x ssa.Instruction) bool {
					cc, ok := x.(ssa.CallInstruction)
					return ok && isConnRead(cc)
				})
				if hit != nil {
					bad = append(bad, an.FuncName(fn)+" can read from the connection again at "+p.Pos(hit.Pos())+" after "+callName(c)+" failed at "+p.Pos(c.Pos())+": gorilla's read errors are permanent and the library panics on the 1000th repeated read, so one malformed frame kills the process")
				}
			}
		}
	}
	r.Check(len(bad) == 0 && n > 0, "read-error-terminal", "gorilla.wsCodec", token.NoPos, "no connection read follows a failed one", "%s (connection reads judged: %d)", strings.Join(dedup(bad), "; "), n)
}

// checkFreshParams: the positional-argument parser decodes each parameter into a value it has just made
// (reflect.New(type)): encoding/json leaves the members a JSON object omits alone, so a value kept from an earlier call
// carries that call's optional fields into the next caller's request (which then does what nobody asked for, or no
// longer matches its own signature). Shared by C16 (declared parameters) and C06 (a refused request leaves no trace).
func checkFreshParams(p *an.Prog, r *an.Run) {
	ppa := p.Func("jsonrpc2", "parsePositionalArguments")
	if ppa == nil {
		r.Undec("fresh-params", "jsonrpc2.parsePositionalArguments", token.NoPos, "anchor not found")
		return
	}
	var bad []string
	n := 0
	for _, fn := range an.WithAnon(ppa) {
		for _, c := range an.Calls(fn, false) {
			f := an.CallObj(c)
			isDec := an.IsMethod(f, "encoding/json", "Decoder", "Decode") || an.IsFunc(f, "encoding/json", "Unmarshal")
			if !isDec {
				continue
			}
			args := c.Common().Args
			target := args[len(args)-1]
			n++
			// by hand: reflect calls are opaque to the derivation analysis
			fresh := true
			seen := map[ssa.Value]bool{}
			var walk func(v ssa.Value)
			walk = func(v ssa.Value) {
				if v == nil || seen[v] {
					return
				}
				seen[v] = true
				switch t := v.(type) {
				case *ssa.MakeInterface:
					walk(t.X)
				case *ssa.Phi:
					for _, e := range t.Edges {
						walk(e)
					}
				case *ssa.UnOp:
					if al, ok := t.X.(*ssa.Alloc); ok && t.Op == token.MUL {
						for _, ref := range *al.Referrers() {
							if st, ok := ref.(*ssa.Store); ok && st.Addr == ssa.Value(al) {
								walk(st.Val)
							}
						}
						return
					}
					fresh = false
				case *ssa.Call:
					g := an.CallObj(t)
					switch {
					case an.IsFunc(g, "reflect", "New"):
					case g != nil && g.Pkg() != nil && g.Pkg().Path() == "reflect" && an.RecvNamed(g) != nil && an.RecvNamed(g).Obj().Name() == "Value" && len(t.Call.Args) > 0 && (g.Name() == "Interface" || g.Name() == "Addr" || g.Name() == "Elem"):
						walk(t.Call.Args[0])
					default:
						fresh = false
					}
				case *ssa.Alloc:
					// &local: a variable of this call
					if t.Parent() != fn {
						fresh = false
					}
				default:
					fresh = false
				}
			}
			walk(target)
			if !fresh {
				bad = append(bad, "the decode target at "+p.Pos(c.Pos())+" is not a value made by reflect.New in this call: a parameter value kept from an earlier request keeps the members the new request omits")
			}
		}
	}
	// ... and the slice the values travel in is made by this call too: "was this parameter supplied" is read off the
	// slice (its length, or which slots are set); a recycled slice answers with what the previous request left in it
	var fromMake func(fn *ssa.Function, v ssa.Value, depth int, seen map[ssa.Value]bool) string
	fromMake = func(fn *ssa.Function, v ssa.Value, depth int, seen map[ssa.Value]bool) string {
		if v == nil || seen[v] {
			return ""
		}
		seen[v] = true
		switch t := v.(type) {
		case *ssa.Const, *ssa.MakeSlice:
			return ""
		case *ssa.Alloc:
			if _, isArr := t.Type().(*types.Pointer).Elem().Underlying().(*types.Array); isArr {
				return "" // a slice of a fresh array (append's spill, a composite literal)
			}
		case *ssa.Phi:
			for _, e := range t.Edges {
				if why := fromMake(fn, e, depth, seen); why != "" {
					return why
				}
			}
			return ""
		case *ssa.Slice:
			return fromMake(fn, t.X, depth, seen)
		case *ssa.UnOp:
			if al, ok := t.X.(*ssa.Alloc); ok && t.Op == token.MUL {
				for _, ref := range *al.Referrers() {
					if st, ok := ref.(*ssa.Store); ok && st.Addr == ssa.Value(al) {
						if why := fromMake(fn, st.Val, depth, seen); why != "" {
							return why
						}
					}
				}
				return ""
			}
		case *ssa.Call:
			if b, ok := t.Call.Value.(*ssa.Builtin); ok && an.Ident(b.Name()) == "append" {
				return fromMake(fn, t.Call.Args[0], depth, seen)
			}
			if g := t.Call.StaticCallee(); g != nil && p.InRepo(g) && len(g.Blocks) > 0 && depth > 0 {
				why := ""
				an.AllInstrs(g, func(in ssa.Instruction) {
					if ret, ok := in.(*ssa.Return); ok && len(ret.Results) > 0 && why == "" {
						why = fromMake(g, an.RetResults(ret)[0], depth-1, map[ssa.Value]bool{})
					}
				})
				return why
			}
		}
		return "the argument slice comes from " + v.String() + " (" + p.Pos(v.Pos()) + "), not from a make in this call"
	}
	an.AllInstrs(ppa, func(in ssa.Instruction) {
		ret, ok := in.(*ssa.Return)
		if !ok || len(ret.Results) == 0 || (ppa.Recover != nil && ret.Block() == ppa.Recover) {
			return
		}
		if why := fromMake(ppa, an.RetResults(ret)[0], 2, map[ssa.Value]bool{}); why != "" {
			bad = append(bad, why)
		}
	})
	r.Check(len(bad) == 0 && n > 0, "fresh-params", an.FuncName(ppa), ppa.Pos(), "every parameter is decoded into a freshly made value", "%s (decode sites: %d)", strings.Join(dedup(bad), "; "), n)
}

// checkGorillaSingleWriter: every connection write of the shipped codec holds muWrite, every read muRead, including
// the use of a message writer/reader obtained from the connection and deferred I/O; read errors are terminal.
func checkGorillaSingleWriter(p *an.Prog, r *an.Run) {
	gc := p.Named("jsonrpc2/ws/gorilla", "wsCodec")
	if gc == nil {
		r.Undec("single-writer", "gorilla.wsCodec", token.NoPos, "type not found")
	} else {
		var bad []string
		nIO := 0
		for i := 0; i < gc.NumMethods(); i++ {
			m := p.SSA.FuncValue(gc.Method(i))
			if m == nil || len(m.Blocks) == 0 {
				continue
			}
			r.Analysed(an.FuncName(m))
			li := an.Locksets(m, nil)
			for _, c := range an.Calls(m, false) {
				f := an.CallObj(c)
				if f == nil {
					continue
				}
				onConn := an.RecvNamed(f) != nil && an.RecvNamed(f).Obj().Name() == "Conn" && an.RecvNamed(f).Obj().Pkg() != nil && an.RecvNamed(f).Obj().Pkg().Path() == "github.com/gorilla/websocket"
				if !onConn && c.Common().IsInvoke() && len(m.Params) > 0 {
					// the connection held behind a small interface: a method invoked on a value loaded from a field of
					// the codec itself
					v := c.Common().Value
					if u, ok := v.(*ssa.UnOp); ok && u.Op == token.MUL {
						if root, path := an.RootPath(u.X); root == ssa.Value(m.Params[0]) && path != "" {
							onConn = true
						}
					}
				}
				if !onConn {
					continue
				}
				var need an.LockKey
				switch {
				case strings.HasPrefix(f.Name(), "Write") || f.Name() == "NextWriter":
					need = "p0.muWrite"
				case strings.HasPrefix(f.Name(), "Read") || f.Name() == "NextReader":
					need = "p0.muRead"
				default:
					continue
				}
				nIO++
				if w, ok := li.Before[c.(ssa.Instruction)][need]; !ok || !w {
					bad = append(bad, "conn."+f.Name()+" in "+an.FuncName(m)+" at "+p.Pos(c.Pos())+" without "+string(need)+": gorilla allows one concurrent writer and one concurrent reader; interleaved writers corrupt frames")
				}
				// the message writer/reader handed out by NextWriter/NextReader IS the connection's write/read slot until
				// it is closed/drained: everything done with it (and with an encoder or decoder wrapped around it) needs
				// the same lock — gorilla panics on a second writer ("concurrent write to websocket connection")
				if (f.Name() == "NextWriter" || f.Name() == "NextReader") && c.Value() != nil {
					holders := map[ssa.Value]bool{c.Value(): true}
					work := []ssa.Value{c.Value()}
					for len(work) > 0 {
						v := work[len(work)-1]
						work = work[:len(work)-1]
						if v.Referrers() == nil {
							continue
						}
						for _, ref := range *v.Referrers() {
							switch t := ref.(type) {
							case *ssa.Extract, *ssa.Phi, *ssa.MakeInterface, *ssa.ChangeInterface, *ssa.TypeAssert:
								tv := t.(ssa.Value)
								if an.IsErrorType(tv.Type()) {
									continue
								}
								if !holders[tv] {
									holders[tv] = true
									work = append(work, tv)
								}
							case ssa.CallInstruction:
								if _, isDefer := t.(*ssa.Defer); isDefer {
									continue // judged by the deferred-I/O rule below
								}
								if hw, ok := li.Before[t.(ssa.Instruction)][need]; !ok || !hw {
									bad = append(bad, callName(t)+" in "+an.FuncName(m)+" at "+p.Pos(t.Pos())+" uses the message "+strings.ToLower(strings.TrimPrefix(f.Name(), "Next"))+" obtained at "+p.Pos(c.Pos())+" without "+string(need)+": the lock covers the claim of the connection's slot but not its use")
								}
								if tv := t.Value(); tv != nil && !holders[tv] && !an.IsErrorType(tv.Type()) {
									holders[tv] = true
									work = append(work, tv)
								}
							}
						}
					}
				}
			}
		}
		// deferred connection I/O registered before the deferred Unlock runs after it (LIFO): outside the lock
		for i := 0; i < gc.NumMethods(); i++ {
			m := p.SSA.FuncValue(gc.Method(i))
			if m == nil || len(m.Blocks) == 0 {
				continue
			}
			var unlocks, ios []*ssa.Defer
			an.AllInstrs(m, func(in ssa.Instruction) {
				df, ok := in.(*ssa.Defer)
				if !ok {
					return
				}
				f := an.CallObj(df)
				if f != nil && f.Pkg() != nil && f.Pkg().Path() == "sync" && f.Name() == "Unlock" {
					unlocks = append(unlocks, df)
					return
				}
				// io on the connection or on a writer/reader obtained from it
				isIO := false
				if f != nil && an.RecvNamed(f) != nil && an.RecvNamed(f).Obj().Pkg() != nil && an.RecvNamed(f).Obj().Pkg().Path() == "github.com/gorilla/websocket" {
					isIO = true
				}
				var recvv ssa.Value
				if df.Call.IsInvoke() {
					recvv = df.Call.Value
				} else if len(df.Call.Args) > 0 {
					recvv = df.Call.Args[0]
				}
				if recvv != nil && p.Derives(0, recvv).CallTo(func(g *types.Func) bool {
					return an.RecvNamed(g) != nil && an.RecvNamed(g).Obj().Pkg() != nil && an.RecvNamed(g).Obj().Pkg().Path() == "github.com/gorilla/websocket"
				}) != nil {
					isIO = true
				}
				if isIO && f != nil && f.Name() != "Close" || isIO && recvv != nil && df.Call.IsInvoke() {
					ios = append(ios, df)
				}
			})
			for _, io := range ios {
				for _, u := range unlocks {
					if an.Dominates(io, u) {
						bad = append(bad, "in "+an.FuncName(m)+" the deferred connection I/O at "+p.Pos(io.Pos())+" is registered before the deferred Unlock at "+p.Pos(u.Pos())+": deferred calls run last-in-first-out, so it executes after the mutex has been released and a second writer can interleave its frame")
					}
				}
			}
		}
		// ... and so does every other function of the codec package that writes to a connection (a ping handler, a
		// keep-alive goroutine): WriteControl is the one write gorilla allows next to a data write; WriteMessage /
		// WriteJSON / NextWriter outside the write lock cut a message in flight short or make gorilla panic
		isMethod := map[*ssa.Function]bool{}
		for i := 0; i < gc.NumMethods(); i++ {
			if m := p.SSA.FuncValue(gc.Method(i)); m != nil {
				isMethod[m] = true
			}
		}
		for _, fn := range p.Repo {
			top := fn
			for top.Parent() != nil {
				top = top.Parent()
			}
			if top.Pkg == nil || !strings.HasSuffix(top.Pkg.Pkg.Path(), "jsonrpc2/ws/gorilla") || isMethod[fn] || p.IsTestFunc(fn) {
				continue
			}
			li := an.Locksets(fn, nil)
			for _, c := range an.Calls(fn, false) {
				f := an.CallObj(c)
				if f == nil || an.RecvNamed(f) == nil || an.RecvNamed(f).Obj().Name() != "Conn" || an.RecvNamed(f).Obj().Pkg() == nil || an.RecvNamed(f).Obj().Pkg().Path() != "github.com/gorilla/websocket" {
					continue
				}
				if !(f.Name() == "WriteMessage" || f.Name() == "WriteJSON" || f.Name() == "NextWriter" || f.Name() == "WritePreparedMessage") {
					continue
				}
				held := false
				for k, w := range li.Before[c.(ssa.Instruction)] {
					if w && strings.HasSuffix(string(k), ".muWrite") {
						held = true
					}
				}
				if !held {
					bad = append(bad, "conn."+f.Name()+" in "+an.FuncName(fn)+" at "+p.Pos(c.Pos())+" without the codec's write lock: it runs next to the data writes of WriteMessage (use WriteControl for control frames, or take muWrite)")
				}
			}
		}
		r.Floor("gorilla-io-calls", nIO, 2)
		checkReadErrorTerminal(p, r)
		r.Check(len(bad) == 0, "single-writer", "gorilla.wsCodec", token.NoPos, "every connection write holds muWrite, every read holds muRead", "%s", strings.Join(bad, "; "))
	}
}

// checkShippedCodec: the binaries serve websocket peers over the gorilla codec (the one with locked writes) only. Shared by
// C17, C14 (each call gets its own reply: two handlers writing at once merge or lose replies on an unlocked codec) and C15.
func checkShippedCodec(p *an.Prog, r *an.Run) {
	mainPkg := p.Pkg("")
	if mainPkg == nil {
		r.Undec("shipped-codec", "main", token.NoPos, "main package not found")
		return
	}
	hasGorilla, hasGobwas := false, false
	for path := range mainPkg.Imports {
		if path == pkgRPC+"/ws/gorilla" {
			hasGorilla = true
		}
		if path == pkgRPC+"/ws/gobwas" {
			hasGobwas = true
		}
	}
	r.Check(hasGorilla && !hasGobwas, "shipped-codec", "main", token.NoPos, "the binaries use the gorilla codec (locked writes) only", "package main imports gorilla=%v gobwas=%v: the gobwas and plain stream codecs do not serialise concurrent writers", hasGorilla, hasGobwas)
}
