package rules

import (
	"go/token"
	"go/types"
	"sort"
	"strings"

	"golang.org/x/tools/go/ssa"

	"vipcheck/an"
)

func init() {
	Registry["C10"] = Spec{
		Run: runC10,
		Explanation: "Static lockset / ownership analysis over the concurrency scope F (functions reachable, through the VTA call graph, from registered RPC methods, HTTP handlers, connection loops and goroutines spawned in loops): " +
			"(guarded-fields) for every repo struct with a mutex, every field that F writes is accessed in F only with that struct's mutex held (must-hold lockset dataflow, helper functions inherit the locks held at all their call sites); " +
			"(unsynchronised-write) no write in F to an object that is not fresh (local allocation, synchronous closure variable, parameter fresh at every call site) without a mutex or sync/atomic; " +
			"(atomic-counter) the request id counter is only touched through sync/atomic; (one-txn) every badger store method runs all its accesses in exactly one Update/View region and writes only in Update; " +
			"(no-shared-bigint) no in-place big.Int mutation of a struct shallow-copied from shared state or returned by a balance getter; (no-block-under-lock) no channel operation, codec I/O, RPC call or handler dispatch while a mutex is held. Round 2: append through a slice loaded from a shallow copy of shared state is an unsynchronised write; no transaction inside a transaction closure. Round 5: (atomic-rmw) no atomic load/compute/store; shared pairing; (bigint-private); retry closures; library value types' pointer methods on field addresses are writes.",
		NotDecided: []string{"not decided: serialisability of multi-call operations (Update = 4 store calls), lost updates from badger conflicts at run time, races inside third-party code"},
	}
}

// named exceptions: symbol + reason
// read-side state of stream codecs: written by ReadMessage without a lock, justified by the
// single-reader obligation (C10.single-reader) instead of a mutex.
var c10ReaderState = map[string]bool{"jsonCodec.buffered": true}

var c10FieldExceptions = map[string]string{
	"Remote.Client": "lazy default in Remote.Call; every construction that is called concurrently sets Client explicitly (server.go, agent.go, host.go), client.go's Remote is used by one agent goroutine",
}

func fieldKey(t *types.Named, f *types.Var) string { return an.TName(t) + "." + an.Ident(f.Name()) }

func structOfFieldAccess(v ssa.Value) *types.Named {
	var base types.Type
	switch x := v.(type) {
	case *ssa.FieldAddr:
		base = x.X.Type()
	case *ssa.Field:
		base = x.X.Type()
	default:
		return nil
	}
	if p, ok := base.Underlying().(*types.Pointer); ok {
		base = p.Elem()
	}
	n, _ := base.(*types.Named)
	return n
}

// isFreshRoot: the object is private to the executing goroutine.
func isFreshRoot(p *an.Prog, sc *Scope, root ssa.Value, depth int) bool {
	switch x := root.(type) {
	case *ssa.Alloc:
		return true
	case *ssa.MakeMap, *ssa.MakeSlice, *ssa.MakeChan, *ssa.Const:
		return true
	case *ssa.Call:
		return true // results of calls: treated as owned by the caller (documented limitation)
	case *ssa.Extract:
		return true
	case *ssa.Phi:
		for _, e := range x.Edges {
			r0, _, _ := addrChain(e)
			if r0 != x && !isFreshRoot(p, sc, r0, depth) {
				return false
			}
		}
		return true
	case *ssa.UnOp:
		// the content of a local variable (or a synchronously captured one): fresh when everything ever stored in it is
		if x.Op != token.MUL || depth <= 0 {
			return false
		}
		var holder *ssa.Alloc
		switch h := x.X.(type) {
		case *ssa.Alloc:
			holder = h
		case *ssa.FreeVar:
			fn := h.Parent()
			if sc.GoTargets[fn] || fn.Parent() == nil {
				return false
			}
			for i, fv := range fn.FreeVars {
				if fv != h {
					continue
				}
				an.AllInstrs(fn.Parent(), func(in ssa.Instruction) {
					if mc, ok := in.(*ssa.MakeClosure); ok && mc.Fn == fn && i < len(mc.Bindings) {
						if al, ok := mc.Bindings[i].(*ssa.Alloc); ok {
							holder = al
						}
					}
				})
			}
		}
		if holder == nil {
			return false
		}
		n := 0
		okAll := true
		var scan func(f *ssa.Function, addr ssa.Value)
		scan = func(f *ssa.Function, addr ssa.Value) {
			an.AllInstrs(f, func(in ssa.Instruction) {
				switch y := in.(type) {
				case *ssa.Store:
					if y.Addr == addr {
						n++
						r0, _, _ := addrChain(y.Val)
						if r0 == ssa.Value(x) {
							return
						}
						if !isFreshRoot(p, sc, r0, depth-1) {
							okAll = false
						}
					}
				case *ssa.MakeClosure:
					if cf, ok := y.Fn.(*ssa.Function); ok {
						for i, b := range y.Bindings {
							if b == addr && i < len(cf.FreeVars) {
								if sc.GoTargets[cf] {
									okAll = false
								}
								scan(cf, cf.FreeVars[i])
							}
						}
					}
				}
			})
		}
		scan(holder.Parent(), holder)
		return okAll
	case *ssa.FreeVar:
		fn := x.Parent()
		if sc.GoTargets[fn] {
			return false // the closure runs concurrently with its creator
		}
		// bound to a local of the enclosing function
		par := fn.Parent()
		if par == nil {
			return false
		}
		ok := false
		for i, fv := range fn.FreeVars {
			if fv != x {
				continue
			}
			an.AllInstrs(par, func(in ssa.Instruction) {
				if mc, isMC := in.(*ssa.MakeClosure); isMC && mc.Fn == fn && i < len(mc.Bindings) {
					r0, _, _ := addrChain(mc.Bindings[i])
					if isFreshRoot(p, sc, r0, depth) {
						ok = true
					}
				}
			})
		}
		return ok
	case *ssa.Parameter:
		if depth <= 0 {
			return false
		}
		fn := x.Parent()
		// by-value structs/arrays are copies
		switch x.Type().Underlying().(type) {
		case *types.Struct, *types.Array, *types.Basic:
			return true
		}
		idx := -1
		for i, prm := range fn.Params {
			if prm == x {
				idx = i
			}
		}
		sites := sc.Sites[fn]
		if len(sites) == 0 || idx < 0 {
			return false
		}
		if _, isRoot := sc.RootWhy[fn]; isRoot {
			return false
		}
		for _, s := range sites {
			if idx >= len(s.Common().Args) {
				return false
			}
			r0, _, _ := addrChain(s.Common().Args[idx])
			if !isFreshRoot(p, sc, r0, depth-1) {
				return false
			}
		}
		return true
	}
	return false
}

func anyLockHeld(h an.Held) bool { return len(h) > 0 }

func runC10(p *an.Prog, r *an.Run, tier string) {
	sc := ConcurrencyScope(p)
	funcs := sc.Funcs(true)
	r.Floor("scope-functions", len(funcs), 100)
	r.Floor("scope-roots", len(sc.Roots), 15)
	shared := SharedTypes(p)
	r.Floor("mutex-bearing-types", len(shared), 8)
	for _, fn := range funcs {
		r.Analysed(an.FuncName(fn))
	}
	entry := p.EntryLocks()
	infos := map[*ssa.Function]*an.LockInfo{}
	li := func(fn *ssa.Function) *an.LockInfo {
		if infos[fn] == nil {
			infos[fn] = an.Locksets(fn, entry[fn])
		}
		return infos[fn]
	}
	sharedSet := map[*types.Named][]*types.Var{}
	for _, t := range shared {
		sharedSet[t] = mutexFields(t.Underlying().(*types.Struct))
	}

	// ---- G(T): fields of shared types written inside F
	type facc struct {
		fn    *ssa.Function
		in    ssa.Instruction
		fa    ssa.Value
		write bool
	}
	written := map[string]bool{}
	accesses := map[string][]facc{}
	nWrites := 0
	inF := map[*ssa.Function]bool{}
	for _, fn := range funcs {
		inF[fn] = true
	}
	// accesses are collected over all non-test code: a field that handlers write is shared with
	// every other goroutine that touches it (retry loops, signal handlers), not only with handlers
	var allFns []*ssa.Function
	for _, fn := range p.Repo {
		if !isTestDoublePkg(fn) && !strings.HasSuffix(p.File(fn.Pos()), "testsuite.go") {
			allFns = append(allFns, fn)
		}
	}
	for _, fn := range allFns {
		ws := writesOf(fn)
		isWriteBase := map[ssa.Value]ssa.Instruction{}
		for _, w := range ws {
			nWrites++
			for _, f := range w.Fields {
				isWriteBase[f] = w.In
			}
		}
		an.AllInstrs(fn, func(in ssa.Instruction) {
			v, ok := in.(ssa.Value)
			if !ok {
				return
			}
			t := structOfFieldAccess(v)
			if t == nil {
				return
			}
			if _, isShared := sharedSet[t]; !isShared {
				return
			}
			fv := an.FieldOf(v)
			if fv == nil {
				return
			}
			// the mutex fields themselves are accessed to lock
			for _, m := range sharedSet[t] {
				if m == fv {
					return
				}
			}
			// base object fresh? (constructors)
			var base ssa.Value
			switch x := v.(type) {
			case *ssa.FieldAddr:
				base = x.X
			case *ssa.Field:
				base = x.X
			}
			r0, _, _ := addrChain(base)
			if isFreshRoot(p, sc, r0, 1) {
				return
			}
			k := fieldKey(t, fv)
			_, w := isWriteBase[v]
			// address taken and passed on (e.g. &c.id to atomic) is handled by atomic-counter
			if w && inF[fn] {
				written[k] = true
			}
			accesses[k] = append(accesses[k], facc{fn, in, v, w})
		})
	}
	r.CallSites += nWrites
	var gkeys []string
	for k := range written {
		gkeys = append(gkeys, k)
	}
	sort.Strings(gkeys)
	r.Note("guarded field set G (fields of mutex-bearing types written in scope): %s", strings.Join(gkeys, ", "))
	r.Floor("guarded-fields-found", len(gkeys), 8)
	if tier == "thorough" {
		for k := range c10FieldExceptions {
			r.Check(written[k], "guarded-fields", "exception-audit:"+k, token.NoPos, "named exception still matches a field written in scope", "the named exception %s matches no field written in the concurrency scope: the table entry is stale", k)
		}
	}
	for _, k := range gkeys {
		if why, ok := c10FieldExceptions[k]; ok {
			r.Ok("guarded-fields", k, token.NoPos, "named exception: "+why)
			continue
		}
		// reader state of a codec: touched by ReadMessage (and helpers only it calls) alone, and ReadMessage runs on
		// the connection's single reader goroutine (C10.single-reader) — no lock needed, whatever mutexes the type has
		// for its writers
		readerOnly := len(accesses[k]) > 0
		for _, a := range accesses[k] {
			top := a.fn
			for top.Parent() != nil {
				top = top.Parent()
			}
			if !(top.Name() == "ReadMessage" || onlyCalledFromReadMessage(p, top)) {
				readerOnly = false
			}
		}
		if readerOnly {
			r.Ok("guarded-fields", k, token.NoPos, "reader-side state: accessed by ReadMessage only (single reader per connection)")
			continue
		}
		var bad []string
		covers := map[string]int{} // mutex name -> number of accesses made while holding it
		for _, a := range accesses[k] {
			t := structOfFieldAccess(a.fa)
			h := li(a.fn).Before[a.in]
			var base ssa.Value
			switch x := a.fa.(type) {
			case *ssa.FieldAddr:
				base = x.X
			case *ssa.Field:
				base = x.X
			}
			br, bp := an.RootPath(base)
			baseKey := lockBase(br) + bp
			ok := false
			for _, m := range sharedSet[t] {
				want := an.LockKey(baseKey + "." + an.Ident(m.Name()))
				if wr, held := h[want]; held && (wr || !a.write) {
					ok = true
					covers[m.Name()]++
				}
			}
			if !ok {
				kind := "read"
				if a.write {
					kind = "write"
				}
				bad = append(bad, kind+" in "+an.FuncName(a.fn)+" at "+p.Pos(a.in.Pos())+" holding "+an.HeldString(h))
			}
		}
		// one mutex guards a field: when the owner has several, some single one of them is held at every access (two
		// accesses under two different mutexes of the same object do not exclude each other)
		if len(bad) == 0 && len(accesses[k]) > 0 {
			common := false
			var names []string
			for nm, n := range covers {
				names = append(names, nm)
				if n == len(accesses[k]) {
					common = true
				}
			}
			sort.Strings(names)
			if !common {
				bad = append(bad, "no single mutex is held at all "+itoa3(len(accesses[k]))+" accesses (they are spread over "+strings.Join(names, ", ")+"): accesses under different mutexes run concurrently")
			}
		}
		r.Check(len(bad) == 0, "guarded-fields", k, token.NoPos, "every access in scope holds the owner's mutex ("+itoa3(len(accesses[k]))+" accesses)", "field %s is written by concurrent handlers but accessed without its mutex: %s", k, strings.Join(dedup(bad), "; "))
	}

	// ---- unsynchronised-write
	var bad []string
	for _, fn := range funcs {
		for _, w := range writesOf(fn) {
			if _, isAlloc := w.Root.(*ssa.Alloc); isAlloc && w.Path == "" {
				continue
			}
			if isFreshRoot(p, sc, w.Root, 1) && !(w.Kind == "append" && shallowCopyOfShared(p, sc, fn, w.Root, 2)) {
				continue
			}
			if len(w.Fields) == 0 && w.Kind == "store" {
				// store through a plain pointer (named result, out parameter): the pointee's owner decides
				_, isPrm := w.Root.(*ssa.Parameter)
				_, isGlobal := w.Root.(*ssa.Global)
				if !isPrm && !isGlobal {
					continue
				}
			}
			h := li(fn).Before[w.In]
			if anyLockHeld(h) {
				continue
			}
			// named exceptions
			exc := false
			for _, f := range w.Fields {
				if t := structOfFieldAccess(f); t != nil {
					if fv := an.FieldOf(f); fv != nil {
						if _, ok := c10FieldExceptions[fieldKey(t, fv)]; ok {
							exc = true
						}
					}
				}
			}
			if fn.Name() == "ReadMessage" || onlyCalledFromReadMessage(p, fn) {
				for _, f := range w.Fields {
					if t := structOfFieldAccess(f); t != nil {
						if fv := an.FieldOf(f); fv != nil && c10ReaderState[fieldKey(t, fv)] {
							exc = true
						}
					}
				}
			}
			// sort.Interface methods of pendingQueue: only sorted inside pendingOldest on a slice built there
			if fn.Signature.Recv() != nil {
				if n := namedOf(fn.Signature.Recv().Type()); n != nil && an.TName(n) == "pendingQueue" {
					exc = true
				}
			}
			if exc {
				continue
			}
			bad = append(bad, w.Kind+" to "+describeRoot(w.Root)+w.Path+" in "+an.FuncName(fn)+" at "+p.Pos(w.In.Pos()))
		}
	}
	r.Check(len(bad) == 0, "unsynchronised-write", "scope", token.NoPos, "no write to non-fresh state without a mutex in the concurrency scope", "data race candidates (shared object written by code that runs in several goroutines, no mutex held, not atomic): %s", strings.Join(dedup(bad), "; "))

	// ---- single-reader: justification of the read-side codec state exception
	bad = nil
	nRead := 0
	for _, fn := range p.Repo {
		if isTestDoublePkg(fn) {
			continue
		}
		for _, c := range an.Calls(fn, false) {
			f := an.CallObj(c)
			if f == nil || f.Name() != "ReadMessage" {
				continue
			}
			n := an.RecvNamed(f)
			if n == nil || n.Obj().Pkg() == nil || !strings.HasPrefix(n.Obj().Pkg().Path(), pkgRPC) {
				continue
			}
			nRead++
			switch {
			case fn.Name() == "ReadMessage" && fn.Signature.Recv() != nil:
				// a wrapping codec forwarding its own ReadMessage
			case fn.Name() == "Serve" && fn.Signature.Recv() != nil && namedOf(fn.Signature.Recv().Type()) != nil && namedOf(fn.Signature.Recv().Type()).Obj().Name() == "Remote":
				// the connection's single read loop
				if _, isGo := c.(*ssa.Go); isGo {
					bad = append(bad, "ReadMessage is started as a goroutine in Serve")
				}
			case fn.Name() == "ServeHTTP":
				// one codec per HTTP request, allocated here
				recv := c.Common().Value
				if !c.Common().IsInvoke() && len(c.Common().Args) > 0 {
					recv = c.Common().Args[0]
				}
				r0, _, _ := addrChain(recv)
				if !isFreshRoot(p, sc, r0, 1) {
					bad = append(bad, "ServeHTTP reads from a codec it did not allocate itself at "+p.Pos(c.Pos()))
				}
			default:
				bad = append(bad, "ReadMessage is called from "+an.FuncName(fn)+" at "+p.Pos(c.Pos())+": a second reader on a connection races on the codec's read-side state and steals messages from the serve loop")
			}
		}
	}
	r.Floor("readmessage-callers", nRead, 4)
	r.Check(len(bad) == 0, "single-reader", "Codec.ReadMessage", token.NoPos, "ReadMessage is only called by the per-connection Serve loop, by wrapping codecs and on per-request codecs", "%s", strings.Join(bad, "; "))

	// ---- atomic-counter
	bad = nil
	nID := 0
	for _, fn := range p.Repo {
		an.AllInstrs(fn, func(in ssa.Instruction) {
			fa, ok := in.(*ssa.FieldAddr)
			if !ok {
				return
			}
			t := structOfFieldAccess(fa)
			fv := an.FieldOf(fa)
			if t == nil || fv == nil || t.Obj().Name() != "Client" || t.Obj().Pkg().Path() != pkgRPC || an.Ident(fv.Name()) != "id" {
				return
			}
			nID++
			if !isAtomicOnly(fa) {
				bad = append(bad, "jsonrpc2.Client.id is accessed non-atomically in "+an.FuncName(fn)+" at "+p.Pos(fa.Pos()))
			}
		})
	}
	r.Floor("id-counter-accesses", nID, 1)
	r.Check(len(bad) == 0, "atomic-counter", "jsonrpc2.Client.id", token.NoPos, "request ids come from sync/atomic only", "%s", strings.Join(bad, "; "))

	// ---- atomic-rmw: an update computed from an atomically loaded value and written back with an atomic store is two
	// operations, not one: two callers can load the same value (every access is atomic and the race detector is silent,
	// yet an increment is lost / an id is handed out twice)
	rmw, nAtomic := splitAtomicRMW(p)
	r.Floor("atomic-sites", nAtomic, 1)
	r.Check(len(rmw) == 0, "atomic-rmw", "repo", token.NoPos, "no load/compute/store sequence on an atomic variable outside a lock", "%s", strings.Join(rmw, "; "))

	// ---- pairing: a keep-alive's credits and its debit are applied together or not at all on every path (shared with
	// C01/C02): an early return between them is exactly what a transaction conflict under concurrency produces
	if tr := p.Method("pool/balance", "payPerInterval", "OnUpdate"); tr != nil {
		checkPairing(p, r, tr, false)
	}

	checkOneTxn(p, r, "one-txn")

	// ---- no-shared-bigint
	bad = nil
	sm, nMut := sharedBigIntMutations(p)
	for _, m := range sm {
		bad = append(bad, m.msg)
	}
	r.Floor("bigint-mutations", nMut, 10)
	r.Check(len(bad) == 0, "no-shared-bigint", "repo", token.NoPos, "no in-place big.Int mutation of shallow copies of shared balances", "%s", strings.Join(bad, "; "))
	checkBigIntOwnership(p, r)
	// racing withdrawals are serialised by Withdraw's own lock region (C07.exclusive and the rest of the settlement rules)
	runC07(p, r, tier)
	checkNoReadaheadLoss(p, r)

	checkAliasEscapesLock(p, r, "alias-escapes-lock", func(fn *ssa.Function) bool { return true })

	// ---- rmw-atomic: a ledger write computed from a ledger read of the same function must share a lock region with that read
	bad = nil
	nRMW := 0
	for _, fn := range allFns {
		if inDriverPkg(fn) {
			continue
		}
		for _, w := range an.Calls(fn, false) {
			if !isLedgerWriteCall(w) {
				continue
			}
			d := p.Derives(0, methodArgs(w)...)
			for _, rd := range d.CallsTo(func(f *types.Func) bool { return isStoreMethodNamed(f, "GetNodeBalance", "GetAccountBalance") }) {
				if rd.Parent() != fn {
					continue
				}
				nRMW++
				hr, hw := li(fn).Before[rd], li(fn).Before[w.(ssa.Instruction)]
				common := false
				for k, wr := range hr {
					if w2, ok := hw[k]; ok && wr && w2 {
						common = true
						// held continuously: no instruction between read and write without it
						for _, b := range fn.Blocks {
							for _, in := range b.Instrs {
								if an.Dominates(rd, in) && an.PathAvoiding(fn, in, nil, func(x ssa.Instruction) bool { return x == w.(ssa.Instruction) }, nil) != nil {
									if _, ok := li(fn).Before[in][k]; !ok {
										common = false
									}
								}
							}
						}
					}
				}
				if !common {
					bad = append(bad, an.ObjString(an.CallObj(w))+" in "+an.FuncName(fn)+" at "+p.Pos(w.Pos())+" writes an amount computed from the balance read at "+p.Pos(rd.Pos())+" without one mutex held across both: two concurrent requests can both read the old balance (lost update / double spend)")
				}
			}
		}
	}
	r.Floor("read-modify-write-sites", nRMW, 1)
	r.Check(len(bad) == 0, "rmw-atomic", "repo", token.NoPos, "balance read-modify-write sequences outside the store run under one mutex", "%s", strings.Join(dedup(bad), "; "))

	// ---- no-block-under-lock
	checkNoBlockUnderLock(p, r, "no-block-under-lock", func(fn *ssa.Function) bool { return true }, li)
}

func itoa3(i int) string {
	if i < 10 {
		return itoa(i)
	}
	s := ""
	for i > 0 {
		s = string(rune('0'+i%10)) + s
		i /= 10
	}
	return s
}

func isNested(fn, anc *ssa.Function) bool {
	for f := fn; f != nil; f = f.Parent() {
		if f == anc {
			return true
		}
	}
	return false
}

func txnKind(regs []txnRegion) string {
	if len(regs) == 1 && regs[0].Update {
		return "Update"
	}
	return "View"
}

func lockBase(root ssa.Value) string {
	switch x := root.(type) {
	case *ssa.Parameter:
		for i, p := range x.Parent().Params {
			if p == x {
				return "p" + string(rune('0'+i))
			}
		}
	case *ssa.FreeVar:
		return "fv:" + x.Name()
	case *ssa.Global:
		return "g:" + x.Name()
	case *ssa.Alloc:
		return "alloc:" + x.Name()
	case *ssa.UnOp:
		r, p := an.RootPath(x.X)
		return "*(" + lockBase(r) + p + ")"
	}
	return "v:" + root.Name()
}

func describeRoot(v ssa.Value) string {
	switch x := v.(type) {
	case *ssa.Parameter:
		return "parameter " + x.Name()
	case *ssa.FreeVar:
		return "captured variable " + x.Name()
	case *ssa.Global:
		return "package variable " + x.Name()
	case *ssa.UnOp:
		return "loaded pointer " + x.Name()
	}
	return v.Name()
}

// blockingKind classifies an instruction that may block or run foreign code.
func blockingKind(p *an.Prog, in ssa.Instruction) string {
	switch x := in.(type) {
	case *ssa.Send:
		if mc, ok := x.Chan.(*ssa.MakeChan); ok {
			if k, ok := an.ConstInt(mc.Size); ok && k > 0 {
				return "" // buffered channel created here
			}
		}
		return "channel send"
	case *ssa.UnOp:
		if x.Op == token.ARROW {
			return "channel receive"
		}
	case *ssa.Select:
		if x.Blocking {
			return "blocking select"
		}
	case ssa.CallInstruction:
		if _, isGo := in.(*ssa.Go); isGo {
			return ""
		}
		if _, isDefer := in.(*ssa.Defer); isDefer {
			return ""
		}
		f := an.CallObj(x)
		switch {
		case f == nil:
			return ""
		case isServiceCall(f):
			return "RPC call " + an.ObjString(f)
		case an.RecvNamed(f) != nil && an.RecvNamed(f).Obj().Pkg() != nil && an.RecvNamed(f).Obj().Pkg().Path() == pkgRPC &&
			(f.Name() == "ReadMessage" || f.Name() == "WriteMessage" || f.Name() == "Handle" || f.Name() == "Serve" || an.Ident(f.Name()) == "receive" || an.Ident(f.Name()) == "handleRequest"):
			return "codec/handler call " + an.ObjString(f)
		case an.IsMethod(f, pkgRPC, "Method", "Call") || an.IsMethod(f, pkgRPC, "Method", "CallJSON"):
			return "handler dispatch"
		case an.IsFunc(f, "time", "Sleep"):
			return "time.Sleep"
		case an.IsMethod(f, "sync", "WaitGroup", "Wait"):
			return "WaitGroup.Wait"
		}
	}
	return ""
}

// checkNoBlockUnderLock reports blocking operations executed with a mutex held,
// directly or through repo callees (one summary level: callee contains a blocking op).
func checkNoBlockUnderLock(p *an.Prog, r *an.Run, rule string, want func(*ssa.Function) bool, li func(*ssa.Function) *an.LockInfo) {
	// which functions (transitively) block
	blocks := map[*ssa.Function]string{}
	for _, fn := range p.Repo {
		an.AllInstrs(fn, func(in ssa.Instruction) {
			if blocks[fn] == "" {
				if k := blockingKind(p, in); k != "" {
					blocks[fn] = k + " at " + p.Pos(in.Pos())
				}
			}
		})
	}
	for changed := true; changed; {
		changed = false
		for _, fn := range p.Repo {
			if blocks[fn] != "" {
				continue
			}
			for _, c := range an.Calls(fn, false) {
				if _, isGo := c.(*ssa.Go); isGo {
					continue
				}
				if cal := c.Common().StaticCallee(); cal != nil && blocks[cal] != "" {
					blocks[fn] = "calls " + an.FuncName(cal) + " (" + blocks[cal] + ")"
					changed = true
					break
				}
			}
		}
	}
	var bad []string
	n := 0
	for _, fn := range p.Repo {
		if !want(fn) || isTestDoublePkg(fn) {
			continue
		}
		info := li(fn)
		if info.Acquires == 0 && len(info.Before) > 0 {
			// may still hold inherited locks
		}
		an.AllInstrs(fn, func(in ssa.Instruction) {
			h := info.Before[in]
			if len(h) == 0 {
				return
			}
			n++
			// locks whose purpose is to serialise exactly this I/O are named exceptions
			onlyIO := true
			for k := range h {
				if !(strings.HasSuffix(string(k), ".muWrite") || strings.HasSuffix(string(k), ".muRead")) {
					onlyIO = false
				}
			}
			if onlyIO {
				return
			}
			if k := blockingKind(p, in); k != "" {
				bad = append(bad, k+" in "+an.FuncName(fn)+" at "+p.Pos(in.Pos())+" while holding "+an.HeldString(h))
				return
			}
			if c, ok := in.(ssa.CallInstruction); ok {
				if _, isGo := in.(*ssa.Go); isGo {
					return
				}
				if _, isDefer := in.(*ssa.Defer); isDefer {
					return
				}
				if cal := c.Common().StaticCallee(); cal != nil && blocks[cal] != "" && p.InRepo(cal) {
					bad = append(bad, "call to "+an.FuncName(cal)+" ("+blocks[cal]+") in "+an.FuncName(fn)+" at "+p.Pos(in.Pos())+" while holding "+an.HeldString(h))
				}
			}
		})
	}
	r.Floor(rule+"-locked-instructions", n, 50)
	r.Check(len(bad) == 0, rule, "repo", token.NoPos, "no channel operation, codec I/O, RPC call or handler dispatch while a mutex is held", "a blocked lock holder wedges every other request needing that lock: %s", strings.Join(dedup(bad), "; "))
}

// checkOneTxn: every badgerStore method performs all accesses in exactly one Update/View region.
func checkOneTxn(p *an.Prog, r *an.Run, rule string) {
	checkTxnWrappers(p, r)
	// a handed-out record is a snapshot: no driver method returns a pointer, slice or map into the driver's own tables
	// (shared with C08/C12)
	checkResultsPrivate(p, r)
	checkCheckThenAct(p, r)
	bs := p.Named("pool/store/badger", "badgerStore")
	if bs == nil {
		r.Undec(rule, "badgerStore", token.NoPos, "type not found")
	} else {
		n := 0
		for i := 0; i < bs.NumMethods(); i++ {
			m := p.SSA.FuncValue(bs.Method(i))
			if m == nil || len(m.Blocks) == 0 {
				continue
			}
			r.Analysed(an.FuncName(m))
			ops := badgerOps(p, m)
			regs := txnRegions(p, m)
			key := "badger." + m.Name()
			if len(ops) == 0 && len(regs) == 0 {
				continue // Close
			}
			n++
			var bad []string
			// transactions run by helpers the method calls outside its own closure count as well (a fast path that
			// writes through a helper's own Update is a second, unrelated transaction)
			isTxnStart := func(cc ssa.CallInstruction) bool {
				g := an.CallObj(cc)
				return g != nil && (g.Name() == "Update" || g.Name() == "View" || g.Name() == "NewTransaction") && an.RecvNamed(g) != nil && an.RecvNamed(g).Obj().Name() == "DB"
			}
			for _, c := range an.Calls(m, false) {
				for _, cal := range p.CalleesAt(c) {
					if cal == nil || !p.InRepo(cal) || cal == m || cal.Parent() != nil {
						continue
					}
					if _, _, isW := txnWrapperInfo(p, cal); isW {
						continue // counted as the method's own region
					}
					if w, ok := p.ReachesCall(cal, isTxnStart); ok {
						bad = append(bad, "also runs the transaction of "+an.FuncName(cal)+" ("+p.Pos(w.Pos())+", called at "+p.Pos(c.Pos())+"): the method's accesses are spread over several transactions")
					}
				}
			}
			if len(regs) != 1 {
				bad = append(bad, "runs "+itoa(len(regs))+" transactions (want exactly 1): reads and writes in different transactions are not atomic")
			} else {
				for _, o := range ops {
					if o.Fn != regs[0].Closure && !isNested(o.Fn, regs[0].Closure) {
						bad = append(bad, o.Kind.String()+" via "+o.Via+" at "+p.Pos(o.In.Pos())+" is outside the transaction closure")
					}
					if (o.Kind == opWrite || o.Kind == opDelete) && !regs[0].Update {
						bad = append(bad, "write inside a read-only View transaction at "+p.Pos(o.In.Pos()))
					}
				}
				// the transaction's error must not be dropped
				if u := an.ErrEdges(regs[0].Call); u.Dropped {
					bad = append(bad, "the transaction's error is dropped")
				}
				// no transaction inside the transaction: a store method (or db.Update/View) called from the closure commits
				// on its own, before and independently of the enclosing transaction — a crash or conflict of the outer one
				// leaves the inner change applied (a trial balance both migrated and kept)
				if cl := regs[0].Closure; cl != nil {
					for _, f := range an.WithAnon(cl) {
						for _, c := range an.Calls(f, false) {
							for _, cal := range p.CalleesAt(c) {
								if cal == nil || !p.InRepo(cal) || cal == m {
									continue
								}
								if w, ok := p.ReachesCall(cal, func(cc ssa.CallInstruction) bool {
									g := an.CallObj(cc)
									return g != nil && (g.Name() == "Update" || g.Name() == "View") && an.RecvNamed(g) != nil && an.RecvNamed(g).Obj().Name() == "DB"
								}); ok {
									bad = append(bad, "the transaction closure calls "+an.FuncName(cal)+" at "+p.Pos(c.Pos())+", which runs its own transaction ("+p.Pos(w.Pos())+"): that part commits separately from the rest")
								}
							}
						}
					}
				}
			}
			r.Check(len(bad) == 0, rule, key, m.Pos(), "one "+txnKind(regs)+" region holds every access", "%s", strings.Join(bad, "; "))
		}
		r.Floor("badger-methods", n, 15)
	}

}

type sharedMut struct {
	fn  *ssa.Function
	msg string
}

// sharedBigIntMutations lists in-place big.Int mutations whose receiver lives in a struct that was shallow-copied out
// of shared state or returned by a balance getter (the copy shares its digit array with the original).
func sharedBigIntMutations(p *an.Prog) (out []sharedMut, nMut int) {
	for _, fn := range p.Repo {
		if isTestDoublePkg(fn) || strings.HasSuffix(p.File(fn.Pos()), "testsuite.go") {
			continue
		}
		for _, c := range an.Calls(fn, false) {
			if !an.IsBigIntMutator(c) || len(c.Common().Args) == 0 {
				continue
			}
			nMut++
			root, path := an.RootPath(c.Common().Args[0])
			al, ok := root.(*ssa.Alloc)
			if !ok || path == "" {
				// receiver is a parameter/field: Stats counters (fresh receiver) are covered by unsynchronised-write
				if prm, isPrm := root.(*ssa.Parameter); isPrm && path != "" {
					_ = prm
				}
				continue
			}
			// what was the struct initialised from?
			for _, ref := range *al.Referrers() {
				st, ok := ref.(*ssa.Store)
				if !ok || st.Addr != ssa.Value(al) {
					continue
				}
				switch src := st.Val.(type) {
				case *ssa.Lookup:
					if f := memMapField(src.X); f != "" {
						out = append(out, sharedMut{fn, an.ObjString(an.CallObj(c)) + " in " + an.FuncName(fn) + " at " + p.Pos(c.Pos()) + " mutates in place a " + f + " entry that was shallow-copied out of the shared map: every Balance handed out earlier changes with it"})
					}
				case *ssa.Extract:
					if g, ok := src.Tuple.(*ssa.Call); ok && isStoreMethodNamed(an.CallObj(g), "GetNodeBalance", "GetAccountBalance") {
						out = append(out, sharedMut{fn, an.ObjString(an.CallObj(c)) + " in " + an.FuncName(fn) + " at " + p.Pos(c.Pos()) + " mutates in place a Balance returned by " + an.ObjString(an.CallObj(g)) + " (a snapshot that shares its digits with the store)"})
					}
					if _, ok := src.Tuple.(*ssa.Next); ok {
						out = append(out, sharedMut{fn, an.ObjString(an.CallObj(c)) + " in " + an.FuncName(fn) + " at " + p.Pos(c.Pos()) + " mutates in place a value obtained by ranging over shared state"})
					}
				}
			}
		}
	}
	return out, nMut
}

// shallowCopyOfShared: root names a struct that is (possibly, at some call site) a by-value copy of an element of shared
// state — a map element, a field or a global. The copy is private, but every slice in it still points at the shared
// backing array, so an append through it writes shared memory.
func shallowCopyOfShared(p *an.Prog, sc *Scope, fn *ssa.Function, root ssa.Value, depth int) bool {
	switch x := root.(type) {
	case *ssa.Alloc:
		for _, ref := range *x.Referrers() {
			st, ok := ref.(*ssa.Store)
			if !ok || st.Addr != ssa.Value(x) {
				continue
			}
			v := st.Val
			if ex, ok := v.(*ssa.Extract); ok {
				v = ex.Tuple
			}
			switch y := v.(type) {
			case *ssa.Lookup:
				r0, _, _ := addrChain(y.X)
				if !isFreshRoot(p, sc, r0, 1) {
					return true
				}
			case *ssa.UnOp:
				if y.Op == token.MUL {
					r0, _, _ := addrChain(y.X)
					if _, isAlloc := r0.(*ssa.Alloc); !isAlloc && !isFreshRoot(p, sc, r0, 1) {
						return true
					}
				}
			}
		}
	case *ssa.Parameter:
		if depth <= 0 {
			return false
		}
		idx := -1
		for i, prm := range fn.Params {
			if prm == x {
				idx = i
			}
		}
		if idx < 0 {
			return false
		}
		for _, site := range p.StaticSites(fn) {
			caller := site.Parent()
			if p.IsTestFunc(caller) || isTestDoublePkg(caller) {
				continue
			}
			args := site.Common().Args
			if idx >= len(args) {
				continue
			}
			r0, _, _ := addrChain(args[idx])
			if shallowCopyOfShared(p, sc, caller, r0, depth-1) {
				return true
			}
		}
	}
	return false
}

// onlyCalledFromReadMessage: fn is a helper of a codec's ReadMessage (every static call site is in a ReadMessage of
// the same receiver type, and fn is never used as a value), so it runs on the connection's single reader goroutine.
func onlyCalledFromReadMessage(p *an.Prog, fn *ssa.Function) bool {
	if fn.Signature.Recv() == nil || p.IsAddressTaken(fn) {
		return false
	}
	sites := p.StaticSites(fn)
	if len(sites) == 0 {
		return false
	}
	for _, s := range sites {
		c := s.Parent()
		if c.Name() != "ReadMessage" || c.Signature.Recv() == nil || !types.Identical(c.Signature.Recv().Type(), fn.Signature.Recv().Type()) {
			return false
		}
	}
	return true
}

// checkAliasEscapesLock: bytes.Buffer.Bytes() returns a slice that aliases the buffer. When the buffer is a field
// filled under a mutex and the slice is still used after that mutex is released, a second holder of the lock rewrites
// bytes the first user is still reading (two writers: one message lost, the other sent twice).
func checkAliasEscapesLock(p *an.Prog, r *an.Run, rule string, want func(*ssa.Function) bool) {
	var bad []string
	n := 0
	for _, fn := range p.Repo {
		if p.IsTestFunc(fn) || isTestDoublePkg(fn) || !want(fn) {
			continue
		}
		var li *an.LockInfo
		for _, c := range an.Calls(fn, false) {
			f := an.CallObj(c)
			if !an.IsMethod(f, "bytes", "Buffer", "Bytes") || len(c.Common().Args) == 0 {
				continue
			}
			root, path := an.RootPath(c.Common().Args[0])
			if _, isPrm := root.(*ssa.Parameter); !isPrm || path == "" {
				continue // a local buffer
			}
			n++
			if li == nil {
				li = an.Locksets(fn, nil)
			}
			held := li.Before[c.(ssa.Instruction)]
			if len(held) == 0 {
				continue // not lock-protected at all: unsynchronised-write / single-writer rules decide
			}
			seen := map[ssa.Value]bool{}
			var walk func(v ssa.Value)
			walk = func(v ssa.Value) {
				if seen[v] || v.Referrers() == nil {
					return
				}
				seen[v] = true
				for _, ref := range *v.Referrers() {
					switch x := ref.(type) {
					case *ssa.Slice:
						walk(x)
						continue
					case *ssa.Phi:
						walk(x)
						continue
					case *ssa.ChangeType:
						walk(x)
						continue
					case *ssa.DebugRef:
						continue
					}
					h2 := li.Before[ref]
					for k := range held {
						if _, still := h2[k]; !still {
							bad = append(bad, an.FuncName(fn)+" uses the bytes of a buffer it shares under "+string(k)+" after releasing that lock ("+p.Pos(ref.Pos())+"): another holder of the lock overwrites them meanwhile")
						}
					}
				}
			}
			if v := c.Value(); v != nil {
				walk(v)
			}
		}
	}
	r.Note("buffer-alias sites examined: %d", n)
	r.Check(len(bad) == 0, rule, "repo", token.NoPos, "no alias of a lock-protected buffer outlives the lock", "%s", strings.Join(dedup(bad), "; "))
}

// splitAtomicRMW: atomic.StoreT(addr, v) where v derives from atomic.LoadT of the same address in the same function,
// with no mutex held at the store. Returns the complaints and the number of sync/atomic call sites seen.
func splitAtomicRMW(p *an.Prog) (out []string, n int) {
	isAtomic := func(c ssa.CallInstruction, prefix string) bool {
		f := an.CallObj(c)
		return f != nil && f.Pkg() != nil && f.Pkg().Path() == "sync/atomic" && strings.HasPrefix(f.Name(), prefix)
	}
	for _, fn := range p.Repo {
		if p.IsTestFunc(fn) {
			continue
		}
		var loads, stores []ssa.CallInstruction
		for _, c := range an.Calls(fn, false) {
			if f := an.CallObj(c); f != nil && f.Pkg() != nil && f.Pkg().Path() == "sync/atomic" {
				n++
			}
			if isAtomic(c, "Load") && len(c.Common().Args) == 1 {
				loads = append(loads, c)
			}
			if isAtomic(c, "Store") && len(c.Common().Args) == 2 {
				stores = append(stores, c)
			}
		}
		// an atomic operation on a field of a by-value copy of the parameter (a value receiver) updates the copy: every
		// caller starts from the same stored value (all requests carry the same id)
		for _, c := range an.Calls(fn, false) {
			f := an.CallObj(c)
			if f == nil || f.Pkg() == nil || f.Pkg().Path() != "sync/atomic" || len(c.Common().Args) == 0 {
				continue
			}
			root, path := an.RootPath(c.Common().Args[0])
			if al, ok := root.(*ssa.Alloc); ok && path != "" {
				for _, ref := range *al.Referrers() {
					if st, ok := ref.(*ssa.Store); ok && st.Addr == ssa.Value(al) {
						if prm, ok := st.Val.(*ssa.Parameter); ok {
							out = append(out, an.FuncName(fn)+" applies "+an.ObjString(f)+" at "+p.Pos(c.Pos())+" to "+path+" of a copy of its parameter "+prm.Name()+" (passed by value): the shared counter is never advanced, concurrent and successive callers obtain the same value")
						}
					}
				}
			}
		}
		if len(loads) == 0 || len(stores) == 0 {
			continue
		}
		li := an.Locksets(fn, nil)
		for _, st := range stores {
			d := p.Derives(0, st.Common().Args[1])
			for _, ld := range loads {
				lv, ok := ld.(ssa.Value)
				if !ok || !d.HasValue(lv) {
					continue
				}
				r1, p1 := an.RootPath(ld.Common().Args[0])
				r2, p2 := an.RootPath(st.Common().Args[0])
				if !sameObject(r1, r2) || p1 != p2 {
					continue
				}
				held := false
				for _, h := range li.Before[st.(ssa.Instruction)] {
					if h {
						held = true
					}
				}
				if !held {
					out = append(out, an.FuncName(fn)+" stores at "+p.Pos(st.Pos())+" a value computed from the atomic load at "+p.Pos(ld.Pos())+" of the same variable: the update is not atomic, concurrent callers obtain the same value (use atomic.Add / CompareAndSwap)")
				}
			}
		}
	}
	return out, n
}

// checkCheckThenAct: a decision taken on what one store call returned and carried out by a later, separate store call is
// atomic only if something excludes other requests for the whole stretch: in a request handler (pool, payment, balance
// packages), a store WRITE whose execution depends on a condition over the VALUE (not the error) a store READ returned
// in the same function needs a mutex held at both calls. (Withdraw does this under withdrawMu. "Refuse pool_addNode for
// a node another wallet already claimed" as a read followed by the old atomic link write lets two wallets both pass.)
func checkCheckThenAct(p *an.Prog, r *an.Run) {
	writeNames := map[string]bool{"AddNodeBalance": true, "AddAccountBalance": true, "AddAccountNode": true, "SetNode": true, "UpdateNodePeers": true, "CheckAndSaveNonce": true}
	var bad []string
	nFn, nPairs := 0, 0
	for _, fn := range p.Repo {
		if p.IsTestFunc(fn) || isTestDoublePkg(fn) || takesTestingT(fn) || inDriverPkg(fn) || strings.HasSuffix(p.File(fn.Pos()), "testsuite.go") {
			continue
		}
		var reads, writes []ssa.CallInstruction
		for _, c := range an.Calls(fn, false) {
			f := an.CallObj(c)
			if !isStoreMethod(f) {
				continue
			}
			if writeNames[f.Name()] {
				writes = append(writes, c)
			} else {
				reads = append(reads, c)
			}
		}
		if len(reads) == 0 || len(writes) == 0 {
			continue
		}
		nFn++
		li := an.Locksets(fn, p.EntryLocks()[fn])
		// branches on which the write's execution depends: one successor reaches the write, the other does not
		type dep struct{ If *ssa.If }
		depsOf := func(w ssa.CallInstruction) []dep {
			var out []dep
			for _, b := range fn.Blocks {
				if len(b.Instrs) == 0 || len(b.Succs) != 2 {
					continue
				}
				iff, ok := b.Instrs[len(b.Instrs)-1].(*ssa.If)
				if !ok {
					continue
				}
				r0 := an.ReachFrom([]*ssa.BasicBlock{b.Succs[0]}, nil)[w.Block()]
				r1 := an.ReachFrom([]*ssa.BasicBlock{b.Succs[1]}, nil)[w.Block()]
				if r0 != r1 {
					out = append(out, dep{iff})
				}
			}
			return out
		}
		for _, w := range writes {
			for _, ctl := range depsOf(w) {
				d := p.Derives(0, ctl.If.Cond)
				for _, rd := range reads {
					rv := rd.Value()
					if rv == nil || !an.Dominates(rd.(ssa.Instruction), w.(ssa.Instruction)) {
						continue
					}
					// the value part of the read's result (not its error)
					onValue := false
					for _, n := range d.Nodes {
						if ex, ok := n.(*ssa.Extract); ok && ex.Tuple == rv && !an.IsErrorType(ex.Type()) {
							onValue = true
						}
						if n == rv && !an.IsErrorType(rv.Type()) {
							if _, isTuple := rv.Type().(*types.Tuple); !isTuple {
								onValue = true
							}
						}
					}
					if !onValue {
						continue
					}
					nPairs++
					common := false
					hr, hw := li.Before[rd.(ssa.Instruction)], li.Before[w.(ssa.Instruction)]
					for k := range hr {
						if _, ok := hw[k]; ok {
							common = true
						}
					}
					if !common {
						bad = append(bad, an.FuncName(fn)+" decides at "+p.Pos(ctl.If.Pos())+" on what "+callName(rd)+" returned ("+p.Pos(rd.Pos())+") whether to carry out "+callName(w)+" ("+p.Pos(w.Pos())+"), with no mutex held across the two store calls: two requests can both pass the check before either writes")
					}
				}
			}
		}
	}
	_ = nPairs
	r.Check(len(bad) == 0 && nFn > 0, "check-then-act", "handlers", token.NoPos, "a store write decided by an earlier store read's value runs under a mutex held across both", "%s (functions with both a store read and a store write: %d)", strings.Join(dedup(bad), "; "), nFn)
}
