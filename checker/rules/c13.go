package rules

import (
	"go/token"
	"go/types"
	"strings"

	"golang.org/x/tools/go/ssa"

	"vipcheck/an"
)

func init() {
	Registry["C13"] = Spec{
		Run: runC13,
		Explanation: "Static transaction-discipline rules over the badger driver: (one-txn) every store method performs all its reads and writes in exactly one db.Update/db.View closure, writes only in Update, so badger's atomic commit covers multi-key operations; " +
			"(propagate) every error of a write (txn.Set/SetEntry/Delete, setItem, setExpiringItem, setVersion, gob Encode, a migration step) is branched on or returned and every return reachable from its failure edge is non-nil — a swallowed error commits a partial operation; " +
			"(key-lifetime) no slice obtained from Item.Key() flows into a write or delete (badger keeps the slice until commit while the iterator recycles it); " +
			"(migration) Open returns a store only past MigrateLatest's success edge, Migrate runs the steps inside one Update and touches nothing when the version is current, the step table has dbVersion entries, step i asserts version i and sets i+1 on every success path, and steps only touch the nonce/version key spaces. Round 2: no nested transaction; iterator-keyed writes are prefix-confined also inside helpers; (wiring) every store constructed in runPool is the one handed to pool.New. Round 5: (key-spelling); retry closures.",
		NotDecided: []string{"not decided: crash points and durability themselves (badger's commit is trusted), concurrent readers' views"},
	}
}

var badgerWriteHelpers = map[string]bool{"setItem": true, "setExpiringItem": true, "setVersion": true}

func isBadgerWriteCall(c ssa.CallInstruction) bool {
	f := an.CallObj(c)
	if f == nil {
		return false
	}
	if isBadgerTxnMethod(f, "Set", "SetEntry", "Delete") {
		return true
	}
	if f.Pkg() != nil && f.Pkg().Path() == pkgBadger && badgerWriteHelpers[an.Ident(f.Name())] {
		sig := f.Type().(*types.Signature)
		return sig.Recv() == nil
	}
	if an.IsMethod(f, "encoding/gob", "Encoder", "Encode") {
		return true
	}
	return false
}

func badgerPkgFuncs(p *an.Prog) []*ssa.Function {
	var out []*ssa.Function
	for _, fn := range p.Repo {
		top := fn
		for top.Parent() != nil {
			top = top.Parent()
		}
		if top.Pkg != nil && top.Pkg.Pkg.Path() == pkgBadger {
			out = append(out, fn)
		}
	}
	return out
}

// migrationSteps returns index -> step function from the package initialiser of the migrations table.
func migrationSteps(p *an.Prog) (map[int64]*ssa.Function, int64, bool) {
	sp := p.SSAPkg("pool/store/badger")
	if sp == nil {
		return nil, 0, false
	}
	g, _ := sp.Members["migrations"].(*ssa.Global)
	initFn := sp.Func("init")
	if g == nil || initFn == nil {
		return nil, 0, false
	}
	arr, ok := g.Type().(*types.Pointer).Elem().Underlying().(*types.Array)
	if !ok {
		return nil, 0, false
	}
	steps := map[int64]*ssa.Function{}
	// the table is built in a local array literal that is then stored into the global
	var lit ssa.Value = g
	an.AllInstrs(initFn, func(in ssa.Instruction) {
		if st, ok := in.(*ssa.Store); ok && st.Addr == ssa.Value(g) {
			if ld, ok := st.Val.(*ssa.UnOp); ok && ld.Op == token.MUL {
				lit = ld.X
			}
		}
	})
	an.AllInstrs(initFn, func(in ssa.Instruction) {
		st, ok := in.(*ssa.Store)
		if !ok {
			return
		}
		ia, ok := st.Addr.(*ssa.IndexAddr)
		if !ok || (ia.X != ssa.Value(g) && ia.X != lit) {
			return
		}
		idx, ok := an.ConstInt(ia.Index)
		if !ok {
			return
		}
		v := st.Val
		if ct, ok := v.(*ssa.ChangeType); ok {
			v = ct.X
		}
		switch f := v.(type) {
		case *ssa.Function:
			steps[idx] = f
		case *ssa.MakeClosure:
			if ff, ok := f.Fn.(*ssa.Function); ok {
				steps[idx] = ff
			}
		}
	})
	return steps, arr.Len(), true
}

func runC13(p *an.Prog, r *an.Run, tier string) {
	checkSurfaceClosed(p, r)
	checkOneTxn(p, r, "one-txn")
	checkSingleStoreWiring(p, r)
	checkKeySpacesKnown(p, r)
	checkKeyOperandTypes(p, r)
	checkBadgerWriters(p, r)
	checkLedgerWriterMethods(p, r)
	// accepted nonces are among what must be read back: the persisted record's lifetime (C05.fresh) and the rest of the
	// nonce-store rules
	checkNonceStores(p, r)
	// an acknowledged keep-alive stores the whole reported peer set (the tracked-peer rules of C11 for the drivers)
	runC11(p, r, tier)

	// ---- propagate
	fns := badgerPkgFuncs(p)
	r.Floor("badger-functions", len(fns), 30)
	nW := 0
	seenKeys := map[string]int{}
	for _, fn := range fns {
		r.Analysed(an.FuncName(fn))
		for _, c := range an.Calls(fn, false) {
			if !isBadgerWriteCall(c) {
				continue
			}
			nW++
			key := an.FuncName(fn) + ":" + callName(c)
			seenKeys[key]++
			if seenKeys[key] > 1 {
				key += "#" + itoa(seenKeys[key])
			}
			u := an.ErrEdges(c)
			var bad []string
			if u.Dropped {
				bad = append(bad, "the error of "+callName(c)+" at "+p.Pos(c.Pos())+" is dropped: a failed write would be committed as if it had happened")
			} else {
				bad = append(bad, failPropagates(p, fn, c)...)
				if !u.Returned && len(u.Succ) == 0 && len(u.Fail) == 0 {
					bad = append(bad, "the error of "+callName(c)+" at "+p.Pos(c.Pos())+" is neither branched on nor returned")
				}
			}
			r.Check(len(bad) == 0, "propagate", key, c.Pos(), "write error reaches the transaction's result", "%s", strings.Join(bad, "; "))
		}
		// step invocation through the table
		for _, c := range an.Calls(fn, false) {
			if c.Common().IsInvoke() || c.Common().StaticCallee() != nil {
				continue
			}
			if n, ok := c.Common().Value.Type().(*types.Named); ok && n.Obj().Name() == "MigrationStep" {
				nW++
				u := an.ErrEdges(c)
				bad := failPropagates(p, fn, c)
				if u.Dropped {
					bad = append(bad, "the migration step's error is dropped")
				}
				r.Check(len(bad) == 0, "propagate", an.FuncName(fn)+":step", c.Pos(), "a failing migration step aborts the transaction", "%s", strings.Join(bad, "; "))
			}
		}
	}
	r.Floor("write-calls", nW, 15)
	r.CallSites += nW

	// ---- key-lifetime
	var bad []string
	nK := 0
	for _, fn := range fns {
		for _, c := range an.Calls(fn, false) {
			f := an.CallObj(c)
			if f == nil {
				continue
			}
			var keyArg ssa.Value
			a := c.Common().Args
			switch {
			case isBadgerTxnMethod(f, "Set", "Delete") && len(a) >= 2:
				keyArg = a[1]
			case f.Pkg() != nil && f.Pkg().Path() == pkgBadger && (an.Ident(f.Name()) == "setItem" || an.Ident(f.Name()) == "setExpiringItem") && len(a) >= 2:
				keyArg = a[1]
			case an.IsFunc(f, badgerLib, "NewEntry") && len(a) >= 1:
				keyArg = a[0]
			}
			if keyArg == nil {
				continue
			}
			nK++
			d := p.Derives(0, keyArg)
			// KeyCopy(dst) with a dst that is not nil writes into dst's storage: every pending write given such a key
			// shares one buffer, so inside a loop all of them end up naming the last key copied into it
			for _, kcc := range d.CallsTo(func(g *types.Func) bool { return an.IsMethod(g, badgerLib, "Item", "KeyCopy") }) {
				if ka := kcc.Call.Args; len(ka) >= 2 {
					if cst, isC := ka[1].(*ssa.Const); !isC || !cst.IsNil() {
						bad = append(bad, callName(c)+" in "+an.FuncName(fn)+" at "+p.Pos(c.Pos())+" is given a key copied into a reused buffer (KeyCopy with a non-nil destination at "+p.Pos(kcc.Pos())+"): the transaction keeps the slice until commit, the next copy overwrites it")
					}
				}
			}
			if kc := d.CallTo(func(g *types.Func) bool { return an.IsMethod(g, badgerLib, "Item", "Key") }); kc != nil {
				// a copy in between (append([]byte{}, key...), string conversion, KeyCopy) is fine
				copied := false
				for _, n := range d.Nodes {
					if cv, ok := n.(*ssa.Convert); ok {
						if b, ok := cv.Type().Underlying().(*types.Basic); ok && b.Kind() == types.String {
							copied = true
						}
					}
					if cc, ok := n.(*ssa.Call); ok {
						if b, ok := cc.Call.Value.(*ssa.Builtin); ok && (an.Ident(b.Name()) == "append" || an.Ident(b.Name()) == "copy") {
							copied = true
						}
					}
				}
				if !copied {
					bad = append(bad, callName(c)+" in "+an.FuncName(fn)+" at "+p.Pos(c.Pos())+" is given the slice returned by Item.Key() (valid only until the iterator advances; the transaction keeps it until commit): use KeyCopy")
				}
			}
		}
	}
	r.Floor("keyed-writes", nK, 10)
	r.Check(len(bad) == 0, "key-lifetime", "package badger", token.NoPos, "no Item.Key() slice is retained by a write or delete", "%s", strings.Join(bad, "; "))

	// ---- migration
	open := p.Func("pool/store/badger", "Open")
	mig := p.Method("pool/store/badger", "Migration", "Migrate")
	if open == nil || mig == nil {
		r.Undec("migration", "anchors", token.NoPos, "badger.Open / Migration.Migrate not found")
		return
	}
	r.Analysed(an.FuncName(open), an.FuncName(mig))
	bad = nil
	var ml ssa.CallInstruction
	for _, c := range an.Calls(open, false) {
		if an.IsFunc(an.CallObj(c), pkgBadger, "MigrateLatest") {
			ml = c
		}
	}
	if ml == nil {
		bad = append(bad, "Open does not call MigrateLatest")
	} else {
		reach := an.ReachAvoiding(open, an.EdgeSet(an.ErrEdges(ml).Succ))
		an.AllInstrs(open, func(in ssa.Instruction) {
			ret, ok := in.(*ssa.Return)
			if !ok || !reach[ret.Block()] {
				return
			}
			if c, ok := an.RetResults(ret)[0].(*ssa.Const); !ok || !c.IsNil() {
				bad = append(bad, "Open can return a store at "+p.Pos(ret.Pos())+" without the migration having succeeded")
			}
		})
		// MigrateLatest uses the full table and the current version
		mlf := p.Func("pool/store/badger", "MigrateLatest")
		if mlf != nil {
			okLatest, okSteps := false, false
			an.AllInstrs(mlf, func(in ssa.Instruction) {
				if st, ok := in.(*ssa.Store); ok {
					if fv := an.FieldOf(st.Addr); fv != nil {
						if fv.Name() == "LatestVersion" && p.IsPkgConst(st.Val, "pool/store/badger", "dbVersion") {
							okLatest = true
						}
						if fv.Name() == "Steps" {
							if sl, ok := st.Val.(*ssa.Slice); ok && sl.Low == nil && sl.High == nil {
								if g, ok := sl.X.(*ssa.Global); ok && an.Ident(g.Name()) == "migrations" {
									okSteps = true
								}
							}
						}
					}
				}
			})
			if !okLatest || !okSteps {
				bad = append(bad, "MigrateLatest does not run the whole migrations table up to dbVersion")
			}
		}
	}
	r.Check(len(bad) == 0, "migration", "badger.Open", open.Pos(), "a store is returned only past a successful MigrateLatest over the whole table", "%s", strings.Join(bad, "; "))

	// Migrate: one Update, steps inside, nothing when current
	bad = nil
	regs := txnRegions(p, mig)
	if len(regs) != 1 || !regs[0].Update || regs[0].Closure == nil {
		bad = append(bad, "Migrate does not run inside exactly one db.Update transaction")
	} else {
		cl := regs[0].Closure
		isStepCall := func(c ssa.CallInstruction) bool {
			n, ok := c.Common().Value.Type().(*types.Named)
			return ok && n.Obj().Name() == "MigrationStep" && c.Common().StaticCallee() == nil
		}
		// the transaction's code: the closure and the helpers it calls (the step loop may live in a helper)
		inTxn := map[*ssa.Function]bool{}
		for _, f := range regionFuncs(p, cl) {
			inTxn[f] = true
		}
		var stepCalls []ssa.CallInstruction
		for f := range inTxn {
			for _, c := range an.Calls(f, false) {
				if isStepCall(c) {
					stepCalls = append(stepCalls, c)
				}
			}
		}
		for _, f := range badgerPkgFuncs(p) {
			if inTxn[f] {
				continue
			}
			for _, c := range an.Calls(f, false) {
				if isStepCall(c) {
					bad = append(bad, "a migration step is invoked outside the transaction (in "+an.FuncName(f)+")")
				}
			}
		}
		if len(stepCalls) == 0 {
			bad = append(bad, "no migration step is invoked inside the transaction")
		}
		// does executing this instruction run a step or a write (directly or through a helper of the transaction)?
		runsStepOrWrite := func(in ssa.Instruction) bool {
			c, ok := in.(ssa.CallInstruction)
			if !ok {
				return false
			}
			if isStepCall(c) || isBadgerWriteCall(c) {
				return true
			}
			if cal := c.Common().StaticCallee(); cal != nil && inTxn[cal] {
				_, found := p.ReachesCall(cal, func(cc ssa.CallInstruction) bool { return isStepCall(cc) || isBadgerWriteCall(cc) })
				return found
			}
			return false
		}
		// current version => nothing runs
		foundEq := false
		an.AllInstrs(cl, func(in ssa.Instruction) {
			iff, ok := in.(*ssa.If)
			if !ok {
				return
			}
			rel, ok := an.NormCond(iff.Cond)
			if !ok || rel.Kind != "int" || (rel.Op != token.EQL && rel.Op != token.NEQ) {
				return
			}
			isLatest := func(v ssa.Value) bool { return derivesField(p, v, "Migration", "LatestVersion") }
			isOld := func(v ssa.Value) bool {
				return p.Derives(0, v).CallTo(func(f *types.Func) bool { return an.IsFunc(f, pkgBadger, "getVersion") }) != nil
			}
			if !((isLatest(rel.L) && isOld(rel.R)) || (isLatest(rel.R) && isOld(rel.L))) {
				return
			}
			foundEq = true
			eqSucc := 0
			if rel.Op == token.NEQ {
				eqSucc = 1
			}
			if in := pathFromBlock(cl, iff.Block().Succs[eqSucc], nil, runsStepOrWrite); in != nil {
				bad = append(bad, "with the database already at the latest version a step or write is still reachable at "+p.Pos(in.Pos()))
			}
			// steps only reachable through the != edge
			reach := an.ReachAvoiding(cl, map[an.Edge]bool{{From: iff.Block(), To: iff.Block().Succs[1-eqSucc]}: true})
			for _, b := range cl.Blocks {
				if !reach[b] {
					continue
				}
				for _, x := range b.Instrs {
					if runsStepOrWrite(x) {
						bad = append(bad, "a step is reachable without the version comparison")
					}
				}
			}
		})
		if !foundEq {
			bad = append(bad, "Migrate does not compare the stored version with the latest version before running steps")
		}
		// the stored version must have advanced after each step
		adv := false
		for f := range inTxn {
			an.AllInstrs(f, func(in ssa.Instruction) {
				iff, ok := in.(*ssa.If)
				if !ok {
					return
				}
				rel, ok := an.NormCond(iff.Cond)
				if ok && rel.Kind == "int" && (rel.Op == token.LEQ || rel.Op == token.LSS || rel.Op == token.GTR || rel.Op == token.GEQ) {
					dl, dr := p.Derives(0, rel.L), p.Derives(0, rel.R)
					gv := func(d *an.Deriv) bool {
						return d.CallTo(func(f *types.Func) bool { return an.IsFunc(f, pkgBadger, "getVersion") }) != nil
					}
					if (gv(dl) || gv(dr)) && inLoop(in) {
						adv = true
					}
				}
			})
		}
		if !adv {
			bad = append(bad, "Migrate does not check that a step advanced the stored version (a step that forgets to bump it would loop or be skipped silently)")
		}
	}
	// a database is refused for its VERSION only (newer than supported, older than the oldest step) or because a step or
	// a store access failed: no refusal of Migrate hangs on another look at the database (format 0 is "no version key":
	// "a non-empty directory without a version stamp is somebody else's" locks out every pre-versioning database)
	for _, f := range an.WithAnon(mig) {
		an.AllInstrs(f, func(in ssa.Instruction) {
			ret, ok := in.(*ssa.Return)
			if !ok || len(ret.Results) == 0 || (f.Recover != nil && ret.Block() == f.Recover) {
				return
			}
			if cls, _ := returnClass(ret); cls == "nil" {
				return
			}
			ctl := an.ControllingIfs(ret.Block())
			if len(ctl) == 0 {
				return
			}
			cond := ctl[0].If.Cond
			for {
				u, isNot := cond.(*ssa.UnOp)
				if !isNot || u.Op != token.NOT {
					break
				}
				cond = u.X
			}
			if c, isCall := cond.(*ssa.Call); isCall {
				bad = append(bad, "Migrate refuses a database at "+p.Pos(ret.Pos())+" on the verdict of "+callName(c)+" ("+p.Pos(c.Pos())+"), not on its version or on a failed step: databases of a supported older format can be locked out")
			}
		})
	}
	r.Check(len(bad) == 0, "migration", "(*badger.Migration).Migrate", mig.Pos(), "steps run inside one Update; a current database is left untouched; each step must advance the version", "%s", strings.Join(bad, "; "))

	// steps
	steps, tableLen, ok := migrationSteps(p)
	dbv, okv := p.PkgConstInt("pool/store/badger", "dbVersion")
	if !ok || !okv {
		r.Undec("migration", "steps", token.NoPos, "migrations table or dbVersion not found")
		return
	}
	r.Check(tableLen == dbv && int64(len(steps)) == dbv, "migration", "table", token.NoPos, "the step table has dbVersion entries", "the migrations table has %d slots / %d initialised steps but dbVersion is %d", tableLen, len(steps), dbv)
	for i := int64(0); i < dbv; i++ {
		st := steps[i]
		key := "step" + itoa(int(i)) + "->" + itoa(int(i+1))
		if st == nil {
			r.Fail("migration", key, token.NoPos, "step %d is missing from the table", i)
			continue
		}
		r.Analysed(an.FuncName(st))
		var bad []string
		// checkVersion(i) gates everything
		var cv ssa.CallInstruction
		for _, c := range an.Calls(st, false) {
			if an.IsFunc(an.CallObj(c), pkgBadger, "checkVersion") {
				if k, ok := an.ConstInt(c.Common().Args[1]); ok && k == i {
					cv = c
				}
			}
		}
		if cv == nil {
			bad = append(bad, "the step does not assert that the database is at version "+itoa(int(i)))
		} else {
			reach := an.ReachAvoiding(st, an.EdgeSet(an.ErrEdges(cv).Succ))
			for _, c := range an.Calls(st, false) {
				if isBadgerWriteCall(c) && reach[c.Block()] {
					bad = append(bad, "a write at "+p.Pos(c.Pos())+" is reachable without the version assertion having passed")
				}
			}
		}
		// every success return passes setVersion(i+1)
		isSet := func(in ssa.Instruction) bool {
			c, ok := in.(ssa.CallInstruction)
			if !ok || !an.IsFunc(an.CallObj(c), pkgBadger, "setVersion") {
				return false
			}
			k, ok := an.ConstInt(c.Common().Args[1])
			return ok && k == i+1
		}
		n, _ := enumPaths(st, 4096, func(path []*ssa.BasicBlock, ret *ssa.Return) {
			cls, _ := returnClass(ret)
			if cls == "nonnil" {
				return
			}
			cnt := 0
			for _, b := range path {
				for _, in := range b.Instrs {
					if isSet(in) {
						cnt++
					}
				}
			}
			if cnt != 1 {
				bad = append(bad, "a success path returning at "+p.Pos(ret.Pos())+" sets the version to "+itoa(int(i+1))+" "+itoa(cnt)+" times (want 1)")
			}
		})
		r.Paths += n
		for _, c := range an.Calls(st, false) {
			if an.IsFunc(an.CallObj(c), pkgBadger, "setVersion") && !isSet(c.(ssa.Instruction)) {
				bad = append(bad, "the step sets a version other than "+itoa(int(i+1)))
			}
		}
		// writes/deletes keyed by iterator items: the loop must be confined to the Seek prefix
		for _, fnx := range regionFuncs(p, st) {
			var seeks, valids []ssa.CallInstruction
			for _, c := range an.Calls(fnx, false) {
				f := an.CallObj(c)
				if an.IsMethod(f, badgerLib, "Iterator", "Seek") {
					seeks = append(seeks, c)
				}
				if an.IsMethod(f, badgerLib, "Iterator", "ValidForPrefix") {
					valids = append(valids, c)
				}
			}
			for _, c := range an.Calls(fnx, false) {
				if !isBadgerTxnMethod(an.CallObj(c), "Delete", "Set", "SetEntry") {
					continue
				}
				dk := p.Derives(0, c.Common().Args[1])
				if dk.CallTo(func(f *types.Func) bool {
					return an.IsMethod(f, badgerLib, "Item", "Key") || an.IsMethod(f, badgerLib, "Item", "KeyCopy")
				}) == nil {
					continue
				}
				confined := false
				for _, ctl := range an.ControllingIfs(c.Block()) {
					vc, ok := ctl.If.Cond.(*ssa.Call)
					if !ok || ctl.Succ != 0 || !an.IsMethod(an.CallObj(vc), badgerLib, "Iterator", "ValidForPrefix") {
						continue
					}
					for _, sk := range seeks {
						if sk.Common().Args[1] == vc.Call.Args[1] || sameConstBytes(p, sk.Common().Args[1], vc.Call.Args[1]) {
							confined = true
						}
					}
				}
				if !confined {
					bad = append(bad, "the write/delete at "+p.Pos(c.Pos())+" acts on iterator items without the loop being confined by ValidForPrefix(<the Seek prefix>): it runs on past the prefix into other key spaces (peers, trial balances, ...)")
				}
			}
			_ = valids
		}
		// key spaces
		for _, o := range badgerOps(p, st) {
			if o.Kind != opWrite && o.Kind != opDelete {
				continue
			}
			for _, sp := range o.Spaces {
				if sp != "nonce" && sp != "version" {
					bad = append(bad, o.Kind.String()+" via "+o.Via+" at "+p.Pos(o.In.Pos())+" touches key space "+sp+" (migrations must not touch nodes, peers, links or balances)")
				}
			}
		}
		r.Check(len(bad) == 0, "migration", key, st.Pos(), "asserts version, touches only nonce/version keys, bumps the version on every success path", "%s", strings.Join(dedup(bad), "; "))
	}
}

func sameConstBytes(p *an.Prog, a, b ssa.Value) bool {
	sa, sb := p.Derives(0, a).ConstStrings(), p.Derives(0, b).ConstStrings()
	return len(sa) == 1 && len(sb) == 1 && sa[0] == sb[0]
}

// checkSingleStoreWiring: the pool binary keeps all its state in the one store the operator selected. Every store
// instance created in runPool is the one handed to pool.New; a second instance created on the side (an in-memory nonce
// store for the payment service, say) silently takes part of the state out of the persistent store.
func checkSingleStoreWiring(p *an.Prog, r *an.Run) {
	runPool := p.Func("", "runPool")
	si := p.Iface("pool/store", "Store")
	if runPool == nil || si == nil {
		r.Undec("wiring", "main.runPool", token.NoPos, "main.runPool / store.Store not found")
		return
	}
	r.Analysed(an.FuncName(runPool))
	isCtor := func(c ssa.CallInstruction) bool {
		sig := c.Common().Signature()
		if sig == nil || sig.Results().Len() == 0 {
			return false
		}
		t := sig.Results().At(0).Type()
		if _, isIface := t.Underlying().(*types.Interface); isIface {
			// a constructor declared to return an interface: decide by its name's package (the two driver packages)
			if f := an.CallObj(c); f != nil && f.Pkg() != nil && strings.Contains(f.Pkg().Path(), "/pool/store/") {
				return types.Implements(t, si)
			}
			return false
		}
		return types.Implements(t, si) || types.Implements(types.NewPointer(t), si)
	}
	var poolNew ssa.CallInstruction
	var ctors []ssa.CallInstruction
	for _, fn := range regionFuncs(p, runPool) {
		for _, c := range an.Calls(fn, false) {
			if f := an.CallObj(c); f != nil && f.Name() == "New" && f.Pkg() != nil && strings.HasSuffix(f.Pkg().Path(), "/pool") {
				poolNew = c
			}
			if isCtor(c) {
				ctors = append(ctors, c)
			}
		}
	}
	var bad []string
	if poolNew == nil || len(poolNew.Common().Args) == 0 {
		bad = append(bad, "runPool does not construct the pool with pool.New(store, ...)")
	} else {
		d := p.DerivesIn(runPool, 1, poolNew.Common().Args[0])
		for _, c := range ctors {
			v, _ := c.(ssa.Value)
			if v == nil || !(d.HasValue(v) || derivesFromCallValue(d, v)) {
				bad = append(bad, "runPool creates a second store at "+p.Pos(c.Pos())+" ("+callName(c)+") that is not the one the pool runs on: what is kept there (nonces, balances, links) does not survive a restart of a persistent pool")
			}
		}
	}
	r.Floor("store-constructors-in-runPool", len(ctors), 2)
	r.Check(len(bad) == 0, "wiring", "main.runPool", runPool.Pos(), "one store instance, the selected one, backs every service", "%s", strings.Join(dedup(bad), "; "))
}

func derivesFromCallValue(d *an.Deriv, v ssa.Value) bool {
	for _, n := range d.Nodes {
		if ex, ok := n.(*ssa.Extract); ok && ex.Tuple == v {
			return true
		}
	}
	return false
}

// checkKeySpacesKnown: the on-disk format at version dbVersion consists of the key spaces listed in badgerPrefixSpace.
// A key prefix outside that list is a format change: databases written by the previous release do not contain it, so
// it needs a version bump and a migration step that builds it (and this table, which describes format dbVersion, has
// to be extended together with them).
func checkKeySpacesKnown(p *an.Prog, r *an.Run) {
	var bad []string
	n := 0
	seen := map[string]bool{}
	for _, fn := range badgerPkgFuncs(p) {
		an.AllInstrs(fn, func(in ssa.Instruction) {
			var ops []*ssa.Value
			for _, op := range in.Operands(ops) {
				if op == nil || *op == nil {
					continue
				}
				str, ok := an.ConstString(*op)
				if !ok || !strings.HasPrefix(str, "vip:") || seen[str] {
					continue
				}
				seen[str] = true
				n++
				known := false
				for pre := range badgerPrefixSpace {
					if strings.HasPrefix(str, pre) {
						known = true
					}
				}
				if !known {
					bad = append(bad, "key prefix "+str+" ("+an.FuncName(fn)+", "+p.Pos(in.Pos())+") is not part of the on-disk format of version dbVersion: data written by the previous release lacks it and no migration step builds it")
				}
			}
		})
	}
	r.Floor("key-prefix-constants", n, 6)
	r.Check(len(bad) == 0, "migration", "key-spaces", token.NoPos, "every key space used is part of the current on-disk format", "%s", strings.Join(dedup(bad), "; "))
}

// checkBadgerWriters: what is stored stays stored until one of the store's own operations changes it: every function of
// the badger package that writes or deletes keys (directly or through the package's set helpers) is a method of the
// Store / NonceStore contract, a migration step (or the version stamp helper they use), one of the helpers themselves, or
// a transaction wrapper. A clean-up added to Open ("forget nodes not seen for 30 days") makes registrations, peer sets
// and with them trial balances disappear at a restart.
func checkBadgerWriters(p *an.Prog, r *an.Run) {
	d := badgerDriver(p)
	if d == nil {
		r.Undec("writers", "badger", token.NoPos, "badger driver not found")
		return
	}
	allowed := map[*ssa.Function]bool{}
	ms := types.NewMethodSet(types.NewPointer(d))
	for _, ifn := range []string{"Store", "NonceStore", "BalanceStore", "AccountStore"} {
		iface := p.Iface("pool/store", ifn)
		if iface == nil {
			continue
		}
		it := iface.Underlying().(*types.Interface)
		for i := 0; i < it.NumMethods(); i++ {
			if sel := ms.Lookup(d.Obj().Pkg(), it.Method(i).Name()); sel != nil {
				if f := p.SSA.FuncValue(sel.Obj().(*types.Func)); f != nil {
					allowed[f] = true
				}
			}
		}
	}
	if steps, _, ok := migrationSteps(p); ok {
		for _, st := range steps {
			allowed[st] = true
		}
	}
	isSetHelper := func(f *ssa.Function) bool {
		if f == nil {
			return false
		}
		switch an.Ident(f.Name()) {
		case "setItem", "setExpiringItem", "setVersion":
			return f.Pkg != nil && f.Pkg.Pkg.Path() == pkgBadger
		}
		return false
	}
	// helpers of allowed functions: a function all of whose call sites lie in allowed functions (or their closures)
	anc := func(fn *ssa.Function) bool {
		for x := fn; x != nil; x = x.Parent() {
			if allowed[x] {
				return true
			}
		}
		return false
	}
	for changed := true; changed; {
		changed = false
		for _, fn := range badgerPkgFuncs(p) {
			if fn.Parent() != nil || allowed[fn] || p.IsTestFunc(fn) {
				continue
			}
			sites := 0
			all := true
			for _, site := range p.StaticSites(fn) {
				if p.IsTestFunc(site.Parent()) {
					continue
				}
				sites++
				if !anc(site.Parent()) {
					all = false
				}
			}
			if sites > 0 && all {
				allowed[fn] = true
				changed = true
			}
		}
	}
	var bad []string
	nW := 0
	for _, fn := range badgerPkgFuncs(p) {
		if p.IsTestFunc(fn) || strings.HasSuffix(p.File(fn.Pos()), "testsuite.go") {
			continue
		}
		top := fn
		for top.Parent() != nil {
			top = top.Parent()
		}
		if isSetHelper(top) {
			continue
		}
		if _, _, isW := txnWrapperInfo(p, top); isW {
			continue
		}
		for _, c := range an.Calls(fn, false) {
			f := an.CallObj(c)
			writes := isBadgerTxnMethod(f, "Set", "Delete", "SetEntry") || isSetHelper(c.Common().StaticCallee())
			if !writes {
				continue
			}
			nW++
			okFn := false
			for x := fn; x != nil; x = x.Parent() {
				if allowed[x] {
					okFn = true
				}
			}
			if !okFn {
				bad = append(bad, an.FuncName(top)+" writes or deletes stored keys ("+callName(c)+" at "+p.Pos(c.Pos())+") but is neither an operation of the store contract nor a migration step: stored records change without anybody having asked the store to change them")
			}
		}
	}
	r.Check(len(bad) == 0 && nW >= 10, "writers", "badger", token.NoPos, "stored keys are written and deleted by the store's operations and migration steps only", "%s (write sites: %d)", strings.Join(dedup(bad), "; "), nW)
}
