package rules

import (
	"go/token"
	"go/types"
	"strings"

	"golang.org/x/tools/go/ssa"

	"vipcheck/an"
)

// Ownership of big.Int values (shared by C01, C02, C03, C07 and C10).
//
// A big.Int is a header over a digit slice: copying a Balance (by assignment, as a value receiver, out of a map)
// copies the header and shares the digits, and a *big.Int kept in a table is the same number for everybody holding
// the pointer. Every amount in the ledger is such a value, so an in-place method (z.Add(z, x), z.Set(x), ...) is safe
// only on a destination the function provably owns. The rule, over every non-test function of the repository:
//
//	(private-dest)  the destination of an in-place big.Int method is rooted in a value allocated in this function
//	                (new(big.Int), big.NewInt, a local variable, a local record that was decoded into or built field by
//	                field — not one assigned as a whole from a parameter, a map element, a call result or a load), or is
//	                the function's own *big.Int parameter (the callee-owns convention of the fee function), or lies in
//	                an accumulator record reached through a pointer (Stats) — never inside a store.Balance that is not
//	                such a local, and never a pointer loaded from a field, map element or package variable;
//	(no-alias-out)  no function with a *big.Int result returns the address of a big.Int held in one of its parameters
//	                (a caller that then adjusts "its" amount writes into the record it came from).
func checkBigIntOwnership(p *an.Prog, r *an.Run) {
	var bad []string
	nDest, nRet := 0, 0
	for _, fn := range p.Repo {
		if p.IsTestFunc(fn) || isTestDoublePkg(fn) || strings.HasSuffix(p.File(fn.Pos()), "testsuite.go") {
			continue
		}
		for _, c := range an.Calls(fn, false) {
			if !an.IsBigIntMutator(c) || len(c.Common().Args) == 0 {
				continue
			}
			nDest++
			if why := sharedBigDest(p, fn, c.Common().Args[0]); why != "" {
				bad = append(bad, an.ObjString(an.CallObj(c))+" in "+an.FuncName(fn)+" at "+p.Pos(c.Pos())+" works in place on "+why)
			}
		}
		// no-alias-out
		res := fn.Signature.Results()
		for i := 0; i < res.Len(); i++ {
			if !isBigIntPtr(res.At(i).Type()) {
				continue
			}
			an.AllInstrs(fn, func(in ssa.Instruction) {
				ret, ok := in.(*ssa.Return)
				if !ok || i >= len(ret.Results) {
					return
				}
				nRet++
				if why := aliasOfParam(ret.Results[i], map[ssa.Value]bool{}); why != "" {
					bad = append(bad, an.FuncName(fn)+" returns at "+p.Pos(ret.Pos())+" "+why+": the caller receives a pointer into the record the amount came from, and adjusting it (the fee function subtracts in place) rewrites that record")
				}
			})
		}
	}
	// no-field-to-callback: the address of a big.Int field of a record (a balance read from the store) is not handed to
	// a function VALUE (a configured callback such as the fee function, which is entitled to work in place on its
	// argument): the record would be rewritten behind the code that goes on to use it
	for _, fn := range p.Repo {
		if p.IsTestFunc(fn) || isTestDoublePkg(fn) || strings.HasSuffix(p.File(fn.Pos()), "testsuite.go") {
			continue
		}
		an.AllInstrs(fn, func(in ssa.Instruction) {
			fa, ok := in.(*ssa.FieldAddr)
			if !ok || !isBigIntPtr(fa.Type()) {
				return
			}
			seen := map[ssa.Value]bool{}
			var fwd func(v ssa.Value)
			fwd = func(v ssa.Value) {
				if seen[v] || v.Referrers() == nil {
					return
				}
				seen[v] = true
				for _, ref := range *v.Referrers() {
					switch t := ref.(type) {
					case *ssa.Phi:
						fwd(t)
					case ssa.CallInstruction:
						cc := t.Common()
						if cc.IsInvoke() || cc.StaticCallee() != nil {
							continue
						}
						if _, isBuiltin := cc.Value.(*ssa.Builtin); isBuiltin {
							continue
						}
						for _, a := range cc.Args {
							if a == v {
								fname := "?"
								if fv := an.FieldOf(fa); fv != nil {
									fname = fv.Name()
								}
								bad = append(bad, an.FuncName(fn)+" hands the address of the record's own "+fname+" ("+p.Pos(fa.Pos())+") to a function value at "+p.Pos(t.Pos())+": a callback that adjusts its argument in place (the fee function does) rewrites the record the caller goes on to use")
							}
						}
					}
				}
			}
			fwd(fa)
		})
	}
	r.Floor("bigint-destinations", nDest, 10)
	_ = nRet
	r.Check(len(bad) == 0, "bigint-private", "repo", token.NoPos, "every in-place big.Int operation works on a value the function owns; no *big.Int result aliases a parameter's field", "%s", strings.Join(dedup(bad), "; "))
}

func isBigIntPtr(t types.Type) bool {
	pt, ok := t.(*types.Pointer)
	if !ok {
		return false
	}
	n, ok := pt.Elem().(*types.Named)
	return ok && n.Obj().Pkg() != nil && n.Obj().Pkg().Path() == "math/big" && n.Obj().Name() == "Int"
}

// aliasOfParam: v (a *big.Int) can be the address of a big.Int field of a parameter of the function.
func aliasOfParam(v ssa.Value, seen map[ssa.Value]bool) string {
	if seen[v] {
		return ""
	}
	seen[v] = true
	switch x := v.(type) {
	case *ssa.Phi:
		for _, e := range x.Edges {
			if why := aliasOfParam(e, seen); why != "" {
				return why
			}
		}
	case *ssa.FieldAddr:
		root, path := an.RootPath(x)
		if prm, ok := root.(*ssa.Parameter); ok {
			return "the address of " + prm.Name() + path
		}
		// the spill slot of a by-value parameter
		if al, ok := root.(*ssa.Alloc); ok {
			for _, ref := range *al.Referrers() {
				if st, ok := ref.(*ssa.Store); ok && st.Addr == ssa.Value(al) {
					if prm, ok := st.Val.(*ssa.Parameter); ok {
						return "the address of " + path + " in a copy of " + prm.Name() + " (the copy shares its digits)"
					}
				}
			}
		}
	case *ssa.Call:
		if an.IsBigIntMutator(x) && len(x.Call.Args) > 0 {
			return aliasOfParam(x.Call.Args[0], seen)
		}
	}
	return ""
}

// sharedBigDest: why the destination d of an in-place big.Int method is not provably private ("" when it is).
func sharedBigDest(p *an.Prog, fn *ssa.Function, d ssa.Value) string {
	if phi, ok := d.(*ssa.Phi); ok {
		for _, e := range phi.Edges {
			if _, again := e.(*ssa.Phi); again {
				continue
			}
			if why := sharedBigDest(p, fn, e); why != "" {
				return why
			}
		}
		return ""
	}
	root := bigRoot(d)
	_, path := an.RootPath(d)
	if c, ok := d.(*ssa.Call); ok && an.IsBigIntMutator(c) {
		_, path = an.RootPath(c.Call.Args[0])
	}
	inBalance := false
	for cur := d; ; {
		fa, ok := cur.(*ssa.FieldAddr)
		if !ok {
			break
		}
		if n := structOfFieldAccess(fa); n != nil && n.Obj().Pkg() != nil && n.Obj().Pkg().Path() == pkgStore && n.Obj().Name() == "Balance" {
			inBalance = true
		}
		cur = fa.X
	}
	switch x := root.(type) {
	case *ssa.Alloc:
		if x.Parent() != fn && fn.Parent() == nil {
			return ""
		}
		// a local: private unless it was assigned as a whole from somewhere else
		for _, ref := range *x.Referrers() {
			st, ok := ref.(*ssa.Store)
			if !ok || st.Addr != ssa.Value(x) {
				continue
			}
			if src := wholeCopySource(st.Val); src != "" {
				return "a record copied from " + src + " (the copy shares its digits with the original)"
			}
		}
		return ""
	case *ssa.Parameter:
		if path == "" && isBigIntPtr(x.Type()) {
			return "" // callee-owns convention: the caller hands over a value of its own (checked at no-alias-out and at the callers' allocation)
		}
		if inBalance {
			return "the balance " + x.Name() + path + " handed in by the caller (stored balances and the snapshots handed out share their digits)"
		}
		return "" // accumulator reached through a pointer (Stats)
	case *ssa.FreeVar:
		return ""
	case *ssa.UnOp:
		if x.Op == token.MUL {
			// a *big.Int loaded from memory: a pointer somebody else holds too
			r2, p2 := an.RootPath(x.X)
			if al, ok := r2.(*ssa.Alloc); ok && p2 == "" && al.Parent() == fn {
				// a local pointer variable: judge what was stored into it
				for _, ref := range *al.Referrers() {
					if st, ok := ref.(*ssa.Store); ok && st.Addr == ssa.Value(al) {
						if why := sharedBigDest(p, fn, st.Val); why != "" {
							return why
						}
					}
				}
				return ""
			}
			return "a *big.Int loaded from " + describeBigRoot(r2) + p2 + " (whoever was handed that pointer sees the change)"
		}
	case *ssa.Call:
		f := an.CallObj(x)
		if an.IsFunc(f, "math/big", "NewInt") {
			return ""
		}
		if callee := x.Call.StaticCallee(); callee != nil && p.InRepo(callee) {
			// a repo function returning *big.Int: fresh when it does not alias its parameters (no-alias-out) and
			// allocates
			return ""
		}
		return "the result of " + callName(x)
	case *ssa.Lookup:
		return "a map element"
	case *ssa.Extract:
		if _, ok := x.Tuple.(*ssa.Lookup); ok {
			return "a *big.Int kept in a map element (whoever was handed that pointer sees the change)"
		}
		return "a value returned by " + describeBigRoot(x.Tuple)
	case *ssa.Global:
		return "the package variable " + x.Name()
	}
	return ""
}

func describeBigRoot(v ssa.Value) string {
	switch x := v.(type) {
	case *ssa.Parameter:
		return x.Name()
	case *ssa.Global:
		return x.Name()
	case *ssa.Alloc:
		return "a local record"
	case *ssa.Call:
		return callName(x)
	}
	return v.Name()
}

// wholeCopySource: v, stored as a whole into a local record, comes from shared state.
func wholeCopySource(v ssa.Value) string {
	switch x := v.(type) {
	case *ssa.Parameter:
		if _, ok := x.Type().Underlying().(*types.Struct); ok {
			return "the parameter " + x.Name()
		}
	case *ssa.Lookup:
		return "a map element"
	case *ssa.Extract:
		switch t := x.Tuple.(type) {
		case *ssa.Lookup:
			return "a map element"
		case *ssa.Call:
			if _, ok := x.Type().Underlying().(*types.Struct); ok {
				return "the result of " + callName(t)
			}
		case *ssa.Next:
			return "an element ranged over"
		}
	case *ssa.Call:
		if _, ok := x.Type().Underlying().(*types.Struct); ok {
			return "the result of " + callName(x)
		}
	case *ssa.UnOp:
		if x.Op == token.MUL {
			if _, ok := x.Type().Underlying().(*types.Struct); ok {
				root, _ := an.RootPath(x.X)
				if _, isAlloc := root.(*ssa.Alloc); !isAlloc {
					return "a record loaded through " + describeBigRoot(root)
				}
			}
		}
	}
	return ""
}
