package rules

import (
	"go/token"
	"go/types"
	"sort"
	"strconv"
	"strings"
	"unicode"

	"golang.org/x/tools/go/ssa"

	"vipcheck/an"
)

// Generic discipline rules applied repo-wide (non-test code) and reported under every property whose code they touch.
// They come out of the mutation survey (tools/mutation_survey.py): single-token changes that the project's tests do not
// notice and that turn a check inside out rather than remove it.

// errPolarity: an error is handed back where it is known to be nil. `if err != nil { return err }` turned into
// `if err == nil { return err }` returns success early (skipping whatever the function was going to check or do) and
// carries on with the results of a call that failed. Reported: a return whose error result is the very value of a
// call's error on a branch controlled by that value being nil.
func errPolarity(p *an.Prog, want func(*ssa.Function) bool) (out []string, n int) {
	for _, fn := range p.Repo {
		if p.IsTestFunc(fn) || isTestDoublePkg(fn) || !want(fn) {
			continue
		}
		for _, c := range an.Calls(fn, false) {
			evs := an.ErrValues(c)
			if len(evs) == 0 {
				continue
			}
			u := an.ErrEdges(c)
			if len(u.Succ) == 0 {
				continue
			}
			n++
			succTargets := map[*ssa.BasicBlock]bool{}
			for _, e := range u.Succ {
				if len(e.To.Preds) == 1 {
					succTargets[e.To] = true
				}
			}
			an.AllInstrs(fn, func(in ssa.Instruction) {
				ret, ok := in.(*ssa.Return)
				if !ok || len(ret.Results) == 0 {
					return
				}
				rr := an.RetResults(ret)
				if len(rr) == 0 {
					return
				}
				last := rr[len(rr)-1]
				if !an.IsErrorType(last.Type()) {
					return
				}
				isEv := false
				for _, ev := range evs {
					if last == ev || wrapsValue(last, ev) {
						isEv = true // the error itself, or a literal / fmt.Errorf wrapping it
					}
				}
				if !isEv {
					return
				}
				for t := range succTargets {
					if t.Dominates(ret.Block()) {
						out = append(out, an.FuncName(fn)+" returns the error of "+callName(c)+" at "+p.Pos(ret.Pos())+" on the branch on which it is nil: the check is inverted — success is reported early and the failure case falls through to use the call's results")
					}
				}
			})
		}
	}
	return dedup(out), n
}

// earlyLoopExits: a loop that does work for each element of a collection (appends to a result, updates a map, starts a
// goroutine, calls something that can fail) is left by a `break` only under a count bound (len(result) >= limit): a
// break under any other condition — the `continue` of a filter turned into `break` — silently drops every element after
// the first one filtered out.
func earlyLoopExits(p *an.Prog, want func(*ssa.Function) bool) (out []string, n int) {
	for _, fn := range p.Repo {
		if p.IsTestFunc(fn) || isTestDoublePkg(fn) || !want(fn) {
			continue
		}
		for _, h := range fn.Blocks {
			isHeader := false
			for _, pr := range h.Preds {
				if h.Dominates(pr) {
					isHeader = true
				}
			}
			if !isHeader {
				continue
			}
			inLoopB := map[*ssa.BasicBlock]bool{}
			for _, b := range fn.Blocks {
				if h.Dominates(b) && an.ReachFrom([]*ssa.BasicBlock{b}, nil)[h] {
					inLoopB[b] = true
				}
			}
			inLoopB[h] = true
			var exitTo *ssa.BasicBlock
			for _, sc := range h.Succs {
				if !inLoopB[sc] {
					exitTo = sc
				}
			}
			if exitTo == nil {
				continue // for { ... }: no exhaustion exit
			}
			effectful := false
			for b := range inLoopB {
				for _, in := range b.Instrs {
					switch x := in.(type) {
					case *ssa.MapUpdate, *ssa.Go, *ssa.Send:
						effectful = true
					case ssa.CallInstruction:
						if bi, ok := x.Common().Value.(*ssa.Builtin); ok {
							if bi.Name() == "append" || bi.Name() == "delete" {
								effectful = true
							}
							continue
						}
						if u := an.ErrEdges(x); u.HasErr {
							effectful = true
						}
					}
				}
			}
			if !effectful {
				continue
			}
			n++
			for _, b := range fn.Blocks {
				if b == h || !h.Dominates(b) || b == exitTo {
					continue
				}
				// a block of the loop body (it reaches the header) or the block a `break` compiles to (it only jumps out)
				if !inLoopB[b] {
					fromBody := false
					for _, pr := range b.Preds {
						if inLoopB[pr] {
							fromBody = true
						}
					}
					if !fromBody || len(b.Succs) != 1 {
						continue
					}
				}
				for _, sc := range b.Succs {
					if sc != exitTo {
						continue
					}
					okBound := false
					for _, ci := range an.ControllingIfs(b) {
						if !h.Dominates(ci.If.Block()) || ci.If.Block() == h {
							continue
						}
						if rel, ok := an.BranchRel(ci.If, ci.Succ); ok && isCountBound(rel) {
							okBound = true
						}
					}
					// the break edge itself may be the If's edge
					if len(b.Instrs) > 0 {
						if iff, ok := b.Instrs[len(b.Instrs)-1].(*ssa.If); ok {
							for si, s2 := range b.Succs {
								if s2 == exitTo {
									if rel, ok := an.BranchRel(iff, si); ok && isCountBound(rel) {
										okBound = true
									}
								}
							}
						}
					}
					if !okBound {
						pos := token.NoPos
						for _, in := range b.Instrs {
							if in.Pos().IsValid() {
								pos = in.Pos()
							}
						}
						out = append(out, an.FuncName(fn)+" leaves its loop early near "+p.Pos(pos)+" under a condition that is not a count bound: every element after the first one that meets the condition is never visited (a filter's continue turned into break)")
					}
				}
			}
		}
	}
	return dedup(out), n
}

// cancelBeforeUse: a context made by context.WithTimeout/WithCancel/WithDeadline is cancelled (not deferred) on a path
// that goes on to use it: `defer cancel()` with the defer dropped cancels the context before the calls it was made for,
// which then all fail at once.
func cancelBeforeUse(p *an.Prog, want func(*ssa.Function) bool) (out []string, n int) {
	for _, fn := range p.Repo {
		if p.IsTestFunc(fn) || isTestDoublePkg(fn) || !want(fn) {
			continue
		}
		for _, c := range an.Calls(fn, false) {
			f := an.CallObj(c)
			if !(an.IsFunc(f, "context", "WithTimeout") || an.IsFunc(f, "context", "WithCancel") || an.IsFunc(f, "context", "WithDeadline")) {
				continue
			}
			cv := c.Value()
			if cv == nil {
				continue
			}
			var ctxV, cancelV ssa.Value
			for _, ref := range *cv.Referrers() {
				if ex, ok := ref.(*ssa.Extract); ok {
					if ex.Index == 0 {
						ctxV = ex
					} else {
						cancelV = ex
					}
				}
			}
			if ctxV == nil || cancelV == nil {
				continue
			}
			n++
			vals := map[ssa.Value]bool{ctxV: true}
			for _, ref := range *ctxV.Referrers() {
				if st, ok := ref.(*ssa.Store); ok && st.Val == ctxV {
					vals[st.Addr] = true
				}
			}
			cancels := map[ssa.Value]bool{cancelV: true}
			for _, ref := range *cancelV.Referrers() {
				if st, ok := ref.(*ssa.Store); ok && st.Val == cancelV {
					cancels[st.Addr] = true
				}
			}
			isCancelCall := func(in ssa.Instruction) bool {
				ci, ok := in.(ssa.CallInstruction)
				if !ok {
					return false
				}
				if _, isDefer := in.(*ssa.Defer); isDefer {
					return false
				}
				v := ci.Common().Value
				if cancels[v] {
					return true
				}
				if u, ok := v.(*ssa.UnOp); ok && u.Op == token.MUL && cancels[u.X] {
					return true
				}
				return false
			}
			usesCtx := func(in ssa.Instruction) bool {
				if _, isStore := in.(*ssa.Store); isStore {
					return false
				}
				if isCancelCall(in) {
					return false
				}
				var ops []*ssa.Value
				for _, op := range in.Operands(ops) {
					if op != nil && *op != nil && vals[*op] {
						if _, isDbg := in.(*ssa.DebugRef); !isDbg {
							return true
						}
					}
				}
				return false
			}
			an.AllInstrs(fn, func(in ssa.Instruction) {
				if !isCancelCall(in) {
					return
				}
				if hit := an.PathAvoiding(fn, in, nil, usesCtx, nil); hit != nil {
					out = append(out, an.FuncName(fn)+" cancels the context made at "+p.Pos(c.Pos())+" at "+p.Pos(in.Pos())+" and then goes on to use it ("+p.Pos(hit.Pos())+"): every call made with it fails at once")
				}
			})
		}
	}
	return dedup(out), n
}

// isCountBound: an integer comparison against a length or a constant (len(r) >= limit, limit == 0, i < n).
func isCountBound(rel an.Rel) bool {
	if rel.Kind != "int" {
		return false
	}
	for _, side := range []ssa.Value{rel.L, rel.R} {
		if _, isLen := an.LenOf(side); isLen {
			return true
		}
		if _, isK := an.ConstInt(side); isK {
			if b, ok := side.Type().Underlying().(*types.Basic); ok && b.Info()&types.IsInteger != 0 {
				return true
			}
		}
	}
	return false
}

func scopeWant(pkgs []string) func(fn *ssa.Function) bool {
	return func(fn *ssa.Function) bool {
		top := fn
		for top.Parent() != nil {
			top = top.Parent()
		}
		if top.Pkg == nil {
			return false
		}
		path := top.Pkg.Pkg.Path()
		for _, k := range pkgs {
			if k == "" && path == an.Module {
				return true
			}
			if k != "" && (strings.HasSuffix(path, "/"+k) || strings.Contains(path, "/"+k+"/")) {
				return true
			}
		}
		return len(pkgs) == 0
	}
}

// wrapsValue: v is an error built right around ev — a struct literal with ev in a field, or fmt.Errorf/errors wrapping
// with ev among its arguments (no phi in between).
func wrapsValue(v, ev ssa.Value) bool {
	switch x := v.(type) {
	case *ssa.MakeInterface:
		if ld, ok := x.X.(*ssa.UnOp); ok && ld.Op == token.MUL {
			if al, ok := ld.X.(*ssa.Alloc); ok {
				for _, ref := range *al.Referrers() {
					if fa, ok := ref.(*ssa.FieldAddr); ok {
						for _, r2 := range *fa.Referrers() {
							if st, ok := r2.(*ssa.Store); ok && st.Val == ev {
								return true
							}
						}
					}
				}
			}
		}
	case *ssa.Call:
		f := an.CallObj(x)
		if f == nil || f.Pkg() == nil || (f.Pkg().Path() != "fmt" && f.Pkg().Path() != "errors") {
			return false
		}
		for _, a := range x.Call.Args {
			if a == ev {
				return true
			}
			if els, ok := variadicElems(a); ok {
				for _, e := range els {
					if underlyingConcrete(e) == ev || e == ev {
						return true
					}
				}
			}
		}
	}
	return false
}

func checkErrPolarity(p *an.Prog, r *an.Run, pkgs ...string) {
	want := func(fn *ssa.Function) bool {
		top := fn
		for top.Parent() != nil {
			top = top.Parent()
		}
		if top.Pkg == nil {
			return false
		}
		path := top.Pkg.Pkg.Path()
		for _, k := range pkgs {
			if k == "" && path == an.Module {
				return true
			}
			if k != "" && (strings.HasSuffix(path, "/"+k) || strings.Contains(path, "/"+k+"/")) {
				return true
			}
		}
		return len(pkgs) == 0
	}
	bad, n := errPolarity(p, want)
	r.Floor("checked-error-calls", n, 3)
	r.Check(len(bad) == 0, "err-polarity", strings.Join(pkgs, ","), token.NoPos, "no error is returned on the branch on which it is nil", "%s", strings.Join(bad, "; "))
}

var _ = types.Identical

// genericScope: the packages whose code each property rests on ("" is the main package).
var genericScope = map[string][]string{
	"C01": {"pool/balance", "pool/payment", "pool/store", "pool", ""},
	"C02": {"pool/balance", "pool/store", "pool", ""},
	"C03": {"pool/balance", "pool/payment", "pool", "internal/pretty", ""},
	"C04": {"request", "pool", "pool/payment", ""},
	"C05": {"request", "pool", "pool/payment", "pool/store", ""},
	"C06": {"request", "pool", "pool/payment", "pool/store", ""},
	"C07": {"pool/payment", "pool/store", ""},
	"C08": {"pool", "pool/store", ""},
	"C09": {"pool", ""},
	"C10": {"pool", "pool/balance", "pool/payment", "pool/store", "jsonrpc2", "request", ""},
	"C11": {"pool/store", "pool", ""},
	"C12": {"pool/store", ""},
	"C13": {"pool/store", ""},
	"C14": {"jsonrpc2", ""},
	"C15": {"jsonrpc2", "request", "pool", "pool/payment", "pool/store", "ethnode", ""},
	"C16": {"jsonrpc2", ""},
	"C17": {"jsonrpc2", ""},
	"C18": {"agent", "ethnode", ""},
	"C19": {"pool", "jsonrpc2", ""},
	"C20": {"agent", "pool", ""},
}

// trimCutsetMisuse: strings/bytes Trim, TrimLeft and TrimRight take a SET of characters. A cutset that spells a word
// ("0x", "enode://", a key prefix turned into a string) is a prefix or suffix mistaken for a set: it also eats the
// leading or trailing characters of the payload that happen to be in the set. Flagged: a constant cutset of two or more
// characters that contains a letter, and any non-constant cutset.
func trimCutsetMisuse(p *an.Prog, want func(*ssa.Function) bool) (out []string, n int) {
	for _, fn := range p.Repo {
		if p.IsTestFunc(fn) || isTestDoublePkg(fn) || !want(fn) {
			continue
		}
		for _, c := range an.Calls(fn, false) {
			f := an.CallObj(c)
			if f == nil || f.Pkg() == nil || (f.Pkg().Path() != "strings" && f.Pkg().Path() != "bytes") {
				continue
			}
			if nm := f.Name(); nm != "Trim" && nm != "TrimLeft" && nm != "TrimRight" {
				continue
			}
			args := c.Common().Args
			if len(args) != 2 {
				continue
			}
			n++
			cut, isConst := an.ConstString(args[1])
			word := !isConst
			if isConst && len([]rune(cut)) >= 2 {
				for _, ch := range cut {
					if unicode.IsLetter(ch) {
						word = true
					}
				}
			}
			if word {
				what := "a computed cutset"
				if isConst {
					what = "the cutset " + strconv.Quote(cut)
				}
				out = append(out, an.FuncName(fn)+" calls "+f.Pkg().Name()+"."+f.Name()+" with "+what+" at "+p.Pos(c.Pos())+": the argument is a set of characters, not a prefix or suffix; payload characters in the set are eaten as well (TrimPrefix/TrimSuffix cut exactly one occurrence)")
			}
		}
	}
	return out, n
}

// goCapturesLive: a goroutine started with a closure shares the closure's captured variables with its spawner. When the
// spawner can write such a variable again after the go statement (the variable lives outside the loop that spawns, and
// the next iteration assigns it), the goroutine reads whatever the spawner has put there by the time it runs: the next
// message instead of its own, or a half-written value. The path from the go statement to the write must not pass the
// variable's own declaration (a per-iteration variable is a new one each time round).
func goCapturesLive(p *an.Prog, want func(*ssa.Function) bool) (out []string, n int) {
	for _, fn := range p.Repo {
		if p.IsTestFunc(fn) || isTestDoublePkg(fn) || !want(fn) {
			continue
		}
		an.AllInstrs(fn, func(in ssa.Instruction) {
			g, ok := in.(*ssa.Go)
			if !ok {
				return
			}
			n++
			var closures []*ssa.MakeClosure
			if mc, ok := g.Call.Value.(*ssa.MakeClosure); ok {
				closures = append(closures, mc)
			}
			for _, a := range g.Call.Args {
				if mc, ok := a.(*ssa.MakeClosure); ok {
					closures = append(closures, mc)
				}
			}
			for _, mc := range closures {
				cfn, _ := mc.Fn.(*ssa.Function)
				for i, b := range mc.Bindings {
					al, ok := b.(*ssa.Alloc)
					if !ok {
						continue
					}
					// does the goroutine read it?
					reads := false
					if cfn != nil && i < len(cfn.FreeVars) {
						for _, ref := range *cfn.FreeVars[i].Referrers() {
							if u, ok := ref.(*ssa.UnOp); ok && u.Op == token.MUL {
								reads = true
							}
						}
					}
					if !reads {
						continue
					}
					isWrite := func(x ssa.Instruction) bool {
						st, ok := x.(*ssa.Store)
						return ok && st.Addr == ssa.Value(al)
					}
					isDecl := func(x ssa.Instruction) bool { return x == ssa.Instruction(al) }
					if hit := an.PathAvoiding(fn, g, isDecl, isWrite, nil); hit != nil {
						nm := al.Comment
						if nm == "" {
							nm = "a variable"
						}
						out = append(out, an.FuncName(fn)+": the goroutine started at "+p.Pos(g.Pos())+" reads the captured variable "+nm+", which the spawner assigns again at "+p.Pos(hit.Pos())+" while the goroutine may not have run yet: it can act on a later value than the one it was started for (or a nil one)")
					}
				}
			}
		})
	}
	return out, n
}

// sharedResults: a method of a lock-guarded type (a struct with a sync.Mutex or RWMutex field) never returns a slice or
// map that is the guarded object's own storage: a slice or map field as it stands, or the bytes of a bytes.Buffer field
// (possibly re-sliced or trimmed). The caller uses the result after the method has released the lock, while the next
// call rewrites that storage.
func sharedResults(p *an.Prog, want func(*ssa.Function) bool) (out []string, n int) {
	hasLock := func(t types.Type) bool {
		if pt, ok := t.(*types.Pointer); ok {
			t = pt.Elem()
		}
		st, ok := t.Underlying().(*types.Struct)
		if !ok {
			return false
		}
		for i := 0; i < st.NumFields(); i++ {
			if n := namedOf(st.Field(i).Type()); n != nil && n.Obj().Pkg() != nil && n.Obj().Pkg().Path() == "sync" && (n.Obj().Name() == "Mutex" || n.Obj().Name() == "RWMutex") {
				return true
			}
		}
		return false
	}
	for _, fn := range p.Repo {
		if p.IsTestFunc(fn) || isTestDoublePkg(fn) || !want(fn) || fn.Parent() != nil || fn.Signature.Recv() == nil || len(fn.Params) == 0 || len(fn.Blocks) == 0 {
			continue
		}
		if !hasLock(fn.Signature.Recv().Type()) {
			continue
		}
		recv := fn.Params[0]
		fromRecv := func(addr ssa.Value) bool {
			root, _ := an.RootPath(addr)
			if root == ssa.Value(recv) {
				return true
			}
			if u, ok := root.(*ssa.UnOp); ok && u.Op == token.MUL {
				return an.Unspill(u) == ssa.Value(recv)
			}
			return false
		}
		an.AllInstrs(fn, func(in ssa.Instruction) {
			ret, ok := in.(*ssa.Return)
			if !ok || (fn.Recover != nil && ret.Block() == fn.Recover) {
				return
			}
			for _, res := range an.RetResults(ret) {
				switch res.Type().Underlying().(type) {
				case *types.Slice, *types.Map:
				default:
					continue
				}
				n++
				seen := map[ssa.Value]bool{}
				var walk func(v ssa.Value)
				walk = func(v ssa.Value) {
					if v == nil || seen[v] {
						return
					}
					seen[v] = true
					switch t := v.(type) {
					case *ssa.Phi:
						for _, e := range t.Edges {
							walk(e)
						}
					case *ssa.Slice:
						walk(t.X)
					case *ssa.ChangeType:
						walk(t.X)
					case *ssa.Call:
						f := an.CallObj(t)
						if b, ok := t.Call.Value.(*ssa.Builtin); ok && an.Ident(b.Name()) == "append" {
							walk(t.Call.Args[0])
							return
						}
						if f == nil || f.Pkg() == nil {
							return
						}
						if an.IsMethod(f, "bytes", "Buffer", "Bytes") && len(t.Call.Args) == 1 && fromRecv(t.Call.Args[0]) {
							out = append(out, an.FuncName(fn)+" returns at "+p.Pos(ret.Pos())+" the bytes of its own buffer field ("+p.Pos(t.Pos())+"): the caller reads them after the lock is released, while the next call resets and refills the buffer")
							return
						}
						if f.Pkg().Path() == "bytes" && strings.HasPrefix(f.Name(), "Trim") && len(t.Call.Args) > 0 {
							walk(t.Call.Args[0]) // the Trim family returns a sub-slice of its argument
						}
					case *ssa.UnOp:
						if t.Op != token.MUL {
							return
						}
						if _, isFA := t.X.(*ssa.FieldAddr); isFA && fromRecv(t.X) {
							fname := "?"
							if fv := an.FieldOf(t.X); fv != nil {
								fname = fv.Name()
							}
							out = append(out, an.FuncName(fn)+" returns at "+p.Pos(ret.Pos())+" the storage of its own field "+fname+" ("+p.Pos(t.Pos())+"): the caller uses it after the lock is released, while other calls go on changing it")
							return
						}
						if al, ok := t.X.(*ssa.Alloc); ok {
							for _, ref := range *al.Referrers() {
								if st, ok := ref.(*ssa.Store); ok && st.Addr == ssa.Value(al) {
									walk(st.Val)
								}
							}
						}
					}
				}
				walk(res)
			}
		})
	}
	return out, n
}

// pooledEscapes: an object taken from a sync.Pool and put back by the same function (directly or by defer) is the next
// taker's from that moment on. Nothing that refers into it may outlive the function: not the object, not the bytes of a
// pooled buffer (Bytes(), re-sliced or trimmed), stored into a longer-lived object or returned. (String() copies and is
// fine.) A reply whose Result points into a pooled buffer is rewritten by the next request before it has been sent.
func pooledEscapes(p *an.Prog, want func(*ssa.Function) bool) (out []string, n int) {
	for _, fn := range p.Repo {
		if p.IsTestFunc(fn) || isTestDoublePkg(fn) || !want(fn) {
			continue
		}
		for _, c := range an.Calls(fn, false) {
			if !an.IsMethod(an.CallObj(c), "sync", "Pool", "Get") || c.Value() == nil {
				continue
			}
			n++
			// the object and everything that points into it
			inside := map[ssa.Value]bool{c.Value(): true}
			var escapes []ssa.Instruction
			put := false
			work := []ssa.Value{c.Value()}
			for len(work) > 0 {
				v := work[len(work)-1]
				work = work[:len(work)-1]
				if v.Referrers() == nil {
					continue
				}
				for _, ref := range *v.Referrers() {
					switch t := ref.(type) {
					case *ssa.TypeAssert, *ssa.Phi, *ssa.Slice, *ssa.ChangeType, *ssa.Convert, *ssa.MakeInterface, *ssa.Extract, *ssa.FieldAddr, *ssa.IndexAddr:
						tv := t.(ssa.Value)
						if _, isStr := tv.Type().Underlying().(*types.Basic); isStr {
							continue // converted to a string: a copy
						}
						if !inside[tv] {
							inside[tv] = true
							work = append(work, tv)
						}
					case *ssa.UnOp:
						if t.Op == token.MUL && !inside[t] {
							switch t.Type().Underlying().(type) {
							case *types.Slice, *types.Map, *types.Pointer:
								inside[t] = true
								work = append(work, t)
							}
						}
					case ssa.CallInstruction:
						f := an.CallObj(t)
						if an.IsMethod(f, "sync", "Pool", "Put") {
							put = true
							continue
						}
						if f == nil || f.Pkg() == nil || t.Value() == nil {
							continue
						}
						cv := t.Value()
						isBytes := an.IsMethod(f, "bytes", "Buffer", "Bytes") || (f.Pkg().Path() == "bytes" && strings.HasPrefix(f.Name(), "Trim") && len(t.Common().Args) > 0 && t.Common().Args[0] == v)
						if isBytes && !inside[cv] {
							inside[cv] = true
							work = append(work, cv)
						}
					case *ssa.Store:
						if t.Val == v {
							if al, isAlloc := t.Addr.(*ssa.Alloc); isAlloc && !al.Heap {
								// a local variable holding it: follow its loads
								if !inside[al] {
									inside[al] = true
									for _, lr := range *al.Referrers() {
										if ld, ok := lr.(*ssa.UnOp); ok && ld.Op == token.MUL && !inside[ld] {
											inside[ld] = true
											work = append(work, ld)
										}
									}
								}
								continue
							}
							escapes = append(escapes, t)
						}
					case *ssa.Return:
						escapes = append(escapes, t)
					}
				}
			}
			if !put {
				continue
			}
			for _, e := range escapes {
				what := "is stored into a longer-lived object"
				if _, isRet := e.(*ssa.Return); isRet {
					what = "is returned"
				}
				out = append(out, an.FuncName(fn)+" puts the object taken from the pool at "+p.Pos(c.Pos())+" back, yet something that points into it "+what+" at "+p.Pos(e.Pos())+": the next taker rewrites it while it is still in use")
			}
		}
	}
	return out, n
}

// lockCopies: a struct that holds a sync.Mutex, RWMutex, WaitGroup, Once or Cond by value is never copied: no method has
// it as a value receiver, no whole-struct load copies it (what `go vet -copylocks` reports; the project runs its suite
// with -vet=off). The copy has its own lock — whoever locks it excludes nobody — and, taken while the original is
// locked, stays locked for ever.
func lockCopies(p *an.Prog, want func(*ssa.Function) bool) (out []string, n int) {
	var holdsLock func(t types.Type, depth int) bool
	holdsLock = func(t types.Type, depth int) bool {
		if depth > 4 {
			return false
		}
		if nm, ok := t.(*types.Named); ok && nm.Obj().Pkg() != nil && nm.Obj().Pkg().Path() == "sync" {
			switch nm.Obj().Name() {
			case "Mutex", "RWMutex", "WaitGroup", "Once", "Cond", "Map", "Pool":
				return true
			}
		}
		st, ok := t.Underlying().(*types.Struct)
		if !ok {
			return false
		}
		for i := 0; i < st.NumFields(); i++ {
			if holdsLock(st.Field(i).Type(), depth+1) {
				return true
			}
		}
		return false
	}
	for _, fn := range p.Repo {
		if p.IsTestFunc(fn) || isTestDoublePkg(fn) || !want(fn) || fn.Synthetic != "" {
			continue
		}
		n++
		if rc := fn.Signature.Recv(); rc != nil && fn.Parent() == nil {
			if _, isPtr := rc.Type().(*types.Pointer); !isPtr && holdsLock(rc.Type(), 0) {
				out = append(out, an.FuncName(fn)+" has a value receiver of a type that holds a lock: every call works on a copy of the object, lock included")
			}
		}
		an.AllInstrs(fn, func(in ssa.Instruction) {
			u, ok := in.(*ssa.UnOp)
			if !ok || u.Op != token.MUL {
				return
			}
			if _, isStruct := u.Type().Underlying().(*types.Struct); !isStruct || !holdsLock(u.Type(), 0) {
				return
			}
			out = append(out, an.FuncName(fn)+" copies a "+types.TypeString(u.Type(), nil)+" (which holds a lock) at "+p.Pos(u.Pos()))
		})
	}
	return out, n
}

// paramBackingWrites: the in-place filter idiom r := xs[:0]; r = append(r, x) writes into the backing array of xs. On a
// slice PARAMETER that is the caller's array: unless every caller drops its own slice in favour of the result, the
// caller goes on reading elements that have been overwritten (a "which of the invalid peers are still listed" helper
// written this way for a log line reorders and duplicates the invalid list that is sent to the agent afterwards).
// Flagged: append whose destination is a re-slice, shorter at the front (x[:k]), of a slice parameter of the function,
// when some caller uses the argument it passed after the call.
func paramBackingWrites(p *an.Prog, want func(*ssa.Function) bool) (out []string, n int) {
	for _, fn := range p.Repo {
		if p.IsTestFunc(fn) || isTestDoublePkg(fn) || !want(fn) || fn.Parent() != nil {
			continue
		}
		for _, c := range an.Calls(fn, false) {
			b, ok := c.Common().Value.(*ssa.Builtin)
			if !ok || an.Ident(b.Name()) != "append" || len(c.Common().Args) == 0 {
				continue
			}
			// destination: phi over (param[:k], append results)
			var prm *ssa.Parameter
			seen := map[ssa.Value]bool{}
			var walk func(v ssa.Value)
			walk = func(v ssa.Value) {
				if v == nil || seen[v] {
					return
				}
				seen[v] = true
				switch t := v.(type) {
				case *ssa.Phi:
					for _, e := range t.Edges {
						walk(e)
					}
				case *ssa.Slice:
					if pp, isP := t.X.(*ssa.Parameter); isP && t.High != nil {
						prm = pp
					}
				case *ssa.Call:
					if bb, ok := t.Call.Value.(*ssa.Builtin); ok && an.Ident(bb.Name()) == "append" {
						walk(t.Call.Args[0])
					}
				}
			}
			walk(c.Common().Args[0])
			if prm == nil {
				continue
			}
			n++
			idx := -1
			for i, x := range fn.Params {
				if x == prm {
					idx = i
				}
			}
			for _, site := range p.StaticSites(fn) {
				if idx < 0 || idx >= len(site.Common().Args) || p.IsTestFunc(site.Parent()) {
					continue
				}
				arg := site.Common().Args[idx]
				// is the argument used after the call?
				usedAfter := false
				if arg.Referrers() != nil {
					for _, ref := range *arg.Referrers() {
						if ref == site.(ssa.Instruction) {
							continue
						}
						if an.PathAvoiding(site.Parent(), site.(ssa.Instruction), nil, func(x ssa.Instruction) bool { return x == ref }, nil) != nil {
							usedAfter = true
						}
					}
				}
				if usedAfter {
					out = append(out, an.FuncName(fn)+" appends into a re-slice of its parameter "+prm.Name()+" ("+p.Pos(c.Pos())+"), i.e. into its caller's array; "+an.FuncName(site.Parent())+" goes on using the slice it passed after the call at "+p.Pos(site.Pos())+": its elements have been overwritten")
				}
			}
		}
	}
	return out, n
}

// impureStringers: the methods the fmt / log / json machinery calls on a value it is asked to render — String, Error,
// GoString, Format, MarshalJSON, MarshalText — leave the value alone. One that writes through its pointer receiver (or a
// pointer converted from it) changes the object every time somebody logs it: with logging on, the program computes with
// other values than with logging off.
func impureStringers(p *an.Prog, want func(*ssa.Function) bool) (out []string, n int) {
	names := map[string]bool{"String": true, "Error": true, "GoString": true, "Format": true, "MarshalJSON": true, "MarshalText": true}
	for _, fn := range p.Repo {
		if p.IsTestFunc(fn) || isTestDoublePkg(fn) || !want(fn) || fn.Parent() != nil || fn.Signature.Recv() == nil || !names[fn.Name()] || len(fn.Params) == 0 {
			continue
		}
		if _, isPtr := fn.Signature.Recv().Type().(*types.Pointer); !isPtr {
			continue
		}
		n++
		recv := fn.Params[0]
		for _, w := range writesOf(fn) {
			root := w.Root
			for {
				if ct, ok := root.(*ssa.ChangeType); ok {
					root = ct.X
					continue
				}
				if cv, ok := root.(*ssa.Convert); ok {
					root = cv.X
					continue
				}
				break
			}
			if root == ssa.Value(recv) {
				out = append(out, an.FuncName(fn)+" writes to its receiver at "+p.Pos(w.In.Pos())+" ("+w.Kind+"): rendering the value for a log line changes it")
			}
		}
	}
	return out, n
}

// loopDecodeReuse: encoding/json and encoding/gob leave what the input omits alone. A decode inside a loop into a
// variable declared outside it therefore gives every element the members its predecessor had and it lacks (a batch
// entry without "params" runs with the previous entry's params). Flagged: a Decode/Unmarshal call on a cycle whose
// target is a local declared off that cycle and not re-assigned as a whole inside it.
func loopDecodeReuse(p *an.Prog, want func(*ssa.Function) bool) (out []string, n int) {
	for _, fn := range p.Repo {
		if p.IsTestFunc(fn) || isTestDoublePkg(fn) || !want(fn) {
			continue
		}
		for _, c := range an.Calls(fn, false) {
			f := an.CallObj(c)
			isDec := an.IsMethod(f, "encoding/json", "Decoder", "Decode") || an.IsFunc(f, "encoding/json", "Unmarshal") || an.IsMethod(f, "encoding/gob", "Decoder", "Decode")
			in, ok := c.(ssa.Instruction)
			if !isDec || !ok || !onCycle(in.Block()) {
				continue
			}
			n++
			args := c.Common().Args
			t := args[len(args)-1]
			if mi, ok := t.(*ssa.MakeInterface); ok {
				t = mi.X
			}
			root, _ := an.RootPath(t)
			al, ok := root.(*ssa.Alloc)
			if !ok || al.Parent() != fn || onCycle(al.Block()) {
				continue
			}
			// re-assigned as a whole inside the loop (x = T{}) before the decode?
			reset := false
			for _, ref := range *al.Referrers() {
				if st, ok := ref.(*ssa.Store); ok && st.Addr == ssa.Value(al) && onCycle(st.Block()) {
					reset = true
				}
			}
			if reset {
				continue
			}
			out = append(out, an.FuncName(fn)+" decodes inside a loop ("+p.Pos(c.Pos())+") into "+al.Comment+", declared outside it ("+p.Pos(al.Pos())+"): members an element omits keep the previous element's values")
		}
	}
	return out, n
}

// responseOutlivesContext: a function that makes a context, defers its cancel and returns an *http.Response obtained
// under that context hands its caller a body that net/http closes the moment the function returns: whatever did not
// arrive together with the headers is never read (small replies work, large ones fail with "context canceled").
func responseOutlivesContext(p *an.Prog, want func(*ssa.Function) bool) (out []string, n int) {
	for _, fn := range p.Repo {
		if p.IsTestFunc(fn) || isTestDoublePkg(fn) || !want(fn) {
			continue
		}
		deferredCancel := false
		an.AllInstrs(fn, func(in ssa.Instruction) {
			df, ok := in.(*ssa.Defer)
			if !ok {
				return
			}
			for _, nd := range p.Derives(0, df.Call.Value).Nodes {
				if c, ok := nd.(*ssa.Call); ok {
					if g := an.CallObj(c); g != nil && g.Pkg() != nil && g.Pkg().Path() == "context" && strings.HasPrefix(g.Name(), "With") {
						deferredCancel = true
					}
				}
			}
		})
		if !deferredCancel {
			continue
		}
		n++
		res := fn.Signature.Results()
		for i := 0; i < res.Len(); i++ {
			if pt, ok := res.At(i).Type().(*types.Pointer); ok {
				if nm := namedOf(pt.Elem()); nm != nil && nm.Obj().Pkg() != nil && nm.Obj().Pkg().Path() == "net/http" && nm.Obj().Name() == "Response" {
					out = append(out, an.FuncName(fn)+" returns an *http.Response while deferring the cancel of the context it made for the request: the body is closed under the caller's hands as soon as this function returns")
				}
			}
		}
	}
	return out, n
}

// closureCapturesLoopVar: a closure made inside a loop and kept for later (appended, stored, deferred — not just called
// on the spot) that reads a variable which lives outside the loop body and is assigned on every turn sees, when it
// finally runs, the value of the LAST turn. (Under go.mod's language version a `for _, x := range` variable is one
// variable for the whole loop; go/ssa models that: its cell is allocated outside the cycle.)
func closureCapturesLoopVar(p *an.Prog, want func(*ssa.Function) bool) (out []string, n int) {
	for _, fn := range p.Repo {
		if p.IsTestFunc(fn) || isTestDoublePkg(fn) || !want(fn) {
			continue
		}
		an.AllInstrs(fn, func(in ssa.Instruction) {
			mc, ok := in.(*ssa.MakeClosure)
			if !ok || !onCycle(mc.Block()) {
				return
			}
			n++
			// kept for later?
			kept := false
			for _, ref := range *mc.Referrers() {
				switch t := ref.(type) {
				case *ssa.Call:
					if t.Call.Value != ssa.Value(mc) {
						kept = true // handed to something (append, a registry)
					}
				case *ssa.Go:
					// judged by go-captures-live
				case *ssa.Defer:
					kept = true
				default:
					kept = true
				}
			}
			if !kept {
				return
			}
			cfn, _ := mc.Fn.(*ssa.Function)
			for i, b := range mc.Bindings {
				al, ok := b.(*ssa.Alloc)
				if !ok || onCycle(al.Block()) {
					continue
				}
				assignedInLoop := false
				for _, ref := range *al.Referrers() {
					if st, ok := ref.(*ssa.Store); ok && st.Addr == ssa.Value(al) && onCycle(st.Block()) {
						assignedInLoop = true
					}
				}
				reads := false
				if cfn != nil && i < len(cfn.FreeVars) {
					for _, ref := range *cfn.FreeVars[i].Referrers() {
						if u, ok := ref.(*ssa.UnOp); ok && u.Op == token.MUL {
							reads = true
						}
						if _, ok := ref.(*ssa.FieldAddr); ok {
							reads = true
						}
					}
				}
				if assignedInLoop && reads {
					out = append(out, an.FuncName(fn)+": the closure made at "+p.Pos(mc.Pos())+" and kept for later reads "+al.Comment+", which every turn of the loop assigns: when it runs it sees the last turn's value")
				}
			}
		})
	}
	return out, n
}

// fieldBackingAppends: append(x.f[:k], ...) writes into the backing array of the slice kept in x.f. When x is a parameter
// or receiver (by value or by pointer: a copied struct shares the array), every caller holding the same object writes into
// the same array: two concurrent dispatches of one jsonrpc2.Method overwrite each other's arguments.
func fieldBackingAppends(p *an.Prog, want func(*ssa.Function) bool) (out []string, n int) {
	for _, fn := range p.Repo {
		if p.IsTestFunc(fn) || isTestDoublePkg(fn) || !want(fn) {
			continue
		}
		li := an.Locksets(fn, nil)
		for _, c := range an.Calls(fn, false) {
			b, ok := c.Common().Value.(*ssa.Builtin)
			if !ok || an.Ident(b.Name()) != "append" || len(c.Common().Args) == 0 {
				continue
			}
			sl, ok := c.Common().Args[0].(*ssa.Slice)
			if !ok || sl.High == nil {
				continue
			}
			var fv *types.Var
			var root ssa.Value
			switch x := sl.X.(type) {
			case *ssa.UnOp:
				if x.Op == token.MUL {
					fv = an.FieldOf(x.X)
					root, _ = an.RootPath(x.X)
				}
			case *ssa.Field:
				fv = an.FieldOf(x)
				root = x.X
			}
			if fv == nil || root == nil {
				continue
			}
			if u, isLoad := root.(*ssa.UnOp); isLoad {
				root = an.Unspill(u)
			}
			if _, isPrm := root.(*ssa.Parameter); !isPrm {
				continue
			}
			n++
			if len(li.Before[c.(ssa.Instruction)]) > 0 {
				continue // under a lock: the owner's rules decide
			}
			out = append(out, an.FuncName(fn)+" appends into a re-slice of the field "+fv.Name()+" of its receiver/parameter ("+p.Pos(c.Pos())+") with no lock held: every holder of that object (copies included, they share the array) writes the same storage")
		}
	}
	return out, n
}

// RunGeneric evaluates the generic discipline rules for one property over its scope.
func RunGeneric(prop string, p *an.Prog, r *an.Run) {
	pk := genericScope[prop]
	if len(pk) == 0 {
		return
	}
	checkErrPolarity(p, r, pk...)
	ex, nLoops := earlyLoopExits(p, scopeWant(pk))
	r.Floor("effectful-loops", nLoops, 1)
	cb, _ := cancelBeforeUse(p, scopeWant(pk))
	r.Check(len(cb) == 0, "cancel-after-use", strings.Join(pk, ","), token.NoPos, "no context is cancelled ahead of its use", "%s", strings.Join(cb, "; "))
	gl, _ := goCapturesLive(p, scopeWant(pk))
	r.Check(len(gl) == 0, "go-captures-live", strings.Join(pk, ","), token.NoPos, "no goroutine reads a captured variable its spawner goes on to assign", "%s", strings.Join(gl, "; "))
	var rl []string
	nLockFns := 0
	for _, fn := range p.Repo {
		if p.IsTestFunc(fn) || isTestDoublePkg(fn) || !scopeWant(pk)(fn) {
			continue
		}
		nLockFns++
		for _, x := range p.Relocks(fn) {
			via := "directly"
			if x.Via != nil {
				via = "inside " + an.FuncName(x.Via)
			}
			rl = append(rl, an.FuncName(fn)+" acquires "+string(x.Key)+" "+via+" at "+p.Pos(x.At.Pos())+" while already holding it: sync mutexes are not reentrant, the goroutine blocks on itself and every other user of the mutex behind it")
		}
	}
	// ... and through formatting: a value handed to a fmt/log style call (variadic ...interface{}) is rendered by its
	// String / Error / Format / GoString / MarshalJSON / MarshalText method; when that method takes a lock the caller
	// holds, the log line never returns (and the lock stays taken)
	for _, fn := range p.Repo {
		if p.IsTestFunc(fn) || isTestDoublePkg(fn) || !scopeWant(pk)(fn) {
			continue
		}
		li := an.Locksets(fn, nil)
		for _, c := range an.Calls(fn, false) {
			h := li.Before[c.(ssa.Instruction)]
			if len(h) == 0 || len(c.Common().Args) == 0 {
				continue
			}
			if _, isGo := c.(*ssa.Go); isGo {
				continue
			}
			els, ok := variadicElems(c.Common().Args[len(c.Common().Args)-1])
			if !ok {
				continue
			}
			for _, e := range els {
				mi, ok := e.(*ssa.MakeInterface)
				if !ok {
					continue
				}
				mset := types.NewMethodSet(mi.X.Type())
				for _, name := range []string{"String", "Error", "Format", "GoString", "MarshalJSON", "MarshalText"} {
					sel := mset.Lookup(nil, name)
					if sel == nil {
						continue
					}
					mf := p.SSA.FuncValue(sel.Obj().(*types.Func))
					if mf == nil || !p.InRepo(mf) {
						continue
					}
					for k, w := range p.AcquiresOf(mf, 3) {
						tk, ok := an.TranslateKey(k, []ssa.Value{mi.X})
						if !ok {
							continue
						}
						if hw, held := h[tk]; held && (hw || w) {
							rl = append(rl, an.FuncName(fn)+" formats a value at "+p.Pos(c.Pos())+" whose "+name+" method ("+an.FuncName(mf)+") takes "+string(tk)+", which is held at that point: the goroutine blocks on itself as soon as the line is actually rendered")
						}
					}
				}
			}
		}
	}
	sort.Strings(rl)
	r.Check(len(rl) == 0 && nLockFns > 0, "no-relock", strings.Join(pk, ","), token.NoPos, "no mutex is acquired by a goroutine that already holds it", "%s", strings.Join(dedup(rl), "; "))
	sr, _ := sharedResults(p, scopeWant(pk))
	r.Check(len(sr) == 0, "shared-result", strings.Join(pk, ","), token.NoPos, "no method of a lock-guarded type returns the guarded storage itself", "%s", strings.Join(sr, "; "))
	pe, _ := pooledEscapes(p, scopeWant(pk))
	r.Check(len(pe) == 0, "pooled-escape", strings.Join(pk, ","), token.NoPos, "nothing that points into a pooled object outlives the function that puts it back", "%s", strings.Join(dedup(pe), "; "))
	lc, _ := lockCopies(p, scopeWant(pk))
	r.Check(len(lc) == 0, "lock-copy", strings.Join(pk, ","), token.NoPos, "no object that holds a lock is copied", "%s", strings.Join(dedup(lc), "; "))
	pb, _ := paramBackingWrites(p, scopeWant(pk))
	r.Check(len(pb) == 0, "param-backing-write", strings.Join(pk, ","), token.NoPos, "no helper filters its caller's slice in place while the caller still uses it", "%s", strings.Join(dedup(pb), "; "))
	is, _ := impureStringers(p, scopeWant(pk))
	r.Check(len(is) == 0, "pure-stringer", strings.Join(pk, ","), token.NoPos, "String/Error/Marshal methods do not write to their receiver", "%s", strings.Join(dedup(is), "; "))
	ld, _ := loopDecodeReuse(p, scopeWant(pk))
	r.Check(len(ld) == 0, "loop-decode-reuse", strings.Join(pk, ","), token.NoPos, "no decode in a loop reuses a target declared outside it", "%s", strings.Join(dedup(ld), "; "))
	ro, _ := responseOutlivesContext(p, scopeWant(pk))
	r.Check(len(ro) == 0, "response-outlives-context", strings.Join(pk, ","), token.NoPos, "no *http.Response is returned past the deferred cancel of its request's context", "%s", strings.Join(dedup(ro), "; "))
	cl, _ := closureCapturesLoopVar(p, scopeWant(pk))
	r.Check(len(cl) == 0, "closure-loop-var", strings.Join(pk, ","), token.NoPos, "no closure kept for later reads a variable the loop assigns on every turn", "%s", strings.Join(dedup(cl), "; "))
	fb, _ := fieldBackingAppends(p, scopeWant(pk))
	r.Check(len(fb) == 0, "field-backing-append", strings.Join(pk, ","), token.NoPos, "no unlocked append into a re-slice of a field of the receiver or a parameter", "%s", strings.Join(dedup(fb), "; "))
	tc, _ := trimCutsetMisuse(p, scopeWant(pk))
	r.Check(len(tc) == 0, "trim-cutset", strings.Join(pk, ","), token.NoPos, "no Trim/TrimLeft/TrimRight is given a word for a cutset", "%s", strings.Join(tc, "; "))
	r.Check(len(ex) == 0, "loop-visits-all", strings.Join(pk, ","), token.NoPos, "effectful collection loops are left early only under a count bound", "%s", strings.Join(ex, "; "))
}
