package rules

import (
	"go/token"
	"go/types"
	"sort"
	"strings"

	"golang.org/x/tools/go/ssa"

	"vipcheck/an"
)

func init() {
	Registry["C12"] = Spec{
		Run: runC12,
		Explanation: "Sibling cross-check of the two store drivers: for every method of store.Store a summary is computed from each driver's SSA — the abstract key spaces {node, peers, account, balance, trial, nonce} it reads, writes and deletes " +
			"(memory fields and badger key prefixes mapped by a frozen six-line table), the Balance/Node fields it assigns before writing, and the store sentinel errors it can return — and the summaries must be equal (effects-agree, errors-agree); " +
			"the documented sentinels must be present and ErrUnregisteredNode must be decided by a miss in the node space; re-registering a node keeps its tracked peers in the memory driver as in the persistent one; " +
			"(fresh-decode) every gob decode target of struct type in the persistent driver is a zero value when decoded into (gob omits zero fields, a reused target leaks the previous record). Round 2: no success return ahead of every store read in the methods that must report unregistered nodes; setnode-keeps-peers for both drivers; accesses made by transaction helpers are attributed to their call site. Round 4: decode helpers (functions decoding into a caller-supplied target without reset) are decode sites at their call sites and loopItem must reset its target before each decode; (miss-distinguished) the key spaces whose miss the persistent driver answers with a sentinel are looked up comma-ok in the memory driver's method; (sweep-agree) every successful UpdateNodePeers of either driver passes the expiry sweep over the tracked peers. Round 5: (aux-index) inverse indexes verified or reported; (key-spelling); (driver-filters) shared with C08; retry closures.",
		NotDecided: []string{"not decided: equality of returned values on arbitrary operation sequences (needs execution against a model); ordering/shuffling of ActiveHosts results"},
		Exhaustive: true,
	}
}

var storeLeafFields = map[string]bool{"ID": true, "URI": true, "LastSeen": true, "Kind": true, "IsHost": true, "Payout": true, "BlockNumber": true,
	"NodeVersion": true, "VipnodeVersion": true, "Account": true, "Deposit": true, "Credit": true, "NextWithdraw": true}

var requiredSentinels = map[string][]string{
	"GetNode": {"ErrUnregisteredNode"}, "GetNodeBalance": {"ErrUnregisteredNode"}, "AddNodeBalance": {"ErrUnregisteredNode"},
	"NodePeers": {"ErrUnregisteredNode"}, "UpdateNodePeers": {"ErrUnregisteredNode"}, "AddAccountNode": {"ErrUnregisteredNode"},
	"SetNode": {"ErrMalformedNode"}, "IsAccountNode": {"ErrNotAuthorized"}, "CheckAndSaveNonce": {"ErrInvalidNonce"},
}

type methodSummary struct {
	effects   map[string]bool
	fields    map[string]bool
	sentinels map[string]bool
}

func setString(m map[string]bool) string {
	var l []string
	for k := range m {
		l = append(l, k)
	}
	sort.Strings(l)
	return "{" + strings.Join(l, " ") + "}"
}

func setDiff(a, b map[string]bool) []string {
	var l []string
	for k := range a {
		if !b[k] {
			l = append(l, k)
		}
	}
	sort.Strings(l)
	return l
}

func summarise(p *an.Prog, d *types.Named, m *ssa.Function) methodSummary {
	s := methodSummary{map[string]bool{}, map[string]bool{}, map[string]bool{}}
	kind := driverKind(d)
	ops := driverOps(p, d, m)
	for _, o := range ops {
		for _, sp := range o.Spaces {
			k := ""
			switch o.Kind {
			case opRead, opIter:
				k = "read:" + sp
			case opWrite:
				k = "write:" + sp
			case opDelete:
				k = "delete:" + sp
			}
			// the peer set is one value in the persistent driver: entry-level updates/deletes are writes of the set
			if sp == "peers" && (o.Kind == opDelete || o.Kind == opWrite) {
				k = "write:peers"
			}
			s.effects[k] = true
		}
	}
	if kind == "badger" {
		// local peer-set mutations are persisted by the write of the set (already counted)
	}
	// assigned fields of records that get written
	for _, fn := range an.WithAnon(m) {
		an.AllInstrs(fn, func(in ssa.Instruction) {
			var addr ssa.Value
			switch x := in.(type) {
			case *ssa.Store:
				addr = x.Addr
			case ssa.CallInstruction:
				if an.IsBigIntMutator(x) && len(x.Common().Args) > 0 {
					addr = x.Common().Args[0]
				}
			}
			if addr == nil {
				return
			}
			fv := an.FieldOf(addr)
			if fv == nil || !storeLeafFields[fv.Name()] {
				return
			}
			n := structOfFieldAccess(addr)
			if n == nil || n.Obj().Pkg() == nil || n.Obj().Pkg().Path() != pkgStore || (n.Obj().Name() != "Balance" && n.Obj().Name() != "Node") {
				return
			}
			// only records that end up in the store (not reply values such as the Stats counters)
			root, _ := an.RootPath(addr)
			written := false
			for _, o := range ops {
				if o.Kind != opWrite || o.Val == nil {
					continue
				}
				v := underlyingConcrete(o.Val)
				if u, ok := v.(*ssa.UnOp); ok && u.Op == token.MUL {
					v = u.X
				}
				r0, _ := an.RootPath(v)
				if sameObject(r0, root) {
					written = true
				}
			}
			if written {
				s.fields[n.Obj().Name()+"."+fv.Name()] = true
			}
		})
	}
	// sentinels
	for _, fn := range an.WithAnon(m) {
		an.AllInstrs(fn, func(in ssa.Instruction) {
			if u, ok := in.(*ssa.UnOp); ok && u.Op == token.MUL {
				if g, ok := u.X.(*ssa.Global); ok && g.Pkg != nil && g.Pkg.Pkg.Path() == pkgStore && strings.HasPrefix(g.Name(), "Err") {
					s.sentinels[g.Name()] = true
				}
			}
		})
	}
	return s
}

func runC12(p *an.Prog, r *an.Run, tier string) {
	checkSurfaceClosed(p, r)
	iface := p.Iface("pool/store", "Store")
	if iface == nil {
		r.Undec("anchors", "store.Store", token.NoPos, "interface not found")
		return
	}
	var mem, bad *types.Named
	for _, d := range p.Implementations(iface) {
		switch driverKind(d) {
		case "memory":
			mem = d
		case "badger":
			bad = d
		default:
			r.Undec("drivers", d.Obj().Name(), d.Obj().Pos(), "a third Store implementation exists; the sibling check only knows the memory and badger drivers")
		}
	}
	if mem == nil || bad == nil {
		r.Undec("drivers", "memory/badger", token.NoPos, "both drivers are needed for the cross-check")
		return
	}
	ms := types.NewMethodSet(types.NewPointer(mem))
	n, nMiss := 0, 0
	for i := 0; i < iface.NumMethods(); i++ {
		name := iface.Method(i).Name()
		_ = ms
		m1, m2 := p.MethodOf(mem, name), p.MethodOf(bad, name)
		if m1 == nil || m2 == nil {
			r.Undec("effects-agree", name, token.NoPos, "method missing in a driver")
			continue
		}
		n++
		r.Analysed(an.FuncName(m1), an.FuncName(m2))
		s1, s2 := summarise(p, mem, m1), summarise(p, bad, m2)
		if name == "SetNode" {
			// named exception: the memory driver embeds the peer set in the node entry, so keeping it across a
			// re-registration requires reading the old entry; the persistent driver leaves the peers key alone
			delete(s1.effects, "read:node")
		}
		var why []string
		if d := setDiff(s1.effects, s2.effects); len(d) > 0 {
			why = append(why, "only the memory driver: "+strings.Join(d, " "))
		}
		if d := setDiff(s2.effects, s1.effects); len(d) > 0 {
			why = append(why, "only the badger driver: "+strings.Join(d, " "))
		}
		if d := setDiff(s1.fields, s2.fields); len(d) > 0 {
			why = append(why, "fields assigned only by the memory driver: "+strings.Join(d, " "))
		}
		if d := setDiff(s2.fields, s1.fields); len(d) > 0 {
			why = append(why, "fields assigned only by the badger driver: "+strings.Join(d, " "))
		}
		// differences made up only of auxiliary state the key-space model does not know (a secondary index, a cache) are
		// reported as undecided: whether such a copy is kept in step with the records it mirrors on every transition is
		// not something this analysis can establish (a correct index and one that forgets a transition look alike)
		onlyAux := len(why) > 0
		for _, e := range append(setDiff(s1.effects, s2.effects), setDiff(s2.effects, s1.effects)...) {
			if !strings.Contains(e, "?mem:") && !strings.Contains(e, "?badger:") {
				onlyAux = false
			}
		}
		if len(setDiff(s1.fields, s2.fields))+len(setDiff(s2.fields, s1.fields)) > 0 {
			onlyAux = false
		}
		if onlyAux {
			r.Undec("effects-agree", name, m1.Pos(), "a driver keeps auxiliary state beside the contract's records in %s — %s: its consistency with those records on every transition (re-link, removal, expiry) cannot be decided statically", name, strings.Join(why, "; "))
			why = nil
		} else {
			r.Check(len(why) == 0, "effects-agree", name, m1.Pos(), "both drivers "+setString(s1.effects)+" "+setString(s1.fields), "the drivers' %s differ in what they touch — %s (memory %s%s, badger %s%s)", name, strings.Join(why, "; "), setString(s1.effects), setString(s1.fields), setString(s2.effects), setString(s2.fields))
		}

		// miss-distinguished: where the persistent driver answers a missing record with a sentinel, the memory driver
		// tells a missing entry from a zero one (comma-ok lookup whose ok result is branched on) — a bare lookup
		// compares the zero value, which the empty id / empty account boundary makes equal to a real argument
		if miss := missSentinelSpaces(p, bad, m2); len(miss) > 0 {
			var mw []string
			nl := 0
			for _, fn := range regionFuncs(p, m1) {
				an.AllInstrs(fn, func(in ssa.Instruction) {
					lk, ok := in.(*ssa.Lookup)
					if !ok {
						return
					}
					f := memMapField(lk.X)
					if f == "" || miss[memSpace(f)] == "" {
						return
					}
					nl++
					okUsed := false
					if lk.CommaOk {
						for _, ref := range *lk.Referrers() {
							if ex, ok := ref.(*ssa.Extract); ok && ex.Index == 1 && len(*ex.Referrers()) > 0 {
								okUsed = true
							}
						}
					}
					if !okUsed {
						mw = append(mw, "the lookup in "+f+" at "+p.Pos(lk.Pos())+" does not tell a missing entry from a zero one, while the persistent driver answers the miss with "+miss[memSpace(f)])
					}
				})
			}
			nMiss += nl
			r.Check(len(mw) == 0, "miss-distinguished", name, m1.Pos(), "missing entries in "+setString(keysOf(miss))+" are told from zero ones in both drivers", "%s (for the empty id or account the two drivers answer differently)", strings.Join(mw, "; "))
		}

		why = nil
		if d := setDiff(s1.sentinels, s2.sentinels); len(d) > 0 {
			why = append(why, "only the memory driver returns "+strings.Join(d, ","))
		}
		if d := setDiff(s2.sentinels, s1.sentinels); len(d) > 0 {
			why = append(why, "only the badger driver returns "+strings.Join(d, ","))
		}
		for _, req := range requiredSentinels[name] {
			if !s1.sentinels[req] || !s2.sentinels[req] {
				why = append(why, "the contract's "+req+" is not returned by both drivers")
			}
		}
		r.Check(len(why) == 0, "errors-agree", name, m1.Pos(), "sentinels "+setString(s1.sentinels), "%s", strings.Join(why, "; "))

		// ErrUnregisteredNode decided by a miss in the node space
		for _, req := range requiredSentinels[name] {
			if req != "ErrUnregisteredNode" {
				continue
			}
			for _, dm := range []struct {
				d *types.Named
				m *ssa.Function
			}{{mem, m1}, {bad, m2}} {
				okMiss := unregisteredByNodeMiss(p, dm.d, dm.m)
				skip := successWithoutNodeRead(p, dm.d, dm.m)
				r.Check(okMiss && len(skip) == 0, "unregistered-by-node", driverKind(dm.d)+"."+name, dm.m.Pos(), "ErrUnregisteredNode <= miss in the node space; no success without the lookup", "ErrUnregisteredNode in %s.%s is not decided by a lookup miss of the node record on every path %s", driverKind(dm.d), name, strings.Join(skip, "; "))
			}
		}
	}
	r.Floor("store-methods", n, 15)
	r.Floor("miss-lookups", nMiss, 7)

	// ---- answers-from-store: every read method answers from the store's records on every path — a memoised result
	// (a Stats cache, a remembered node) is only as fresh as its invalidation, and one forgotten writer makes the two
	// drivers report different things for the same history
	for _, name := range []string{"GetNode", "GetNodeBalance", "GetAccountBalance", "IsAccountNode", "GetAccountNodes", "AllNodes", "ActiveHosts", "NodePeers", "Stats"} {
		for _, d := range []*types.Named{mem, bad} {
			m := p.MethodOf(d, name)
			if m == nil {
				continue
			}
			skip := successWithoutNodeRead(p, d, m)
			r.Check(len(skip) == 0, "answers-from-store", driverKind(d)+"."+name, m.Pos(), "no result is returned ahead of every store access", "%s.%s can answer without consulting the store %s", driverKind(d), name, strings.Join(skip, "; "))
		}
	}

	// ---- driver-filters (shared with C08): both drivers fence the host query by the same canonical predicates — host
	// flag, kind unless the query is empty, LastSeen strictly after now-ExpireInterval compared as time.Time (not in a
	// coarser unit on one side), limit — so a host on the boundary is not active in one driver and expired in the other
	checkResultsPrivate(p, r)
	if exp, ok := p.PkgConstInt("pool/store", "ExpireInterval"); ok {
		for _, d := range []*types.Named{mem, bad} {
			if m := p.MethodOf(d, "ActiveHosts"); m != nil {
				checkActiveHosts(p, r, d, m, exp)
			}
		}
	}

	// ---- limit-agree: both drivers treat limit > 0 as a cap and 0 as unlimited
	for _, d := range []*types.Named{mem, bad} {
		m := p.MethodOf(d, "ActiveHosts")
		if m == nil {
			continue
		}
		var app *ssa.Call
		for _, fn := range an.WithAnon(m) {
			for _, c := range an.Calls(fn, false) {
				if b, ok := c.Common().Value.(*ssa.Builtin); ok && an.Ident(b.Name()) == "append" {
					if sl, ok := c.Common().Args[0].Type().Underlying().(*types.Slice); ok && isNamedType(sl.Elem(), "Node") {
						app, _ = c.(*ssa.Call)
					}
				}
			}
		}
		if app == nil {
			r.Undec("limit-agree", driverKind(d), m.Pos(), "no result append found in ActiveHosts")
			continue
		}
		why := limitSemantics(p, d, m, app)
		r.Check(len(why) == 0, "limit-agree", driverKind(d), m.Pos(), "limit > 0 caps the result, limit 0 means unlimited", "%s", strings.Join(why, "; "))
	}

	// ---- stats-window: the aggregate statistics count a node as active by the same window as the host query and the
	// expiry rule (ExpireInterval): every duration that the shared counting helper subtracts from the clock is that
	// constant (with the keep-alive interval instead, Stats disagrees with ActiveHosts about a node that missed one
	// keep-alive)
	if cn := p.Method("pool/store", "Stats", "CountNode"); cn != nil {
		exp, okE := p.PkgConstInt("pool/store", "ExpireInterval")
		var sb []string
		nAdd := 0
		for _, c := range an.Calls(cn, false) {
			if an.IsMethod(an.CallObj(c), "time", "Time", "Add") && len(c.Common().Args) == 2 {
				nAdd++
				if k, ok := an.ConstInt(c.Common().Args[1]); !ok || !okE || k != -exp {
					sb = append(sb, "Stats.CountNode measures activity with a window other than store.ExpireInterval ("+p.Pos(c.Pos())+")")
				}
			}
		}
		if nAdd == 0 {
			sb = append(sb, "Stats.CountNode does not compare LastSeen with now - ExpireInterval")
		}
		// the reference instant is read for the comparison after it has been fixed: a read of the helper's own field
		// that feeds After/Before cannot be followed by the store that initialises that field (the first node of a
		// pass would be judged against the zero time and count as active whenever it was ever seen)
		for _, c := range an.Calls(cn, false) {
			f := an.CallObj(c)
			if !(an.IsMethod(f, "time", "Time", "After") || an.IsMethod(f, "time", "Time", "Before")) {
				continue
			}
			for _, a := range c.Common().Args {
				ld, ok := a.(*ssa.UnOp)
				if !ok || ld.Op != token.MUL {
					continue
				}
				fv := an.FieldOf(ld.X)
				if fv == nil {
					continue
				}
				hit := an.PathAvoiding(cn, ld, nil, func(x ssa.Instruction) bool {
					st, ok := x.(*ssa.Store)
					return ok && an.FieldOf(st.Addr) == fv
				}, nil)
				if hit != nil {
					sb = append(sb, "Stats.CountNode reads "+fv.Name()+" for the activity comparison at "+p.Pos(ld.Pos())+" before it is initialised at "+p.Pos(hit.Pos())+": the first node of a pass is compared with the zero time")
				}
			}
		}
		r.Check(len(sb) == 0, "stats-window", "store.Stats.CountNode", cn.Pos(), "active <=> LastSeen after now - ExpireInterval", "%s", strings.Join(sb, "; "))
	} else {
		r.Undec("stats-window", "store.Stats.CountNode", token.NoPos, "anchor not found")
	}

	// ---- miss-not-leaked: a record that is not there is the persistent driver's own business (badger.ErrKeyNotFound): it
	// is answered with the contract's sentinel or with the empty value, as the memory driver does — never handed to the
	// caller as it is. No store method returns a call's error on a branch on which that error is known to equal
	// badger.ErrKeyNotFound (the `==` of such a test turned into `!=` does exactly that, and swallows real faults)
	{
		var lb []string
		nKNF := 0
		for _, fn := range badgerPkgFuncs(p) {
			if p.IsTestFunc(fn) {
				continue
			}
			an.AllInstrs(fn, func(in ssa.Instruction) {
				bo, ok := in.(*ssa.BinOp)
				if !ok || (bo.Op != token.EQL && bo.Op != token.NEQ) {
					return
				}
				var ev ssa.Value
				for _, pair := range [][2]ssa.Value{{bo.X, bo.Y}, {bo.Y, bo.X}} {
					if ld, ok := pair[1].(*ssa.UnOp); ok && ld.Op == token.MUL {
						if g, ok := ld.X.(*ssa.Global); ok && g.Name() == "ErrKeyNotFound" {
							ev = pair[0]
						}
					}
				}
				if ev == nil {
					return
				}
				nKNF++
				for _, ref := range *bo.Referrers() {
					iff, ok := ref.(*ssa.If)
					if !ok {
						continue
					}
					i := 0
					if bo.Op == token.NEQ {
						i = 1
					}
					eqTarget := iff.Block().Succs[i]
					if len(eqTarget.Preds) != 1 {
						continue
					}
					an.AllInstrs(fn, func(x ssa.Instruction) {
						ret, ok := x.(*ssa.Return)
						if !ok || !eqTarget.Dominates(ret.Block()) {
							return
						}
						rr := an.RetResults(ret)
						if len(rr) > 0 && rr[len(rr)-1] == ev {
							lb = append(lb, an.FuncName(fn)+" returns badger.ErrKeyNotFound itself at "+p.Pos(ret.Pos())+" (the branch on which the error equals it): a missing record surfaces as a driver error instead of the contract's answer")
						}
					})
				}
			})
		}
		r.Floor("key-not-found-tests", nKNF, 8)
		r.Check(len(lb) == 0, "miss-not-leaked", "badger", token.NoPos, "badger.ErrKeyNotFound is never returned as it is", "%s", strings.Join(dedup(lb), "; "))
	}

	// ---- stats-counters: the aggregate counts are sums over all records: every write of an integer counter of Stats in
	// the shared counting helpers is an increment of that counter's previous value (an assignment for the `+=` leaves
	// the count at 1 however many records there are); LatestBlockNumber is a maximum and is excluded
	{
		var cb []string
		nC := 0
		for _, name := range []string{"CountNode", "CountBalance"} {
			fn := p.Method("pool/store", "Stats", name)
			if fn == nil {
				continue
			}
			an.AllInstrs(fn, func(in ssa.Instruction) {
				st, ok := in.(*ssa.Store)
				if !ok {
					return
				}
				fv := an.FieldOf(st.Addr)
				if fv == nil || !strings.HasPrefix(fv.Name(), "Num") {
					return
				}
				if b, ok := fv.Type().Underlying().(*types.Basic); !ok || b.Info()&types.IsInteger == 0 {
					return
				}
				nC++
				okInc := false
				if bo, ok := st.Val.(*ssa.BinOp); ok && bo.Op == token.ADD {
					for _, side := range []ssa.Value{bo.X, bo.Y} {
						if f2 := an.FieldOf(stripLoad(side)); f2 == fv {
							okInc = true
						}
					}
				}
				if !okInc {
					cb = append(cb, "Stats."+name+" writes "+fv.Name()+" at "+p.Pos(st.Pos())+" with a value that is not its previous value plus something: the count does not accumulate over the records")
				}
			})
		}
		r.Floor("stats-counter-writes", nC, 5)
		r.Check(len(cb) == 0, "stats-counters", "store.Stats", token.NoPos, "every counter write is an increment", "%s", strings.Join(cb, "; "))
	}

	// ---- authorise: IsAccountNode answers nil exactly for a node that is linked AND linked to the given account: the
	// successful return is reachable neither around the "link found" edge nor around the "stored account == argument"
	// edge (a `&&` for the `||` of the refusal authorises every linked node for every account)
	for _, d := range []*types.Named{mem, bad} {
		m := p.MethodOf(d, "IsAccountNode")
		if m == nil || len(m.Params) < 3 {
			continue
		}
		region := regionOf(p, d, m)
		if region == nil {
			r.Undec("authorise", driverKind(d), m.Pos(), "IsAccountNode has no single critical region")
			continue
		}
		accPrm := m.Params[1]
		var found, equal []an.Edge
		var stored []ssa.Value // values holding the stored account
		for _, o := range driverOps(p, d, m) {
			if o.Kind != opRead || !o.inSpace("account") {
				continue
			}
			switch x := o.In.(type) {
			case *ssa.Lookup:
				if !x.CommaOk {
					continue
				}
				for _, ref := range *x.Referrers() {
					ex, ok := ref.(*ssa.Extract)
					if !ok {
						continue
					}
					if ex.Index == 0 {
						stored = append(stored, ex)
					}
					if ex.Index == 1 {
						for _, r2 := range *ex.Referrers() {
							switch y := r2.(type) {
							case *ssa.If:
								found = append(found, an.Edge{From: y.Block(), To: y.Block().Succs[0]})
							case *ssa.UnOp:
								if y.Op == token.NOT {
									for _, r3 := range *y.Referrers() {
										if iff, ok := r3.(*ssa.If); ok {
											found = append(found, an.Edge{From: iff.Block(), To: iff.Block().Succs[1]})
										}
									}
								}
							}
						}
					}
				}
			case ssa.CallInstruction:
				found = append(found, an.ErrEdges(x).Succ...)
				if o.Val != nil {
					root, path := an.RootPath(underlyingConcrete(o.Val))
					if path == "" && root != nil {
						stored = append(stored, root) // the decode target (a local, or the closure's view of one)
					}
				}
			}
		}
		isStored := func(v ssa.Value) bool {
			v = stripConv(v)
			for _, sv := range stored {
				if v == sv {
					return true
				}
				if u, ok := v.(*ssa.UnOp); ok && u.Op == token.MUL && sameObject(u.X, sv) {
					return true
				}
			}
			return false
		}
		isArg := func(v ssa.Value) bool {
			v = stripConv(v)
			if v == ssa.Value(accPrm) {
				return true
			}
			if fv, ok := v.(*ssa.FreeVar); ok && fv.Name() == accPrm.Name() {
				return true
			}
			if u, ok := v.(*ssa.UnOp); ok && u.Op == token.MUL {
				if fv, ok := u.X.(*ssa.FreeVar); ok && fv.Name() == accPrm.Name() {
					return true
				}
			}
			return false
		}
		for _, fn := range an.WithAnon(m) {
			an.AllInstrs(fn, func(in ssa.Instruction) {
				bo, ok := in.(*ssa.BinOp)
				if !ok || (bo.Op != token.EQL && bo.Op != token.NEQ) {
					return
				}
				if !((isStored(bo.X) && isArg(bo.Y)) || (isStored(bo.Y) && isArg(bo.X))) {
					return
				}
				for _, ref := range *bo.Referrers() {
					if iff, ok := ref.(*ssa.If); ok {
						i := 0
						if bo.Op == token.NEQ {
							i = 1
						}
						equal = append(equal, an.Edge{From: iff.Block(), To: iff.Block().Succs[i]})
					}
				}
			})
		}
		var ab []string
		if len(found) == 0 {
			ab = append(ab, "no found-branch of the link lookup recognised")
		}
		if len(equal) == 0 {
			ab = append(ab, "the stored account is never compared with the argument")
		}
		for _, cutSet := range []struct {
			edges []an.Edge
			what  string
		}{{found, "the node's link having been found"}, {equal, "the stored account being equal to the one asked about"}} {
			if len(cutSet.edges) == 0 {
				continue
			}
			reach := an.ReachAvoiding(region, an.EdgeSet(cutSet.edges))
			for _, b := range region.Blocks {
				if !reach[b] {
					continue
				}
				for _, in := range b.Instrs {
					if ret, ok := in.(*ssa.Return); ok {
						if cls, _ := returnClass(ret); cls == "nil" {
							ab = append(ab, "the authorising return at "+p.Pos(ret.Pos())+" is reachable without "+cutSet.what)
						}
					}
				}
			}
		}
		r.Check(len(ab) == 0, "authorise", driverKind(d), m.Pos(), "nil <=> link found and stored account == argument", "%s.IsAccountNode: %s", driverKind(d), strings.Join(dedup(ab), "; "))
	}

	// ---- inverse indexes beside the contract's maps (auxindex.go)
	checkAuxIndexes(p, r)
	checkRetryClosures(p, r)
	// CheckAndSaveNonce is part of the store contract both drivers implement (strict, atomic, fresh, keyed by identity);
	// snapshots handed out by either driver stay what they were (big.Int ownership)
	checkNonceStores(p, r)
	checkBigIntOwnership(p, r)
	checkKeyOperandTypes(p, r)
	// the per-driver contract rules of the ledger (C01: one balance write per credit, link + migrate + delete on exactly
	// the success paths of AddAccountNode, Stats covers both balance spaces) and of the tracked-peer set (C11: ids
	// looked up as reported, canonical eviction, persistence): the summaries above compare what each driver MAY touch;
	// these decide what each MUST do on every path, which is where two drivers with equal summaries still differ
	for _, d := range []*types.Named{mem, bad} {
		checkDriverLedger(p, r, d)
	}
	checkLedgerWriterMethods(p, r)
	runC11(p, r, tier)

	// ---- SetNode keeps peers
	checkSetNodeKeepsPeers(p, r)

	// ---- sweep-agree: both drivers run the expiry sweep over the tracked peers on every successful keep-alive (one
	// that takes a short cut for some inputs — no reported peers, say — keeps peers the other driver hands back)
	for _, d := range []*types.Named{mem, bad} {
		if m := p.MethodOf(d, "UpdateNodePeers"); m != nil {
			msg := sweepSkipped(p, d, m)
			r.Check(msg == "", "sweep-agree", driverKind(d), m.Pos(), "every successful UpdateNodePeers passes the sweep over the tracked peers", "%s.UpdateNodePeers: %s (the other driver still expires them)", driverKind(d), msg)
		}
	}

	badDec, nDec := freshDecodeViolations(p, func(fn *ssa.Function) bool { return true })
	r.Floor("decode-sites", nDec, 8)
	r.Check(len(badDec) == 0, "fresh-decode", "package badger", token.NoPos, "every struct/map decode target is fresh or reset", "%s", strings.Join(badDec, "; "))
}

func resolveAlloc(root ssa.Value) *ssa.Alloc {
	switch x := root.(type) {
	case *ssa.Alloc:
		return x
	case *ssa.FreeVar:
		fn := x.Parent()
		if par := fn.Parent(); par != nil {
			for i, fv := range fn.FreeVars {
				if fv == x {
					var out *ssa.Alloc
					an.AllInstrs(par, func(in ssa.Instruction) {
						if mc, ok := in.(*ssa.MakeClosure); ok && mc.Fn == fn && i < len(mc.Bindings) {
							out = resolveAlloc(mc.Bindings[i])
						}
					})
					return out
				}
			}
		}
	}
	return nil
}

func keysOf(m map[string]string) map[string]bool {
	out := map[string]bool{}
	for k := range m {
		out[k] = true
	}
	return out
}

// missSentinelSpaces: key spaces whose miss the persistent driver's method answers with a store sentinel — the
// innermost condition controlling a return of the sentinel derives from a read of that space (or from the
// transaction that performed it) — mapped to the sentinel's name.
func missSentinelSpaces(p *an.Prog, d *types.Named, m *ssa.Function) map[string]string {
	out := map[string]string{}
	ops := filterOps(driverOps(p, d, m), func(o storeOp) bool { return o.Kind == opRead })
	regs := txnRegions(p, m)
	for _, fn := range an.WithAnon(m) {
		an.AllInstrs(fn, func(in ssa.Instruction) {
			u, ok := in.(*ssa.UnOp)
			if !ok || u.Op != token.MUL {
				return
			}
			g, ok := u.X.(*ssa.Global)
			if !ok || g.Pkg == nil || g.Pkg.Pkg.Path() != pkgStore || !strings.HasPrefix(g.Name(), "Err") {
				return
			}
			cs := an.ControllingIfs(u.Block())
			if len(cs) == 0 {
				return
			}
			dc := p.Derives(0, cs[0].If.Cond)
			for _, rd := range ops {
				hit := false
				if v, ok := rd.In.(ssa.Value); ok && dc.HasValue(v) {
					hit = true
				}
				for _, reg := range regs {
					if reg.Closure != nil && isNested(rd.Fn, reg.Closure) {
						if v, ok := reg.Call.(ssa.Value); ok && dc.HasValue(v) {
							hit = true
						}
					}
				}
				if hit {
					for _, sp := range rd.Spaces {
						out[sp] = "store." + g.Name()
					}
				}
			}
		})
	}
	return out
}

// unregisteredByNodeMiss: every return of ErrUnregisteredNode is controlled by a condition that derives from a read of the node space.
func unregisteredByNodeMiss(p *an.Prog, d *types.Named, m *ssa.Function) bool {
	ops := driverOps(p, d, m)
	nodeReads := filterOps(ops, func(o storeOp) bool { return o.Kind == opRead && o.inSpace("node") })
	found, okAll := false, true
	for _, fn := range an.WithAnon(m) {
		an.AllInstrs(fn, func(in ssa.Instruction) {
			// uses of the sentinel: returned or stored into the named result
			u, ok := in.(*ssa.UnOp)
			if !ok || u.Op != token.MUL {
				return
			}
			g, ok := u.X.(*ssa.Global)
			if !ok || g.Name() != "ErrUnregisteredNode" {
				return
			}
			found = true
			okOne := false
			for _, c := range an.ControllingIfs(u.Block()) {
				dc := p.Derives(0, c.If.Cond)
				for _, rd := range nodeReads {
					if v, ok := rd.In.(ssa.Value); ok && (dc.HasValue(v) || derivesFromLookup(dc, v)) {
						okOne = true
					}
					// the miss may surface as the error of the transaction that performed the read
					for _, reg := range txnRegions(p, m) {
						if reg.Closure != nil && isNested(rd.Fn, reg.Closure) {
							if v, ok := reg.Call.(ssa.Value); ok && dc.HasValue(v) {
								okOne = true
							}
						}
					}
				}
			}
			if !okOne {
				okAll = false
			}
		})
	}
	return found && okAll
}

// freshDecodeViolations: struct/map gob decode targets of the persistent driver that are reused without reset.
func freshDecodeViolations(p *an.Prog, want func(*ssa.Function) bool) ([]string, int) {
	var badDec []string
	nDec := 0
	helpers := decodeHelpers(p)
	// loopItem decodes every record of a key space into its caller's single target: the target must be reset to its
	// zero value before each decode (directly, or inside the decode helper it uses)
	for fn, prms := range helpers {
		if an.Ident(fn.Name()) != "loopItem" || !want(fn) {
			continue
		}
		for i, site := range prms {
			nDec++
			_ = i
			badDec = append(badDec, "loopItem decodes into its caller's reused target at "+p.Pos(site.Pos())+" without resetting it to its zero value first: fields omitted by gob keep the previous record's value (e.g. a trial balance read after a wallet balance keeps that wallet's Account in Stats)")
		}
	}
	if lf := p.Func("pool/store/badger", "loopItem"); lf != nil && len(helpers[lf]) == 0 {
		nDec++
	}
	for _, fn := range badgerPkgFuncs(p) {
		if !want(fn) {
			continue
		}
		for _, c := range an.Calls(fn, false) {
			target := decodeTarget(helpers, c)
			if target == nil {
				continue
			}
			v := underlyingConcrete(target)
			root, path := an.RootPath(v)
			// targets handed in by the caller are the caller's obligation: such a function is a decode helper and its
			// call sites are decode sites (decodeHelpers); loopItem's own obligation is decided below
			if decodeParam(fn, root) != nil {
				continue
			}
			pt, ok := v.Type().Underlying().(*types.Pointer)
			if !ok {
				continue
			}
			if _, isStruct := pt.Elem().Underlying().(*types.Struct); !isStruct {
				if _, isMap := pt.Elem().Underlying().(*types.Map); !isMap {
					continue // top-level scalars are always transmitted
				}
			}
			nDec++
			_ = path
			// is there a path from a previous decode/write of the same target to this decode that does not re-execute the allocation?
			al := resolveAlloc(root)
			if al == nil {
				continue
			}
			reused := false
			if al.Parent() == fn {
				isAlloc := func(in ssa.Instruction) bool { return in == ssa.Instruction(al) }
				isThis := func(in ssa.Instruction) bool { return in == c.(ssa.Instruction) }
				if an.PathAvoiding(fn, c.(ssa.Instruction), isAlloc, isThis, nil) != nil {
					reused = true
				}
			} else {
				// allocated in an enclosing function, decoded in a closure: reused if the decode itself loops, or if the
				// closure is created again (next iteration) without the target having been re-allocated or reset on the way
				if inLoop(c.(ssa.Instruction)) {
					reused = true
				}
				enc := al.Parent()
				an.AllInstrs(enc, func(in ssa.Instruction) {
					mc, ok := in.(*ssa.MakeClosure)
					if !ok {
						return
					}
					cf, _ := mc.Fn.(*ssa.Function)
					if cf == nil || !isNested(fn, cf) {
						return
					}
					isFresh := func(x ssa.Instruction) bool {
						if x == ssa.Instruction(al) {
							return true
						}
						if st, ok := x.(*ssa.Store); ok && st.Addr == ssa.Value(al) {
							return true // whole-record reset
						}
						return false
					}
					if an.PathAvoiding(enc, mc, isFresh, func(x ssa.Instruction) bool { return x == ssa.Instruction(mc) }, nil) != nil {
						reused = true
					}
				})
			}
			// an explicit reset (store of a zero composite) before the decode in the same iteration is accepted
			if reused {
				badDec = append(badDec, callName(c)+" in "+an.FuncName(fn)+" at "+p.Pos(c.Pos())+" decodes into a record that is reused across iterations without being reset: fields omitted by gob (zero values) keep the previous record's value")
			}
		}
	}
	return badDec, nDec
}

// decodeParam: the parameter of the enclosing top-level function that root stands for (directly, through the spill
// slot of a captured parameter, or through a closure's free variable), or nil.
func decodeParam(fn *ssa.Function, root ssa.Value) *ssa.Parameter {
	switch x := root.(type) {
	case *ssa.UnOp:
		if x.Op == token.MUL {
			return decodeParam(fn, x.X)
		}
		return nil
	case *ssa.Parameter:
		if x.Parent().Parent() == nil {
			return x
		}
		return nil
	case *ssa.FreeVar, *ssa.Alloc:
		al := resolveAlloc(x)
		if al == nil {
			return nil
		}
		var out *ssa.Parameter
		an.AllInstrs(al.Parent(), func(in ssa.Instruction) {
			if st, ok := in.(*ssa.Store); ok && st.Addr == ssa.Value(al) {
				if prm, ok := st.Val.(*ssa.Parameter); ok && prm.Parent().Parent() == nil {
					out = prm
				}
			}
		})
		return out
	}
	return nil
}

// resetParam: the parameter whose pointee reflect.ValueOf(x).Elem() (the receiver v of a Set call) stands for.
func resetParam(p *an.Prog, fn *ssa.Function, v ssa.Value) *ssa.Parameter {
	for i := 0; i < 8; i++ {
		c, ok := v.(*ssa.Call)
		if !ok || len(c.Call.Args) == 0 {
			break
		}
		f := an.CallObj(c)
		if !(an.IsMethod(f, "reflect", "Value", "Elem") || an.IsFunc(f, "reflect", "ValueOf") || an.IsFunc(f, "reflect", "Indirect")) {
			break
		}
		v = c.Call.Args[0]
	}
	root, _ := an.RootPath(underlyingConcrete(v))
	return decodeParam(fn, root)
}

// decodeTarget: the value c gob-decodes into (a gob Decode call, or a call of a decode helper), or nil.
func decodeTarget(helpers map[*ssa.Function]map[int]ssa.Instruction, c ssa.CallInstruction) ssa.Value {
	f := an.CallObj(c)
	if an.IsMethod(f, "encoding/gob", "Decoder", "Decode") && len(c.Common().Args) == 2 {
		return c.Common().Args[1]
	}
	if callee := c.Common().StaticCallee(); callee != nil {
		for i := range helpers[callee] {
			if i < len(c.Common().Args) {
				return c.Common().Args[i]
			}
		}
	}
	return nil
}

// decodeHelpers: functions of the persistent driver that gob-decode into a target handed in by their caller without
// resetting it first (getItem, loopItem and whatever they are built from), with the parameter index and one decode
// site each. Fixpoint over helper calls.
func decodeHelpers(p *an.Prog) map[*ssa.Function]map[int]ssa.Instruction {
	out := map[*ssa.Function]map[int]ssa.Instruction{}
	for changed := true; changed; {
		changed = false
		for _, fn := range badgerPkgFuncs(p) {
			top := fn
			for top.Parent() != nil {
				top = top.Parent()
			}
			for _, c := range an.Calls(fn, false) {
				target := decodeTarget(out, c)
				if target == nil {
					continue
				}
				root, _ := an.RootPath(underlyingConcrete(target))
				prm := decodeParam(fn, root)
				if prm == nil || prm.Parent() != top {
					continue
				}
				idx := -1
				for i, q := range top.Params {
					if q == prm {
						idx = i
					}
				}
				if idx < 0 || out[top][idx] != nil {
					continue
				}
				// reset: reflect.ValueOf(target).Elem().Set(reflect.Zero(..)) dominating the decode, in the same loop
				// iteration when the decode sits in a loop
				okReset := false
				for _, cc := range an.Calls(fn, false) {
					if !an.IsMethod(an.CallObj(cc), "reflect", "Value", "Set") || len(cc.Common().Args) != 2 {
						continue
					}
					if zc, ok := cc.Common().Args[1].(*ssa.Call); !ok || !an.IsFunc(an.CallObj(zc), "reflect", "Zero") {
						continue
					}
					if !an.Dominates(cc.(ssa.Instruction), c.(ssa.Instruction)) {
						continue
					}
					if h := loopHeader(c.Block()); h != nil && !h.Dominates(cc.Block()) {
						continue
					}
					if q := resetParam(p, fn, cc.Common().Args[0]); q != prm {
						continue
					}
					okReset = true
				}
				if okReset {
					continue
				}
				if out[top] == nil {
					out[top] = map[int]ssa.Instruction{}
				}
				out[top][idx] = c.(ssa.Instruction)
				changed = true
			}
		}
	}
	return out
}

// checkSetNodeKeepsPeers: the pool calls SetNode on every (re)connect; the peers tracked for the node (what billing
// and the "not already its peer" filter of peer requests rely on) survive it in both drivers.
func checkSetNodeKeepsPeers(p *an.Prog, r *an.Run) {
	for _, d := range p.Implementations(p.Iface("pool/store", "Store")) {
		sn := p.MethodOf(d, "SetNode")
		kind := driverKind(d)
		if sn == nil || kind == "" {
			continue
		}
		r.Analysed(an.FuncName(sn))
		if kind == "memory" {
			okKeep := false
			for _, o := range memoryOps(p, sn) {
				if o.Kind == opWrite && o.inSpace("node") && o.Val != nil {
					d := p.Derives(0, o.Val)
					for _, nd := range d.Nodes {
						if lk, ok := nd.(*ssa.Lookup); ok && memMapField(lk.X) == "nodes" && stripConv(lk.Index) != nil {
							if d.HasFieldNamed("memNode", "peers") {
								okKeep = true
							}
						}
					}
				}
			}
			// ... and it is taken over where the existing entry was found, not on the branch where there is none
			if okKeep {
				for _, fn := range an.WithAnon(sn) {
					an.AllInstrs(fn, func(in ssa.Instruction) {
						st, ok := in.(*ssa.Store)
						if !ok {
							return
						}
						fv := an.FieldOf(st.Addr)
						if fv == nil || an.Ident(fv.Name()) != "peers" {
							return
						}
						for _, nd := range p.Derives(0, st.Val).Nodes {
							lk, ok := nd.(*ssa.Lookup)
							if !ok || memMapField(lk.X) != "nodes" || !lk.CommaOk {
								continue
							}
							onFound := false
							for _, ci := range an.ControllingIfs(st.Block()) {
								if ex, ok := ci.If.Cond.(*ssa.Extract); ok && ex.Tuple == ssa.Value(lk) && ex.Index == 1 && ci.Succ == 0 {
									onFound = true
								}
							}
							if !onFound {
								okKeep = false
							}
						}
					})
				}
			}
			r.Check(okKeep, "setnode-keeps-peers", "memory.SetNode", sn.Pos(), "a re-registered node keeps the peers tracked for it", "memory.SetNode stores a node entry whose peer set does not come from the existing entry (taken over where that entry was found): re-registering (every reconnect) forgets the node's tracked peers, unlike the persistent driver")
			continue
		}
		var bad []string
		for _, o := range driverOps(p, d, sn) {
			if (o.Kind == opWrite || o.Kind == opDelete) && o.inSpace("peers") {
				bad = append(bad, kind+".SetNode writes or deletes the node's tracked peer set ("+p.Pos(o.In.Pos())+"): re-registering (every reconnect) forgets the peers, so a host the node already peers with is handed out again and is no longer billed")
			}
		}
		r.Check(len(bad) == 0, "setnode-keeps-peers", kind+".SetNode", sn.Pos(), "a re-registered node keeps the peers tracked for it", "%s", strings.Join(dedup(bad), "; "))
	}
}

// successWithoutNodeRead: "unregistered nodes are errors" for every argument value — no return can report success
// before the node record has been looked up (an early return for a zero amount, an empty list, ... skips the check).
func successWithoutNodeRead(p *an.Prog, d *types.Named, m *ssa.Function) []string {
	ops := driverOps(p, d, m)
	anyReads := filterOps(ops, func(o storeOp) bool { return o.Kind == opRead || o.Kind == opIter })
	if len(anyReads) == 0 {
		return []string{"(the store is never read)"}
	}
	var bad []string
	// The persistent driver looks the node record up only when the record it is after (trial balance, peer set, account
	// link) is missing: finding a record keyed by the node implies the node is registered. So the gate is "some record
	// of the store has been read"; what must not exist is a success return ahead of every read.
	readIn := map[*ssa.Function][]ssa.Instruction{}
	for _, rd := range anyReads {
		readIn[rd.Fn] = append(readIn[rd.Fn], rd.In)
	}
	// the call instructions of the outer method that run a closure containing the read
	var regionCalls []ssa.Instruction
	for _, reg := range txnRegions(p, m) {
		if reg.Closure == nil {
			continue
		}
		for fn := range readIn {
			if fn == reg.Closure || isNested(fn, reg.Closure) {
				if in, ok := reg.Call.(ssa.Instruction); ok {
					regionCalls = append(regionCalls, in)
				}
			}
		}
	}
	for _, fn := range an.WithAnon(m) {
		var gates []ssa.Instruction
		gates = append(gates, readIn[fn]...)
		if fn == m {
			gates = append(gates, regionCalls...)
		}
		if len(gates) == 0 {
			continue
		}
		isGate := func(in ssa.Instruction) bool {
			for _, g := range gates {
				if g == in {
					return true
				}
			}
			return false
		}
		an.AllInstrs(fn, func(in ssa.Instruction) {
			ret, ok := in.(*ssa.Return)
			if !ok || (fn.Recover != nil && ret.Block() == fn.Recover) {
				return
			}
			if cls, _ := returnClass(ret); cls == "nonnil" {
				return
			}
			if w := pathFromBlock(fn, fn.Blocks[0], isGate, func(x ssa.Instruction) bool { return x == in }); w != nil {
				bad = append(bad, "(the return at "+p.Pos(ret.Pos())+" can report success before anything was looked up in the store)")
			}
		})
	}
	return dedup(bad)
}
