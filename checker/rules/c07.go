package rules

import (
	"go/token"
	"go/types"
	"strings"

	"golang.org/x/tools/go/ssa"

	"vipcheck/an"
)

func init() {
	Registry["C07"] = Spec{
		Run: runC07,
		Explanation: "Static rules over every function that invokes a settlement handler (discovered by the call through the Settle function field): " +
			"(gate) settlement is reachable only past a successful verify of the wallet and past the refusal branch canonically deposit+credit < WithdrawMin computed from GetAccountBalance of the verified wallet; " +
			"(amount) the paid amount is that sum, through WithdrawFee when set, for that wallet, with new on-chain balance 0; " +
			"(consume) every path from settlement's success edge to a return passes a ledger write of Neg(credit read) to the same account; " +
			"(exclusive) balance read, settlement and consume happen under one mutex held to the return; " +
			"(fail-clean) no ledger write is reachable without settlement having succeeded. Round 2: (balance-errors) shared with C03; (fail-clean:shared-digits) no in-place big.Int mutation of a handed-out balance in the payment package; (deposit-cache) balanceCache.Set records every event on every path. Round 5: (bigint-private), (key-spelling).",
		NotDecided: []string{"not decided: on-chain effects of the settlement transaction; fee and minimum arithmetic on concrete values; staleness of the deposit cache after settlement"},
	}
}

func errorReturnsOfType(fn *ssa.Function, typeName string) []*ssa.Return {
	var out []*ssa.Return
	an.AllInstrs(fn, func(in ssa.Instruction) {
		ret, ok := in.(*ssa.Return)
		if !ok {
			return
		}
		for _, res := range an.RetResults(ret) {
			if mi, ok := res.(*ssa.MakeInterface); ok {
				if n := namedOf(mi.X.Type()); n != nil && n.Obj().Name() == typeName {
					out = append(out, ret)
				}
			}
		}
	})
	return out
}

func runC07(p *an.Prog, r *an.Run, tier string) {
	checkSurfaceClosed(p, r)
	a := buildAuth(p)
	var settlers []*ssa.Function
	for _, fn := range p.Repo {
		if len(settleCalls(fn)) > 0 {
			settlers = append(settlers, fn)
		}
	}
	r.Floor("settlers", len(settlers), 1)
	// the credit consumed is booked against the account the balance was read from: wrappers of the balance store hand
	// their account/node arguments through verbatim (shared with C01.writers)
	checkLedgerWriters(p, r)
	// what is paid is deposit + credit as read: every source of that balance is reported when it fails (shared with
	// C03.balance-errors), and a refused or failed withdrawal leaves the balance as it was, which includes not mutating
	// the big.Int digits a returned Balance shares with the store / deposit cache (shared with C10.no-shared-bigint)
	checkBalanceReadErrors(p, r)
	{
		sm, _ := sharedBigIntMutations(p)
		var sb []string
		for _, m := range sm {
			if m.fn.Pkg != nil && strings.HasSuffix(m.fn.Pkg.Pkg.Path(), "/pool/payment") {
				sb = append(sb, m.msg)
			}
		}
		r.Check(len(sb) == 0, "fail-clean", "payment:shared-digits", token.NoPos, "the payment service never mutates a balance it was handed in place", "%s", strings.Join(sb, "; "))
	}
	checkDepositCache(p, r)
	// the amount paid and the balance left reach the settlement (the contract binding, the handler) in their own
	// positions: no argument carries the name of another same-typed parameter of the callee
	if sw, nCalls := swappedNamedArgs(p, func(fn *ssa.Function) bool { return true }); true {
		r.Floor("named-arg-calls", nCalls, 100)
		r.Check(len(sw) == 0, "arg-positions", "repo", token.NoPos, "no argument is named like a different same-typed parameter of its callee", "%s", strings.Join(sw, "; "))
	}
	checkBigIntOwnership(p, r)
	checkKeyOperandTypes(p, r)
	// the functions bound to the Settle field must report a failed payout
	nBound := 0
	for _, fn := range p.Repo {
		an.AllInstrs(fn, func(in ssa.Instruction) {
			var vals []ssa.Value
			switch x := in.(type) {
			case *ssa.Store:
				if fv := an.FieldOf(x.Addr); fv != nil && fv.Name() == "Settle" {
					vals = append(vals, x.Val)
				}
			}
			for _, v := range vals {
				d := p.Derives(0, v)
				for _, n := range d.Nodes {
					mc, ok := n.(*ssa.MakeClosure)
					if !ok {
						continue
					}
					bf, ok := mc.Fn.(*ssa.Function)
					if !ok || bf.Object() == nil {
						continue
					}
					h := p.SSA.FuncValue(bf.Object().(*types.Func))
					if h == nil || !p.InRepo(h) {
						continue
					}
					nBound++
					r.Analysed(an.FuncName(h))
					var bad []string
					for _, c := range an.Calls(h, false) {
						if f := an.CallObj(c); f != nil && !strings.HasPrefix(an.ObjPkgPath(f), an.Module) {
							bad = append(bad, failPropagates(p, h, c)...)
						}
					}
					// and success must only be reported after the write call succeeded
					r.Check(len(bad) == 0, "settle-handler", an.FuncName(h), h.Pos(), "the settlement handler reports every failed contract write", "%s", strings.Join(bad, "; "))
				}
			}
		})
	}
	r.Floor("settle-handlers", nBound, 1)
	for _, fn := range settlers {
		name := an.FuncName(fn)
		r.Analysed(name)
		var ep *Endpoint
		for _, e := range a.endpoints {
			if e.Fn == fn {
				ep = e
			}
		}
		// the settlement may sit in an unexported helper that exactly one signed endpoint calls (the part of Withdraw that
		// runs under the lock, say): it is then judged as part of that endpoint
		outer := fn
		var site ssa.CallInstruction
		if ep == nil && !p.IsAddressTaken(fn) {
			if sites := p.StaticSites(fn); len(sites) == 1 {
				for _, e := range a.endpoints {
					if e.Fn == sites[0].Parent() {
						ep, outer, site = e, e.Fn, sites[0]
						name = an.FuncName(outer)
						r.Analysed(name)
					}
				}
			}
		}
		if ep == nil {
			r.Fail("gate", name, fn.Pos(), "%s invokes the settlement handler but is not a signed endpoint (sig, wallet, nonce)", name)
			continue
		}
		fromID := func(v ssa.Value) bool { return p.DerivesIn(outer, 2, v).HasParam(ep.ID) }
		settles := settleCalls(fn)
		if len(settles) != 1 {
			r.Fail("gate", name, fn.Pos(), "expected exactly one settlement call, found %d (paying twice per request)", len(settles))
			continue
		}
		settle := settles[0]
		r.CallSites++
		// one request, one settlement attempt, one fee: neither the settlement nor the fee callback sits in a loop (a
		// retry re-sends a payment whose first attempt may have landed, and the fee function works in place on the
		// amount, so every further attempt takes the fee off again)
		if in, ok := settle.(ssa.Instruction); ok && onCycle(in.Block()) {
			r.Fail("gate", name+":settle-once", settle.Pos(), "the settlement at %s is inside a loop: a request can settle (or try to) more than once, with the fee deducted again at every attempt", p.Pos(settle.Pos()))
		} else {
			r.Ok("gate", name+":settle-once", settle.Pos(), "the settlement is attempted once per request")
		}
		sargs := settle.Common().Args
		if len(sargs) != 3 {
			r.Undec("gate", name, settle.Pos(), "settlement handler called with %d arguments, expected (account, amount, newBalance)", len(sargs))
			continue
		}
		// ---- gate
		var bad []string
		gates := a.gateCalls(outer)
		var cut []an.Edge
		for _, g := range gates {
			cut = append(cut, an.ErrEdges(g).Succ...)
		}
		gated := settle.Block()
		if site != nil {
			gated = site.Block()
		}
		if len(gates) == 0 || an.ReachAvoiding(outer, an.EdgeSet(cut))[gated] {
			bad = append(bad, "settlement is reachable without a successful signature verification")
		}
		gets := findCalls(fn, false, func(f *types.Func) bool { return isStoreMethodNamed(f, "GetAccountBalance") })
		var get *ssa.Call
		minRets := errorReturnsOfType(fn, "WithdrawBalanceMinimumError")
		if len(minRets) == 0 {
			bad = append(bad, "no refusal with WithdrawBalanceMinimumError: the minimum is not enforced")
		}
		var totalRoot ssa.Value
		for _, ret := range minRets {
			var rel *ctrlRel
			for _, cr := range ctrlRels(ret.Block()) {
				cr := cr
				l := derivesField(p, cr.L, "PaymentService", "WithdrawMin")
				rr := derivesField(p, cr.R, "PaymentService", "WithdrawMin")
				if cr.Kind == "bigcmp" && l != rr {
					if l {
						cr.Rel = cr.Rel.Swap()
					}
					rel = &cr
				}
			}
			if rel == nil {
				bad = append(bad, "the minimum-balance refusal is not controlled by a comparison with WithdrawMin")
				continue
			}
			if rel.Op != token.LSS {
				bad = append(bad, "the refusal predicate is 'balance "+rel.Op.String()+" WithdrawMin'; the property requires exactly 'balance < WithdrawMin'")
			}
			d := p.Derives(0, rel.L)
			get = d.CallTo(func(f *types.Func) bool { return isStoreMethodNamed(f, "GetAccountBalance") })
			// the compared integer may be built in steps on one destination (x := new(big.Int).Set(credit); x.Add(x,
			// deposit)): what its destination derives from counts as well
			dRoot := p.Derives(0, bigRoot(rel.L))
			if get == nil {
				get = dRoot.CallTo(func(f *types.Func) bool { return isStoreMethodNamed(f, "GetAccountBalance") })
			}
			hasCredit := d.HasFieldNamed("Balance", "Credit") || dRoot.HasFieldNamed("Balance", "Credit")
			hasDeposit := d.HasFieldNamed("Balance", "Deposit") || dRoot.HasFieldNamed("Balance", "Deposit")
			var stepAdds []*ssa.Call
			for _, mc := range an.Calls(fn, false) {
				mcall, isCall := mc.(*ssa.Call)
				if !isCall || !an.IsBigIntMutator(mc) || len(mc.Common().Args) == 0 || bigRoot(mc.Common().Args[0]) != bigRoot(rel.L) {
					continue
				}
				// only what is done to the destination ahead of the comparison
				if !an.Dominates(mcall, rel.If) && an.PathAvoiding(fn, mcall, nil, func(x ssa.Instruction) bool { return x == ssa.Instruction(rel.If) }, nil) == nil {
					continue
				}
				dm := p.Derives(0, mcall)
				if get == nil {
					get = dm.CallTo(func(f *types.Func) bool { return isStoreMethodNamed(f, "GetAccountBalance") })
				}
				hasCredit = hasCredit || dm.HasFieldNamed("Balance", "Credit")
				hasDeposit = hasDeposit || dm.HasFieldNamed("Balance", "Deposit")
				if an.IsBigIntMethod(mc, "Add") {
					stepAdds = append(stepAdds, mcall)
				}
			}
			if get == nil || !hasCredit || !hasDeposit {
				bad = append(bad, "the compared balance is not deposit + credit of GetAccountBalance")
			}
			// a summand added conditionally is skipped only where it is zero (if deposit.Sign() != 0 { x.Add(x, deposit) })
			alsoRel := map[an.Ctrl]bool{}
			for _, ctl := range an.ControllingIfs(rel.If.Block()) {
				alsoRel[ctl] = true
			}
			for _, c := range stepAdds {
				for _, ctl := range an.ControllingIfs(c.Block()) {
					if !alsoRel[ctl] {
						// the Add is skipped on some path to the comparison: the test must be the summand's own sign
						okSkip := false
						if rr, ok := an.NormCond(ctl.If.Cond); ok {
							for _, side := range []ssa.Value{rr.L, rr.R} {
								if sc, ok := side.(*ssa.Call); ok && an.IsBigIntMethod(sc, "Sign") {
									okSkip = true
								}
							}
						}
						if !okSkip {
							bad = append(bad, "a part of the balance is added at "+p.Pos(c.Pos())+" only under a condition that is not that part being zero")
						}
					}
				}
			}
			for _, n := range d.Nodes {
				if c, ok := n.(*ssa.Call); ok && an.IsBigIntMethod(c) && !an.IsBigIntMethod(c, "Add", "Set") {
					// the in-place fee (total = fee(total)) is opaque, so any other big.Int op here is suspicious
					bad = append(bad, "the compared balance is computed with "+an.ObjString(an.CallObj(c)))
				}
			}
			totalRoot = bigRoot(rel.L)
			// settle must not be reachable from the refusing branch
			isSettle := func(in ssa.Instruction) bool { return in == settle.(ssa.Instruction) }
			if in := pathFromBlock(fn, ret.Block(), nil, isSettle); in != nil {
				bad = append(bad, "settlement is reachable from the refusing branch")
			}
			// the refusing branch's sibling must lead to settle: refusal must dominate nothing of settle
			okCtl := false
			for _, c := range an.ControllingIfs(settle.Block()) {
				if c.If == rel.If && c.Succ != rel.Succ {
					okCtl = true
				}
			}
			if !okCtl {
				// `min != nil && total < min` compiles to two Ifs; settle is then reached from both "else" edges.
				// Accept when every path from the comparison's refusing edge returns before settle (checked above)
				// and the comparison dominates settle.
				if !rel.If.Block().Dominates(settle.Block()) {
					// the nil-guard may bypass the comparison; that is the unset-off clause
					nilGuard := false
					for _, c := range an.ControllingIfs(rel.If.Block()) {
						if rr, ok := an.BranchRel(c.If, c.Succ); ok && rr.Op == token.NEQ && (isNilValue(rr.L) || isNilValue(rr.R)) && c.If.Block().Dominates(settle.Block()) {
							nilGuard = true
						}
					}
					if !nilGuard {
						bad = append(bad, "the minimum check does not lie on every path to settlement")
					}
				}
			}
		}
		if get != nil {
			if !fromID(methodArgs(get)[0]) {
				bad = append(bad, "the balance read is not that of the verified wallet")
			}
		} else if len(gets) == 0 {
			bad = append(bad, "the account balance is never read")
		}
		r.Check(len(bad) == 0, "gate", name, settle.Pos(), "settlement only past verify and past the refusal 'deposit+credit < WithdrawMin' of the verified wallet", "%s", strings.Join(bad, "; "))

		// ---- amount
		bad = nil
		if !fromID(sargs[0]) {
			bad = append(bad, "the settled account does not derive from the verified wallet")
		}
		da := p.Derives(0, sargs[1])
		if totalRoot != nil {
			okTot := false
			for _, n := range da.Nodes {
				if bigRoot(n) == totalRoot {
					okTot = true
				}
			}
			// through the fee: fee(total)
			var fees []ssa.CallInstruction
			for _, c := range an.Calls(fn, false) {
				cc := c.Common()
				if cc.IsInvoke() || cc.StaticCallee() != nil {
					continue
				}
				if u, ok := cc.Value.(*ssa.UnOp); ok && u.Op == token.MUL {
					if fv := an.FieldOf(u.X); fv != nil && fv.Name() == "WithdrawFee" {
						fees = append(fees, c)
					}
				}
			}
			for _, fc := range fees {
				if !da.HasValue(fc.Value()) {
					bad = append(bad, "the paid amount bypasses the configured WithdrawFee")
				}
				if len(fc.Common().Args) != 1 || bigRoot(fc.Common().Args[0]) != totalRoot {
					bad = append(bad, "WithdrawFee is not applied to the balance total")
				} else {
					okTot = true
				}
				// fee applied only when set
				nilG := false
				for _, cr := range ctrlRels(fc.Block()) {
					if cr.Op == token.NEQ && (isNilValue(cr.R) || isNilValue(cr.L)) {
						nilG = true
					}
				}
				if !nilG {
					bad = append(bad, "WithdrawFee is called without a nil check")
				}
			}
			if !okTot {
				bad = append(bad, "the paid amount is not the balance total that was compared with the minimum")
			}
			for _, n := range da.Nodes {
				if c, ok := n.(*ssa.Call); ok && an.IsBigIntMethod(c) && !an.IsBigIntMethod(c, "Add", "Set") {
					bad = append(bad, "the paid amount is further transformed by "+an.ObjString(an.CallObj(c)))
				}
			}
		}
		if !isZeroBig(p, sargs[2]) {
			bad = append(bad, "the new on-chain balance passed to settlement is not the constant 0")
		}
		r.Check(len(bad) == 0, "amount", name, settle.Pos(), "pays deposit+credit (through WithdrawFee when set) of the verified wallet, new on-chain balance 0", "%s", strings.Join(bad, "; "))

		// ---- consume
		bad = nil
		u := an.ErrEdges(settle)
		var consumes []ssa.CallInstruction
		for _, c := range an.Calls(fn, false) {
			if !isLedgerWriteCall(c) {
				continue
			}
			ma := methodArgs(c)
			okc := len(ma) == 2
			var why string
			if okc {
				neg := negCallOf(p, ma[1])
				if neg == nil {
					okc, why = false, "amount is not negated"
				} else {
					na := neg.Call.Args
					root, path := an.RootPath(na[len(na)-1])
					al, _ := root.(*ssa.Alloc)
					fromGet := false
					if al != nil && get != nil {
						nStores := 0
						for _, ref := range *al.Referrers() {
							if st, ok := ref.(*ssa.Store); ok && st.Addr == ssa.Value(al) {
								nStores++
								if ex, ok := st.Val.(*ssa.Extract); ok && ex.Tuple == ssa.Value(get) {
									fromGet = true
								}
							}
						}
						// the record must be the single snapshot taken before settlement: a later re-read
						// would also wipe credit earned while the settlement was in flight, without paying it
						if nStores != 1 || !an.Dominates(get, settle.(ssa.Instruction)) {
							fromGet = false
						}
					}
					if !fromGet || path != ".Credit" {
						okc, why = false, "amount is not Neg(Credit of the balance that was read and paid)"
					}
					// nothing else in the amount
					for _, n := range p.Derives(0, ma[1]).Nodes {
						if cc, ok := n.(*ssa.Call); ok && an.IsBigIntMethod(cc) && cc != neg {
							okc, why = false, "amount is further transformed by "+an.ObjString(an.CallObj(cc))
						}
					}
				}
				if okc && !fromID(ma[0]) {
					okc, why = false, "account is not the verified wallet"
				}
				if okc && an.CallObj(c).Name() != "AddAccountBalance" {
					okc, why = false, "the write does not go to the account balance"
				}
			}
			if okc {
				consumes = append(consumes, c)
			} else {
				bad = append(bad, "ledger write at "+p.Pos(c.Pos())+" is not a consume of the settled credit: "+why)
			}
		}
		isConsume := func(in ssa.Instruction) bool {
			for _, c := range consumes {
				if c.(ssa.Instruction) == in {
					return true
				}
			}
			return false
		}
		if len(u.Succ) == 0 {
			bad = append(bad, "the settlement result is not branched on")
		}
		for _, e := range u.Succ {
			if in := pathFromBlock(fn, e.To, isConsume, an.IsReturn); in != nil {
				bad = append(bad, "after a successful settlement the return at "+p.Pos(in.Pos())+" is reachable without consuming the settled credit: the same earnings can be withdrawn again")
			}
		}
		// ... from the account it was read from: the consume (and the settlement) name the account by the very value the
		// balance read used — a re-spelled account (checksummed, lower-cased, trimmed) is another record in both drivers,
		// the credit read stays where it was and is paid again
		if get != nil && len(methodArgs(get)) > 0 {
			ga := stripConv(methodArgs(get)[0])
			for _, c := range consumes {
				if ma := methodArgs(c); len(ma) > 0 && stripConv(ma[0]) != ga {
					bad = append(bad, "the credit is consumed at "+p.Pos(c.Pos())+" under an account value other than the one the balance was read under ("+p.Pos(get.Pos())+"): if the two spell the account differently the credit read is never consumed")
				}
			}
		}
		for _, c := range consumes {
			if in := an.PathAvoiding(fn, c.(ssa.Instruction), nil, isConsume, nil); in != nil {
				bad = append(bad, "the settled credit can be consumed twice")
			}
			if cu := an.ErrEdges(c); cu.Dropped {
				bad = append(bad, "the consume's error is dropped")
			}
		}
		r.Check(len(bad) == 0, "consume", name, settle.Pos(), "every path from successful settlement to a return consumes exactly the credit that was read", "%s", strings.Join(bad, "; "))

		// ---- fail-clean
		bad = nil
		reach := an.ReachAvoiding(fn, an.EdgeSet(u.Succ))
		for _, c := range an.Calls(fn, false) {
			if isLedgerWriteCall(c) && reach[c.Block()] {
				bad = append(bad, "ledger write at "+p.Pos(c.Pos())+" is reachable without settlement having succeeded")
			}
			if isStoreMethodNamed(an.CallObj(c), "AddAccountNode", "SetNode") {
				bad = append(bad, "unexpected store mutation "+an.ObjString(an.CallObj(c))+" in the withdrawal path")
			}
		}
		bad = append(bad, failPropagates(p, fn, settle)...)
		r.Check(len(bad) == 0, "fail-clean", name, settle.Pos(), "no ledger write unless settlement succeeded; a failed settlement is reported", "%s", strings.Join(bad, "; "))

		// ---- exclusive
		bad = nil
		var inherited an.Held
		if site != nil {
			inherited = p.EntryLocks()[fn]
		}
		li := an.Locksets(fn, inherited)
		var common an.Held
		points := []ssa.Instruction{settle.(ssa.Instruction)}
		if get != nil {
			points = append(points, get)
		}
		for _, c := range consumes {
			points = append(points, c.(ssa.Instruction))
		}
		for i, pt := range points {
			h := li.Before[pt]
			if i == 0 {
				common = h
			} else {
				nh := an.Held{}
				for k, w := range common {
					if w2, ok := h[k]; ok {
						nh[k] = w && w2
					}
				}
				common = nh
			}
		}
		if len(common) == 0 {
			bad = append(bad, "balance read, settlement and consume are not covered by one mutex: two racing withdrawals of a wallet can both read the balance before either settles")
		} else {
			for k, w := range common {
				if !w {
					bad = append(bad, "lock "+string(k)+" is only read-held")
				}
				// the lock must belong to the service (receiver), not be a local
				if !strings.HasPrefix(string(k), "p0.") && !strings.HasPrefix(string(k), "g:") {
					bad = append(bad, "lock "+string(k)+" is not shared by concurrent requests")
				}
				// ... also when it is inherited from the endpoint that calls this function: the receiver handed over must
				// be the endpoint's own receiver, not the address of a per-request copy of the service
				if site != nil && strings.HasPrefix(string(k), "p0.") && len(site.Common().Args) > 0 {
					root, _ := an.RootPath(site.Common().Args[0])
					if al, isAlloc := root.(*ssa.Alloc); isAlloc {
						bad = append(bad, "lock "+string(k)+" belongs to a per-request copy of the service ("+al.Name()+" in "+an.FuncName(site.Parent())+", a value receiver): concurrent requests lock different mutexes")
					}
				}
			}
			// no explicit unlock between the points: every instruction dominated by get and dominating the last point keeps the lock
			for _, b := range fn.Blocks {
				for _, in := range b.Instrs {
					if get != nil && an.Dominates(get, in) {
						reachesLater := false
						for _, pt := range points {
							if pt != ssa.Instruction(get) && (in == pt || an.PathAvoiding(fn, in, nil, func(x ssa.Instruction) bool { return x == pt }, nil) != nil) {
								reachesLater = true
							}
						}
						if reachesLater {
							h := li.Before[in]
							for k := range common {
								if _, ok := h[k]; !ok {
									bad = append(bad, "lock "+string(k)+" is released at/before "+p.Pos(in.Pos())+" between the balance read and the consume")
								}
							}
						}
					}
				}
			}
		}
		bad = dedup(bad)
		r.Check(len(bad) == 0, "exclusive", name, settle.Pos(), "read-balance … settle … consume inside one lock region "+an.HeldString(common), "%s", strings.Join(bad, "; "))
	}
}

// failPropagates: every return reachable from a failure edge of call c (without
// re-executing c) must yield a non-nil error.
func failPropagates(p *an.Prog, fn *ssa.Function, c ssa.CallInstruction) []string {
	var bad []string
	u := an.ErrEdges(c)
	if !u.HasErr {
		return nil
	}
	if u.Dropped {
		return []string{"the error of " + callName(c) + " at " + p.Pos(c.Pos()) + " is dropped"}
	}
	if len(u.Fail) == 0 && u.Returned {
		return nil
	}
	evs := an.ErrValues(c)
	isErrVal := func(v ssa.Value) bool {
		for _, e := range evs {
			if e == v {
				return true
			}
		}
		return false
	}
	for _, e := range u.Fail {
		seen := map[*ssa.BasicBlock]bool{}
		work := []*ssa.BasicBlock{e.To}
		for len(work) > 0 {
			b := work[len(work)-1]
			work = work[:len(work)-1]
			if seen[b] {
				continue
			}
			seen[b] = true
			stop := false
			for _, in := range b.Instrs {
				if in == c.(ssa.Instruction) {
					stop = true
					break
				}
				if ret, ok := in.(*ssa.Return); ok {
					rr := an.RetResults(ret)
					if len(rr) == 0 {
						continue
					}
					res := rr[len(rr)-1]
					if !an.IsErrorType(res.Type()) {
						continue
					}
					if !(definitelyNonNilError(res) || isErrVal(res) || returnOnFailEdge(ret, res)) {
						bad = append(bad, "after "+callName(c)+" failed (at "+p.Pos(c.Pos())+") the return at "+p.Pos(ret.Pos())+" can report success")
					}
				}
			}
			if stop {
				continue
			}
			for i, s := range b.Succs {
				if !an.DeadEdge(b, i) {
					work = append(work, s)
				}
			}
		}
	}
	return dedup(bad)
}

func callName(c ssa.CallInstruction) string {
	if f := an.CallObj(c); f != nil {
		return an.ObjString(f)
	}
	return "the call through " + c.Common().Value.Name()
}

func dedup(l []string) []string {
	seen := map[string]bool{}
	var out []string
	for _, s := range l {
		if !seen[s] {
			seen[s] = true
			out = append(out, s)
		}
	}
	return out
}

// checkDepositCache: the deposit part of the balance comes from balanceCache, which the contract's Balance events keep
// current through Set (after a settlement: Balance(account, 0)). Set must record every value it is given — one that
// filters some (nil, zero, "unchanged") leaves the pre-settlement deposit in the cache, to be paid again.
func checkDepositCache(p *an.Prog, r *an.Run) {
	set := p.Method("pool/payment", "balanceCache", "Set")
	if set == nil {
		r.Undec("deposit-cache", "payment.balanceCache.Set", token.NoPos, "anchor not found")
		return
	}
	r.Analysed(an.FuncName(set))
	var bad []string
	// the function that holds the map update: Set itself or a helper it calls (a lock-held setter shared with Get)
	isCacheUpd := func(in ssa.Instruction) *ssa.MapUpdate {
		if mu, ok := in.(*ssa.MapUpdate); ok && an.FieldOf(stripLoad(mu.Map)) != nil && an.Ident(an.FieldOf(stripLoad(mu.Map)).Name()) == "cache" {
			return mu
		}
		return nil
	}
	holder := set
	var upd *ssa.MapUpdate
	var viaCall ssa.CallInstruction
	an.AllInstrs(set, func(in ssa.Instruction) {
		if mu := isCacheUpd(in); mu != nil {
			upd = mu
		}
	})
	if upd == nil {
		for _, c := range an.Calls(set, false) {
			h := c.Common().StaticCallee()
			if h == nil || !p.InRepo(h) || h.Pkg != set.Pkg || len(h.Blocks) == 0 {
				continue
			}
			an.AllInstrs(h, func(in ssa.Instruction) {
				if mu := isCacheUpd(in); mu != nil {
					upd, holder, viaCall = mu, h, c
				}
			})
		}
	}
	if upd == nil {
		bad = append(bad, "Set does not write the cache")
	} else {
		// parameters of the holder that carry the account and the amount
		keyPrm, amtPrm := set.Params[1], set.Params[2]
		if viaCall != nil {
			keyPrm, amtPrm = nil, nil
			for i, a := range viaCall.Common().Args {
				if i < len(holder.Params) {
					if a == ssa.Value(set.Params[1]) {
						keyPrm = holder.Params[i]
					}
					if a == ssa.Value(set.Params[2]) {
						amtPrm = holder.Params[i]
					}
				}
			}
			if keyPrm == nil || amtPrm == nil {
				bad = append(bad, "Set does not hand its account and amount on to "+an.FuncName(holder))
			}
			// the helper is called on every path of Set
			isCall := func(in ssa.Instruction) bool { return in == viaCall.(ssa.Instruction) }
			if in := pathFromBlock(set, set.Blocks[0], isCall, an.IsReturn); in != nil {
				bad = append(bad, "Set can return at "+p.Pos(in.Pos())+" without recording the amount")
			}
		}
		if keyPrm != nil && amtPrm != nil {
			isUpd := func(in ssa.Instruction) bool { return in == ssa.Instruction(upd) }
			// a nil amount carries no balance: returning early for it is not a skipped event
			cut := map[an.Edge]bool{}
			an.AllInstrs(holder, func(in ssa.Instruction) {
				iff, ok := in.(*ssa.If)
				if !ok {
					return
				}
				if b, ok := iff.Cond.(*ssa.BinOp); ok && (b.Op == token.EQL || b.Op == token.NEQ) {
					isNil := func(v ssa.Value) bool { c, ok := v.(*ssa.Const); return ok && c.IsNil() }
					if (b.X == ssa.Value(amtPrm) && isNil(b.Y)) || (b.Y == ssa.Value(amtPrm) && isNil(b.X)) {
						i := 0
						if b.Op == token.NEQ {
							i = 1
						}
						cut[an.Edge{From: iff.Block(), To: iff.Block().Succs[i]}] = true
					}
				}
			})
			if in := pathFromBlockCut(holder, holder.Blocks[0], func(x ssa.Instruction) bool { return an.IsReturn(x) && !an.Dominates(upd, x) }, cut); in != nil && pathFromBlock(holder, holder.Blocks[0], isUpd, an.IsReturn) != nil {
				bad = append(bad, "Set can return at "+p.Pos(in.Pos())+" without recording the amount: a Balance event it skips (e.g. the zero balance after a settlement) leaves the old deposit cached, and it is paid again")
			}
			if stripConv(upd.Key) != ssa.Value(keyPrm) {
				bad = append(bad, "the cache entry is not keyed by the account it was given")
			}
			if !p.Derives(0, upd.Value).HasParam(amtPrm) {
				bad = append(bad, "the cached value is not the amount it was given")
			}
		}
	}
	r.Check(len(bad) == 0, "deposit-cache", an.FuncName(set), set.Pos(), "every balance event reaches the cache", "%s", strings.Join(bad, "; "))

	// fill race: Get reads the chain outside the lock and then stores what it read. A Balance event delivered through Set
	// in between is newer than that read: the store in Get must be conditional on "nothing was stored meanwhile", i.e.
	// control-dependent on comparing a counter/version field that every store advances, sampled before the read, with
	// its value afterwards
	if get := p.Method("pool/payment", "balanceCache", "Get"); get != nil && upd != nil {
		r.Analysed(an.FuncName(get))
		var fb []string
		// the unlocked fetch: a dynamic call (through the Getter field / a local copy of it)
		var fetch ssa.CallInstruction
		for _, c := range an.Calls(get, false) {
			if c.Common().StaticCallee() == nil && !c.Common().IsInvoke() {
				if _, isB := c.Common().Value.(*ssa.Builtin); !isB {
					fetch = c
				}
			}
		}
		// the store of the fetched value
		var fill ssa.Instruction
		an.AllInstrs(get, func(in ssa.Instruction) {
			if mu := isCacheUpd(in); mu != nil && fetch != nil && p.Derives(0, mu.Value).HasValue(fetch.Value()) {
				fill = in
			}
			if c, ok := in.(ssa.CallInstruction); ok && fetch != nil {
				if h := c.Common().StaticCallee(); h != nil && (h == holder || h == set) {
					for _, a := range c.Common().Args {
						d := p.Derives(0, a)
						if d.HasValue(fetch.Value()) || derivesFromCallValue(d, fetch.Value()) {
							fill = in
						}
					}
				}
			}
		})
		if fetch == nil || fill == nil {
			fb = append(fb, "Get does not fetch a missing deposit and cache it (shape not recognised)")
		} else {
			// fields advanced by every store (written in the holder of the map update)
			ver := map[string]bool{}
			an.AllInstrs(holder, func(in ssa.Instruction) {
				if st, ok := in.(*ssa.Store); ok {
					if fv := an.FieldOf(st.Addr); fv != nil && an.Dominates(in, upd) || (fv != nil && an.Dominates(upd, in)) {
						if b, isB := fv.Type().Underlying().(*types.Basic); isB && b.Info()&types.IsInteger != 0 {
							ver[fv.Name()] = true
						}
					}
				}
			})
			guarded := false
			for _, cc := range an.ControllingIfs(fill.Block()) {
				b, ok := cc.If.Cond.(*ssa.BinOp)
				if !ok || (b.Op != token.EQL && b.Op != token.NEQ) {
					continue
				}
				isVerLoad := func(v ssa.Value) (ssa.Instruction, bool) {
					ld, ok := v.(*ssa.UnOp)
					if !ok || ld.Op != token.MUL {
						return nil, false
					}
					fv := an.FieldOf(ld.X)
					return ld, fv != nil && ver[fv.Name()]
				}
				lx, okx := isVerLoad(b.X)
				ly, oky := isVerLoad(b.Y)
				if okx && oky {
					before := an.Dominates(lx, fetch.(ssa.Instruction)) || an.Dominates(ly, fetch.(ssa.Instruction))
					after := an.Dominates(fetch.(ssa.Instruction), lx) || an.Dominates(fetch.(ssa.Instruction), ly)
					if before && after {
						guarded = true
					}
				}
			}
			// the guard may sit on the path that *skips* the fill: the fill is then reached from the "unchanged" edge
			if !guarded {
				an.AllInstrs(get, func(in ssa.Instruction) {
					iff, ok := in.(*ssa.If)
					if !ok || !an.Dominates(fetch.(ssa.Instruction), in) {
						return
					}
					b, ok := iff.Cond.(*ssa.BinOp)
					if !ok || (b.Op != token.EQL && b.Op != token.NEQ) {
						return
					}
					nVer := 0
					for _, v := range []ssa.Value{b.X, b.Y} {
						if ld, ok := v.(*ssa.UnOp); ok && ld.Op == token.MUL {
							if fv := an.FieldOf(ld.X); fv != nil && ver[fv.Name()] {
								nVer++
							}
						}
					}
					if nVer == 2 && iff.Block().Dominates(fill.Block()) {
						// on the "changed" edge an existing entry must win: the fill is not reachable from that edge
						// while an entry for the account exists (lookup hit) — approximated: the changed edge leads to a
						// cache lookup whose hit edge returns without passing the fill
						chg := 1
						if b.Op == token.NEQ {
							chg = 0
						}
						hitReturns := false
						for _, blk := range reachBlocksNoLoop(iff.Block().Succs[chg]) {
							for _, x := range blk.Instrs {
								if lk, ok := x.(*ssa.Lookup); ok && lk.CommaOk && memMapField(lk.X) == "cache" {
									hitReturns = true
								}
							}
						}
						if hitReturns {
							guarded = true
						}
					}
				})
			}
			if !guarded {
				fb = append(fb, "Get stores what it read from the chain ("+p.Pos(fill.Pos())+") without checking that no balance event was stored while the read was in flight ("+p.Pos(fetch.Pos())+"): the older value replaces the event's newer one — after a settlement the pre-settlement deposit is cached again and paid twice")
			}
		}
		r.Check(len(fb) == 0, "deposit-cache", "fill-race", get.Pos(), "a fetched deposit never overwrites a newer event", "%s", strings.Join(fb, "; "))
	}

	// key agreement: the contract's Balance events name the account as Address.Hex() (checksummed), lookups on the chain
	// accept any spelling (HexToAddress), and request.Verify compares addresses case-insensitively — so a wallet may
	// spell itself in lower case. Readers and the event writer of the deposit cache must use the same canonical key:
	// every key handed to the cache from outside it derives from (common.Address).Hex()
	bc := p.Named("pool/payment", "balanceCache")
	if bc == nil {
		return
	}
	var kb []string
	nKeys := 0
	isHex := func(f *types.Func) bool {
		return f.Name() == "Hex" && an.RecvNamed(f) != nil && an.RecvNamed(f).Obj().Name() == "Address"
	}
	for _, fn := range p.Repo {
		if p.IsTestFunc(fn) || fn.Pkg == nil || !strings.HasSuffix(fn.Pkg.Pkg.Path(), "/pool/payment") {
			continue
		}
		if fn.Signature.Recv() != nil && namedOf(fn.Signature.Recv().Type()) == bc {
			continue // the cache's own methods
		}
		for _, c := range an.Calls(fn, false) {
			cal := c.Common().StaticCallee()
			if cal == nil || cal.Signature.Recv() == nil || namedOf(cal.Signature.Recv().Type()) != bc || (cal.Name() != "Get" && cal.Name() != "Set") || len(c.Common().Args) < 2 {
				continue
			}
			nKeys++
			if p.DerivesIn(fn, 2, c.Common().Args[1]).CallTo(isHex) == nil {
				kb = append(kb, an.FuncName(fn)+" hands the deposit cache a key that is not the canonical (Address.Hex()) spelling of the account ("+p.Pos(c.Pos())+"): the Balance events that keep the cache current are keyed by the checksummed spelling, so under any other spelling the pre-settlement deposit stays cached and is paid again")
			}
		}
	}
	r.Note("deposit-cache key sites examined: %d", nKeys)
	r.Check(len(kb) == 0, "deposit-cache", "keys", token.NoPos, "cache readers use the events' canonical account spelling", "%s", strings.Join(dedup(kb), "; "))
}
