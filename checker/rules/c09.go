package rules

import (
	"go/token"
	"go/types"
	"strings"

	"golang.org/x/tools/go/ssa"

	"vipcheck/an"
)

func init() {
	Registry["C09"] = Spec{
		Run: runC09,
		Explanation: "Static rules on the host registry (the two maps of VipnodePool) and the server's disconnect hook: " +
			"(stale-close) every deletion of a forward entry in CloseRemote is control-dependent on that entry still being the closing connection (or connect retires the previous connection's reverse entry); " +
			"(close-removes) the matched path removes both entries; (locked, paired-writes) every access to either map, anywhere in non-test code, is under the pool mutex and the maps are written together; " +
			"(registered-is-caller) the value registered is jsonrpc2.CtxService(ctx) of the connect request, under the verified node id, in both maps; " +
			"(disconnect-hook) in server.ServeHTTP every path from the end of remote.Serve() to the function exit calls onDisconnect(remote) when the hook is set, and runPool binds the hook to CloseRemote of the served pool; " +
			"(only-registry) vipnode_whitelist / vipnode_disconnect are only sent to services loaded from the registry. Round 2: (serve-returns) nothing that can block (directly, in callees, or deferred) lies between a failed ReadMessage and the return of Remote.Serve; no function but CloseRemote/connect deletes registry entries. Round 5: serve-returns also requires the buffered per-id reply channel.",
		NotDecided: []string{"not decided: a close racing an in-flight peer request; one connection authenticating as two host ids (the reverse map holds one id per connection)"},
	}
}

type mapAccess struct {
	In    ssa.Instruction
	Fn    *ssa.Function
	Field string
	Kind  string // lookup, update, delete, len, range
	Key   ssa.Value
	Val   ssa.Value
}

// helperRegistrations: registry writes that fn performs through a helper it calls statically — the helper's map updates
// whose key and value are the helper's own parameters, re-expressed at the call site (In = the call, Key/Val = the
// arguments). A helper that writes anything else into the registry is left to the rules that look at every writer.
func helperRegistrations(fn *ssa.Function, acc []mapAccess) []mapAccess {
	var out []mapAccess
	for _, c := range an.Calls(fn, false) {
		h := c.Common().StaticCallee()
		if h == nil || h == fn {
			continue
		}
		if _, isGo := c.(*ssa.Go); isGo {
			continue
		}
		if _, isDefer := c.(*ssa.Defer); isDefer {
			continue
		}
		args := c.Common().Args
		argOf := func(v ssa.Value) ssa.Value {
			prm, ok := v.(*ssa.Parameter)
			if !ok {
				return nil
			}
			for i, hp := range h.Params {
				if hp == prm && i < len(args) {
					return args[i]
				}
			}
			return nil
		}
		for _, a := range acc {
			if a.Fn != h || a.Kind != "update" {
				continue
			}
			k, v := argOf(a.Key), argOf(a.Val)
			if k == nil || v == nil {
				continue
			}
			out = append(out, mapAccess{In: c, Fn: fn, Field: a.Field, Kind: "update", Key: k, Val: v})
		}
	}
	return out
}

func poolMapAccesses(p *an.Prog, fields ...string) []mapAccess {
	want := map[string]bool{}
	for _, f := range fields {
		want[f] = true
	}
	var out []mapAccess
	for _, fn := range p.Repo {
		an.AllInstrs(fn, func(in ssa.Instruction) {
			switch x := in.(type) {
			case *ssa.Lookup:
				if f := memMapField(x.X); want[f] {
					out = append(out, mapAccess{in, fn, f, "lookup", x.Index, nil})
				}
			case *ssa.MapUpdate:
				if f := memMapField(x.Map); want[f] {
					out = append(out, mapAccess{in, fn, f, "update", x.Key, x.Value})
				}
			case *ssa.Range:
				if f := memMapField(x.X); want[f] {
					out = append(out, mapAccess{in, fn, f, "range", nil, nil})
				}
			case ssa.CallInstruction:
				if b, ok := x.Common().Value.(*ssa.Builtin); ok && len(x.Common().Args) >= 1 {
					if f := memMapField(x.Common().Args[0]); want[f] {
						switch b.Name() {
						case "delete":
							out = append(out, mapAccess{in, fn, f, "delete", x.Common().Args[1], nil})
						case "len":
							out = append(out, mapAccess{in, fn, f, "len", nil, nil})
						}
					}
				}
			}
		})
	}
	return out
}

func runC09(p *an.Prog, r *an.Run, tier string) {
	checkSurfaceClosed(p, r)
	closeFn := p.Method("pool", "VipnodePool", "CloseRemote")
	conn := p.Method("pool", "VipnodePool", "connect")
	if closeFn == nil || conn == nil {
		r.Undec("anchors", "VipnodePool", token.NoPos, "CloseRemote/connect not found")
		return
	}
	r.Analysed(an.FuncName(closeFn), an.FuncName(conn))
	acc := poolMapAccesses(p, "remoteHosts", "remoteNodeLookup")
	r.Floor("registry-accesses", len(acc), 8)

	// ---- no-block-under-lock (pool package): the registry lock is never held across a reverse call or a channel wait —
	// while it is, no close can unregister, no reconnect can register and the count cannot be read: a closed host stays
	// registered and instructable for as long as the slowest whitelist call takes (shared with C10)
	{
		entryNB := p.EntryLocks()
		infosNB := map[*ssa.Function]*an.LockInfo{}
		checkNoBlockUnderLock(p, r, "no-block-under-lock", func(fn *ssa.Function) bool {
			top := fn
			for top.Parent() != nil {
				top = top.Parent()
			}
			return top.Pkg != nil && strings.HasSuffix(top.Pkg.Pkg.Path(), "/pool")
		}, func(fn *ssa.Function) *an.LockInfo {
			if infosNB[fn] == nil {
				infosNB[fn] = an.Locksets(fn, entryNB[fn])
			}
			return infosNB[fn]
		})
	}

	// every connected peer host is told to drop a cut-off client (the fan-out does not stop at the first one)
	checkCutoff(p, r)

	// ---- locked
	entry := p.EntryLocks()
	infos := map[*ssa.Function]*an.LockInfo{}
	var bad []string
	for _, a := range acc {
		li := infos[a.Fn]
		if li == nil {
			li = an.Locksets(a.Fn, entry[a.Fn])
			infos[a.Fn] = li
		}
		h := li.Before[a.In]
		held := false
		for k, w := range h {
			if strings.HasSuffix(string(k), ".mu") && li.Fields[k] != nil && an.Ident(li.Fields[k].Name()) == "mu" {
				if w || a.Kind == "lookup" || a.Kind == "len" || a.Kind == "range" {
					held = true
				}
			}
			if strings.HasSuffix(string(k), ".mu") && li.Fields[k] == nil {
				held = true // inherited from callers
			}
		}
		if !held {
			bad = append(bad, a.Kind+" of "+a.Field+" in "+an.FuncName(a.Fn)+" at "+p.Pos(a.In.Pos())+" without the pool mutex")
		}
	}
	r.Check(len(bad) == 0, "locked", "VipnodePool registry", closeFn.Pos(), "every access to remoteHosts/remoteNodeLookup holds p.mu", "%s", strings.Join(bad, "; "))

	// ---- paired writes
	bad = nil
	for _, a := range acc {
		if a.Kind != "update" {
			continue
		}
		other := "remoteNodeLookup"
		if a.Field == "remoteNodeLookup" {
			other = "remoteHosts"
		}
		paired := false
		for _, b := range acc {
			if b.Kind == "update" && b.Field == other && b.In.Block() == a.In.Block() {
				paired = true
			}
		}
		if !paired {
			bad = append(bad, a.Field+" is written at "+p.Pos(a.In.Pos())+" without the matching write of "+other+" in the same critical section")
		}
	}
	// when connect retires the previous connection's reverse entry, it does so before writing the new pair (or only when
	// the previous connection differs from the calling one): deleting afterwards removes the entry just written when a
	// host sends connect twice on one connection, and CloseRemote then has nothing to unregister
	for _, a := range acc {
		if a.Kind != "delete" || a.Fn != conn || a.Field != "remoteNodeLookup" {
			continue
		}
		okOrder := true
		for _, b := range acc {
			if b.Kind == "update" && b.Field == "remoteNodeLookup" && b.Fn == conn {
				if !an.Dominates(a.In, b.In) {
					okOrder = false
				}
			}
		}
		if !okOrder {
			differs := false
			for _, cr := range ctrlRels(a.In.Block()) {
				if cr.Op == token.NEQ && !isNilValue(cr.L) && !isNilValue(cr.R) && (cr.L == a.Key || cr.R == a.Key) {
					differs = true
				}
			}
			if !differs {
				bad = append(bad, "connect deletes the previous connection's reverse entry at "+p.Pos(a.In.Pos())+" after writing the new pair, without checking that it is a different connection: a repeated connect on one connection erases its own reverse entry")
			}
		}
	}
	r.Check(len(bad) == 0, "paired-writes", "VipnodePool registry", conn.Pos(), "forward and reverse entries are written together", "%s", strings.Join(bad, "; "))

	// ---- stale-close / close-removes
	bad = nil
	remotePrm := closeFn.Params[1]
	var delHosts, delLookup []mapAccess
	for _, a := range acc {
		if a.Fn == closeFn && a.Kind == "delete" {
			if a.Field == "remoteHosts" {
				delHosts = append(delHosts, a)
			} else {
				delLookup = append(delLookup, a)
			}
		}
	}
	if len(delHosts) == 0 || len(delLookup) == 0 {
		bad = append(bad, "CloseRemote does not remove both the forward and the reverse entry")
	}
	for _, dl := range delLookup {
		if dl.Key != ssa.Value(remotePrm) {
			bad = append(bad, "the reverse entry removed is not that of the closing connection")
		}
	}
	r.Check(len(bad) == 0, "close-removes", "(*pool.VipnodePool).CloseRemote", closeFn.Pos(), "closing removes the connection's reverse entry and (when current) its forward entry", "%s", strings.Join(bad, "; "))

	bad = nil
	connRetires := false
	// alternative idiom: connect deletes the old connection's reverse entry before overwriting
	for _, a := range acc {
		if a.Fn == conn && a.Kind == "delete" && a.Field == "remoteNodeLookup" {
			d := p.Derives(0, a.Key)
			for _, n := range d.Nodes {
				if lk, ok := n.(*ssa.Lookup); ok && memMapField(lk.X) == "remoteHosts" {
					connRetires = true
				}
			}
		}
	}
	for _, dh := range delHosts {
		// key must come from the reverse lookup of the closing connection
		dk := p.Derives(0, dh.Key)
		fromRev := false
		for _, n := range dk.Nodes {
			if lk, ok := n.(*ssa.Lookup); ok && memMapField(lk.X) == "remoteNodeLookup" && lk.Index == ssa.Value(remotePrm) {
				fromRev = true
			}
		}
		if !fromRev {
			bad = append(bad, "the forward entry removed is not the one recorded for the closing connection")
		}
		guarded := false
		for _, cr := range ctrlRels(dh.In.Block()) {
			if cr.Op != token.EQL {
				continue
			}
			l, rr := cr.L, cr.R
			if rr != ssa.Value(remotePrm) {
				l, rr = rr, l
			}
			if rr != ssa.Value(remotePrm) {
				continue
			}
			if lk, ok := l.(*ssa.Lookup); ok && memMapField(lk.X) == "remoteHosts" && lk.Index == dh.Key {
				guarded = true
			}
		}
		if !guarded && !connRetires {
			bad = append(bad, "delete(remoteHosts, id) at "+p.Pos(dh.In.Pos())+" is unconditional: when a host has reconnected, closing its old connection unregisters the new one")
		}
	}
	// no second site removes registry entries: an entry leaves the registry only because its own connection closed
	// (CloseRemote's identity check) or because connect replaces it; removing by node id elsewhere (e.g. after a failed
	// call over an old connection) unregisters a host that has reconnected meanwhile
	for _, a := range acc {
		if a.Kind == "delete" && a.Fn != closeFn && a.Fn != conn && !p.IsTestFunc(a.Fn) {
			bad = append(bad, an.FuncName(a.Fn)+" removes an entry of "+a.Field+" at "+p.Pos(a.In.Pos())+" by key, outside CloseRemote's check that the entry still belongs to the closing connection")
		}
	}
	// ... and a connection is declared closed by the transport only: CloseRemote is the server's disconnect hook, nothing
	// in the pool calls it on its own inference (an error of a reverse call that merely looks like a hang-up: a busy but
	// healthy host would be unregistered for good while its connection stays open)
	for _, fn := range p.Repo {
		if p.IsTestFunc(fn) || isTestDoublePkg(fn) || takesTestingT(fn) {
			continue
		}
		for _, c := range an.Calls(fn, false) {
			if c.Common().StaticCallee() == closeFn {
				bad = append(bad, an.FuncName(fn)+" calls CloseRemote itself at "+p.Pos(c.Pos())+": only the transport's disconnect hook knows that a connection has ended; a host whose call failed is still connected and would stay unregistered")
			}
		}
	}
	r.Check(len(bad) == 0, "stale-close", "(*pool.VipnodePool).CloseRemote", closeFn.Pos(), "the forward entry is removed only while it still maps to the closing connection", "%s", strings.Join(dedup(bad), "; "))

	// ---- registered-is-caller
	bad = nil
	var svcCall *ssa.Call
	for _, c := range an.Calls(conn, false) {
		if an.IsFunc(an.CallObj(c), pkgRPC, "CtxService") {
			svcCall, _ = c.(*ssa.Call)
		}
	}
	if svcCall == nil {
		bad = append(bad, "connect does not obtain the caller's connection with jsonrpc2.CtxService")
	} else {
		if svcCall.Call.Args[0] != ssa.Value(conn.Params[1]) {
			bad = append(bad, "CtxService is not applied to the request's own context")
		}
		var svcVal ssa.Value
		for _, ref := range *svcCall.Referrers() {
			if ex, ok := ref.(*ssa.Extract); ok && ex.Index == 0 {
				svcVal = ex
			}
		}
		nUpd := 0
		for _, a := range append(append([]mapAccess{}, acc...), helperRegistrations(conn, acc)...) {
			if a.Fn != conn || a.Kind != "update" {
				continue
			}
			nUpd++
			idVal, svc := a.Key, a.Val
			if a.Field == "remoteNodeLookup" {
				idVal, svc = a.Val, a.Key
			}
			if svc != svcVal {
				bad = append(bad, "the connection stored in "+a.Field+" is not the result of CtxService(ctx)")
			}
			di := p.Derives(0, idVal)
			if !di.HasParam(conn.Params[2]) {
				bad = append(bad, "the id stored in "+a.Field+" does not derive from the verified node id")
			}
			// only for hosts and only past a successful CtxService
			if reach := an.ReachAvoiding(conn, an.EdgeSet(an.ErrEdges(svcCall).Succ)); reach[a.In.Block()] {
				bad = append(bad, "the registry is written even when no connection could be obtained")
			}
		}
		if nUpd < 2 {
			bad = append(bad, "connect does not register the host's connection in both maps")
		}
	}
	// every successful host connect (re)registers the calling connection: a conditional registration keeps an older
	// connection as "the" connection of the host
	if svcCall != nil {
		viaHelper := map[ssa.Instruction]bool{}
		for _, a := range helperRegistrations(conn, acc) {
			if a.Field == "remoteHosts" {
				viaHelper[a.In] = true
			}
		}
		isReg := func(in ssa.Instruction) bool {
			if viaHelper[in] {
				return true
			}
			mu, ok := in.(*ssa.MapUpdate)
			return ok && memMapField(mu.Map) == "remoteHosts"
		}
		isOKReturn := func(in ssa.Instruction) bool {
			ret, ok := in.(*ssa.Return)
			if !ok {
				return false
			}
			cls, _ := returnClass(ret)
			return cls == "nil"
		}
		for _, e := range an.ErrEdges(svcCall).Succ {
			if in := pathFromBlock(conn, e.To, isReg, isOKReturn); in != nil {
				bad = append(bad, "a host's connect can succeed (return at "+p.Pos(in.Pos())+") without registering the calling connection: the pool would keep instructing an older connection of that host")
			}
		}
	}
	r.Check(len(bad) == 0, "registered-is-caller", "(*pool.VipnodePool).connect", conn.Pos(), "remoteHosts[nodeID] = CtxService(ctx) and its reverse entry", "%s", strings.Join(dedup(bad), "; "))

	// ---- count: the number of connected hosts is read off the registry itself (len of the forward map, under the
	// mutex) — a separately maintained counter has to mirror every registry transition (first registration, reconnect
	// on a new connection, stale close) and drifts on the ones it forgets
	if nr := p.Method("pool", "VipnodePool", "NumRemotes"); nr != nil {
		r.Analysed(an.FuncName(nr))
		var cb []string
		nRet := 0
		an.AllInstrs(nr, func(in ssa.Instruction) {
			ret, ok := in.(*ssa.Return)
			if !ok || len(ret.Results) == 0 || (nr.Recover != nil && ret.Block() == nr.Recover) {
				return
			}
			nRet++
			v := an.RetResults(ret)[0]
			for {
				if cv, ok := v.(*ssa.Convert); ok {
					v = cv.X
					continue
				}
				break
			}
			m, isLen := an.LenOf(v)
			if !isLen || memMapField(m) != "remoteHosts" {
				cb = append(cb, "NumRemotes returns something other than len(remoteHosts) at "+p.Pos(ret.Pos())+": a counter kept beside the registry drifts on reconnects and stale closes")
			}
		})
		if nRet == 0 {
			cb = append(cb, "NumRemotes has no return")
		}
		r.Check(len(cb) == 0, "count", an.FuncName(nr), nr.Pos(), "the count is len(remoteHosts)", "%s", strings.Join(dedup(cb), "; "))
	}

	// ---- serve-returns: the pool learns that a connection is gone when Remote.Serve returns. Once the codec reports
	// the failure Serve must return at once: nothing that can block (waiting for in-flight handlers, channel
	// operations, I/O) may sit between the failed read and the return, deferred calls included.
	if sv := p.Method("jsonrpc2", "Remote", "Serve"); sv != nil {
		r.Analysed(an.FuncName(sv))
		var sbad []string
		blocksIn := func(fn *ssa.Function) string {
			why := ""
			for _, f := range an.WithAnon(fn) {
				an.AllInstrs(f, func(in ssa.Instruction) {
					if why == "" {
						if k := blockingKind(p, in); k != "" {
							why = k + " at " + p.Pos(in.Pos())
						}
					}
				})
			}
			return why
		}
		var starts []*ssa.BasicBlock
		nRead := 0
		for _, c := range an.Calls(sv, false) {
			if f := an.CallObj(c); f != nil && f.Name() == "ReadMessage" {
				nRead++
				for _, e := range an.ErrEdges(c).Fail {
					starts = append(starts, e.To)
				}
			}
		}
		if nRead == 0 || len(starts) == 0 {
			sbad = append(sbad, "Serve does not branch on the failure of ReadMessage")
		}
		fr := an.ReachFrom(starts, nil)
		for _, b := range starts {
			fr[b] = true
		}
		for b := range fr {
			for _, in := range b.Instrs {
				if k := blockingKind(p, in); k != "" {
					sbad = append(sbad, k+" at "+p.Pos(in.Pos())+" can run after the connection has failed, before Serve returns")
				}
				if c, ok := in.(*ssa.Call); ok {
					if cal := c.Common().StaticCallee(); cal != nil && p.InRepo(cal) {
						if w := blocksIn(cal); w != "" {
							sbad = append(sbad, an.FuncName(cal)+" ("+w+") can run after the connection has failed, before Serve returns")
						}
					}
				}
			}
		}
		an.AllInstrs(sv, func(in ssa.Instruction) {
			d, ok := in.(*ssa.Defer)
			if !ok {
				return
			}
			f := an.CallObj(d)
			switch {
			case f != nil && (an.IsMethod(f, "sync", "WaitGroup", "Wait") || an.IsFunc(f, "time", "Sleep") || an.IsMethod(f, "sync", "Cond", "Wait")):
				sbad = append(sbad, "Serve defers "+an.ObjString(f)+" ("+p.Pos(d.Pos())+"): its return, and with it the pool's disconnect hook, waits for in-flight handlers; requests starting meanwhile still call the closed connection")
			default:
				for _, cal := range p.CalleesAt(d) {
					if p.InRepo(cal) {
						if w := blocksIn(cal); w != "" {
							sbad = append(sbad, "Serve defers "+an.FuncName(cal)+", which blocks ("+w+")")
						}
					}
				}
			}
		})
		// ... and the loop must get as far as the failing read: delivering a reply nobody waits for any more (the caller's
		// deadline passed) must not block it, so the per-id reply channel has room for the reply (shared with C14)
		if gpc := p.Method("jsonrpc2", "Remote", "getPendingChan"); gpc != nil {
			if !replyChanBuffered(gpc) {
				sbad = append(sbad, "the reply channel made by "+an.FuncName(gpc)+" is unbuffered: a late or unsolicited reply blocks the read loop for ever, Serve never sees the connection end and CloseRemote is never called for it")
			}
		} else {
			sbad = append(sbad, "getPendingChan not found")
		}
		r.Check(len(sbad) == 0, "serve-returns", an.FuncName(sv), sv.Pos(), "Serve returns as soon as the codec fails", "%s", strings.Join(dedup(sbad), "; "))
	} else {
		r.Undec("serve-returns", "jsonrpc2.Remote.Serve", token.NoPos, "anchor not found")
	}

	// ---- disconnect-hook
	// the function of the HTTP handler type that runs the connection's serve loop (ServeHTTP itself, or a helper it was moved to)
	var srv *ssa.Function
	for _, fn := range p.Repo {
		if fn.Pkg == nil || fn.Pkg.Pkg.Path() != an.Module || fn.Signature.Recv() == nil {
			continue
		}
		if n := namedOf(fn.Signature.Recv().Type()); n == nil || an.Ident(n.Obj().Name()) != "server" {
			continue
		}
		for _, c := range an.Calls(fn, false) {
			if an.IsMethod(an.CallObj(c), pkgRPC, "Remote", "Serve") {
				srv = fn
			}
		}
	}
	if srv == nil {
		srv = p.Method("", "server", "ServeHTTP")
	}
	if srv == nil {
		r.Undec("disconnect-hook", "main.server.ServeHTTP", token.NoPos, "anchor not found")
	} else {
		r.Analysed(an.FuncName(srv))
		bad = nil
		var serve ssa.CallInstruction
		for _, c := range an.Calls(srv, false) {
			if an.IsMethod(an.CallObj(c), pkgRPC, "Remote", "Serve") {
				serve = c
			}
		}
		if serve == nil {
			bad = append(bad, "ServeHTTP does not run remote.Serve()")
		} else {
			remote := serve.Common().Args[0]
			isHook := func(in ssa.Instruction) bool {
				c, ok := in.(ssa.CallInstruction)
				if !ok || c.Common().IsInvoke() || c.Common().StaticCallee() != nil {
					return false
				}
				if u, ok := c.Common().Value.(*ssa.UnOp); ok && u.Op == token.MUL {
					if fv := an.FieldOf(u.X); fv != nil && an.Ident(fv.Name()) == "onDisconnect" {
						if len(c.Common().Args) == 1 {
							a := c.Common().Args[0]
							if mi, ok := a.(*ssa.MakeInterface); ok {
								a = mi.X
							}
							return a == remote
						}
					}
				}
				return false
			}
			// edges on which the hook is known to be nil may skip it
			cut := map[an.Edge]bool{}
			an.AllInstrs(srv, func(in ssa.Instruction) {
				iff, ok := in.(*ssa.If)
				if !ok {
					return
				}
				rel, ok := an.NormCond(iff.Cond)
				if !ok || (rel.Op != token.NEQ && rel.Op != token.EQL) {
					return
				}
				isHookField := func(v ssa.Value) bool {
					if u, ok := v.(*ssa.UnOp); ok && u.Op == token.MUL {
						fv := an.FieldOf(u.X)
						return fv != nil && an.Ident(fv.Name()) == "onDisconnect"
					}
					return false
				}
				if (isHookField(rel.L) && isNilValue(rel.R)) || (isHookField(rel.R) && isNilValue(rel.L)) {
					b := iff.Block()
					if rel.Op == token.NEQ {
						cut[an.Edge{From: b, To: b.Succs[1]}] = true
					} else {
						cut[an.Edge{From: b, To: b.Succs[0]}] = true
					}
				}
			})
			if in := an.PathAvoiding(srv, serve.(ssa.Instruction), isHook, an.IsReturn, cut); in != nil {
				bad = append(bad, "a path from the end of remote.Serve() reaches the return at "+p.Pos(in.Pos())+" without calling onDisconnect(remote): the host stays registered on a dead connection")
			}
			hookCalls := 0
			an.AllInstrs(srv, func(in ssa.Instruction) {
				if isHook(in) {
					hookCalls++
				}
			})
			if hookCalls == 0 {
				bad = append(bad, "onDisconnect is never called with the served connection")
			}
		}
		r.Check(len(bad) == 0, "disconnect-hook", "(*main.server).ServeHTTP", srv.Pos(), "every exit after Serve() calls onDisconnect(remote) ["+an.FuncName(srv)+"]", "%s", strings.Join(bad, "; "))
	}
	runPool := p.Func("", "runPool")
	if runPool == nil {
		r.Undec("disconnect-hook", "main.runPool", token.NoPos, "anchor not found")
	} else {
		r.Analysed(an.FuncName(runPool))
		bad = nil
		bound := false
		var poolVal ssa.Value
		an.AllInstrs(runPool, func(in ssa.Instruction) {
			st, ok := in.(*ssa.Store)
			if !ok {
				return
			}
			if fv := an.FieldOf(st.Addr); fv == nil || an.Ident(fv.Name()) != "onDisconnect" {
				return
			}
			if mc, ok := st.Val.(*ssa.MakeClosure); ok {
				if f, ok := mc.Fn.(*ssa.Function); ok && f.Object() != nil && an.IsMethod(f.Object().(*types.Func), pkgPool, "VipnodePool", "CloseRemote") && len(mc.Bindings) == 1 {
					bound = true
					poolVal = mc.Bindings[0]
				}
			}
		})
		if !bound {
			bad = append(bad, "the server's onDisconnect hook is not bound to (*VipnodePool).CloseRemote")
		} else {
			// the same pool value is the one registered on the handler
			same := false
			for _, reg := range Registrations(p) {
				if reg.Fn == runPool && reg.Prefix == "vipnode_" {
					rv := underlyingConcrete(reg.Call.Common().Args[2])
					if sameLoad(rv, poolVal) {
						same = true
					}
				}
			}
			if !same {
				bad = append(bad, "the hook is bound to a different pool than the one served under vipnode_")
			}
		}
		r.Check(len(bad) == 0, "disconnect-hook", "main.runPool", runPool.Pos(), "handler.onDisconnect = p.CloseRemote of the served pool", "%s", strings.Join(bad, "; "))
	}

	// ---- only-registry
	bad = nil
	n := 0
	for _, fn := range p.Repo {
		if fn.Pkg == nil && fn.Parent() == nil {
			continue
		}
		top := fn
		for top.Parent() != nil {
			top = top.Parent()
		}
		if top.Pkg == nil || top.Pkg.Pkg.Path() != pkgPool {
			continue
		}
		for _, c := range an.Calls(fn, false) {
			if !isServiceCall(an.CallObj(c)) {
				continue
			}
			a := c.Common().Args
			if len(a) < 3 {
				continue
			}
			m, ok := an.ConstString(a[2])
			if !ok || (m != "vipnode_whitelist" && m != "vipnode_disconnect") {
				continue
			}
			n++
			recv := c.Common().Value
			d := p.DerivesIn(closeFn, 3, recv) // a home other than the helper itself: its parameters are bound to the arguments at their call sites
			fromReg := false
			for _, nd := range d.Nodes {
				if lk, ok := nd.(*ssa.Lookup); ok && memMapField(lk.X) == "remoteHosts" {
					fromReg = true
				}
			}
			if !fromReg {
				bad = append(bad, m+" at "+p.Pos(c.Pos())+" is sent to a service that was not loaded from the host registry")
			}
		}
	}
	r.Floor("reverse-calls", n, 2)
	r.Check(len(bad) == 0, "only-registry", "package pool", conn.Pos(), "reverse calls go only to registry entries", "%s", strings.Join(bad, "; "))
}

// sameLoad: a and b are the same value, or loads of the same local variable.
func sameLoad(a, b ssa.Value) bool {
	if a == b {
		return true
	}
	ua, ok1 := a.(*ssa.UnOp)
	ub, ok2 := b.(*ssa.UnOp)
	if ok1 && ok2 && ua.Op == token.MUL && ub.Op == token.MUL {
		return ua.X == ub.X
	}
	return false
}
