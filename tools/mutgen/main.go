// mutgen lists single-token mutants of the non-test Go files under a repository: relational boundary flips,
// ==/!= and &&/|| swaps, continue<->break, dropped negations, += -> =, dropped defer. Output: JSON lines
// {file, line, off, len, old, new, kind}. Used by tools/mutation_survey.py (a survey tool, not a registered check).
package main

import (
	"encoding/json"
	"fmt"
	"go/ast"
	"go/parser"
	"go/token"
	"os"
	"path/filepath"
	"strings"
)

type mut struct {
	File string `json:"file"`
	Line int    `json:"line"`
	Off  int    `json:"off"`
	Len  int    `json:"len"`
	Old  string `json:"old"`
	New  string `json:"new"`
	Kind string `json:"kind"`
}

func main() {
	root := os.Args[1]
	enc := json.NewEncoder(os.Stdout)
	filepath.Walk(root, func(path string, info os.FileInfo, err error) error {
		if err != nil {
			return nil
		}
		rel, _ := filepath.Rel(root, path)
		if info.IsDir() {
			if strings.HasPrefix(info.Name(), ".") || rel == "internal/fakecluster" || rel == "internal/fakenode" || rel == "docs" {
				return filepath.SkipDir
			}
			return nil
		}
		if !strings.HasSuffix(path, ".go") || strings.HasSuffix(path, "_test.go") || strings.Contains(rel, "testsuite") {
			return nil
		}
		fset := token.NewFileSet()
		f, err := parser.ParseFile(fset, path, nil, 0)
		if err != nil {
			return nil
		}
		src, _ := os.ReadFile(path)
		emit := func(pos token.Pos, old, nw, kind string) {
			p := fset.Position(pos)
			if p.Offset+len(old) > len(src) || string(src[p.Offset:p.Offset+len(old)]) != old {
				return
			}
			enc.Encode(mut{rel, p.Line, p.Offset, len(old), old, nw, kind})
		}
		flips := map[token.Token][]string{
			token.LSS: {"<="}, token.LEQ: {"<"}, token.GTR: {">="}, token.GEQ: {">"},
			token.EQL: {"!="}, token.NEQ: {"=="}, token.LAND: {"||"}, token.LOR: {"&&"},
		}
		ast.Inspect(f, func(n ast.Node) bool {
			switch x := n.(type) {
			case *ast.BinaryExpr:
				for _, nw := range flips[x.Op] {
					emit(x.OpPos, x.Op.String(), nw, "binop")
				}
			case *ast.BranchStmt:
				if x.Label == nil && x.Tok == token.CONTINUE {
					emit(x.TokPos, "continue", "break", "branch")
				}
				if x.Label == nil && x.Tok == token.BREAK {
					emit(x.TokPos, "break", "continue", "branch")
				}
			case *ast.UnaryExpr:
				if x.Op == token.NOT {
					emit(x.OpPos, "!", "", "not")
				}
			case *ast.AssignStmt:
				if x.Tok == token.ADD_ASSIGN {
					emit(x.TokPos, "+=", "=", "assign")
				}
			case *ast.DeferStmt:
				emit(x.Defer, "defer ", "", "defer")
			}
			return true
		})
		return nil
	})
	fmt.Fprintln(os.Stderr, "done")
}
