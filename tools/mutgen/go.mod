module mutgen

go 1.21
