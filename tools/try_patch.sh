#!/bin/bash
# usage: try_patch.sh <patch.diff> <Cnn|all> [keep]   — applies the patch to a scratch copy of /repo (never /repo itself),
# runs the property's quick check on the copy and prints what is not discharged; removes the copy unless "keep".
set -u
export GOFLAGS="-mod=mod -trimpath" GOPROXY=off GOSUMDB=off GOTOOLCHAIN=local; unset GOWORK
here=$(cd "$(dirname "$0")/.." && pwd)
d=$(mktemp -d /tmp/try.XXXXXX)
rsync -a --exclude .git /repo/ $d/repo/
( cd $d/repo && git apply --unsafe-paths ${1} 2>/dev/null || patch -p1 -s -i $1 ) || { echo "patch does not apply"; rm -rf $d; exit 2; }
( cd $d/repo && go build ./... 2>&1 | head -5 )
VIPCHECK_REPO=$d/repo VIPCHECK_EVIDENCE=$d/ev VIPCHECK_REPORTS=$d/rep $here/check $2 quick 2>&1 | grep -v '^OK\|^DISCHARGED\|^VIOLATION' | cut -c1-${COLS:-600}
[ "${3:-}" = keep ] && echo "kept $d/repo" || rm -rf $d
