#!/bin/bash
# usage: confirm_seed.sh <seed-dir> <pkg-dir-for-demo> <dest-id> <property>
# Confirms in a scratch worktree of /repo HEAD: (a) suite passes with patch, (b) demo fails with patch,
# (c) demo passes without; then stores the seed under /verif/seeded/<dest-id>/ and removes the worktree.
set -u
export GOFLAGS="-mod=mod -trimpath" GOPROXY=off GOSUMDB=off GOTOOLCHAIN=local; unset GOWORK
sd=$1; pkg=$2; id=$3; prop=$4
wt=$(mktemp -d /tmp/confirm.XXXXXX); rmdir $wt
git -C /repo worktree add -q --detach $wt HEAD || exit 2
cleanup() { git -C /repo worktree remove --force $wt 2>/dev/null; rm -rf $wt; }
trap cleanup EXIT
cp $sd/demo_test.go $wt/$pkg/zz_seed_demo_test.go
fn=$(grep -oE '^func (Test[A-Za-z0-9_]+)' $sd/demo_test.go | awk '{print $2}' | paste -sd'|')
c=$( cd $wt && go test -vet=off -count=1 -run "^($fn)\$" ./$pkg/ 2>&1 | tail -3 | tr '\n' ' ')
echo "(c) demo on base: $c"
case "$c" in *ok*) okc=1;; *) okc=0;; esac
( cd $wt && git apply $sd/patch.diff ) || { echo "patch does not apply to HEAD"; exit 3; }
a=$( cd $wt && rm -f $pkg/zz_seed_demo_test.go && go build ./... 2>&1 | tail -3; go test -vet=off -count=1 ./... 2>&1 | grep -v "no test files" | grep -v "^ok" | tr '\n' ' ')
echo "(a) suite with patch (non-ok lines): [$a]"
cp $sd/demo_test.go $wt/$pkg/zz_seed_demo_test.go
b=$( cd $wt && go test -vet=off -count=1 -run "^($fn)\$" ./$pkg/ 2>&1 | tail -4 | tr '\n' ' ')
echo "(b) demo with patch: $b"
case "$b" in *FAIL*) okb=1;; *) okb=0;; esac
if [ -z "$a" ] && [ $okb = 1 ] && [ $okc = 1 ]; then
  mkdir -p /verif/seeded/$id
  cp $sd/patch.diff /verif/seeded/$id/patch.diff
  cp $sd/demo_test.go /verif/seeded/$id/demo_test.go.txt
  [ -f $sd/notes.md ] && cp $sd/notes.md /verif/seeded/$id/notes.md
  echo "CONFIRMED $id"
else
  echo "NOT CONFIRMED $id (a='$a' b=$okb c=$okc)"
fi
