#!/usr/bin/env python3
"""Confirms and files a sub-agent's deliverables: process_seeds.py <Cnn> <seed-dir> <first-id-number>
For k = 1.. in <seed-dir>/k: guesses the package directory of the demo, runs tools/confirm_seed.sh (scratch worktree of
/repo HEAD, removed afterwards), and on confirmation runs tools/seedmeta.py with the "needs to manifest" text taken from
the sub-agent's notes.md. Prints one line per seed (CONFIRMED/NOT CONFIRMED, FIRED/MISSED)."""
import os, re, subprocess, sys
here = os.path.dirname(os.path.dirname(os.path.abspath(__file__)))
prop, sd, first = sys.argv[1], sys.argv[2], int(sys.argv[3])
PKG = {'main': '.', 'pool': 'pool', 'pool_test': 'pool', 'payment': 'pool/payment', 'payment_test': 'pool/payment',
       'balance': 'pool/balance', 'balance_test': 'pool/balance', 'badger': 'pool/store/badger', 'badger_test': 'pool/store/badger',
       'memory': 'pool/store/memory', 'memory_test': 'pool/store/memory', 'jsonrpc2': 'jsonrpc2', 'jsonrpc2_test': 'jsonrpc2',
       'agent': 'agent', 'agent_test': 'agent', 'gorilla': 'jsonrpc2/ws/gorilla', 'gorilla_test': 'jsonrpc2/ws/gorilla',
       'gobwas': 'jsonrpc2/ws/gobwas', 'gobwas_test': 'jsonrpc2/ws/gobwas', 'request': 'request', 'request_test': 'request',
       'ethnode': 'ethnode', 'ethnode_test': 'ethnode', 'store': 'pool/store', 'store_test': 'pool/store', 'status': 'pool/status',
       'pretty': 'internal/pretty', 'pretty_test': 'internal/pretty', 'fakenode': 'internal/fakenode', 'ws': 'jsonrpc2/ws'}

def needs(notes):
    if not os.path.exists(notes):
        return 'see notes.md'
    t = open(notes).read()
    m = re.search(r'^#+[^\n]*(need|manifest|trigger)[^\n]*\n+(.+?)(\n#|\n\n\n|\Z)', t, re.I | re.S | re.M)
    if not m:
        m = re.search(r'(what is needed|needed to (make it )?manifest|it needs|trigger)[^\n]*[:\n]+(.+?)(\n#|\n\n|\Z)', t, re.I | re.S)
        txt = m.group(3) if m else t
    else:
        txt = m.group(2)
    txt = re.sub(r'\s+', ' ', re.sub(r'[`*]', '', txt)).strip()
    return txt[:330]

k = 1
while os.path.isdir(os.path.join(sd, str(k))):
    d = os.path.join(sd, str(k))
    sid = '%s-%d' % (prop, first + k - 1)
    demo = os.path.join(d, 'demo_test.go')
    if not os.path.exists(demo):
        c = [f for f in os.listdir(d) if f.endswith('_test.go')]
        if c:
            os.rename(os.path.join(d, c[0]), demo)
    pkg = '.'
    if os.path.exists(demo):
        m = re.search(r'^package (\w+)', open(demo).read(), re.M)
        pkg = PKG.get(m.group(1), '.') if m else '.'
    out = subprocess.run([os.path.join(here, 'tools', 'confirm_seed.sh'), d, pkg, sid, prop], capture_output=True, text=True).stdout
    ok = 'CONFIRMED ' + sid in out and 'NOT CONFIRMED' not in out
    if not ok:
        print(sid, 'NOT CONFIRMED (pkg %s):' % pkg, ' | '.join(l for l in out.splitlines() if 'demo' in l or 'suite' in l or 'apply' in l)[:400])
        k += 1
        continue
    o2 = subprocess.run(['python3', os.path.join(here, 'tools', 'seedmeta.py'), sid, prop, needs(os.path.join(d, 'notes.md'))], capture_output=True, text=True).stdout
    print(o2.strip().splitlines()[-1][:220] if o2.strip() else sid + ' (no output)')
    k += 1
