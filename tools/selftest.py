#!/usr/bin/env python3
"""Sensitivity run: apply each seeded mutant of selftest/mutants.json (and each
patch under seeded/*/patch.diff) to a scratch copy of /repo, run the property's
rules on the copy, and require the named obligation to be reported.
The scratch copies live under $TMPDIR and are removed immediately.
usage: selftest.py [-j N] [--prop Cnn] [--only name] [--seeded]"""
import json, os, shutil, subprocess, sys, tempfile, concurrent.futures as cf, argparse
here = os.path.dirname(os.path.dirname(os.path.abspath(__file__)))
ap = argparse.ArgumentParser()
ap.add_argument('-j', type=int, default=4)
ap.add_argument('--prop'); ap.add_argument('--only'); ap.add_argument('--seeded', action='store_true')
ap.add_argument('--repo', default=os.environ.get('VIPCHECK_REPO', '/repo'))
ap.add_argument('-v', action='store_true')
ap.add_argument('--patch', action='append', default=[])
ap.add_argument('--summary')
ap.add_argument('--refactors', action='store_true', help='apply each behaviour-preserving refactoring under refactors/ and require silence from every check')
a = ap.parse_args()
env = dict(os.environ, GOFLAGS='-mod=mod -trimpath', GOPROXY='off', GOSUMDB='off', GOTOOLCHAIN='local'); env.pop('GOWORK', None)
muts = json.load(open(os.path.join(here, 'selftest', 'mutants.json')))
if a.seeded:
    muts = []
    sd = os.path.join(here, 'seeded')
    for d in sorted(os.listdir(sd)) if os.path.isdir(sd) else []:
        mp = os.path.join(sd, d, 'meta.json')
        if os.path.exists(mp):
            m = json.load(open(mp))
            muts.append({'name': 'seeded/' + d, 'prop': m['property'], 'patch': os.path.join(sd, d, 'patch.diff'), 'expect': m.get('expect_obligation', '')})
if a.refactors:
    rd = os.path.join(here, 'refactors')
    muts = [{'name': 'refactors/' + d, 'prop': a.prop or 'all', 'patch': os.path.join(rd, d, 'patch.diff'), 'expect': ''} for d in sorted(os.listdir(rd)) if os.path.exists(os.path.join(rd, d, 'patch.diff'))]
    if a.only: muts = [m for m in muts if a.only in m['name']]
elif a.patch:
    muts = [{'name': pp, 'prop': a.prop or 'all', 'patch': pp, 'expect': ''} for pp in a.patch]
elif a.prop: muts = [m for m in muts if m['prop'] == a.prop]
if a.only: muts = [m for m in muts if a.only in m['name']]

def run(m):
    tmp = tempfile.mkdtemp(prefix='vipmut.')
    try:
        dst = os.path.join(tmp, 'repo')
        shutil.copytree(a.repo, dst, ignore=shutil.ignore_patterns('.git'), symlinks=True)
        if 'patch' in m:
            r = subprocess.run(['git', 'apply', '--directory=' + os.path.relpath(dst, '/'), '--unsafe-paths', m['patch']], cwd='/', capture_output=True, text=True)
            if r.returncode != 0:
                r = subprocess.run(['patch', '-p1', '-s', '-d', dst, '-i', m['patch']], capture_output=True, text=True)
                if r.returncode != 0:
                    return m, 'skipped', 'patch does not apply: ' + r.stderr.strip()[:200]
        else:
            for ed in [m] + m.get('more', []):
                f = os.path.join(dst, ed['file'])
                s = open(f).read()
                if s.count(ed['old']) != 1:
                    return m, 'skipped', 'old text occurs %d times in %s' % (s.count(ed['old']), ed['file'])
                open(f, 'w').write(s.replace(ed['old'], ed['new']))
        b = subprocess.run(['go', 'build', './...'], cwd=dst, env=env, capture_output=True, text=True)
        if b.returncode != 0:
            return m, 'skipped', 'mutant does not compile: ' + b.stderr.strip()[:300]
        r = subprocess.run([os.path.join(here, 'bin', 'vipcheck'), '-repo', dst, '-prop', m['prop'], '-evidence', os.path.join(tmp, 'ev'), '-reports', os.path.join(tmp, 'rep'), '-known', os.path.join(here, 'known-findings.txt')], capture_output=True, text=True, env=env)
        out = r.stdout
        fired = [l.split()[1] for l in out.splitlines() if l.startswith(('VIOLATED ', 'UNDECIDED '))]
        exp = m.get('expect', '')
        exps = [e.strip() for e in exp.split(',') if e.strip()]
        if r.returncode == 1 and (not exps or any(e in k or k in e for e in exps for k in fired)):
            return m, 'fired', ', '.join(fired)
        if r.returncode == 1:
            return m, 'fired-other', ', '.join(fired)
        return m, 'missed', out.strip().splitlines()[-1] if out.strip() else r.stderr[:200]
    finally:
        shutil.rmtree(tmp, ignore_errors=True)

res = {'fired': 0, 'fired-other': 0, 'missed': 0, 'skipped': 0}
gaps = []
with cf.ThreadPoolExecutor(a.j) as ex:
    for m, st, info in ex.map(run, muts):
        res[st] += 1
        if st == 'missed': gaps.append(m['name'])
        tag = {'fired': 'FIRED', 'fired-other': 'FIRED-OTHER', 'missed': 'SENSITIVITY-GAP', 'skipped': 'SKIPPED'}[st]
        if a.refactors:
            tag = {'fired': 'FALSE-ALARM', 'fired-other': 'FALSE-ALARM', 'missed': 'silent', 'skipped': 'SKIPPED'}[st]
            if st == 'missed': info = ''
        if st != ('missed' if a.refactors else 'fired') or a.v:
            print('%-16s %s %-40s %s' % (tag, m['prop'], m['name'], info))
if a.refactors:
    print('refactorings: applied=%d silent=%d false-alarms=%d skipped=%d' % (len(muts) - res['skipped'], res['missed'], res['fired'] + res['fired-other'], res['skipped']))
else:
    print('sensitivity: applied=%d fired=%d fired-other=%d missed=%d skipped=%d' % (len(muts) - res['skipped'], res['fired'], res['fired-other'], res['missed'], res['skipped']))
res['applied'] = len(muts) - res['skipped']
res['gaps'] = gaps
if a.summary:
    json.dump(res, open(a.summary, 'w'))
