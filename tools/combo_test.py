#!/usr/bin/env python3
"""Sensitivity under refactoring: for every seeded property-breaking change S, apply it ON TOP OF a behaviour-preserving
change R from refactors/ that touches at least one of the same files (both patches must apply and the result must
build), and require S's property check to fire all the same. A miss means a generalisation made for R's shape is blind
to S's breakage in that shape.   usage: combo_test.py [-j N] [--per-seed K] [--only SEED] [--refactor Rx-n]"""
import argparse, concurrent.futures as cf, json, os, random, re, shutil, subprocess, sys, tempfile
here = os.path.dirname(os.path.dirname(os.path.abspath(__file__)))
repo = os.environ.get('VIPCHECK_REPO', '/repo')
ap = argparse.ArgumentParser()
ap.add_argument('-j', type=int, default=8)
ap.add_argument('--per-seed', type=int, default=2)
ap.add_argument('--only', default='')
ap.add_argument('--refactor', default='')
ap.add_argument('--seed', type=int, default=1)
a = ap.parse_args()
env = dict(os.environ, GOFLAGS='-mod=mod -trimpath', GOPROXY='off', GOSUMDB='off', GOTOOLCHAIN='local')
env.pop('GOWORK', None)
random.seed(a.seed)

def files_of(patch):
    return set(re.findall(r'^\+\+\+ b/(\S+)', open(patch).read(), re.M))

refs = {}
for d in sorted(os.listdir(os.path.join(here, 'refactors'))):
    p = os.path.join(here, 'refactors', d, 'patch.diff')
    if os.path.exists(p) and (not a.refactor or a.refactor == d):
        refs[d] = (p, files_of(p))
jobs = []
for d in sorted(os.listdir(os.path.join(here, 'seeded'))):
    sp = os.path.join(here, 'seeded', d, 'patch.diff')
    mp = os.path.join(here, 'seeded', d, 'meta.json')
    if not os.path.exists(sp) or not os.path.exists(mp) or (a.only and a.only != d):
        continue
    prop = json.load(open(mp))['property']
    sf = files_of(sp)
    cands = [r for r, (_, rf) in refs.items() if rf & sf]
    random.shuffle(cands)
    for r in cands[:max(a.per_seed * 4, 4)]:
        jobs.append((d, prop, sp, r, refs[r][0]))

def apply(dst, patch):
    r = subprocess.run(['git', 'apply', '--directory=' + os.path.relpath(dst, '/'), '--unsafe-paths', patch], cwd='/', capture_output=True, text=True)
    return r.returncode == 0

done = {}
def run(job):
    seed, prop, sp, rname, rp = job
    tmp = tempfile.mkdtemp(prefix='vipcombo.')
    try:
        dst = os.path.join(tmp, 'repo')
        shutil.copytree(repo, dst, ignore=shutil.ignore_patterns('.git'), symlinks=True)
        if not apply(dst, rp) or not apply(dst, sp):
            return job, 'skipped', 'patches do not combine'
        b = subprocess.run(['go', 'build', './...'], cwd=dst, env=env, capture_output=True, text=True)
        if b.returncode != 0:
            return job, 'skipped', 'does not build'
        r = subprocess.run([os.path.join(here, 'bin', 'vipcheck'), '-repo', dst, '-prop', prop, '-evidence', os.path.join(tmp, 'ev'), '-reports', os.path.join(tmp, 'rep'), '-known', os.path.join(here, 'known-findings.txt')], capture_output=True, text=True, env=env)
        fired = [l.split()[1] for l in r.stdout.splitlines() if l.startswith(('VIOLATED ', 'UNDECIDED '))]
        return job, ('fired' if r.returncode == 1 else 'missed'), ', '.join(fired)[:200]
    finally:
        shutil.rmtree(tmp, ignore_errors=True)

res = {'fired': 0, 'missed': 0, 'skipped': 0}
per = {}
with cf.ThreadPoolExecutor(a.j) as ex:
    for job, st, info in ex.map(run, jobs):
        seed, prop, _, rname, _ = job
        if st != 'skipped' and per.get(seed, 0) >= a.per_seed and st == 'fired':
            continue  # enough combinations counted for this seed
        if st != 'skipped':
            per[seed] = per.get(seed, 0) + 1
        res[st] += 1
        if st == 'missed':
            print('COMBO-GAP  %s %-8s on top of %-7s' % (prop, seed, rname))
print('combinations: tried=%d fired=%d missed=%d skipped(not combinable)=%d' % (res['fired'] + res['missed'], res['fired'], res['missed'], res['skipped']))
